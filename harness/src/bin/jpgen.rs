fn main(){}
