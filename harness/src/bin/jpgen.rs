//! jpgen — input generator of the differential harness (see /verif/PROTOCOL.md, DESIGN.md §4).
//!
//!   jpgen PROP TIER SEED [--limit N]            print operation lines for property PROP
//!   jpgen list                                   per property, the ops it emits
//!   jpgen selfcheck PROP TIER SEED [--limit N]  re-parse every generated line with an independent parser
//!
//! PROP = C01..C19, TIER = quick|thorough, SEED = u64. The output is a deterministic function of the
//! three; the bounded-exhaustive scope comes first and does not depend on SEED. Never links the crate.
//! JPGEN_STATS=1 prints a one-line op histogram to stderr.

#[path = "../gen/rng.rs"]
mod rng;
#[path = "../gen/out.rs"]
mod out;
#[path = "../gen/strs.rs"]
mod strs;
#[path = "../gen/doc.rs"]
mod doc;
#[path = "../gen/expect.rs"]
mod expect;
#[path = "../gen/props.rs"]
mod props;
#[path = "../gen/check.rs"]
mod check;

use std::cell::RefCell;
use std::collections::HashSet;
use std::hash::{Hash, Hasher};
use std::rc::Rc;

fn usage() -> ! {
    eprintln!("usage: jpgen PROP quick|thorough SEED [--limit N]\n       jpgen selfcheck PROP quick|thorough SEED [--limit N]\n       jpgen list");
    std::process::exit(2);
}

fn parse_prop(s: &str) -> Option<u32> {
    let n = s.strip_prefix('C')?;
    if n.len() != 2 {
        return None;
    }
    let v: u32 = n.parse().ok()?;
    if (1..=19).contains(&v) {
        Some(v)
    } else {
        None
    }
}

struct CheckState {
    info: check::LineInfo,
    seen: HashSet<u64>,
    dups: u64,
    allowed: Vec<&'static str>,
}

fn main() {
    let args: Vec<String> = std::env::args().skip(1).collect();
    if args.is_empty() {
        usage();
    }
    if args[0] == "list" {
        for (p, ops) in props::PROP_OPS {
            println!("{} {}", p, ops.join(" "));
        }
        return;
    }
    let (selfcheck, rest) = if args[0] == "selfcheck" { (true, &args[1..]) } else { (false, &args[..]) };
    if rest.len() < 3 {
        usage();
    }
    let prop = parse_prop(&rest[0]).unwrap_or_else(|| usage());
    let thorough = match rest[1].as_str() {
        "quick" => false,
        "thorough" => true,
        _ => usage(),
    };
    let seed: u64 = rest[2].parse().unwrap_or_else(|_| usage());
    let mut limit = u64::MAX;
    let mut i = 3;
    while i < rest.len() {
        match rest[i].as_str() {
            "--limit" if i + 1 < rest.len() => {
                limit = rest[i + 1].parse().unwrap_or_else(|_| usage());
                i += 2;
            }
            _ => usage(),
        }
    }
    let stats = std::env::var("JPGEN_STATS").map(|v| v == "1").unwrap_or(false);
    let label = format!("{} {} seed={}", rest[0], rest[1], seed);
    let mut sink = out::Sink::new(&label, limit, stats, !selfcheck);
    if limit == 0 {
        sink.finish_and_exit();
    }

    if selfcheck {
        let allowed: Vec<&'static str> = props::PROP_OPS[(prop - 1) as usize].1.to_vec();
        let st = Rc::new(RefCell::new(CheckState {
            info: check::LineInfo { max_doc_nodes: 0 },
            seen: HashSet::new(),
            dups: 0,
            allowed,
        }));
        let st2 = st.clone();
        let lab = label.clone();
        sink.checker = Some(Box::new(move |line: &str, n: u64| {
            let mut s = st2.borrow_mut();
            let s = &mut *s;
            let res = check::check_line(line, &mut s.info).and_then(|op| {
                if s.allowed.contains(&op) {
                    Ok(())
                } else {
                    Err(format!("op {} is not in the op list of this property", op))
                }
            });
            if let Err(e) = res {
                let shown = if line.len() > 400 { &line[..400] } else { line };
                eprintln!("selfcheck {}: MALFORMED line {}: {}\n  {}", lab, n, e, shown);
                std::process::exit(1);
            }
            let mut h = std::collections::hash_map::DefaultHasher::new();
            line.hash(&mut h);
            if !s.seen.insert(h.finish()) {
                s.dups += 1;
            }
        }));
        let st3 = st.clone();
        let lab = label.clone();
        sink.on_finish = Some(Box::new(move |sk: &out::Sink| {
            let s = st3.borrow();
            let mut ops = sk.ops.clone();
            ops.sort();
            let never: Vec<&str> = s.allowed.iter().copied().filter(|a| !ops.iter().any(|(o, _)| o == a)).collect();
            let hist: Vec<String> = ops.iter().map(|(o, n)| format!("{}={}", o, n)).collect();
            println!(
                "selfcheck {}: ok lines={} distinct={} dups={} avg_len={:.1} max_len={} max_doc_nodes={} ops: {}{}",
                lab,
                sk.count,
                s.seen.len(),
                s.dups,
                if sk.count == 0 { 0.0 } else { sk.bytes as f64 / sk.count as f64 },
                sk.max_len,
                s.info.max_doc_nodes,
                hist.join(" "),
                if never.is_empty() { String::new() } else { format!(" NEVER-EMITTED: {}", never.join(",")) }
            );
        }));
    }

    let r = rng::Rng::new(seed, prop as u64);
    let mut g = props::Gen::new(r, thorough, sink);
    g.run(prop);
    g.out.finish();
}
