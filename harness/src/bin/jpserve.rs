//! Rust side of the differential-testing harness; see /verif/PROTOCOL.md.

#[path = "../serve/mod.rs"]
mod serve;

#[global_allocator]
static GLOBAL: serve::alloc::Counting = serve::alloc::Counting;

fn main() {
    // the serve loop runs on a thread with an ordinary stack (2 MiB, what `std::thread::spawn` gives user code) rather than
    // on the 8 MiB main thread: an operation that needs stack proportional to its input is then seen on inputs of a few
    // ten thousand tokens (`r=abort`), while everything the harness itself does stays far below that
    let kb: usize = std::env::var("JPSERVE_STACK_KB").ok().and_then(|v| v.parse().ok()).unwrap_or(2048);
    let t = std::thread::Builder::new().stack_size(kb * 1024).spawn(serve::main).expect("spawn serve thread");
    let _ = t.join();
}
