//! Rust side of the differential-testing harness; see /verif/PROTOCOL.md.

#[path = "../serve/mod.rs"]
mod serve;

#[global_allocator]
static GLOBAL: serve::alloc::Counting = serve::alloc::Counting;

fn main() {
    serve::main();
}
