//! from_tokens, ptr_view, with, concat, from_token, from_usize, buf_hist, split_*, parent, get,
//! rel, rel3

use super::util::*;
use jsonptr::{Component, Pointer, PointerBuf, Token};
use std::collections::VecDeque;
use std::ops::Bound;

// ---------------------------------------------------------------------------------------------
// shared oracles
// ---------------------------------------------------------------------------------------------

/// Text and tokens pass the independent recogniser and re-parse to equal values.
pub fn check_valid_ptr(l: &mut Law, what: &str, p: &Pointer) {
    let text = p.as_str();
    l.ck(valid_pointer(text), &format!("{what}_invalid_text"));
    match Pointer::parse(text) {
        Ok(q) => l.ck(q == p && q.as_str() == text, &format!("{what}_reparse_unequal")),
        Err(_) => l.fail(&format!("{what}_reparse_err")),
    }
}

pub fn check_valid_tok(l: &mut Law, what: &str, t: &Token) {
    let enc = t.encoded();
    l.ck(valid_token(enc), &format!("{what}_invalid_token"));
    match Token::from_encoded(enc) {
        Ok(u) => l.ck(&u == t && u.encoded() == enc, &format!("{what}_token_reparse_unequal")),
        Err(_) => l.fail(&format!("{what}_token_reparse_err")),
    }
}

fn check_valid_full(l: &mut Law, p: &Pointer) {
    check_valid_ptr(l, "ptr", p);
    for t in p.tokens() {
        if !l.is_ok() {
            break;
        }
        check_valid_tok(l, "tok", &t);
    }
}

/// The accessors of `p` agree with the reference list of decoded tokens.
fn check_list(l: &mut Law, reference: &[String], p: &Pointer) {
    let text = p.as_str();
    let n = reference.len();
    let dec: Vec<String> = p.tokens().map(|t| t.decoded().into_owned()).collect();
    l.ck(dec.as_slice() == reference, "tokens_differ_from_list");
    let enc: Vec<String> = p.tokens().map(|t| t.encoded().to_string()).collect();
    l.ck(enc == reference.iter().map(|s| escape(s)).collect::<Vec<String>>(), "encoded_tokens_differ");
    l.ck(p.count() == n, "count");
    l.ck(text == join_dec(reference.iter()), "text_not_concatenation");
    let fdec = |t: Option<Token>| t.map(|t| t.decoded().into_owned());
    l.ck(fdec(p.first()).as_ref() == reference.first(), "first");
    l.ck(fdec(p.front()).as_ref() == reference.first(), "front");
    l.ck(p.first() == p.front(), "first_ne_front");
    l.ck(fdec(p.last()).as_ref() == reference.last(), "last");
    l.ck(fdec(p.back()).as_ref() == reference.last(), "back");
    l.ck(p.last() == p.back(), "last_ne_back");
    {
        let it: Vec<String> = (p).into_iter().map(|t| t.encoded().to_string()).collect();
        l.ck(it == enc, "into_iter_ref_pointer");
        let buf = p.to_buf();
        let it2: Vec<String> = (&buf).into_iter().map(|t| t.encoded().to_string()).collect();
        l.ck(it2 == enc, "into_iter_ref_pointerbuf");
    }
    {
        // every `impl Into<Token>` form of the same list builds the same pointer: tokens by value, by reference
        // (`&Vec<Token>`, `.iter()`), `&String`, owned `String`
        let toks_v: Vec<Token> = p.tokens().collect();
        l.ck(PointerBuf::from_tokens(&toks_v).as_str() == text, "from_tokens_ref_vec_of_tokens");
        l.ck(PointerBuf::from_tokens(toks_v.iter()).as_str() == text, "from_tokens_iter_of_ref_tokens");
        l.ck(PointerBuf::from_tokens(toks_v.clone()).as_str() == text, "from_tokens_vec_of_tokens");
        l.ck(PointerBuf::from_tokens(reference.iter()).as_str() == text, "from_tokens_ref_strings");
        l.ck(PointerBuf::from_tokens(reference.iter().cloned()).as_str() == text, "from_tokens_owned_strings");
        if let Some(t) = toks_v.first() {
            let mut b = PointerBuf::new();
            b.push_back(t);
            l.ck(b.as_str() == format!("/{}", t.encoded()), "push_back_ref_token");
            l.ck(Pointer::root().with_trailing_token(t).as_str() == b.as_str(), "with_trailing_ref_token");
            l.ck(Pointer::root().with_leading_token(t).as_str() == b.as_str(), "with_leading_ref_token");
        }
    }
    let root = text.is_empty();
    l.ck(p.is_empty() == root && p.is_root() == root, "is_root_is_empty");
    l.ck(root == (n == 0), "root_iff_no_tokens");
    l.ck(p.len() == text.len(), "len");
    for i in sample_positions(n + 1, 64) {
        let g = p.get(i).map(|t| t.decoded().into_owned());
        l.ck(g.as_ref() == reference.get(i), "get_i");
    }
    // … and at the far end of the index type: no such token, and no arithmetic on the index that could overflow
    for i in [usize::MAX, usize::MAX - 1, usize::MAX / 2 + 1, n + 1, n.wrapping_add(usize::MAX / 2)] {
        if i >= n {
            match guard(|| p.get(i).map(|t| t.decoded().into_owned())) {
                None => l.fail("get_far_index_panics"),
                Some(g) => l.ck(g.is_none(), "get_far_index_is_some"),
            }
        }
    }
    {
        let mut comps = p.components();
        l.ck(matches!(comps.next(), Some(Component::Root)), "components_root_first");
        let rest: Vec<Option<String>> = comps
            .map(|c| match c {
                Component::Root => None,
                Component::Token(t) => Some(t.decoded().into_owned()),
            })
            .collect();
        l.ck(rest.len() == n && rest.iter().zip(reference).all(|(a, b)| a.as_ref() == Some(b)), "components_tokens");
        // the iterators through their other adaptor methods: a specialised `last` / `count` / `nth` / `size_hint` /
        // `fold` must say what repeated `next` says, also on partly consumed iterators
        {
            let dec_of = |t: Token| t.decoded().into_owned();
            let comp_dec = |c: Component| match c {
                Component::Root => None,
                Component::Token(t) => Some(t.decoded().into_owned()),
            };
            // `nth(k)` consumes: k + 1 items when there are that many, everything otherwise — so after `nth(k)` the iterator is
            // where k + 1 calls of `next` would have left it, in particular exhausted when `k >= remaining` (and `skip`,
            // `step_by`, `advance_by` are built on it)
            for start in 0..=n.min(2) {
                for k in [0usize, 1, n.saturating_sub(start), n.saturating_sub(start) + 1, n + 3, usize::MAX] {
                    let mut a = p.tokens();
                    let mut b = p.tokens();
                    for _ in 0..start { a.next(); b.next(); }
                    let ra = guard(|| a.nth(k).map(dec_of));
                    let mut rb = None;
                    for _ in 0..=k.min(n + 4) { rb = b.next(); if rb.is_none() { break; } }
                    let rb = if k > n + 4 { None } else { rb.map(dec_of) };
                    l.ck(ra == Some(rb), "tokens_nth_differs_from_repeated_next");
                    let rest_a: Vec<String> = a.map(dec_of).collect();
                    let rest_b: Vec<String> = b.map(dec_of).collect();
                    l.ck(rest_a == rest_b, "tokens_after_nth_not_where_repeated_next_leaves_it");
                    let mut c = p.components();
                    let mut d = p.components();
                    let rc = guard(|| c.nth(k).map(comp_dec));
                    let mut rd = None;
                    for _ in 0..=k.min(n + 5) { rd = d.next(); if rd.is_none() { break; } }
                    let rd = if k > n + 5 { None } else { rd.map(comp_dec) };
                    l.ck(rc == Some(rd), "components_nth_differs_from_repeated_next");
                    l.ck(c.map(comp_dec).collect::<Vec<_>>() == d.map(comp_dec).collect::<Vec<_>>(), "components_after_nth_not_where_repeated_next_leaves_it");
                }
            }
            // exhausted iterators stay exhausted (a second and third `next` after `None`), and are empty for every adaptor
            {
                let mut it = p.tokens();
                while it.next().is_some() {}
                l.ck(it.next().is_none() && it.next().is_none(), "tokens_yield_again_after_none");
                l.ck(it.size_hint().1.map_or(true, |u| u == 0) && it.count() == 0, "tokens_exhausted_not_empty");
                let mut ic = p.components();
                while ic.next().is_some() {}
                l.ck(ic.next().is_none() && ic.next().is_none(), "components_yield_again_after_none");
                l.ck(ic.last().is_none(), "components_last_after_exhaustion");
            }
            l.ck(p.tokens().count() == n, "tokens_count");
            l.ck(p.tokens().last().map(dec_of).as_ref() == reference.last(), "tokens_last");
            l.ck(p.tokens().fold(0usize, |a, _| a + 1) == n, "tokens_fold");
            l.ck(p.components().count() == n + 1, "components_count");
            l.ck(p.components().last().map(comp_dec) == Some(reference.last().cloned()), "components_last");
            l.ck(p.components().fold(0usize, |a, _| a + 1) == n + 1, "components_fold");
            let hint_ok = |h: (usize, Option<usize>), actual: usize| h.0 <= actual && h.1.map_or(true, |u| actual <= u);
            l.ck(hint_ok(p.tokens().size_hint(), n), "tokens_size_hint");
            l.ck(hint_ok(p.components().size_hint(), n + 1), "components_size_hint");
            for i in sample_positions(n + 2, 12) {
                l.ck(p.tokens().nth(i).map(dec_of).as_ref() == reference.get(i), "tokens_nth");
                let want = if i == 0 { Some(None) } else { reference.get(i - 1).cloned().map(Some) };
                l.ck(p.components().nth(i).map(comp_dec) == want, "components_nth");
                // after i calls of next
                let adv_t = || {
                    let mut it = p.tokens();
                    for _ in 0..i {
                        it.next();
                    }
                    it
                };
                let rest = n.saturating_sub(i);
                l.ck(adv_t().count() == rest, "tokens_count_after_next");
                l.ck(hint_ok(adv_t().size_hint(), rest), "tokens_size_hint_after_next");
                l.ck(adv_t().last().map(dec_of).as_ref() == if rest > 0 { reference.last() } else { None }, "tokens_last_after_next");
                l.ck(adv_t().nth(1).map(dec_of).as_ref() == reference.get(i + 1), "tokens_nth_after_next");
                let adv_c = || {
                    let mut it = p.components();
                    for _ in 0..i {
                        it.next();
                    }
                    it
                };
                let restc = (n + 1).saturating_sub(i);
                l.ck(adv_c().count() == restc, "components_count_after_next");
                l.ck(hint_ok(adv_c().size_hint(), restc), "components_size_hint_after_next");
                let want_last = if restc == 0 { None } else { Some(reference.last().cloned()) };
                l.ck(adv_c().last().map(comp_dec) == want_last, "components_last_after_next");
            }
        }
        // a component made from a token is that token
        l.ck(
            p.tokens().zip(p.components().skip(1)).all(|(t, c)| Component::from(t.clone()) == c),
            "component_from_token",
        );
    }
}

fn view_fields(o: &mut Out, p: &Pointer) {
    o.f("text", &xh(p.as_str()));
    o.f("toks", &list(p.tokens().map(|t| xh(&t.decoded()))));
    o.f("encs", &list(p.tokens().map(|t| xh(t.encoded()))));
    let count = p.count();
    o.f("count", &count.to_string());
    o.f("first", &opt_plain(p.first().map(|t| xh(&t.decoded()))));
    o.f("last", &opt_plain(p.last().map(|t| xh(&t.decoded()))));
    o.f(
        "gets",
        &list((0..=count + 1).map(|i| opt_plain(p.get(i).map(|t| xh(&t.decoded()))))),
    );
    o.f(
        "comps",
        &list(p.components().map(|c| match c {
            Component::Root => "root".to_string(),
            Component::Token(t) => xh(&t.decoded()),
        })),
    );
    o.f("is_root", b01(p.is_root()));
    o.f("len", &p.len().to_string());
}

pub fn op_from_tokens(toks: &[String]) -> String {
    let mut o = Out::new();
    let buf = PointerBuf::from_tokens(toks.iter().map(String::as_str));
    view_fields(&mut o, &buf);
    let mut law_list = Law::new();
    check_list(&mut law_list, toks, &buf);
    let mut law_valid = Law::new();
    check_valid_full(&mut law_valid, &buf);
    o.law("law_list", &law_list);
    o.law("law_valid", &law_valid);
    o.finish()
}

pub fn op_ptr_view(p: &Pointer) -> String {
    let mut o = Out::new();
    view_fields(&mut o, p);
    let rt = PointerBuf::from_tokens(p.tokens());
    o.f("rt", &xh(rt.as_str()));
    let reference = split_dec(p.as_str());
    let mut law_list = Law::new();
    check_list(&mut law_list, &reference, p);
    let mut law_rt = Law::new();
    law_rt.ck(rt.as_str() == p.as_str(), "from_tokens_of_tokens_differs");
    let mut law_valid = Law::new();
    check_valid_full(&mut law_valid, p);
    check_valid_ptr(&mut law_valid, "rt", &rt);
    o.law("law_list", &law_list);
    o.law("law_rt", &law_rt);
    o.law("law_valid", &law_valid);
    o.finish()
}

fn text_result(buf: &PointerBuf, reference: &[String]) -> String {
    let mut o = Out::new();
    o.f("text", &xh(buf.as_str()));
    let mut law_list = Law::new();
    // independent reading of the produced text
    if valid_pointer(buf.as_str()) {
        law_list.ck(split_dec(buf.as_str()).as_slice() == reference, "text_tokens_differ_from_list");
    } else {
        law_list.fail("text_invalid");
    }
    law_list.ck(buf.as_str() == join_dec(reference.iter()), "text_not_concatenation");
    let dec: Vec<String> = buf.tokens().map(|t| t.decoded().into_owned()).collect();
    law_list.ck(dec.as_slice() == reference, "tokens_differ_from_list");
    law_list.ck(buf.count() == reference.len(), "count");
    let mut law_valid = Law::new();
    check_valid_full(&mut law_valid, buf);
    o.law("law_list", &law_list);
    o.law("law_valid", &law_valid);
    o.finish()
}

pub fn op_with(p: &Pointer, lead: bool, t: &str) -> String {
    let mut reference = split_dec(p.as_str());
    let buf = if lead {
        reference.insert(0, t.to_string());
        p.with_leading_token(t)
    } else {
        reference.push(t.to_string());
        p.with_trailing_token(t)
    };
    text_result(&buf, &reference)
}

pub fn op_concat(p: &Pointer, q: &Pointer) -> String {
    let mut reference = split_dec(p.as_str());
    reference.extend(split_dec(q.as_str()));
    text_result(&p.concat(q), &reference)
}

pub fn op_from_token(t: &str) -> String {
    text_result(&PointerBuf::from(Token::new(t)), &[t.to_string()])
}

pub fn op_from_usize(n: usize) -> String {
    text_result(&PointerBuf::from(n), &[n.to_string()])
}

// ---------------------------------------------------------------------------------------------
// buf_hist
// ---------------------------------------------------------------------------------------------

enum BStep {
    Pf(bool, String),
    Pb(bool, String),
    Pof,
    Pob,
    Ap(String),
    Rp(usize, bool, String),
    Cl,
}

fn parse_mode_tok(mode: &str, t: &str) -> Option<(bool, String)> {
    let enc = match mode {
        "raw" => false,
        "enc" => true,
        _ => return None,
    };
    let s = parse_x(t)?;
    if enc && !valid_token(&s) {
        return None;
    }
    Some((enc, s))
}

fn parse_bstep(f: &str) -> Option<BStep> {
    let parts: Vec<&str> = f.split('@').collect();
    Some(match parts.as_slice() {
        ["pf", m, t] => {
            let (e, s) = parse_mode_tok(m, t)?;
            BStep::Pf(e, s)
        }
        ["pb", m, t] => {
            let (e, s) = parse_mode_tok(m, t)?;
            BStep::Pb(e, s)
        }
        ["pof"] => BStep::Pof,
        ["pob"] => BStep::Pob,
        ["ap", q] => {
            let s = parse_x(q)?;
            if Pointer::parse(&s).is_err() {
                return None;
            }
            BStep::Ap(s)
        }
        ["rp", n, m, t] => {
            let (e, s) = parse_mode_tok(m, t)?;
            BStep::Rp(parse_n(n)?, e, s)
        }
        ["cl"] => BStep::Cl,
        _ => return None,
    })
}

/// The token argument of a mutator step. `how` varies the way the text reaches `Token::new` (all `impl Into<Token>`
/// forms must give the same token): 0 = borrowed `&str`, 1 = an owned `String` of exact capacity, 2 = an owned
/// `String` with spare capacity, 3 = `&String` through `From<&String>`, 4 = `&Token` through `From<&Token>`.
fn mk_token(enc: bool, s: &str, how: usize) -> Token<'static> {
    if enc {
        return Token::from_encoded(s).expect("generator guarantees a valid encoded token").into_owned();
    }
    match how % 5 {
        4 => {
            // a token handed on by reference (`From<&Token>`): must be the same token, not re-encoded
            let t = Token::new(s);
            Token::from(&t).into_owned()
        }
        0 => Token::new(s).into_owned(),
        1 => Token::new(s.to_string()),
        2 => {
            let mut st = String::with_capacity(s.len() + 9 + (s.len() % 7) * 8);
            st.push_str(s);
            Token::from(st)
        }
        _ => {
            let st = s.to_string();
            Token::from(&st).into_owned()
        }
    }
}

fn ref_decoded(enc: bool, s: &str) -> String {
    if enc {
        unescape(s)
    } else {
        s.to_string()
    }
}

pub fn op_buf_hist(p: &Pointer, steps: &[&str]) -> Option<String> {
    let steps: Vec<BStep> = steps.iter().map(|s| parse_bstep(s)).collect::<Option<Vec<_>>>()?;
    let mut buf = p.to_buf();
    let mut dq: VecDeque<String> = split_dec(p.as_str()).into();
    let mut law_deque = Law::new();
    let mut law_valid = Law::new();
    let mut outs: Vec<String> = Vec::with_capacity(steps.len());

    for (si, st) in steps.iter().enumerate() {
        let before = buf.as_str().to_string();
        let ret: String = match st {
            BStep::Pf(e, s) => {
                buf.push_front(mk_token(*e, s, si + s.len()));
                dq.push_front(ref_decoded(*e, s));
                "unit".to_string()
            }
            BStep::Pb(e, s) => {
                buf.push_back(mk_token(*e, s, si + s.len()));
                dq.push_back(ref_decoded(*e, s));
                "unit".to_string()
            }
            BStep::Pof | BStep::Pob => {
                let front = matches!(st, BStep::Pof);
                let got = if front { buf.pop_front() } else { buf.pop_back() };
                let want = if front { dq.pop_front() } else { dq.pop_back() };
                if let Some(t) = &got {
                    check_valid_tok(&mut law_valid, &format!("step{si}_pop"), t);
                }
                let got_enc = got.as_ref().map(|t| t.encoded().to_string());
                law_deque.ck(got_enc == want.as_ref().map(|w| escape(w)), &format!("step{si}_pop_differs_from_deque"));
                opt(got_enc.as_deref().map(xh))
            }
            BStep::Ap(q) => {
                let qp = Pointer::parse(q.as_str()).ok()?;
                buf.append(qp);
                dq.extend(split_dec(q));
                "unit".to_string()
            }
            BStep::Rp(n, e, s) => {
                let count = dq.len();
                let r = buf.replace(*n, mk_token(*e, s, si + s.len())).map(|o| o.map(|t| t.into_owned()));
                match r {
                    Ok(old) => {
                        if let Some(t) = &old {
                            check_valid_tok(&mut law_valid, &format!("step{si}_replace"), t);
                        }
                        let old_enc = old.as_ref().map(|t| t.encoded().to_string());
                        if *n < count {
                            let want = std::mem::replace(&mut dq[*n], ref_decoded(*e, s));
                            law_deque.ck(old_enc == Some(escape(&want)), &format!("step{si}_replace_returned_wrong_token"));
                        } else {
                            law_deque.fail(&format!("step{si}_replace_ok_out_of_range"));
                        }
                        format!("ok({})", opt(old_enc.as_deref().map(xh)))
                    }
                    Err(err) => {
                        law_deque.ck(*n >= count, &format!("step{si}_replace_err_in_range"));
                        law_deque.ck(err.index == *n && err.count == count, &format!("step{si}_replace_err_payload"));
                        law_deque.ck(buf.as_str() == before, &format!("step{si}_replace_err_changed_text"));
                        format!("err({},{})", err.index, err.count)
                    }
                }
            }
            BStep::Cl => {
                buf.clear();
                dq.clear();
                "unit".to_string()
            }
        };
        law_deque.ck(buf.as_str() == join_dec(dq.iter()), &format!("step{si}_text_differs_from_deque"));
        if law_valid.is_ok() {
            check_valid_ptr(&mut law_valid, &format!("step{si}"), &buf);
        }
        outs.push(format!("{}|{}", ret, xh(buf.as_str())));
    }
    // final consistency: the buffer's tokens are the deque
    {
        let dec: Vec<String> = buf.tokens().map(|t| t.decoded().into_owned()).collect();
        law_deque.ck(dec.iter().eq(dq.iter()), "final_tokens_differ_from_deque");
        let same = PointerBuf::from_tokens(dq.iter().map(String::as_str));
        law_deque.ck(buf == same, "final_ne_from_tokens_of_deque");
    }
    let mut o = Out::new();
    o.f("steps", &outs.join(";"));
    o.law("law_deque", &law_deque);
    o.law("law_valid", &law_valid);
    Some(o.finish())
}

// ---------------------------------------------------------------------------------------------
// splits
// ---------------------------------------------------------------------------------------------

pub fn op_split_front(p: &Pointer) -> String {
    let text = p.as_str();
    let mut o = Out::new();
    let r = p.split_front();
    let mut law_concat = Law::new();
    let mut law_valid = Law::new();
    match &r {
        None => {
            o.f("r", "none");
            law_concat.ck(text.is_empty(), "none_for_non_root");
        }
        Some((tok, rest)) => {
            o.f("r", &format!("some({},{})", xh(tok.encoded()), view(text, rest.as_str())));
            law_concat.ck(!text.is_empty(), "some_for_root");
            law_concat.ck(format!("/{}{}", tok.encoded(), rest.as_str()) == text, "pieces_do_not_reconcatenate");
            check_valid_tok(&mut law_valid, "front", tok);
            check_valid_ptr(&mut law_valid, "rest", rest);
        }
    }
    o.law("law_concat", &law_concat);
    o.law("law_valid", &law_valid);
    o.finish()
}

pub fn op_split_back(p: &Pointer) -> String {
    let text = p.as_str();
    let mut o = Out::new();
    let r = p.split_back();
    let mut law_concat = Law::new();
    let mut law_valid = Law::new();
    match &r {
        None => {
            o.f("r", "none");
            law_concat.ck(text.is_empty(), "none_for_non_root");
        }
        Some((front, tok)) => {
            o.f("r", &format!("some({},{})", view(text, front.as_str()), xh(tok.encoded())));
            law_concat.ck(!text.is_empty(), "some_for_root");
            law_concat.ck(format!("{}/{}", front.as_str(), tok.encoded()) == text, "pieces_do_not_reconcatenate");
            check_valid_tok(&mut law_valid, "back", tok);
            check_valid_ptr(&mut law_valid, "front", front);
        }
    }
    o.law("law_concat", &law_concat);
    o.law("law_valid", &law_valid);
    o.finish()
}

pub fn op_parent(p: &Pointer) -> String {
    let text = p.as_str();
    let mut o = Out::new();
    let r = p.parent();
    let mut law_concat = Law::new();
    let mut law_valid = Law::new();
    match r {
        None => {
            o.f("r", "none");
            law_concat.ck(text.is_empty(), "none_for_non_root");
        }
        Some(par) => {
            o.f("r", &format!("some({})", view(text, par.as_str())));
            law_concat.ck(!text.is_empty(), "some_for_root");
            let toks = split_enc(text);
            match toks.last() {
                Some(last) => law_concat.ck(format!("{}/{}", par.as_str(), last) == text, "parent_plus_last_token_differs"),
                None => {}
            }
            check_valid_ptr(&mut law_valid, "parent", par);
        }
    }
    o.law("law_concat", &law_concat);
    o.law("law_valid", &law_valid);
    o.finish()
}

pub fn op_split_at(p: &Pointer, n: usize) -> String {
    let text = p.as_str();
    let mut o = Out::new();
    let r = p.split_at(n);
    let mut law_concat = Law::new();
    let mut law_sep = Law::new();
    let mut law_valid = Law::new();
    let is_sep = text.as_bytes().get(n) == Some(&b'/');
    law_sep.ck(r.is_some() == is_sep, if is_sep { "none_at_separator" } else { "some_at_non_separator" });
    match r {
        None => o.f("r", "none"),
        Some((head, tail)) => {
            o.f("r", &format!("some({},{})", view(text, head.as_str()), view(text, tail.as_str())));
            law_concat.ck(format!("{}{}", head.as_str(), tail.as_str()) == text, "pieces_do_not_reconcatenate");
            law_concat.ck(head.len() == n, "head_length_not_offset");
            check_valid_ptr(&mut law_valid, "head", head);
            check_valid_ptr(&mut law_valid, "tail", tail);
        }
    }
    o.law("law_concat", &law_concat);
    o.law("law_sep", &law_sep);
    o.law("law_valid", &law_valid);
    o.finish()
}

// ---------------------------------------------------------------------------------------------
// get
// ---------------------------------------------------------------------------------------------

#[derive(Clone, Copy)]
enum Bd {
    In(usize),
    Ex(usize),
    Un,
}

#[derive(Clone, Copy)]
enum Rg {
    Tok(usize),
    R(usize, usize),
    Rf(usize),
    Rt(usize),
    Ri(usize, usize),
    Rti(usize),
    Full,
    Bb(Bd, Bd),
}

fn parse_bd(s: &str) -> Option<Bd> {
    if s == "un" {
        return Some(Bd::Un);
    }
    if let Some(n) = s.strip_prefix("in:") {
        return Some(Bd::In(parse_n(n)?));
    }
    if let Some(n) = s.strip_prefix("ex:") {
        return Some(Bd::Ex(parse_n(n)?));
    }
    None
}

fn parse_range(f: &str) -> Option<Rg> {
    let parts: Vec<&str> = f.split('@').collect();
    Some(match parts.as_slice() {
        ["tok", n] => Rg::Tok(parse_n(n)?),
        ["r", a, b] => Rg::R(parse_n(a)?, parse_n(b)?),
        ["rf", a] => Rg::Rf(parse_n(a)?),
        ["rt", b] => Rg::Rt(parse_n(b)?),
        ["ri", a, b] => Rg::Ri(parse_n(a)?, parse_n(b)?),
        ["rti", b] => Rg::Rti(parse_n(b)?),
        ["full"] => Rg::Full,
        ["bb", lo, hi] => Rg::Bb(parse_bd(lo)?, parse_bd(hi)?),
        _ => return None,
    })
}

/// The half-open token range `[a,b)` a range form denotes for a pointer of `n` tokens.
fn denote(rg: Rg, n: usize) -> Option<(usize, usize)> {
    fn r(a: usize, b: usize, n: usize) -> Option<(usize, usize)> {
        (a <= b && a < n && b <= n).then_some((a, b))
    }
    fn rf(a: usize, n: usize) -> Option<(usize, usize)> {
        (a < n).then_some((a, n))
    }
    fn rt(b: usize, n: usize) -> Option<(usize, usize)> {
        (b <= n).then_some((0, b))
    }
    fn ri(a: usize, b: usize, n: usize) -> Option<(usize, usize)> {
        (a <= b && b < n).then(|| (a, b + 1))
    }
    fn rti(b: usize, n: usize) -> Option<(usize, usize)> {
        (b < n).then(|| (0, b + 1))
    }
    match rg {
        Rg::Tok(_) => None,
        Rg::R(a, b) => r(a, b, n),
        Rg::Rf(a) => rf(a, n),
        Rg::Rt(b) => rt(b, n),
        Rg::Ri(a, b) => ri(a, b, n),
        Rg::Rti(b) => rti(b, n),
        Rg::Full => Some((0, n)),
        Rg::Bb(lo, hi) => {
            let start: Option<usize> = match lo {
                Bd::In(a) => Some(a),
                Bd::Ex(a) => Some(a.checked_add(1)?),
                Bd::Un => None,
            };
            match (start, hi) {
                (Some(a), Bd::In(b)) => ri(a, b, n),
                (Some(a), Bd::Ex(b)) => r(a, b, n),
                (Some(a), Bd::Un) => rf(a, n),
                (None, Bd::In(b)) => rti(b, n),
                (None, Bd::Ex(b)) => rt(b, n),
                (None, Bd::Un) => Some((0, n)),
            }
        }
    }
}

fn to_bound(b: Bd) -> Bound<usize> {
    match b {
        Bd::In(n) => Bound::Included(n),
        Bd::Ex(n) => Bound::Excluded(n),
        Bd::Un => Bound::Unbounded,
    }
}

pub fn op_get(p: &Pointer, range: &str) -> Option<String> {
    let rg = parse_range(range)?;
    let text = p.as_str();
    let toks = split_enc(text);
    let n = toks.len();
    let mut o = Out::new();
    let mut law_sublist = Law::new();
    let mut law_view = Law::new();
    let mut law_join = Law::new();
    let mut law_valid = Law::new();

    if let Rg::Tok(i) = rg {
        match guard(|| p.get(i)) {
            None => {
                o.f("r", "panic");
                law_sublist.fail("panic");
            }
            Some(None) => {
                o.f("r", "none");
                law_sublist.ck(i >= n, "none_in_range");
            }
            Some(Some(t)) => {
                o.f("r", &format!("some({})", xh(t.encoded())));
                law_sublist.ck(i < n && toks.get(i).copied() == Some(t.encoded()), "wrong_token");
                check_valid_tok(&mut law_valid, "get", &t);
            }
        }
    } else {
        let res: Option<Option<&Pointer>> = guard(|| match rg {
            Rg::Tok(_) => unreachable!(),
            Rg::R(a, b) => p.get(a..b),
            Rg::Rf(a) => p.get(a..),
            Rg::Rt(b) => p.get(..b),
            Rg::Ri(a, b) => p.get(a..=b),
            Rg::Rti(b) => p.get(..=b),
            Rg::Full => p.get(..),
            Rg::Bb(lo, hi) => p.get((to_bound(lo), to_bound(hi))),
        });
        // a range VALUE is its two bounds: `RangeInclusive` also carries iterator state (an "exhausted" flag), which must not
        // decide what `get` returns — a range that was iterated to its end still denotes `end..=end`
        if let Rg::Ri(a, b) = rg {
            if a == b && b < usize::MAX {
                let from = b.saturating_sub(2);
                let mut used = from..=b;
                for _ in used.by_ref() {}
                let (s2, e2) = (*used.start(), *used.end());
                let fresh = guard(|| p.get(s2..=e2).map(|x| x.as_str().to_string()));
                let stale = guard(|| p.get(used).map(|x| x.as_str().to_string()));
                law_sublist.ck(fresh == stale, "get_depends_on_iterator_state_of_the_range");
            }
        }
        if let Rg::R(a, b) = rg {
            if a <= b && b - a <= 4 {
                let mut used = a..b;
                let _ = used.next();
                let (s2, e2) = (used.start, used.end);
                let fresh = guard(|| p.get(s2..e2).map(|x| x.as_str().to_string()));
                let stale = guard(|| p.get(used).map(|x| x.as_str().to_string()));
                law_sublist.ck(fresh == stale, "get_depends_on_iterator_state_of_the_range");
            }
        }
        let want = denote(rg, n);
        match res {
            None => {
                o.f("r", "panic");
                law_sublist.fail("panic");
            }
            Some(None) => {
                o.f("r", "none");
                law_sublist.ck(want.is_none(), "none_for_valid_range");
            }
            Some(Some(q)) => {
                o.f("r", &format!("some({})", view(text, q.as_str())));
                match want {
                    None => law_sublist.fail("some_for_invalid_range"),
                    Some((a, b)) => {
                        if valid_pointer(q.as_str()) {
                            law_sublist.ck(split_enc(q.as_str()).as_slice() == &toks[a..b], "not_the_sub_list");
                        } else {
                            law_sublist.fail("result_invalid");
                        }
                        if !q.as_str().is_empty() {
                            let off: usize = toks[..a].iter().map(|t| 1 + t.len()).sum();
                            law_view.ck(view_off(text, q.as_str()) == Some(off), "not_a_view_at_the_token_offset");
                        }
                    }
                }
                check_valid_ptr(&mut law_valid, "get", q);
            }
        }
    }

    // law_join: get(..k) + get(k..) == P for every k < n (sampled when long)
    if n > 0 {
        for k in sample_positions(n - 1, 64) {
            match guard(|| (p.get(..k).map(|x| x.as_str()), p.get(k..).map(|x| x.as_str()))) {
                None => law_join.fail("panic"),
                Some((Some(a), Some(b))) => {
                    law_join.ck(a.len() + b.len() == text.len() && text.starts_with(a) && text.ends_with(b), "halves_do_not_join");
                }
                Some(_) => law_join.fail("half_is_none"),
            }
            if !law_join.is_ok() {
                break;
            }
        }
    }

    o.law("law_sublist", &law_sublist);
    o.law("law_view", &law_view);
    o.law("law_join", &law_join);
    o.law("law_valid", &law_valid);
    Some(o.finish())
}

// ---------------------------------------------------------------------------------------------
// rel / rel3
// ---------------------------------------------------------------------------------------------

pub fn op_rel(p: &Pointer, q: &Pointer) -> String {
    let mut o = Out::new();
    let (pt, qt) = (p.as_str(), q.as_str());
    let sw = p.starts_with(q);
    let ew = p.ends_with(q);
    let sp = p.strip_prefix(q);
    let ss = p.strip_suffix(q);
    let ix = p.intersection(q);
    let ixr = q.intersection(p);
    let cc = p.concat(q);
    o.f("sw", b01(sw));
    o.f("ew", b01(ew));
    o.f("sp", &opt(sp.map(|x| xh(x.as_str()))));
    o.f("ss", &opt(ss.map(|x| xh(x.as_str()))));
    o.f("ix", &xh(ix.as_str()));
    o.f("ixr", &xh(ixr.as_str()));
    o.f("cc", &xh(cc.as_str()));

    let pl = split_enc(pt);
    let ql = split_enc(qt);

    let mut law_prefix = Law::new();
    {
        let is_prefix = ql.len() <= pl.len() && pl[..ql.len()] == ql[..];
        law_prefix.ck(sw == is_prefix, "starts_with_not_token_prefix");
        law_prefix.ck(sp.is_some() == sw, "strip_prefix_disagrees_with_starts_with");
        law_prefix.ck(sp.is_some() == is_prefix, "strip_prefix_not_token_prefix");
        if let Some(r) = sp {
            if valid_pointer(r.as_str()) {
                let mut joined: Vec<&str> = ql.clone();
                joined.extend(split_enc(r.as_str()));
                law_prefix.ck(joined == pl, "prefix_plus_rest_is_not_p");
            } else {
                law_prefix.fail("rest_invalid");
            }
            law_prefix.ck(q.concat(r) == *p, "q_concat_rest_ne_p");
        }
    }
    let mut law_suffix = Law::new();
    {
        if qt.is_empty() {
            law_suffix.ck(ew == pt.is_empty(), "ends_with_root_only_for_root");
            law_suffix.ck(ss.map(|x| x.as_str()) == Some(pt), "strip_suffix_root_is_not_p");
        } else {
            let is_suffix = ql.len() <= pl.len() && pl[pl.len() - ql.len()..] == ql[..];
            law_suffix.ck(ew == is_suffix, "ends_with_not_token_suffix");
            law_suffix.ck(ss.is_some() == is_suffix, "strip_suffix_not_token_suffix");
            if let Some(r) = ss {
                if valid_pointer(r.as_str()) {
                    let mut joined: Vec<&str> = split_enc(r.as_str());
                    joined.extend(ql.iter().copied());
                    law_suffix.ck(joined == pl, "rest_plus_suffix_is_not_p");
                } else {
                    law_suffix.fail("rest_invalid");
                }
                law_suffix.ck(r.concat(q) == *p, "rest_concat_q_ne_p");
            }
        }
    }
    let mut law_ix = Law::new();
    {
        let common = pl.iter().zip(ql.iter()).take_while(|(a, b)| a == b).count();
        if valid_pointer(ix.as_str()) {
            law_ix.ck(split_enc(ix.as_str()).as_slice() == &pl[..common], "not_the_longest_common_prefix");
        } else {
            law_ix.fail("intersection_invalid");
        }
        law_ix.ck(ix.as_str() == ixr.as_str(), "not_symmetric");
        law_ix.ck(pt.starts_with(ix.as_str()) && qt.starts_with(ix.as_str()), "not_a_prefix_of_both");
        law_ix.ck(p.intersection(p) == p, "self_intersection_ne_self");
        law_ix.ck(q.intersection(q) == q, "self_intersection_ne_self");
        if pt.is_empty() || qt.is_empty() {
            law_ix.ck(ix.as_str().is_empty() && ixr.as_str().is_empty(), "not_root_with_root_operand");
        }
    }
    let mut law_concat = Law::new();
    {
        let mut joined = pl.clone();
        joined.extend(ql.iter().copied());
        if valid_pointer(cc.as_str()) {
            law_concat.ck(split_enc(cc.as_str()) == joined, "not_the_concatenated_list");
        } else {
            law_concat.fail("concat_invalid");
        }
        law_concat.ck(p.concat(Pointer::root()) == *p && Pointer::root().concat(p) == *p, "root_not_neutral");
        law_concat.ck(q.concat(Pointer::root()) == *q && Pointer::root().concat(q) == *q, "root_not_neutral");
    }
    let mut law_valid = Law::new();
    if let Some(r) = sp {
        check_valid_ptr(&mut law_valid, "strip_prefix", r);
    }
    if let Some(r) = ss {
        check_valid_ptr(&mut law_valid, "strip_suffix", r);
    }
    check_valid_ptr(&mut law_valid, "intersection", ix);
    check_valid_ptr(&mut law_valid, "intersection_rev", ixr);
    check_valid_ptr(&mut law_valid, "concat", &cc);

    // ---- aliasing: the relations must depend on the texts only. Relate each operand with views cut out of
    // its OWN buffer (at separators found by our own scan, re-wrapped with `Pointer::parse`) in both directions.
    let mut law_alias = Law::new();
    {
        fn toks(t: &str) -> Vec<&str> { let mut it = t.split('/'); it.next(); if t.is_empty() { Vec::new() } else { it.collect() } }
        for whole in [p, q] {
            let text = whole.as_str();
            // cut positions: every separator, and also positions INSIDE tokens (a head such as "/a" cut out of
            // "/ab" starts at the same address but does not end on a token boundary of the whole)
            let mut seps: Vec<usize> = text.bytes().enumerate().filter(|(_, b)| *b == b'/').map(|(i, _)| i).collect();
            for k in sample_positions(text.len(), 8) { if text.is_char_boundary(k) && !seps.contains(&k) { seps.push(k); } }
            seps.sort_unstable();
            for idx in sample_positions(seps.len().saturating_sub(1), 10) {
                let cut = match seps.get(idx) { Some(c) => *c, None => continue };
                for v in [Pointer::parse(&text[..cut]), Pointer::parse(&text[cut..])].into_iter().flatten() {
                    let (tw, tv) = (toks(text), toks(v.as_str()));
                    let v_pre_w = tw.len() >= tv.len() && tw[..tv.len()] == tv[..];
                    let w_pre_v = tv.len() >= tw.len() && tv[..tw.len()] == tw[..];
                    law_alias.ck(whole.starts_with(v) == v_pre_w, "starts_with_view");
                    law_alias.ck(v.starts_with(whole) == w_pre_v, "view_starts_with");
                    law_alias.ck(whole.strip_prefix(v).is_some() == v_pre_w, "strip_prefix_view");
                    law_alias.ck(v.strip_prefix(whole).is_some() == w_pre_v, "view_strip_prefix");
                    let v_suf_w = tw.len() >= tv.len() && tw[tw.len() - tv.len()..] == tv[..];
                    let exp_ew = if v.as_str().is_empty() { text.is_empty() } else { v_suf_w };
                    law_alias.ck(whole.ends_with(v) == exp_ew, "ends_with_view");
                    law_alias.ck(whole.strip_suffix(v).is_some() == v_suf_w, "strip_suffix_view");
                    let common = tw.iter().zip(tv.iter()).take_while(|(a, b)| a == b).count();
                    let exp_ix: String = tw[..common].iter().map(|t| format!("/{}", t)).collect();
                    law_alias.ck(whole.intersection(v).as_str() == exp_ix, "intersection_view");
                    law_alias.ck(v.intersection(whole).as_str() == exp_ix, "view_intersection");
                }
            }
        }
    }
    o.law("law_prefix", &law_prefix);
    o.law("law_suffix", &law_suffix);
    o.law("law_ix", &law_ix);
    o.law("law_concat", &law_concat);
    o.law("law_valid", &law_valid);
    o.law("law_alias", &law_alias);
    o.finish()
}

pub fn op_rel3(p: &Pointer, q: &Pointer, r: &Pointer) -> String {
    let mut o = Out::new();
    let left = p.concat(q).concat(r);
    let right = p.concat(&q.concat(r));
    o.f("cc", &xh(left.as_str()));
    o.f("assoc", b01(left == right));
    let mut law_concat = Law::new();
    {
        let mut joined = split_enc(p.as_str());
        joined.extend(split_enc(q.as_str()));
        joined.extend(split_enc(r.as_str()));
        for (name, x) in [("left", &left), ("right", &right)] {
            if valid_pointer(x.as_str()) {
                law_concat.ck(split_enc(x.as_str()) == joined, &format!("{name}_not_the_concatenated_list"));
            } else {
                law_concat.fail(&format!("{name}_invalid"));
            }
        }
    }
    let mut law_valid = Law::new();
    check_valid_ptr(&mut law_valid, "left", &left);
    check_valid_ptr(&mut law_valid, "right", &right);
    o.law("law_concat", &law_concat);
    o.law("law_valid", &law_valid);
    o.finish()
}
