//! resolve, resolve_mut, write, assign, delete, tree_hist (generic over the backend)

use super::doc::*;
use super::ops_text::{fmt_label, fmt_pie, label_of, pie_truthful};
use super::util::*;
use jsonptr::diagnostic::Diagnostic;
use jsonptr::index::ParseIndexError;
use jsonptr::{assign, resolve, Pointer, PointerBuf, Token};

// ---------------------------------------------------------------------------------------------
// reference walks (accessors only)
// ---------------------------------------------------------------------------------------------

#[derive(Debug, Clone, Copy, PartialEq, Eq)]
pub enum Kind {
    Unreachable,
    NotFound,
    Parse,
    Oob,
}

impl Kind {
    fn s(self) -> &'static str {
        match self {
            Kind::Unreachable => "unreachable",
            Kind::NotFound => "notfound",
            Kind::Parse => "parse",
            Kind::Oob => "oob",
        }
    }
}

#[derive(Debug, Clone)]
pub struct RefFail {
    kind: Kind,
    pos: usize,
    /// length of the array at the failing position (parse / oob)
    arr_len: Option<usize>,
}

/// RFC 6901 evaluation: object member by decoded token, array element by canonical decimal
/// index < len.
fn ref_walk<'a, B: Be>(doc: &'a B, toks: &[&str]) -> Result<(&'a B, Vec<Step>), RefFail> {
    let mut cur = doc;
    let mut path = Vec::with_capacity(toks.len());
    for (pos, tok) in toks.iter().enumerate() {
        if let Some(arr) = cur.as_arr() {
            let len = arr.len();
            match ref_index(tok) {
                RefIdx::Bad => return Err(RefFail { kind: Kind::Parse, pos, arr_len: Some(len) }),
                RefIdx::Next => return Err(RefFail { kind: Kind::Oob, pos, arr_len: Some(len) }),
                RefIdx::Num(k) => {
                    if k >= len {
                        return Err(RefFail { kind: Kind::Oob, pos, arr_len: Some(len) });
                    }
                    cur = &arr[k];
                    path.push(Step::I(k));
                }
            }
        } else if cur.is_obj() {
            let key = unescape(tok);
            match cur.member(&key) {
                Some(c) => {
                    cur = c;
                    path.push(Step::K(key));
                }
                None => return Err(RefFail { kind: Kind::NotFound, pos, arr_len: None }),
            }
        } else {
            return Err(RefFail { kind: Kind::Unreachable, pos, arr_len: None });
        }
    }
    Ok((cur, path))
}

/// Where (if anywhere) must `assign` fail?  Index tokens are checked only on existing arrays;
/// an index equal to the length (or `-`) appends, a missing member or a scalar ends the walk.
fn ref_assign_walk<B: Be>(doc: &B, toks: &[&str]) -> Result<(), RefFail> {
    let mut cur = doc;
    for (pos, tok) in toks.iter().enumerate() {
        if let Some(arr) = cur.as_arr() {
            let len = arr.len();
            let idx = match ref_index(tok) {
                RefIdx::Bad => return Err(RefFail { kind: Kind::Parse, pos, arr_len: Some(len) }),
                RefIdx::Next => len,
                RefIdx::Num(k) => k,
            };
            if idx > len {
                return Err(RefFail { kind: Kind::Oob, pos, arr_len: Some(len) });
            }
            if idx == len {
                return Ok(());
            }
            cur = &arr[idx];
        } else if cur.is_obj() {
            match cur.member(&unescape(tok)) {
                Some(c) => cur = c,
                None => return Ok(()),
            }
        } else {
            return Ok(());
        }
    }
    Ok(())
}

/// Read-your-write walk: `-` on an array reads its last element.
fn ryw_walk<'a, B: Be>(doc: &'a B, toks: &[&str]) -> Option<&'a B> {
    let mut cur = doc;
    for tok in toks {
        if let Some(arr) = cur.as_arr() {
            cur = match ref_index(tok) {
                RefIdx::Bad => return None,
                RefIdx::Next => arr.last()?,
                RefIdx::Num(k) => arr.get(k)?,
            };
        } else if cur.is_obj() {
            cur = cur.member(&unescape(tok))?;
        } else {
            return None;
        }
    }
    Some(cur)
}

// ---------------------------------------------------------------------------------------------
// error details (C15)
// ---------------------------------------------------------------------------------------------

enum Pl {
    None,
    Oob { index: usize, length: usize },
    Pie(ParseIndexError),
}

struct ErrInfo {
    kind: Kind,
    pos: usize,
    off: usize,
    pl: Pl,
    /// None = labels() panicked; Some(None) = no label
    label: Option<Option<(usize, usize)>>,
    /// the `is_*` predicates agree with the variant
    acc: Result<(), String>,
}

fn acc_resolve(e: &resolve::Error) -> Result<(), String> {
    use resolve::Error as E;
    let want = (
        matches!(e, E::Unreachable { .. }),
        matches!(e, E::NotFound { .. }),
        matches!(e, E::OutOfBounds { .. }),
        matches!(e, E::FailedToParseIndex { .. }),
    );
    let got = guard(|| (e.is_unreachable(), e.is_not_found(), e.is_out_of_bounds(), e.is_failed_to_parse_index()));
    if got != Some(want) {
        return Err("is_predicates_disagree_with_variant".to_string());
    }
    Ok(())
}

fn acc_assign(e: &assign::Error) -> Result<(), String> {
    use assign::Error as E;
    let want = (matches!(e, E::OutOfBounds { .. }), matches!(e, E::FailedToParseIndex { .. }));
    let got = guard(|| (e.is_out_of_bounds(), e.is_failed_to_parse_index()));
    if got != Some(want) {
        return Err("is_predicates_disagree_with_variant".to_string());
    }
    Ok(())
}

fn info_resolve(e: &resolve::Error, p: &Pointer) -> ErrInfo {
    let (kind, pl) = match e {
        resolve::Error::FailedToParseIndex { source, .. } => (Kind::Parse, Pl::Pie(source.clone())),
        resolve::Error::OutOfBounds { source, .. } => (Kind::Oob, Pl::Oob { index: source.index, length: source.length }),
        resolve::Error::NotFound { .. } => (Kind::NotFound, Pl::None),
        resolve::Error::Unreachable { .. } => (Kind::Unreachable, Pl::None),
    };
    let subject: PointerBuf = p.to_buf();
    let label = guard(|| <resolve::Error as Diagnostic>::labels(e, &subject).and_then(|mut it| it.next()).map(label_of));
    ErrInfo { kind, pos: e.position(), off: e.offset(), pl, label, acc: acc_resolve(e) }
}

fn info_assign(e: &assign::Error, p: &Pointer) -> ErrInfo {
    let (kind, pl) = match e {
        assign::Error::FailedToParseIndex { source, .. } => (Kind::Parse, Pl::Pie(source.clone())),
        assign::Error::OutOfBounds { source, .. } => (Kind::Oob, Pl::Oob { index: source.index, length: source.length }),
    };
    let subject: PointerBuf = p.to_buf();
    let label = guard(|| <assign::Error as Diagnostic>::labels(e, &subject).and_then(|mut it| it.next()).map(label_of));
    ErrInfo { kind, pos: e.position(), off: e.offset(), pl, label, acc: acc_assign(e) }
}

fn emit_locate(o: &mut Out, p: &Pointer, info: Option<&ErrInfo>) {
    match info {
        None => {
            for k in ["pos", "off", "pl", "label", "gp", "sa"] {
                o.f(k, "none");
            }
        }
        Some(i) => {
            o.f("pos", &i.pos.to_string());
            o.f("off", &i.off.to_string());
            let pl = match &i.pl {
                Pl::None => "none".to_string(),
                Pl::Oob { index, length } => format!("oob({index},{length})"),
                Pl::Pie(e) => fmt_pie(e),
            };
            o.f("pl", &pl);
            match &i.label {
                Some(l) => o.f("label", &fmt_label(*l)),
                None => o.f("label", "panic"),
            }
            o.f("gp", &opt_plain(p.get(i.pos).map(|t| xh(t.encoded()))));
            o.f(
                "sa",
                &opt(p.split_at(i.off).map(|(h, t)| format!("{},{}", xh(h.as_str()), xh(t.as_str())))),
            );
        }
    }
}

fn locate_law(l: &mut Law, p: &Pointer, info: &ErrInfo, expected: Result<(), &RefFail>) {
    let text = p.as_str();
    let toks = split_enc(text);
    let exp = match expected {
        Ok(()) => {
            l.fail("error_where_reference_walk_succeeds");
            return;
        }
        Err(e) => e,
    };
    l.res(info.acc.clone());
    l.ck(info.pos == exp.pos, "position_is_not_the_failing_token");
    l.ck(info.kind == exp.kind, "kind_differs_from_reference_walk");
    if info.pos >= toks.len() {
        l.fail("position_past_last_token");
        return;
    }
    let tok = toks[info.pos];
    let gp = p.get(info.pos);
    l.ck(gp.as_ref().map(|t| t.encoded()) == Some(tok), "get_position_is_not_the_token");
    l.ck(gp == p.tokens().nth(info.pos), "get_position_ne_tokens_nth");
    let want_off: usize = toks[..info.pos].iter().map(|t| 1 + t.len()).sum();
    l.ck(info.off == want_off, "offset_not_sum_of_preceding_tokens");
    match p.split_at(info.off) {
        None => l.fail("split_at_offset_is_none"),
        Some((h, t)) => {
            l.ck(h.len() == info.off && format!("{}{}", h.as_str(), t.as_str()) == text, "split_at_offset_pieces");
            l.ck(t.as_str().strip_prefix('/').map_or(false, |r| r.starts_with(tok)), "tail_does_not_start_with_token");
            // the token must end right there (next byte is a separator or the end)
            let after = 1 + tok.len();
            l.ck(t.len() == after || t.as_str().as_bytes().get(after) == Some(&b'/'), "tail_token_boundary");
        }
    }
    match (&info.pl, info.kind) {
        (Pl::Oob { index, length }, Kind::Oob) => {
            if let (Some(len), true) = (exp.arr_len, info.pos == exp.pos) {
                let requested = match ref_index(tok) {
                    RefIdx::Next => Some(len),
                    RefIdx::Num(k) => Some(k),
                    RefIdx::Bad => None,
                };
                l.ck(*length == len, "oob_length_is_not_the_array_length");
                l.ck(Some(*index) == requested, "oob_index_is_not_the_requested_index");
            }
        }
        (Pl::Pie(e), Kind::Parse) => l.res(pie_truthful(e, tok)),
        (Pl::None, Kind::NotFound | Kind::Unreachable) => {}
        _ => l.fail("payload_kind_mismatch"),
    }
    match info.label {
        None => l.fail("labels_panicked"),
        Some(None) => l.fail("no_label"),
        Some(Some((off, len))) => {
            l.ck(len == tok.len(), "label_length_is_not_token_length");
            if len > 0 {
                l.ck(off == info.off + 1, "label_offset_is_not_token_start");
            } else {
                // an empty token's span is empty and sits where the token's bytes would be — right behind its `/` — whenever the pointer
                // goes on after it (`/a//b`: between the two slashes); for a trailing empty token either end of its `/` is accepted
                if info.off + 1 < text.len() {
                    l.ck(off == info.off + 1, "empty_label_is_not_behind_the_slash_of_its_token");
                } else {
                    l.ck((off == info.off || off == info.off + 1) && off <= text.len(), "empty_label_misplaced");
                }
            }
            l.ck(off.checked_add(len).map_or(false, |e| e <= text.len()), "label_past_end");
        }
    }
}

// ---------------------------------------------------------------------------------------------
// resolve / resolve_mut
// ---------------------------------------------------------------------------------------------

fn fmt_loc_of<B: Be>(doc: &B, addr: *const B) -> String {
    match find_addr(doc, addr) {
        Some(path) => loc(&path),
        None => "loc(?)".to_string(),
    }
}

pub fn op_resolve<B: Be>(mut doc: B, p: &Pointer, mutable: bool) -> String {
    let mut o = Out::new();
    let toks = split_enc(p.as_str());

    // the other flavour first (address only)
    let other: Result<*const B, resolve::Error> = if mutable {
        doc.resolve(p).map(|r| r as *const B)
    } else {
        doc.resolve_mut(p).map(|r| r as *const B)
    };
    let reference: Result<*const B, RefFail> = ref_walk(&doc, &toks).map(|(n, _)| n as *const B);

    let primary: Result<(*const B, Doc), resolve::Error> = if mutable {
        doc.resolve_mut(p).map(|r| (r as *const B, r.to_doc()))
    } else {
        doc.resolve(p).map(|r| (r as *const B, r.to_doc()))
    };

    let info = primary.as_ref().err().map(|e| info_resolve(e, p));
    match &primary {
        Ok((addr, val)) => {
            o.f("r", &format!("ok({})", fmt_loc_of(&doc, *addr)));
            o.f("val", &val.print());
        }
        Err(_) => {
            o.f("r", &format!("err({})", info.as_ref().unwrap().kind.s()));
            o.f("val", "none");
        }
    }
    emit_locate(&mut o, p, info.as_ref());

    let mut law_walk = Law::new();
    match (&primary, &reference) {
        (Ok((addr, _)), Ok(raddr)) => law_walk.ck(addr == raddr, "reached_a_different_node"),
        (Err(_), Err(rf)) => {
            law_walk.ck(info.as_ref().unwrap().kind == rf.kind, "error_kind_differs");
            // "the error names the first step that fails"
            law_walk.ck(info.as_ref().unwrap().pos == rf.pos, "error_names_a_different_step");
        }
        (Ok(_), Err(_)) => law_walk.fail("ok_where_reference_walk_fails"),
        (Err(_), Ok(_)) => law_walk.fail("error_where_reference_walk_succeeds"),
    }
    let mut law_locate = Law::new();
    if let Some(i) = &info {
        locate_law(&mut law_locate, p, i, reference.as_ref().map(|_| ()));
        // the same label as a report renders it: error + subject -> `Report` -> `miette::Diagnostic::labels`
        if let Some(Err(e2)) = guard(|| doc.resolve(p).map(|_| ())) {
            let rep = jsonptr::diagnostic::Diagnostic::into_report(e2, p.to_buf());
            let via = guard(|| miette::Diagnostic::labels(&rep).and_then(|mut it| it.next()).map(|ls| (ls.offset(), ls.len())));
            law_locate.ck(via == i.label, "report_label_differs_from_the_error_label");
        }
    }
    let mut law_mut_same = Law::new();
    match (&primary, &other) {
        (Ok((a, _)), Ok(b)) => law_mut_same.ck(a == b, "different_node"),
        (Err(a), Err(b)) => law_mut_same.ck(a == b, "different_error"),
        _ => law_mut_same.fail("different_outcome"),
    }
    // the inherent entry points `Pointer::resolve` / `Pointer::resolve_mut` forward to the trait
    let mut law_fwd = Law::new();
    {
        let via: Option<Result<*const B, resolve::Error>> = if mutable {
            guard(|| p.resolve_mut(&mut doc).map(|r| r as *const B))
        } else {
            guard(|| p.resolve(&doc).map(|r| r as *const B))
        };
        match (&primary, &via) {
            (_, None) => law_fwd.fail("panic"),
            (Ok((a, _)), Some(Ok(b))) => law_fwd.ck(a == b, "pointer_method_reaches_a_different_node"),
            (Err(a), Some(Err(b))) => law_fwd.ck(a == b, "pointer_method_gives_a_different_error"),
            _ => law_fwd.fail("pointer_method_gives_a_different_outcome"),
        }
    }
    // "for every node of every document the pointer built from its path resolves to that node" — with the pointers built
    // through the crate's own builders (small documents only: the law visits every node)
    let mut law_nodes = Law::new();
    if !mutable && doc.to_doc().print().len() <= 400 {
        law_nodes.res(nodes_law(&doc));
    }
    o.law("law_nodes", &law_nodes);
    o.law("law_walk", &law_walk);
    o.law("law_locate", &law_locate);
    o.law("law_mut_same", &law_mut_same);
    o.law("law_fwd", &law_fwd);
    o.finish()
}

// ---------------------------------------------------------------------------------------------
// frame comparison
// ---------------------------------------------------------------------------------------------

enum Rel {
    /// proper prefix of the touched location: look at the children
    Descend,
    /// at or below the touched location: ignore
    Skip,
    /// unrelated: must be unchanged
    Compare,
}

fn frame_check<B: Be>(old: &B, new: &B, rel: &dyn Fn(&[Step]) -> Rel) -> Result<(), String> {
    let mut res: Result<(), String> = Ok(());
    visit(old, &mut |path, node| {
        if res.is_err() {
            return false;
        }
        match rel(path) {
            Rel::Descend => true,
            Rel::Skip => false,
            Rel::Compare => {
                match at_path(new, path) {
                    Some(n) if n == node => {}
                    Some(_) => res = Err(format!("changed_at_{}", loc(path))),
                    None => res = Err(format!("missing_at_{}", loc(path))),
                }
                false
            }
        }
    });
    res
}

fn rel_steps(touched: &[Step]) -> impl Fn(&[Step]) -> Rel + '_ {
    move |x: &[Step]| {
        let common = x.iter().zip(touched).take_while(|(a, b)| a == b).count();
        if common == touched.len() {
            Rel::Skip
        } else if common == x.len() {
            Rel::Descend
        } else {
            Rel::Compare
        }
    }
}

fn rel_tokens(ptoks: &[String]) -> impl Fn(&[Step]) -> Rel + '_ {
    move |x: &[Step]| {
        let common = x.iter().zip(ptoks).take_while(|(a, b)| a.token_text() == **b).count();
        if common == ptoks.len() {
            Rel::Skip
        } else if common == x.len() {
            Rel::Descend
        } else {
            Rel::Compare
        }
    }
}

// ---------------------------------------------------------------------------------------------
// write
// ---------------------------------------------------------------------------------------------

fn kind_of_resolve(e: &resolve::Error) -> Kind {
    match e {
        resolve::Error::FailedToParseIndex { .. } => Kind::Parse,
        resolve::Error::OutOfBounds { .. } => Kind::Oob,
        resolve::Error::NotFound { .. } => Kind::NotFound,
        resolve::Error::Unreachable { .. } => Kind::Unreachable,
    }
}

fn do_write<B: Be>(doc: &mut B, p: &Pointer, v: &B) -> String {
    match doc.resolve_mut(p) {
        Ok(node) => {
            *node = v.clone();
            "ok".to_string()
        }
        Err(e) => format!("err({})", kind_of_resolve(&e).s()),
    }
}

pub fn op_write<B: Be>(mut doc: B, p: &Pointer, v: B) -> String {
    let mut o = Out::new();
    let old = doc.clone();
    let toks = split_enc(p.as_str());
    let r = do_write(&mut doc, p, &v);
    let ok = r == "ok";
    o.f("r", &r);
    o.f("doc", &doc.to_doc().print());
    let rb = doc.resolve(p);
    match &rb {
        Ok(n) => o.f("rb", &n.to_doc().print()),
        Err(e) => o.f("rb", &format!("err({})", kind_of_resolve(e).s())),
    }
    let mut law = Law::new();
    if ok {
        law.ck(matches!(&rb, Ok(n) if **n == v), "read_back_is_not_the_written_value");
        match ref_walk(&old, &toks) {
            Ok((_, path)) => law.res(frame_check(&old, &doc, &rel_steps(&path))),
            Err(_) => law.fail("ok_where_reference_walk_fails"),
        }
    } else {
        law.ck(doc == old, "document_changed_on_error");
    }
    o.law("law_write", &law);
    o.finish()
}

// ---------------------------------------------------------------------------------------------
// assign
// ---------------------------------------------------------------------------------------------

fn fmt_assign_r<B: Be>(r: &Result<Option<B>, assign::Error>) -> String {
    match r {
        Ok(None) => "ok(none)".to_string(),
        Ok(Some(v)) => format!("ok(some({}))", v.to_doc().print()),
        Err(assign::Error::FailedToParseIndex { .. }) => "err(parse)".to_string(),
        Err(assign::Error::OutOfBounds { .. }) => "err(oob)".to_string(),
    }
}

pub fn op_assign<B: Be>(mut doc: B, p: &Pointer, v: B) -> String {
    let mut o = Out::new();
    let old = doc.clone();
    let toks = split_enc(p.as_str());
    let r: Result<Option<B>, assign::Error> = doc.assign(p, v.clone());
    o.f("r", &fmt_assign_r(&r));
    o.f("doc", &doc.to_doc().print());
    let info = r.as_ref().err().map(|e| info_assign(e, p));
    emit_locate(&mut o, p, info.as_ref());

    // the same call on an `==` document whose arrays have spare capacity must give the same outcome
    let mut law_slack = Law::new();
    {
        let mut slack = old.with_slack();
        let r2: Result<Option<B>, assign::Error> = slack.assign(p, v.clone());
        law_slack.ck(fmt_assign_r(&r2) == fmt_assign_r(&r), "result_depends_on_capacity");
        law_slack.ck(slack == doc, "document_depends_on_capacity");
        if let (Err(a), Err(b)) = (&r, &r2) { law_slack.ck(a == b, "error_depends_on_capacity"); }
    }
    let mut law_atomic = Law::new();
    if r.is_err() {
        law_atomic.ck(doc == old, "document_changed_on_error");
    }
    let mut law_ryw = Law::new();
    if r.is_ok() {
        match ryw_walk(&doc, &toks) {
            // identity of the value, not `==`: `0.0 == -0.0` for both backends, yet they are different values
            Some(n) => law_ryw.ck(*n == v && n.to_doc().print() == v.to_doc().print(), "reads_a_different_value"),
            None => law_ryw.fail("pointer_does_not_resolve_afterwards"),
        }
    }
    let mut law_frame = Law::new();
    {
        let ptoks: Vec<String> = toks.iter().map(|t| unescape(t)).collect();
        law_frame.res(frame_check(&old, &doc, &rel_tokens(&ptoks)));
    }
    let mut law_replaced = Law::new();
    {
        if let Ok((node, _)) = ref_walk(&old, &toks) {
            match &r {
                Ok(Some(x)) => law_replaced.ck(x == node && x.to_doc().print() == node.to_doc().print(), "returned_value_is_not_the_old_value"),
                Ok(None) => law_replaced.fail("none_although_pointer_resolved"),
                Err(_) => law_replaced.fail("error_although_pointer_resolved"),
            }
        }
        if let Ok(None) = &r {
            let mut res: Result<(), String> = Ok(());
            visit(&old, &mut |path, node| {
                if res.is_err() {
                    return false;
                }
                match at_path(&doc, path) {
                    None => res = Err(format!("lost_{}", loc(path))),
                    Some(n) => {
                        if node.is_scalar() && n != node {
                            res = Err(format!("scalar_changed_at_{}", loc(path)));
                        }
                    }
                }
                true
            });
            law_replaced.res(res);
        }
    }
    let mut law_idem = Law::new();
    if r.is_ok() && !toks.iter().any(|t| *t == "-") {
        let mut again = doc.clone();
        match again.assign(p, v.clone()) {
            Ok(Some(x)) => law_idem.ck(x == v && x.to_doc().print() == v.to_doc().print(), "second_assign_returned_another_value"),
            Ok(None) => law_idem.fail("second_assign_returned_none"),
            Err(_) => law_idem.fail("second_assign_failed"),
        }
        law_idem.ck(again == doc, "second_assign_changed_the_document");
    }
    let mut law_locate = Law::new();
    if let Some(i) = &info {
        let reference = ref_assign_walk(&old, &toks);
        locate_law(&mut law_locate, p, i, reference.as_ref().map(|_| ()));
        let mut again = old.clone();
        if let Some(Err(e2)) = guard(|| again.assign(p, v.clone()).map(|_| ())) {
            let rep = jsonptr::diagnostic::Diagnostic::into_report(e2, p.to_buf());
            let via = guard(|| miette::Diagnostic::labels(&rep).and_then(|mut it| it.next()).map(|ls| (ls.offset(), ls.len())));
            law_locate.ck(via == i.label, "report_label_differs_from_the_error_label");
        }
    }
    o.law("law_atomic", &law_atomic);
    o.law("law_ryw", &law_ryw);
    o.law("law_frame", &law_frame);
    o.law("law_replaced", &law_replaced);
    o.law("law_idem", &law_idem);
    // the inherent entry point `Pointer::assign` forwards to the trait
    let mut law_fwd = Law::new();
    {
        let mut c = old.clone();
        match guard(|| { let r3: Result<Option<B>, assign::Error> = p.assign(&mut c, v.clone()); r3 }) {
            None => law_fwd.fail("panic"),
            Some(r3) => {
                law_fwd.ck(fmt_assign_r(&r3) == fmt_assign_r(&r), "pointer_method_gives_a_different_result");
                if let (Err(a), Err(b)) = (&r, &r3) { law_fwd.ck(a == b, "pointer_method_gives_a_different_error"); }
            }
        }
        law_fwd.ck(c.to_doc() == doc.to_doc(), "pointer_method_leaves_a_different_document");
    }
    o.law("law_locate", &law_locate);
    o.law("law_slack", &law_slack);
    o.law("law_fwd", &law_fwd);
    o.finish()
}

// ---------------------------------------------------------------------------------------------
// delete
// ---------------------------------------------------------------------------------------------

fn fmt_delete_r<B: Be>(r: &Option<Option<B>>) -> String {
    match r {
        None => "panic".to_string(),
        Some(None) => "none".to_string(),
        Some(Some(v)) => format!("some({})", v.to_doc().print()),
    }
}

/// Removes the node at `path` (non-empty) from a neutral document.
fn doc_remove(d: &mut Doc, path: &[Step]) -> bool {
    let (last, parent_path) = match path.split_last() {
        Some(x) => x,
        None => return false,
    };
    let mut cur = d;
    for s in parent_path {
        cur = match (s, cur) {
            (Step::K(k), Doc::Obj(m)) => match m.get_mut(k) {
                Some(c) => c,
                None => return false,
            },
            (Step::I(i), Doc::Arr(v)) => match v.get_mut(*i) {
                Some(c) => c,
                None => return false,
            },
            _ => return false,
        };
    }
    match (last, cur) {
        (Step::K(k), Doc::Obj(m)) => m.remove(k).is_some(),
        (Step::I(i), Doc::Arr(v)) => {
            if *i < v.len() {
                v.remove(*i);
                true
            } else {
                false
            }
        }
        _ => false,
    }
}

pub fn op_delete<B: Be>(mut doc: B, p: &Pointer) -> String {
    let mut o = Out::new();
    let old = doc.clone();
    // value identity, not `==`: a toml float may be NaN (`nan != nan`), and `0.0 == -0.0` are different values
    let same = |a: &B, b: &B| a.to_doc() == b.to_doc();
    let toks = split_enc(p.as_str());
    let r: Option<Option<B>> = guard(|| doc.delete(p));
    o.f("r", &fmt_delete_r(&r));
    o.f("doc", &doc.to_doc().print());
    let mut law_slack = Law::new();
    {
        let mut slack = old.with_slack();
        let r2: Option<Option<B>> = guard(|| slack.delete(p));
        law_slack.ck(fmt_delete_r(&r2) == fmt_delete_r(&r), "result_depends_on_capacity");
        law_slack.ck(same(&slack, &doc), "document_depends_on_capacity");
    }

    let reference = ref_walk(&old, &toks);
    let mut law_agrees = Law::new();
    let mut law_none_unchanged = Law::new();
    let mut law_removed = Law::new();
    let mut law_root = Law::new();
    match &r {
        None => law_agrees.fail("panic"),
        Some(None) => {
            law_agrees.ck(reference.is_err(), "none_although_pointer_resolves");
            law_none_unchanged.ck(same(&doc, &old), "document_changed");
        }
        Some(Some(v)) => {
            match &reference {
                Ok((node, path)) => {
                    law_agrees.ck(same(v, node), "returned_value_is_not_the_resolved_value");
                    if !path.is_empty() {
                        let mut want = old.to_doc();
                        if doc_remove(&mut want, path) {
                            law_removed.ck(doc.to_doc() == want, "document_is_not_old_minus_that_node");
                        } else {
                            law_removed.fail("reference_removal_failed");
                        }
                        // "… with just that object member removed": the members that stay keep their order (visible when
                        // the map type iterates in insertion order — a `swap_remove` moves the last member into the hole)
                        let ptoks = &toks[..toks.len() - 1];
                        if let (Ok((po, _)), Ok((pn, _))) = (ref_walk(&old, ptoks), ref_walk(&doc, ptoks)) {
                            if po.is_obj() && pn.is_obj() {
                                let (mut ko, mut kn): (Vec<String>, Vec<String>) = (Vec::new(), Vec::new());
                                po.each_member(&mut |k, _| ko.push(k.to_string()));
                                pn.each_member(&mut |k, _| kn.push(k.to_string()));
                                let gone = unescape(toks[toks.len() - 1]);
                                ko.retain(|k| *k != gone);
                                law_removed.ck(ko == kn, "remaining_members_changed_their_order");
                            }
                        }
                    }
                }
                Err(_) => law_agrees.fail("some_although_pointer_does_not_resolve"),
            }
            if toks.is_empty() {
                law_root.ck(same(v, &old), "root_delete_did_not_return_the_document");
                law_root.ck(same(&doc, &B::deleted_root()), "root_delete_left_something_else");
            }
        }
    }
    if toks.is_empty() && !matches!(&r, Some(Some(_))) {
        law_root.fail("root_delete_did_not_return_some");
    }
    o.law("law_agrees", &law_agrees);
    o.law("law_none_unchanged", &law_none_unchanged);
    o.law("law_removed", &law_removed);
    // the inherent entry point `Pointer::delete` forwards to the trait
    let mut law_fwd = Law::new();
    {
        let mut c = old.clone();
        let r3: Option<Option<B>> = guard(|| p.delete(&mut c));
        law_fwd.ck(fmt_delete_r(&r3) == fmt_delete_r(&r), "pointer_method_gives_a_different_result");
        law_fwd.ck(c.to_doc() == doc.to_doc(), "pointer_method_leaves_a_different_document");
    }
    o.law("law_root", &law_root);
    o.law("law_slack", &law_slack);
    o.law("law_fwd", &law_fwd);
    o.finish()
}

// ---------------------------------------------------------------------------------------------
// tree_hist
// ---------------------------------------------------------------------------------------------

enum TStep<B> {
    As(String, B),
    De(String),
    Re(String),
    Wr(String, B),
}

fn parse_ptr_text(f: &str) -> Option<String> {
    let s = parse_x(f)?;
    Pointer::parse(&s).ok()?;
    Some(s)
}

fn parse_tstep<B: Be>(f: &str) -> Option<TStep<B>> {
    let parts: Vec<&str> = f.split('@').collect();
    Some(match parts.as_slice() {
        ["as", p, d] => TStep::As(parse_ptr_text(p)?, B::from_doc(&Doc::parse(d)?)?),
        ["de", p] => TStep::De(parse_ptr_text(p)?),
        ["re", p] => TStep::Re(parse_ptr_text(p)?),
        ["wr", p, d] => TStep::Wr(parse_ptr_text(p)?, B::from_doc(&Doc::parse(d)?)?),
        _ => return None,
    })
}

/// Every node resolves by the pointer spelled from its path, to that very node.
fn nodes_law<B: Be>(doc: &B) -> Result<(), String> {
    let mut res: Result<(), String> = Ok(());
    visit(doc, &mut |path, node| {
        if res.is_err() {
            return false;
        }
        let mut buf = PointerBuf::new();
        for s in path {
            match s {
                Step::K(k) => buf.push_back(Token::new(k.as_str())),
                Step::I(i) => buf.push_back(Token::from(*i)),
            }
        }
        if path.len() == 1 {
            // the other public ways of building a one-token pointer from a key / an index must address the same node
            let alts: Vec<(&str, PointerBuf)> = match &path[0] {
                Step::K(k) => vec![
                    ("from_token", PointerBuf::from(Token::new(k.as_str()))),
                    ("from_tokens", PointerBuf::from_tokens([k.as_str()])),
                    ("with_trailing_token", Pointer::root().with_trailing_token(k.as_str())),
                    ("with_leading_token", Pointer::root().with_leading_token(k.as_str())),
                ],
                Step::I(i) => vec![("from_usize", PointerBuf::from(*i)), ("from_tokens", PointerBuf::from_tokens([*i]))],
            };
            for (name, alt) in alts {
                match guard(|| doc.resolve(&alt).map(|r| r as *const B)) {
                    Some(Ok(addr)) if std::ptr::eq(addr, node as *const B) => {}
                    _ => {
                        res = Err(format!("pointer_built_by_{name}_does_not_address_{}", loc(path)));
                        return false;
                    }
                }
            }
        }
        match guard(|| doc.resolve(&buf).map(|r| r as *const B)) {
            None => res = Err(format!("resolve_panicked_at_{}", loc(path))),
            Some(Ok(addr)) => {
                if !std::ptr::eq(addr, node as *const B) {
                    res = Err(format!("resolves_to_another_node_at_{}", loc(path)));
                }
            }
            Some(Err(_)) => res = Err(format!("does_not_resolve_at_{}", loc(path))),
        }
        true
    });
    res
}

fn err_wellformed(p: &Pointer, pos: usize, off: usize) -> Result<(), String> {
    let toks = split_enc(p.as_str());
    if pos >= toks.len() {
        return Err("error_position_past_last_token".to_string());
    }
    let want: usize = toks[..pos].iter().map(|t| 1 + t.len()).sum();
    if off != want || p.split_at(off).is_none() {
        return Err("error_offset_is_not_the_separator_of_its_token".to_string());
    }
    Ok(())
}

pub fn op_tree_hist<B: Be>(mut doc: B, steps: &[&str]) -> Option<String> {
    let steps: Vec<TStep<B>> = steps.iter().map(|s| parse_tstep::<B>(s)).collect::<Option<Vec<_>>>()?;
    let mut law_nopanic = Law::new();
    let mut law_nodes = Law::new();
    law_nodes.res(nodes_law(&doc).map_err(|e| format!("initial_{e}")));
    // "all pointers and error values produced along the way stay well formed": an error names an existing token of
    // the pointer and its offset is the separator introducing that token
    let law_wf_cell = std::cell::RefCell::new(Law::new());
    struct WfProxy<'a>(&'a std::cell::RefCell<Law>);
    impl<'a> WfProxy<'a> {
        fn res(&self, r: Result<(), String>) {
            self.0.borrow_mut().res(r)
        }
    }
    let law_wf = WfProxy(&law_wf_cell);
    let mut outs = Vec::with_capacity(steps.len());
    for (si, st) in steps.iter().enumerate() {
        let ret: Option<String> = match st {
            TStep::As(pt, v) => {
                let p = Pointer::parse(pt.as_str()).ok()?;
                guard(|| {
                    let r = doc.assign(p, v.clone());
                    if let Err(e) = &r {
                        law_wf.res(err_wellformed(p, e.position(), e.offset()).map_err(|w| format!("step{si}_assign_{w}")));
                        if let assign::Error::FailedToParseIndex { source, position, .. } = e {
                            // the reason quotes the token as it is written in the pointer
                            if let Some(tok) = split_enc(p.as_str()).get(*position) {
                                law_wf.res(crate::serve::ops_text::pie_truthful(source, tok).map_err(|w| format!("step{si}_assign_reason_{w}")));
                            }
                        }
                    }
                    fmt_assign_r(&r)
                })
            }
            TStep::De(pt) => {
                let p = Pointer::parse(pt.as_str()).ok()?;
                guard(|| doc.delete(p)).map(|r| fmt_delete_r(&Some(r)))
            }
            TStep::Re(pt) => {
                let p = Pointer::parse(pt.as_str()).ok()?;
                guard(|| match doc.resolve(p) {
                    Ok(n) => format!("ok({})", fmt_loc_of(&doc, n as *const B)),
                    Err(e) => {
                        law_wf.res(err_wellformed(p, e.position(), e.offset()).map_err(|w| format!("step{si}_resolve_{w}")));
                        if let resolve::Error::FailedToParseIndex { source, position, .. } = &e {
                            if let Some(tok) = split_enc(p.as_str()).get(*position) {
                                law_wf.res(crate::serve::ops_text::pie_truthful(source, tok).map_err(|w| format!("step{si}_resolve_reason_{w}")));
                            }
                        }
                        format!("err({})", kind_of_resolve(&e).s())
                    }
                })
            }
            TStep::Wr(pt, v) => {
                let p = Pointer::parse(pt.as_str()).ok()?;
                guard(|| do_write(&mut doc, p, v))
            }
        };
        let ret = match ret {
            Some(r) => r,
            None => {
                law_nopanic.fail(&format!("step{si}_panicked"));
                "panic".to_string()
            }
        };
        outs.push(format!("{}|{}", ret, doc.to_doc().print()));
        if law_nodes.is_ok() {
            law_nodes.res(nodes_law(&doc).map_err(|e| format!("step{si}_{e}")));
        }
    }
    let mut o = Out::new();
    o.f("steps", &outs.join(";"));
    o.law("law_nopanic", &law_nopanic);
    o.law("law_nodes", &law_nodes);
    o.law("law_wf", &law_wf_cell.borrow());
    Some(o.finish())
}

// ---------------------------------------------------------------------------------------------
// deep N — one pointer of N tokens against documents that exist only along it (C05 C06 C08 C10): the walks of the crate use
// constant stack, so depth must not matter. Everything the harness does here is iterative (no recursive printing, comparing
// or dropping of the N-deep document), and `jpserve` runs on a thread with an ordinary 2 MiB stack.
// ---------------------------------------------------------------------------------------------

macro_rules! deep_impl {
    ($name:ident, $V:ty, $leaf:expr, $start:expr, $arr:path, $obj:path) => {
        pub fn $name(n: usize) -> String {
            use jsonptr::{assign::Assign, delete::Delete, resolve::Resolve};
            let mut o = Out::new();
            let mut law = Law::new();
            for tok in ["0", "a", "-"] {
                let text = format!("/{tok}").repeat(n);
                let p = match Pointer::parse(&text) {
                    Ok(p) => p,
                    Err(_) => return "bad_op=1".to_string(),
                };
                let mut doc: $V = $start;
                let r = guard(|| doc.assign(p, $leaf));
                if !matches!(r, Some(Ok(_))) {
                    law.fail(&format!("assign_{tok}_{}", if r.is_none() { "panicked" } else { "failed" }));
                    continue;
                }
                // iterative descent: every level is a one-element container of the kind the token asks for
                let mut cur: &$V = &doc;
                let mut ok = true;
                for _ in 0..n {
                    cur = match cur {
                        $arr(v) if tok != "a" && v.len() == 1 => &v[0],
                        $obj(m) if tok == "a" && m.len() == 1 => match m.get("a") {
                            Some(c) => c,
                            None => {
                                ok = false;
                                break;
                            }
                        },
                        _ => {
                            ok = false;
                            break;
                        }
                    };
                }
                law.ck(ok && *cur == $leaf, &format!("assign_{tok}_document_is_not_the_expansion"));
                if tok != "-" && ok {
                    match guard(|| doc.resolve(p).map(|r| std::ptr::eq(r, cur))) {
                        Some(Ok(true)) => {}
                        Some(Ok(false)) => law.fail(&format!("resolve_{tok}_another_node")),
                        Some(Err(_)) => law.fail(&format!("resolve_{tok}_failed")),
                        None => law.fail(&format!("resolve_{tok}_panicked")),
                    }
                    match guard(|| doc.delete(p)) {
                        Some(Some(v)) => law.ck(v == $leaf, &format!("delete_{tok}_returned_another_value")),
                        Some(None) => law.fail(&format!("delete_{tok}_returned_none")),
                        None => law.fail(&format!("delete_{tok}_panicked")),
                    }
                }
                // iterative drop
                loop {
                    let child: Option<$V> = match &mut doc {
                        $arr(v) => v.pop(),
                        $obj(m) => m.remove("a"),
                        _ => None,
                    };
                    match child {
                        Some(c) => doc = c,
                        None => break,
                    }
                }
            }
            o.law("law_deep", &law);
            o.finish()
        }
    };
}
deep_impl!(op_deep_json, serde_json::Value, serde_json::Value::from(7), serde_json::Value::Null, serde_json::Value::Array, serde_json::Value::Object);
deep_impl!(op_deep_toml, toml::Value, toml::Value::Integer(7), toml::Value::Integer(0), toml::Value::Array, toml::Value::Table);
