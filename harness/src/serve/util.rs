//! Lexical helpers, output builder, law verdicts and the independent RFC 6901 reference code
//! (recogniser, split, escape, unescape).  Nothing in here calls the crate under test.

use std::panic::{catch_unwind, AssertUnwindSafe};

// ---------------------------------------------------------------------------------------------
// hex
// ---------------------------------------------------------------------------------------------

const HEXD: &[u8; 16] = b"0123456789abcdef";

pub fn hex_into(out: &mut String, bytes: &[u8]) {
    out.reserve(bytes.len() * 2);
    for &b in bytes {
        out.push(HEXD[(b >> 4) as usize] as char);
        out.push(HEXD[(b & 15) as usize] as char);
    }
}

pub fn hex(bytes: &[u8]) -> String {
    let mut s = String::new();
    hex_into(&mut s, bytes);
    s
}

/// `xHEX` of a string.
pub fn xh(s: &str) -> String {
    let mut o = String::with_capacity(1 + 2 * s.len());
    o.push('x');
    hex_into(&mut o, s.as_bytes());
    o
}

fn hexval(b: u8) -> Option<u8> {
    match b {
        b'0'..=b'9' => Some(b - b'0'),
        b'a'..=b'f' => Some(b - b'a' + 10),
        _ => None,
    }
}

/// Lowercase hex (no prefix) to bytes.
pub fn unhex(s: &[u8]) -> Option<Vec<u8>> {
    if s.len() % 2 != 0 {
        return None;
    }
    let mut v = Vec::with_capacity(s.len() / 2);
    let mut i = 0;
    while i < s.len() {
        v.push(hexval(s[i])? << 4 | hexval(s[i + 1])?);
        i += 2;
    }
    Some(v)
}

/// Parses an `xHEX` field into a UTF-8 string.
pub fn parse_x(f: &str) -> Option<String> {
    let b = f.as_bytes();
    if b.first() != Some(&b'x') {
        return None;
    }
    String::from_utf8(unhex(&b[1..])?).ok()
}

/// Parses a decimal `usize` (digits only).
pub fn parse_n(f: &str) -> Option<usize> {
    if f.is_empty() || !f.bytes().all(|b| b.is_ascii_digit()) {
        return None;
    }
    f.parse::<usize>().ok()
}

// ---------------------------------------------------------------------------------------------
// output
// ---------------------------------------------------------------------------------------------

pub struct Out {
    buf: String,
}

impl Out {
    pub fn new() -> Self {
        Out { buf: String::with_capacity(256) }
    }
    pub fn f(&mut self, key: &str, val: &str) {
        if !self.buf.is_empty() {
            self.buf.push(' ');
        }
        self.buf.push_str(key);
        self.buf.push('=');
        self.buf.push_str(val);
    }
    pub fn law(&mut self, key: &str, law: &Law) {
        let v = law.render();
        self.f(key, &v);
    }
    pub fn finish(self) -> String {
        self.buf
    }
}

/// A law verdict; remembers the first failure only.
pub struct Law {
    fail: Option<String>,
}

impl Law {
    pub fn new() -> Self {
        Law { fail: None }
    }
    pub fn ck(&mut self, cond: bool, why: &str) {
        if !cond && self.fail.is_none() {
            self.fail = Some(why.to_string());
        }
    }
    pub fn fail(&mut self, why: &str) {
        self.ck(false, why);
    }
    pub fn res(&mut self, r: Result<(), String>) {
        if let Err(e) = r {
            self.fail(&e);
        }
    }
    pub fn is_ok(&self) -> bool {
        self.fail.is_none()
    }
    /// take over another law's first failure, if this one has none yet
    pub fn merge(&mut self, other: &Law) {
        if let (None, Some(w)) = (&self.fail, &other.fail) {
            self.fail = Some(w.clone());
        }
    }
    pub fn render(&self) -> String {
        match &self.fail {
            None => "ok".to_string(),
            Some(w) => {
                let mut s = String::from("FAIL(");
                for c in w.chars().take(96) {
                    if c.is_ascii_graphic() && c != '(' && c != ')' {
                        s.push(c);
                    } else {
                        s.push('_');
                    }
                }
                s.push(')');
                s
            }
        }
    }
}

pub fn list(items: impl IntoIterator<Item = String>) -> String {
    let mut s = String::from("[");
    let mut first = true;
    for it in items {
        if !first {
            s.push(',');
        }
        first = false;
        s.push_str(&it);
    }
    s.push(']');
    s
}

pub fn opt(o: Option<String>) -> String {
    match o {
        None => "none".to_string(),
        Some(s) => format!("some({s})"),
    }
}

pub fn opt_plain(o: Option<String>) -> String {
    o.unwrap_or_else(|| "none".to_string())
}

pub fn b01(b: bool) -> &'static str {
    if b {
        "1"
    } else {
        "0"
    }
}

/// Runs `f`, converting a panic into `None`.
pub fn guard<R>(f: impl FnOnce() -> R) -> Option<R> {
    catch_unwind(AssertUnwindSafe(f)).ok()
}

/// `VIEW` of `res` relative to the receiver text `recv` (address arithmetic).
pub fn view(recv: &str, res: &str) -> String {
    if res.is_empty() {
        return "view(_,0)".to_string();
    }
    match view_off(recv, res) {
        Some(off) => format!("view({},{})", off, res.len()),
        None => format!("view(!,{})", res.len()),
    }
}

/// Offset of a non-empty `res` inside `recv`'s buffer, if it lies inside.
pub fn view_off(recv: &str, res: &str) -> Option<usize> {
    let rp = recv.as_ptr() as usize;
    let sp = res.as_ptr() as usize;
    if sp >= rp && sp + res.len() <= rp + recv.len() {
        Some(sp - rp)
    } else {
        None
    }
}

/// At most `cap` positions spread over `0..=max` (all of them when there are few), always
/// containing both ends.
pub fn sample_positions(max: usize, cap: usize) -> Vec<usize> {
    if max < cap {
        return (0..=max).collect();
    }
    let mut v = Vec::with_capacity(cap + 1);
    let steps = cap - 1;
    for i in 0..=steps {
        // i * max / steps without overflow for realistic sizes
        let p = ((i as u128) * (max as u128) / (steps as u128)) as usize;
        if v.last() != Some(&p) {
            v.push(p);
        }
    }
    v
}

// ---------------------------------------------------------------------------------------------
// independent RFC 6901 reference
// ---------------------------------------------------------------------------------------------

/// Index of the first `~` that is not followed by `0` or `1`.
pub fn first_bad_tilde(s: &str) -> Option<usize> {
    let b = s.as_bytes();
    let mut i = 0;
    while i < b.len() {
        if b[i] == b'~' {
            if i + 1 < b.len() && (b[i + 1] == b'0' || b[i + 1] == b'1') {
                i += 2;
                continue;
            }
            return Some(i);
        }
        i += 1;
    }
    None
}

/// json-pointer = *( "/" reference-token )
pub fn valid_pointer(s: &str) -> bool {
    (s.is_empty() || s.as_bytes()[0] == b'/') && first_bad_tilde(s).is_none()
}

/// reference-token = *( unescaped / "~0" / "~1" ), no raw '/'
pub fn valid_token(s: &str) -> bool {
    !s.as_bytes().contains(&b'/') && first_bad_tilde(s).is_none()
}

/// Least index that is a `/` or a `~` not followed by `0`/`1` (token scanner's first offence).
pub fn first_token_offence(s: &str) -> Option<usize> {
    let b = s.as_bytes();
    let mut i = 0;
    while i < b.len() {
        match b[i] {
            b'/' => return Some(i),
            b'~' => {
                if i + 1 < b.len() && (b[i + 1] == b'0' || b[i + 1] == b'1') {
                    i += 2;
                    continue;
                }
                return Some(i);
            }
            _ => {}
        }
        i += 1;
    }
    None
}

pub fn escape(s: &str) -> String {
    let mut o = String::with_capacity(s.len() + 2);
    for c in s.chars() {
        match c {
            '~' => o.push_str("~0"),
            '/' => o.push_str("~1"),
            c => o.push(c),
        }
    }
    o
}

/// Left-to-right decode of a (valid) encoded token. Stray `~` are kept verbatim.
pub fn unescape(s: &str) -> String {
    let mut o = String::with_capacity(s.len());
    let mut it = s.chars().peekable();
    while let Some(c) = it.next() {
        if c == '~' {
            match it.peek() {
                Some('0') => {
                    it.next();
                    o.push('~');
                }
                Some('1') => {
                    it.next();
                    o.push('/');
                }
                _ => o.push('~'),
            }
        } else {
            o.push(c);
        }
    }
    o
}

/// Encoded tokens of a valid pointer text (manual scan for separators).
pub fn split_enc(text: &str) -> Vec<&str> {
    let b = text.as_bytes();
    let mut v = Vec::new();
    if b.is_empty() {
        return v;
    }
    // text starts with '/'
    let mut start = 1;
    let mut i = 1;
    while i <= b.len() {
        if i == b.len() || b[i] == b'/' {
            v.push(&text[start..i]);
            start = i + 1;
        }
        i += 1;
    }
    v
}

/// Decoded tokens of a valid pointer text.
pub fn split_dec(text: &str) -> Vec<String> {
    split_enc(text).into_iter().map(unescape).collect()
}

/// Pointer text spelled from decoded tokens.
pub fn join_dec<'a>(toks: impl IntoIterator<Item = &'a String>) -> String {
    let mut o = String::new();
    for t in toks {
        o.push('/');
        o.push_str(&escape(t));
    }
    o
}

/// Reference reading of an array-index token.
#[derive(Debug, Clone, Copy, PartialEq, Eq)]
pub enum RefIdx {
    Next,
    Num(usize),
    Bad,
}

/// `-`, `0`, or ASCII digits without leading zero whose value fits in usize.
pub fn ref_index(tok: &str) -> RefIdx {
    if tok == "-" {
        return RefIdx::Next;
    }
    let b = tok.as_bytes();
    if b.is_empty() || !b.iter().all(|c| c.is_ascii_digit()) {
        return RefIdx::Bad;
    }
    if b.len() > 1 && b[0] == b'0' {
        return RefIdx::Bad;
    }
    let max = usize::MAX.to_string();
    if b.len() > max.len() || (b.len() == max.len() && tok > max.as_str()) {
        return RefIdx::Bad;
    }
    let mut v: u128 = 0;
    for &c in b {
        v = v * 10 + (c - b'0') as u128;
    }
    RefIdx::Num(v as usize)
}

/// All ASCII digits (non-empty) and the value exceeds usize::MAX.
pub fn digits_overflow(tok: &str) -> bool {
    let b = tok.as_bytes();
    if b.is_empty() || !b.iter().all(|c| c.is_ascii_digit()) {
        return false;
    }
    // strip leading zeros for the magnitude comparison
    let t = tok.trim_start_matches('0');
    let max = usize::MAX.to_string();
    t.len() > max.len() || (t.len() == max.len() && t > max.as_str())
}

/// Run `f` on copies of `s` placed at every offset 0..8 from an 8-byte-aligned address, each copy followed and
/// preceded by unrelated bytes inside one larger buffer (what a `&str` cut out of a longer string looks like).
/// Used by the `law_align` oracles: the outcome of an operation must not depend on where its input lives.
pub fn with_alignments(s: &str, mut f: impl FnMut(usize, &str)) {
    let n = s.len();
    let mut buf: Vec<u8> = vec![b'a'; n + 32];
    let base = buf.as_ptr() as usize;
    let first = (8 - base % 8) % 8;
    for k in 0..8usize {
        let start = first + 8 + k;
        for b in buf.iter_mut() {
            *b = b'a';
        }
        buf[start..start + n].copy_from_slice(s.as_bytes());
        // SAFETY-free: the window holds exactly the bytes of `s`, which is valid UTF-8
        if let Ok(view) = std::str::from_utf8(&buf[start..start + n]) {
            f(k, view);
        }
    }
}

/// A text that shares its beginning with `text` and then differs in a character with the same UTF-8 lead byte
/// (é/è, 前/字, two emoji): what a byte-wise "common prefix" computation cuts in the middle of. `None` if the text has
/// no multi-byte character.
pub fn same_lead_sibling(text: &str) -> Option<String> {
    let mut out = String::with_capacity(text.len());
    let mut done = false;
    for ch in text.chars().rev() {
        if !done && ch.len_utf8() > 1 {
            let mut b = [0u8; 4];
            let enc = ch.encode_utf8(&mut b).as_bytes().to_vec();
            let mut alt = enc.clone();
            let last = alt.len() - 1;
            alt[last] = if alt[last] == 0x80 { 0x81 } else { 0x80 + ((alt[last] - 0x80 + 1) % 0x40) };
            if let Ok(sib) = std::str::from_utf8(&alt) {
                if let Some(c2) = sib.chars().next() {
                    out.insert(0, c2);
                    done = true;
                    continue;
                }
            }
        }
        out.insert(0, ch);
    }
    if done { Some(out) } else { None }
}

/// A `serde::Serializer` that accepts exactly one shape — a single string — and records it. Every other shape (newtype
/// struct, bytes, sequence, …) is an error naming the shape. "Serialising a pointer emits exactly its text as one string"
/// is checked against this, not against a format that flattens wrappers (serde_json treats a newtype struct as its content).
pub struct OnlyStr;
#[derive(Debug)]
pub struct Shape(pub String);
impl std::fmt::Display for Shape {
    fn fmt(&self, f: &mut std::fmt::Formatter<'_>) -> std::fmt::Result {
        f.write_str(&self.0)
    }
}
impl std::error::Error for Shape {}
impl serde::ser::Error for Shape {
    fn custom<T: std::fmt::Display>(msg: T) -> Self {
        Shape(msg.to_string())
    }
}
macro_rules! refuse {
    ($($name:ident($($t:ty),*)),* $(,)?) => { $(fn $name(self $(, _: $t)*) -> Result<String, Shape> { Err(Shape(stringify!($name).to_string())) })* };
}
impl serde::Serializer for OnlyStr {
    type Ok = String;
    type Error = Shape;
    type SerializeSeq = serde::ser::Impossible<String, Shape>;
    type SerializeTuple = serde::ser::Impossible<String, Shape>;
    type SerializeTupleStruct = serde::ser::Impossible<String, Shape>;
    type SerializeTupleVariant = serde::ser::Impossible<String, Shape>;
    type SerializeMap = serde::ser::Impossible<String, Shape>;
    type SerializeStruct = serde::ser::Impossible<String, Shape>;
    type SerializeStructVariant = serde::ser::Impossible<String, Shape>;
    fn serialize_str(self, v: &str) -> Result<String, Shape> {
        Ok(v.to_string())
    }
    refuse!(serialize_bool(bool), serialize_i8(i8), serialize_i16(i16), serialize_i32(i32), serialize_i64(i64), serialize_u8(u8),
        serialize_u16(u16), serialize_u32(u32), serialize_u64(u64), serialize_f32(f32), serialize_f64(f64), serialize_char(char),
        serialize_bytes(&[u8]), serialize_none(), serialize_unit(), serialize_unit_struct(&'static str),
        serialize_unit_variant(&'static str, u32, &'static str));
    fn serialize_some<T: ?Sized + serde::Serialize>(self, _: &T) -> Result<String, Shape> {
        Err(Shape("serialize_some".into()))
    }
    fn serialize_newtype_struct<T: ?Sized + serde::Serialize>(self, _: &'static str, _: &T) -> Result<String, Shape> {
        Err(Shape("serialize_newtype_struct".into()))
    }
    fn serialize_newtype_variant<T: ?Sized + serde::Serialize>(self, _: &'static str, _: u32, _: &'static str, _: &T) -> Result<String, Shape> {
        Err(Shape("serialize_newtype_variant".into()))
    }
    fn serialize_seq(self, _: Option<usize>) -> Result<Self::SerializeSeq, Shape> {
        Err(Shape("serialize_seq".into()))
    }
    fn serialize_tuple(self, _: usize) -> Result<Self::SerializeTuple, Shape> {
        Err(Shape("serialize_tuple".into()))
    }
    fn serialize_tuple_struct(self, _: &'static str, _: usize) -> Result<Self::SerializeTupleStruct, Shape> {
        Err(Shape("serialize_tuple_struct".into()))
    }
    fn serialize_tuple_variant(self, _: &'static str, _: u32, _: &'static str, _: usize) -> Result<Self::SerializeTupleVariant, Shape> {
        Err(Shape("serialize_tuple_variant".into()))
    }
    fn serialize_map(self, _: Option<usize>) -> Result<Self::SerializeMap, Shape> {
        Err(Shape("serialize_map".into()))
    }
    fn serialize_struct(self, _: &'static str, _: usize) -> Result<Self::SerializeStruct, Shape> {
        Err(Shape("serialize_struct".into()))
    }
    fn serialize_struct_variant(self, _: &'static str, _: u32, _: &'static str, _: usize) -> Result<Self::SerializeStructVariant, Shape> {
        Err(Shape("serialize_struct_variant".into()))
    }
}

/// `a.clone_from(&b)` must leave `a` equal to `b` — in value and in every accessor `Debug` shows — whatever `a` held before
/// (an overridden `clone_from` that reuses the old value's buffers may forget a field). Checked over all ordered pairs.
pub fn clone_from_law<T: Clone + PartialEq + std::fmt::Debug>(l: &mut Law, what: &str, values: &[T]) {
    for a in values {
        for b in values {
            let mut x = a.clone();
            x.clone_from(b);
            if !(x == *b && format!("{x:?}") == format!("{b:?}")) {
                l.fail(&format!("{what}_clone_from_leaves_a_different_value"));
                return;
            }
        }
    }
}

// ---------------------------------------------------------------------------------------------
// a deserializer of a format that is not self-describing
// ---------------------------------------------------------------------------------------------

/// What bincode / postcard style formats look like to a `Deserialize` impl: the data carries no type tags, so only the *typed*
/// requests (`deserialize_str`, `deserialize_string`, `deserialize_bytes`, …) can be answered and `deserialize_any` is an error.
/// The payload is one string.
pub struct HintOnly<'de> {
    pub s: &'de str,
    /// hand the visitor a borrow of the input (`visit_borrowed_str`) rather than a transient one (`visit_str`)
    pub borrowed: bool,
}

macro_rules! hint_only_refuse {
    ($($m:ident)*) => {$(
        fn $m<V: serde::de::Visitor<'de>>(self, _v: V) -> Result<V::Value, Self::Error> {
            Err(<Self::Error as serde::de::Error>::custom("the payload is a string"))
        }
    )*};
}

impl<'de> serde::Deserializer<'de> for HintOnly<'de> {
    type Error = serde::de::value::Error;
    fn deserialize_any<V: serde::de::Visitor<'de>>(self, _v: V) -> Result<V::Value, Self::Error> {
        Err(<Self::Error as serde::de::Error>::custom("this format is not self-describing: deserialize_any is not supported"))
    }
    fn deserialize_ignored_any<V: serde::de::Visitor<'de>>(self, _v: V) -> Result<V::Value, Self::Error> {
        Err(<Self::Error as serde::de::Error>::custom("this format is not self-describing: deserialize_ignored_any is not supported"))
    }
    fn deserialize_str<V: serde::de::Visitor<'de>>(self, v: V) -> Result<V::Value, Self::Error> {
        if self.borrowed { v.visit_borrowed_str(self.s) } else { v.visit_str(self.s) }
    }
    fn deserialize_string<V: serde::de::Visitor<'de>>(self, v: V) -> Result<V::Value, Self::Error> {
        v.visit_string(self.s.to_owned())
    }
    fn deserialize_identifier<V: serde::de::Visitor<'de>>(self, v: V) -> Result<V::Value, Self::Error> {
        self.deserialize_str(v)
    }
    fn deserialize_bytes<V: serde::de::Visitor<'de>>(self, v: V) -> Result<V::Value, Self::Error> {
        if self.borrowed { v.visit_borrowed_bytes(self.s.as_bytes()) } else { v.visit_bytes(self.s.as_bytes()) }
    }
    fn deserialize_byte_buf<V: serde::de::Visitor<'de>>(self, v: V) -> Result<V::Value, Self::Error> {
        v.visit_byte_buf(self.s.as_bytes().to_vec())
    }
    fn deserialize_option<V: serde::de::Visitor<'de>>(self, v: V) -> Result<V::Value, Self::Error> {
        v.visit_some(self)
    }
    fn deserialize_newtype_struct<V: serde::de::Visitor<'de>>(self, _name: &'static str, v: V) -> Result<V::Value, Self::Error> {
        v.visit_newtype_struct(self)
    }
    hint_only_refuse! { deserialize_bool deserialize_i8 deserialize_i16 deserialize_i32 deserialize_i64 deserialize_i128 deserialize_u8 deserialize_u16
        deserialize_u32 deserialize_u64 deserialize_u128 deserialize_f32 deserialize_f64 deserialize_char deserialize_unit deserialize_seq deserialize_map }
    fn deserialize_unit_struct<V: serde::de::Visitor<'de>>(self, _n: &'static str, _v: V) -> Result<V::Value, Self::Error> {
        Err(<Self::Error as serde::de::Error>::custom("the payload is a string"))
    }
    fn deserialize_tuple<V: serde::de::Visitor<'de>>(self, _l: usize, _v: V) -> Result<V::Value, Self::Error> {
        Err(<Self::Error as serde::de::Error>::custom("the payload is a string"))
    }
    fn deserialize_tuple_struct<V: serde::de::Visitor<'de>>(self, _n: &'static str, _l: usize, _v: V) -> Result<V::Value, Self::Error> {
        Err(<Self::Error as serde::de::Error>::custom("the payload is a string"))
    }
    fn deserialize_struct<V: serde::de::Visitor<'de>>(self, _n: &'static str, _f: &'static [&'static str], _v: V) -> Result<V::Value, Self::Error> {
        Err(<Self::Error as serde::de::Error>::custom("the payload is a string"))
    }
    fn deserialize_enum<V: serde::de::Visitor<'de>>(self, _n: &'static str, _f: &'static [&'static str], _v: V) -> Result<V::Value, Self::Error> {
        Err(<Self::Error as serde::de::Error>::custom("the payload is a string"))
    }
    fn is_human_readable(&self) -> bool {
        false
    }
}
