//! Counting global allocator: counts `alloc`, `alloc_zeroed` and `realloc` calls per thread.

use std::alloc::{GlobalAlloc, Layout, System};
use std::cell::Cell;

thread_local! {
    static ALLOCS: Cell<usize> = const { Cell::new(0) };
}

pub struct Counting;

#[inline]
fn bump() {
    let _ = ALLOCS.try_with(|c| c.set(c.get().wrapping_add(1)));
}

unsafe impl GlobalAlloc for Counting {
    unsafe fn alloc(&self, layout: Layout) -> *mut u8 {
        bump();
        System.alloc(layout)
    }
    unsafe fn dealloc(&self, ptr: *mut u8, layout: Layout) {
        System.dealloc(ptr, layout)
    }
    unsafe fn alloc_zeroed(&self, layout: Layout) -> *mut u8 {
        bump();
        System.alloc_zeroed(layout)
    }
    unsafe fn realloc(&self, ptr: *mut u8, layout: Layout, new_size: usize) -> *mut u8 {
        bump();
        System.realloc(ptr, layout, new_size)
    }
}

/// Number of allocation calls made by this thread so far.
#[inline]
pub fn count() -> usize {
    ALLOCS.with(|c| c.get())
}

/// Runs `f` and returns (number of allocation calls during `f`, result). The result is handed
/// back to the caller so that it is dropped after the counter has been read.
#[inline]
pub fn measure<R>(f: impl FnOnce() -> R) -> (usize, R) {
    let before = count();
    // black_box: the optimiser must materialise the result (and may not elide an allocation
    // the result owns), and may not move the call out of the window
    let r = std::hint::black_box(f());
    let after = count();
    (after.wrapping_sub(before), r)
}
