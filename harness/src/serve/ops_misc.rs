//! cmp, zc_ptr, zc_parse, zc_tok

use super::alloc::measure;
use super::util::*;
use jsonptr::{Pointer, PointerBuf, Token};
use std::cmp::Ordering;
use std::collections::hash_map::DefaultHasher;
use std::collections::{BTreeMap, HashMap, HashSet};
use std::hash::{Hash, Hasher};
use std::ops::Bound;

// ---------------------------------------------------------------------------------------------
// cmp
// ---------------------------------------------------------------------------------------------

struct OrdObs {
    name: &'static str,
    pc: Option<Ordering>,
    lt: bool,
    le: bool,
    gt: bool,
    ge: bool,
}

pub fn op_cmp(p: &Pointer, q: &Pointer) -> String {
    let mut o = Out::new();
    let (pt, qt): (&str, &str) = (p.as_str(), q.as_str());
    let (pb, qb): (PointerBuf, PointerBuf) = (p.to_buf(), q.to_buf());
    let (ps, qs): (String, String) = (pt.to_string(), qt.to_string());

    // ---- PartialEq: fixed order ----
    macro_rules! eqi {
        ($l:ty, $r:ty, $a:expr, $b:expr) => {
            <$l as PartialEq<$r>>::eq($a, $b)
        };
    }
    let eqs: [bool; 20] = [
        eqi!(Pointer, Pointer, p, q),             // 0  Pointer == Pointer
        eqi!(&Pointer, &Pointer, &p, &q),         // 1  &Pointer == &Pointer
        eqi!(PointerBuf, PointerBuf, &pb, &qb),   // 2  PointerBuf == PointerBuf
        eqi!(Pointer, PointerBuf, p, &qb),        // 3  Pointer == PointerBuf
        eqi!(PointerBuf, Pointer, &pb, q),        // 4  PointerBuf == Pointer
        eqi!(&Pointer, PointerBuf, &p, &qb),      // 5  &Pointer == PointerBuf
        eqi!(PointerBuf, &Pointer, &pb, &q),      // 6  PointerBuf == &Pointer
        eqi!(Pointer, str, p, qt),                // 7  Pointer == str
        eqi!(str, Pointer, pt, q),                // 8  str == Pointer
        eqi!(Pointer, &str, p, &qt),              // 9  Pointer == &str
        eqi!(&str, Pointer, &pt, q),              // 10 &str == Pointer
        eqi!(Pointer, String, p, &qs),            // 11 Pointer == String
        eqi!(String, Pointer, &ps, q),            // 12 String == Pointer
        eqi!(&Pointer, String, &p, &qs),          // 13 &Pointer == String
        eqi!(PointerBuf, str, &pb, qt),           // 14 PointerBuf == str
        eqi!(str, PointerBuf, pt, &qb),           // 15 str == PointerBuf
        eqi!(PointerBuf, &str, &pb, &qt),         // 16 PointerBuf == &str
        eqi!(&str, PointerBuf, &pt, &qb),         // 17 &str == PointerBuf
        eqi!(PointerBuf, String, &pb, &qs),       // 18 PointerBuf == String
        eqi!(String, PointerBuf, &ps, &qb),       // 19 String == PointerBuf
    ];
    // `!=` is `PartialEq::ne`, a provided method an impl may override: it must be the negation of `eq`, impl by impl
    macro_rules! nei {
        ($l:ty, $r:ty, $a:expr, $b:expr) => {
            <$l as PartialEq<$r>>::ne($a, $b)
        };
    }
    let nes: [bool; 20] = [
        nei!(Pointer, Pointer, p, q),             // 0  Pointer != Pointer
        nei!(&Pointer, &Pointer, &p, &q),         // 1  &Pointer != &Pointer
        nei!(PointerBuf, PointerBuf, &pb, &qb),   // 2  PointerBuf != PointerBuf
        nei!(Pointer, PointerBuf, p, &qb),        // 3  Pointer != PointerBuf
        nei!(PointerBuf, Pointer, &pb, q),        // 4  PointerBuf != Pointer
        nei!(&Pointer, PointerBuf, &p, &qb),      // 5  &Pointer != PointerBuf
        nei!(PointerBuf, &Pointer, &pb, &q),      // 6  PointerBuf != &Pointer
        nei!(Pointer, str, p, qt),                // 7  Pointer != str
        nei!(str, Pointer, pt, q),                // 8  str != Pointer
        nei!(Pointer, &str, p, &qt),              // 9  Pointer != &str
        nei!(&str, Pointer, &pt, q),              // 10 &str != Pointer
        nei!(Pointer, String, p, &qs),            // 11 Pointer != String
        nei!(String, Pointer, &ps, q),            // 12 String != Pointer
        nei!(&Pointer, String, &p, &qs),          // 13 &Pointer != String
        nei!(PointerBuf, str, &pb, qt),           // 14 PointerBuf != str
        nei!(str, PointerBuf, pt, &qb),           // 15 str != PointerBuf
        nei!(PointerBuf, &str, &pb, &qt),         // 16 PointerBuf != &str
        nei!(&str, PointerBuf, &pt, &qb),         // 17 &str != PointerBuf
        nei!(PointerBuf, String, &pb, &qs),       // 18 PointerBuf != String
        nei!(String, PointerBuf, &ps, &qb),       // 19 String != PointerBuf
    ];
    let eq_field = if eqs.iter().all(|b| *b) {
        "1".to_string()
    } else if eqs.iter().all(|b| !*b) {
        "0".to_string()
    } else {
        format!("mixed:{}", eqs.iter().map(|b| if *b { '1' } else { '0' }).collect::<String>())
    };
    o.f("eq", &eq_field);

    // ---- PartialOrd: fixed order ----
    macro_rules! ordi {
        ($name:literal, $l:ty, $r:ty, $a:expr, $b:expr) => {
            OrdObs {
                name: $name,
                pc: <$l as PartialOrd<$r>>::partial_cmp($a, $b),
                lt: <$l as PartialOrd<$r>>::lt($a, $b),
                le: <$l as PartialOrd<$r>>::le($a, $b),
                gt: <$l as PartialOrd<$r>>::gt($a, $b),
                ge: <$l as PartialOrd<$r>>::ge($a, $b),
            }
        };
    }
    let ords: Vec<OrdObs> = vec![
        ordi!("ptr_ptr", Pointer, Pointer, p, q),               // 0
        ordi!("rptr_rptr", &Pointer, &Pointer, &p, &q),         // 1
        ordi!("buf_buf", PointerBuf, PointerBuf, &pb, &qb),     // 2
        ordi!("ptr_buf", Pointer, PointerBuf, p, &qb),          // 3
        ordi!("buf_ptr", PointerBuf, Pointer, &pb, q),          // 4
        ordi!("rptr_buf", &Pointer, PointerBuf, &p, &qb),       // 5
        ordi!("buf_rptr", PointerBuf, &Pointer, &pb, &q),       // 6
        ordi!("str_ptr", str, Pointer, pt, q),                  // 7
        ordi!("rstr_ptr", &str, Pointer, &pt, q),               // 8
        ordi!("rptr_rstr", &Pointer, &str, &p, &qt),            // 9
        ordi!("ptr_string", Pointer, String, p, &qs),           // 10
        ordi!("string_ptr", String, Pointer, &ps, q),           // 11
        ordi!("rptr_string", &Pointer, String, &p, &qs),        // 12
        ordi!("str_buf", str, PointerBuf, pt, &qb),             // 13
        ordi!("rstr_buf", &str, PointerBuf, &pt, &qb),          // 14
        ordi!("buf_rstr", PointerBuf, &str, &pb, &qt),          // 15
        ordi!("buf_string", PointerBuf, String, &pb, &qs),      // 16
        ordi!("string_buf", String, PointerBuf, &ps, &qb),      // 17
    ];
    let ord_cmp_ref: Ordering = <&Pointer as Ord>::cmp(&p, &q); // 18
    let ord_cmp_buf: Ordering = <PointerBuf as Ord>::cmp(&pb, &qb); // 19
    let mut all: Vec<Option<Ordering>> = ords.iter().map(|x| x.pc).collect();
    all.push(Some(ord_cmp_ref));
    all.push(Some(ord_cmp_buf));
    let ch = |x: &Option<Ordering>| match x {
        Some(Ordering::Less) => '<',
        Some(Ordering::Equal) => '=',
        Some(Ordering::Greater) => '>',
        None => '?',
    };
    let ord_field = if all.iter().all(|x| *x == Some(Ordering::Less)) {
        "lt".to_string()
    } else if all.iter().all(|x| *x == Some(Ordering::Equal)) {
        "eq".to_string()
    } else if all.iter().all(|x| *x == Some(Ordering::Greater)) {
        "gt".to_string()
    } else {
        format!("mixed:{}", all.iter().map(ch).collect::<String>())
    };
    o.f("ord", &ord_field);

    // ---- laws ----
    let want = pt.cmp(qt);
    let mut law_ops = Law::new();
    for (i, (e, n)) in eqs.iter().zip(nes.iter()).enumerate() {
        law_ops.ck(*n == !*e, &format!("ne_is_not_the_negation_of_eq_in_impl_{i}"));
    }
    for x in &ords {
        law_ops.ck(x.lt == (want == Ordering::Less), &format!("{}_lt", x.name));
        law_ops.ck(x.le == (want != Ordering::Greater), &format!("{}_le", x.name));
        law_ops.ck(x.gt == (want == Ordering::Greater), &format!("{}_gt", x.name));
        law_ops.ck(x.ge == (want != Ordering::Less), &format!("{}_ge", x.name));
    }
    {
        // operator syntax on the sized forms
        law_ops.ck((p < q) == (want == Ordering::Less) && (p <= q) == (want != Ordering::Greater), "op_rptr_lt_le");
        law_ops.ck((p > q) == (want == Ordering::Greater) && (p >= q) == (want != Ordering::Less), "op_rptr_gt_ge");
        law_ops.ck((pb < qb) == (want == Ordering::Less) && (pb <= qb) == (want != Ordering::Greater), "op_buf_lt_le");
        law_ops.ck((pb > qb) == (want == Ordering::Greater) && (pb >= qb) == (want != Ordering::Less), "op_buf_gt_ge");
    }

    let mut law_hash = Law::new();
    {
        fn h<T: Hash + ?Sized>(t: &T) -> u64 {
            let mut s = DefaultHasher::new();
            t.hash(&mut s);
            s.finish()
        }
        let hs = h::<str>(pt);
        law_hash.ck(h::<&Pointer>(&p) == hs, "ref_pointer_hash_ne_str_hash");
        law_hash.ck(h::<Pointer>(p) == hs, "pointer_hash_ne_str_hash");
        law_hash.ck(h::<PointerBuf>(&pb) == hs, "pointerbuf_hash_ne_str_hash");
        // "hash identically" is a statement about every `Hasher` (that is what `Borrow` promises to hashed collections):
        // a word-at-a-time hasher in the style of FxHash/ahash treats `write(&[b])` and `write_u8(b)` differently and mixes
        // slice lengths in, so the three must drive a hasher through the same calls, not merely the same byte stream
        #[derive(Default)]
        struct WordHasher(u64);
        impl std::hash::Hasher for WordHasher {
            fn finish(&self) -> u64 {
                self.0
            }
            fn write(&mut self, bytes: &[u8]) {
                self.0 = (self.0.rotate_left(5) ^ (bytes.len() as u64)).wrapping_mul(0x517c_c1b7_2722_0a95);
                for b in bytes {
                    self.0 = (self.0.rotate_left(5) ^ u64::from(*b)).wrapping_mul(0x517c_c1b7_2722_0a95);
                }
            }
            fn write_u8(&mut self, i: u8) {
                self.0 = (self.0.rotate_left(7) ^ u64::from(i) ^ 0x9e37_79b9).wrapping_mul(0x2545_f491_4f6c_dd1d);
            }
        }
        fn hw<T: Hash + ?Sized>(t: &T) -> u64 {
            let mut s = WordHasher::default();
            t.hash(&mut s);
            std::hash::Hasher::finish(&s)
        }
        let hws = hw::<str>(pt);
        law_hash.ck(hw::<&Pointer>(&p) == hws, "ref_pointer_hash_ne_str_hash_under_a_word_hasher");
        law_hash.ck(hw::<Pointer>(p) == hws, "pointer_hash_ne_str_hash_under_a_word_hasher");
        law_hash.ck(hw::<PointerBuf>(&pb) == hws, "pointerbuf_hash_ne_str_hash_under_a_word_hasher");
        let mut hm: std::collections::HashMap<PointerBuf, u8, std::hash::BuildHasherDefault<WordHasher>> = Default::default();
        hm.insert(pb.clone(), 1);
        law_hash.ck(hm.get(p) == Some(&1), "word_hasher_map_lookup_by_ref_pointer");
    }

    let mut law_maps = Law::new();
    {
        let mut hm: HashMap<PointerBuf, u8> = HashMap::new();
        hm.insert(pb.clone(), 1);
        hm.insert(qb.clone(), 2);
        let same = pt == qt;
        law_maps.ck(hm.len() == if same { 1 } else { 2 }, "hashmap_len");
        law_maps.ck(hm.get(p).copied() == Some(if same { 2 } else { 1 }), "hashmap_lookup_p");
        law_maps.ck(hm.get(q).copied() == Some(2), "hashmap_lookup_q");
        let mut hs: HashSet<PointerBuf> = HashSet::new();
        hs.insert(pb.clone());
        hs.insert(qb.clone());
        law_maps.ck(hs.contains(p) && hs.contains(q), "hashset_lookup");
        law_maps.ck(hs.len() == if same { 1 } else { 2 }, "hashset_len");
        let mut bm: BTreeMap<PointerBuf, u8> = BTreeMap::new();
        bm.insert(pb.clone(), 1);
        bm.insert(qb.clone(), 2);
        law_maps.ck(bm.get(p).copied() == Some(if same { 2 } else { 1 }), "btreemap_lookup_p");
        law_maps.ck(bm.get(q).copied() == Some(2), "btreemap_lookup_q");
        let keys: Vec<&str> = bm.keys().map(|k| k.as_str()).collect();
        let mut want_keys: Vec<&str> = vec![pt, qt];
        want_keys.sort();
        want_keys.dedup();
        law_maps.ck(keys == want_keys, "btreemap_order_is_not_string_order");
    }
    // ---- aliasing: the comparisons must depend on the texts only, not on where the bytes live.
    // Compare each operand's own PointerBuf with VIEWS INTO ITS OWN BUFFER (parent, split_at heads and
    // tails, `get(..k)`, `get(k..)`) and with separately allocated copies of those views.
    let mut law_alias = Law::new();
    for buf in [&pb, &qb] {
        let whole: &Pointer = buf;
        let mut views: Vec<&Pointer> = Vec::new();
        // views are cut out of the buffer's own text at separators found by our own scan and re-wrapped
        // with `Pointer::parse` (a view of the very same bytes) — no other crate function is involved
        let text: &str = buf.as_str();
        let mut seps: Vec<usize> = text.bytes().enumerate().filter(|(_, b)| *b == b'/').map(|(i, _)| i).collect();
        for k in super::util::sample_positions(text.len(), 8) { if text.is_char_boundary(k) && !seps.contains(&k) { seps.push(k); } }
        seps.sort_unstable();
        for idx in super::util::sample_positions(seps.len().saturating_sub(1), 10) {
            if let Some(&cut) = seps.get(idx) {
                if let Ok(v) = Pointer::parse(&text[..cut]) { views.push(v); }
                if let Ok(v) = Pointer::parse(&text[cut..]) { views.push(v); }
            }
        }
        views.push(whole);
        for v in views {
            let want_eq = buf.as_str() == v.as_str();
            let want_ord = buf.as_str().cmp(v.as_str());
            let copy: PointerBuf = match PointerBuf::parse(v.as_str().to_string()) { Ok(c) => c, Err(_) => continue };
            let eqs = [
                eqi!(PointerBuf, Pointer, buf, v), eqi!(Pointer, PointerBuf, v, buf),
                eqi!(PointerBuf, &Pointer, buf, &v), eqi!(&Pointer, PointerBuf, &v, buf),
                eqi!(Pointer, Pointer, whole, v), eqi!(&Pointer, &Pointer, &whole, &v),
                eqi!(PointerBuf, PointerBuf, buf, &copy), eqi!(Pointer, str, v, buf.as_str()),
                eqi!(PointerBuf, str, buf, v.as_str()), eqi!(str, Pointer, buf.as_str(), v),
            ];
            law_alias.ck(eqs.iter().all(|b| *b == want_eq), "eq_depends_on_aliasing");
            let pcs = [
                <PointerBuf as PartialOrd<Pointer>>::partial_cmp(buf, v),
                <PointerBuf as PartialOrd<&Pointer>>::partial_cmp(buf, &v),
                <Pointer as PartialOrd<Pointer>>::partial_cmp(whole, v),
                <Pointer as PartialOrd<PointerBuf>>::partial_cmp(whole, &copy),
                Some(<&Pointer as Ord>::cmp(&whole, &v)),
            ];
            law_alias.ck(pcs.iter().all(|x| *x == Some(want_ord)), "ord_depends_on_aliasing");
        }
    }
    // ---- buffers with a history: a PointerBuf that has been compared, cleared, popped empty or refilled must
    // compare, order and hash like a freshly parsed one with the same text (no state may survive in the value)
    let mut law_reuse = Law::new();
    {
        let fresh_p: PointerBuf = pb.clone();
        let mut hist: Vec<PointerBuf> = Vec::new();
        {   // root, compared while root, then filled by append
            let mut a = PointerBuf::new();
            let _ = a == PointerBuf::new();
            let _ = a == qb;
            a.append(p);
            hist.push(a);
        }
        {   // holds Q, compared, cleared, refilled with P's tokens one by one (comparisons in between)
            let mut a = qb.clone();
            let _ = a == qb;
            let _ = a.partial_cmp(&pb);
            a.clear();
            let _ = a == PointerBuf::new();
            for t in p.tokens() { a.push_back(t); let _ = a == qb; }
            hist.push(a);
        }
        {   // holds Q, popped empty from the front, then P appended
            let mut a = qb.clone();
            let _ = a == qb;
            while a.pop_front().is_some() {}
            let _ = a == PointerBuf::new();
            a.append(p);
            hist.push(a);
        }
        {   // P built back to front with push_front after a replace on the old content
            let mut a = qb.clone();
            let _ = a.replace(0, "x");
            let _ = a == qb;
            a.clear();
            let toks: Vec<_> = p.tokens().collect();
            for t in toks.into_iter().rev() { a.push_front(t); }
            hist.push(a);
        }
        fn h<T: Hash + ?Sized>(t: &T) -> u64 { let mut s = DefaultHasher::new(); t.hash(&mut s); s.finish() }
        for a in &hist {
            law_reuse.ck(a.as_str() == pt, "history_text");          // (C11's business; reported if it ever fails)
            law_reuse.ck(*a == fresh_p && fresh_p == *a, "buf_eq_buf_after_history");
            law_reuse.ck(<PointerBuf as PartialEq<Pointer>>::eq(a, p) && <Pointer as PartialEq<PointerBuf>>::eq(p, a), "buf_eq_ptr_after_history");
            law_reuse.ck((*a == qb) == (pt == qt), "buf_eq_other_after_history");
            law_reuse.ck(a.partial_cmp(&qb) == Some(pt.cmp(qt)) && a.cmp(&qb) == pt.cmp(qt), "buf_cmp_after_history");
            law_reuse.ck(<PointerBuf as PartialOrd<Pointer>>::partial_cmp(a, q) == Some(pt.cmp(qt)), "buf_cmp_ptr_after_history");
            law_reuse.ck(h::<PointerBuf>(a) == h::<str>(pt), "hash_after_history");
            let mut hm: HashMap<PointerBuf, u8> = HashMap::new();
            hm.insert(fresh_p.clone(), 1);
            law_reuse.ck(hm.get(a).copied() == Some(1), "hashmap_lookup_by_reused_buf");
        }
    }
    o.law("law_ops", &law_ops);
    o.law("law_hash", &law_hash);
    o.law("law_maps", &law_maps);
    o.law("law_alias", &law_alias);
    o.law("law_reuse", &law_reuse);
    o.finish()
}

// ---------------------------------------------------------------------------------------------
// zero-copy
// ---------------------------------------------------------------------------------------------

pub fn op_zc_ptr(p: &Pointer) -> String {
    let mut bad: Vec<&'static str> = Vec::with_capacity(32);
    let mut panics: Vec<&'static str> = Vec::with_capacity(32);
    // all bookkeeping happens outside the measured windows
    macro_rules! zc {
        ($name:literal, $e:expr) => {{
            // catch_unwind itself does not allocate unless the call panics. A panicking operation is
            // some other property's business (C12, C13 …), not an allocation: it is listed in the
            // informational field `zcp` and not counted here
            let (n, r) = measure(|| guard(|| $e));
            let panicked = r.is_none();
            drop(r);
            if panicked {
                if !panics.contains(&$name) { panics.push($name); }
            } else if n != 0 && !bad.contains(&$name) {
                bad.push($name);
            }
        }};
    }
    let text = p.as_str();
    let count = p.count();
    let len = p.len();
    let parent: &Pointer = p.parent().unwrap_or(Pointer::root());
    let root: &Pointer = Pointer::root();

    zc!("tokens", {
        let mut k = 0usize;
        for t in p.tokens() {
            k += t.encoded().len();
        }
        k
    });
    zc!("components", p.components().count());
    zc!("first", p.first());
    zc!("last", p.last());
    for i in sample_positions(count, 64) {
        zc!("get_tok", p.get(i));
    }
    zc!("split_front", p.split_front());
    zc!("split_back", p.split_back());
    zc!("parent", p.parent());
    for off in sample_positions(len, 64) {
        zc!("split_at", p.split_at(off));
    }
    {
        let mut bounds: Vec<usize> = vec![0, 1, count.saturating_sub(1), count, count.saturating_add(1), usize::MAX - 1, usize::MAX];
        bounds.sort();
        bounds.dedup();
        for &a in &bounds {
            zc!("get_ranges", p.get(a..));
            zc!("get_ranges", p.get(..a));
            zc!("get_ranges", p.get(..=a));
            for &b in &bounds {
                zc!("get_ranges", p.get(a..b));
                zc!("get_ranges", p.get(a..=b));
                zc!("get_ranges", p.get((Bound::Included(a), Bound::Included(b))));
                zc!("get_ranges", p.get((Bound::Included(a), Bound::Excluded(b))));
                zc!("get_ranges", p.get((Bound::Excluded(a), Bound::Included(b))));
                zc!("get_ranges", p.get((Bound::Excluded(a), Bound::Excluded(b))));
            }
            zc!("get_ranges", p.get((Bound::Included(a), Bound::Unbounded)));
            zc!("get_ranges", p.get((Bound::Excluded(a), Bound::Unbounded)));
            zc!("get_ranges", p.get((Bound::Unbounded, Bound::Included(a))));
            zc!("get_ranges", p.get((Bound::Unbounded, Bound::Excluded(a))));
        }
        zc!("get_ranges", p.get(..));
        zc!("get_ranges", p.get((Bound::<usize>::Unbounded, Bound::<usize>::Unbounded)));
    }
    for other in [p, parent, root] {
        zc!("strip_prefix", p.strip_prefix(other));
        zc!("strip_suffix", p.strip_suffix(other));
        zc!("starts_with", p.starts_with(other));
        zc!("ends_with", p.ends_with(other));
        zc!("intersection", p.intersection(other));
    }
    // … and against pointers that part ways with P at an *escaped* token (every prefix of P's first tokens followed by one token
    // with `~0` / `~1` in it), in both directions: comparing tokens by what they decode to would allocate exactly there
    {
        let toks: Vec<String> = p.tokens().map(|t| t.decoded().into_owned()).collect();
        let mut sibs: Vec<PointerBuf> = Vec::new();
        for k in 0..=toks.len().min(3) {
            for tail in ["a/b", "~", "~/~1"] {
                let mut b = PointerBuf::from_tokens(toks[..k].iter().map(|t| t.as_str()));
                b.push_back(tail);
                sibs.push(b.clone());
                b.push_back("more");
                sibs.push(b);
            }
        }
        for other in &sibs {
            let other: &Pointer = other;
            zc!("strip_prefix", p.strip_prefix(other));
            zc!("strip_suffix", p.strip_suffix(other));
            zc!("starts_with", p.starts_with(other));
            zc!("ends_with", p.ends_with(other));
            zc!("intersection", p.intersection(other));
            zc!("intersection", other.intersection(p));
            zc!("starts_with", other.starts_with(p));
            zc!("strip_prefix", other.strip_prefix(p));
        }
    }
    zc!("root", Pointer::root());
    zc!("buf_new", PointerBuf::new());
    {
        // … and again after other buffers have lived and died in this process: a buffer holding P cleared,
        // one popped empty, one dropped, one grown by pushes (whatever they leave behind must not make the
        // next `PointerBuf::new()` / `root()` allocate)
        let mut b = p.to_buf(); b.clear(); drop(b);
        let mut b = p.to_buf(); while b.pop_back().is_some() {} drop(b);
        let mut b = p.to_buf(); for _ in 0..4 { b.push_back("grow"); } b.clear(); drop(b);
        zc!("buf_new", PointerBuf::new());
        zc!("buf_new", PointerBuf::root());
        zc!("root", Pointer::root());
    }
    {
        let bx: Box<Pointer> = Box::<Pointer>::from(p.to_buf());
        zc!("into_buf", bx.into_buf());
    }
    for t in p.tokens() {
        if !t.encoded().contains('~') {
            zc!("decoded_noesc", t.decoded());
            let owned: Token<'static> = t.to_owned();
            zc!("decoded_noesc", owned.decoded());
            let owned2: Token<'static> = t.into_owned();
            zc!("decoded_noesc", owned2.decoded());
        }
    }

    // controls: these must allocate
    let mut ctl_ok = true;
    {
        let ctl_ptr = Pointer::from_static("/control");
        let (n, r) = measure(|| ctl_ptr.to_buf());
        drop(r);
        ctl_ok &= n > 0;
        let (n, r) = measure(|| Token::new("a/b"));
        drop(r);
        ctl_ok &= n > 0;
        let tk = Token::from_encoded("~0").expect("valid");
        let (n, r) = measure(|| tk.decoded());
        drop(r);
        ctl_ok &= n > 0;
    }
    let _ = text;
    let mut o = Out::new();
    if bad.is_empty() {
        o.f("zc", "ok");
    } else {
        o.f("zc", &format!("alloc:{}", bad.join(",")));
    }
    o.f("ctl", if ctl_ok { "ok" } else { "dead" });
    if !panics.is_empty() {
        o.f("zcp", &panics.join(","));
    }
    o.finish()
}

pub fn op_zc_parse(s: &str) -> String {
    let (n1, r1) = measure(|| Pointer::parse(s));
    drop(r1);
    let (n2, r2) = measure(|| Token::from_encoded(s));
    drop(r2);
    let mut o = Out::new();
    o.f("parse", b01(n1 != 0));
    o.f("fe", b01(n2 != 0));
    o.finish()
}

pub fn op_zc_tok(s: &str) -> String {
    let (n_new, t) = measure(|| Token::new(s));
    let (n_b, d) = measure(|| t.decoded());
    drop(d);
    let owned: Token<'static> = Token::new(s).into_owned();
    let (n_o, d2) = measure(|| owned.decoded());
    drop(d2);
    drop(t);
    // the owned door: `Token::new(String)` must keep the buffer it is handed when nothing needs escaping
    let owned_text = String::from(s);
    let (mut n_new_o, t_o) = measure(move || Token::new(owned_text));
    drop(t_o);
    // … also when the String has room to spare (a "trim the excess" step is a reallocation): the buffer is moved, not touched
    for cap in [64usize, 100, 256, 4096, s.len() * 4 + 64] {
        let mut spare = String::with_capacity(cap.max(s.len()));
        spare.push_str(s);
        let (n, t) = measure(move || Token::new(spare));
        drop(t);
        n_new_o = n_new_o.max(n);
    }
    let mut o = Out::new();
    o.f("new", b01(n_new != 0));
    o.f("dec_b", b01(n_b != 0));
    o.f("dec_o", b01(n_o != 0));
    o.f("new_o", b01(n_new_o != 0));
    o.finish()
}
