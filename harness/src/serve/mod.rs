//! `jpserve`: reads operation lines (PROTOCOL.md) on stdin, prints one result line per input
//! line.

pub mod alloc;
pub mod doc;
pub mod ops_doc;
pub mod ops_misc;
pub mod ops_ptr;
pub mod ops_text;
pub mod util;

use doc::{Be, Doc};
use jsonptr::Pointer;
use std::io::{BufRead, BufWriter, Write};
use util::{guard, parse_n, parse_x};

/// A valid pointer argument: decoded text that `Pointer::parse` accepts.
fn ptr_arg(f: &str) -> Option<String> {
    let s = parse_x(f)?;
    Pointer::parse(&s).ok()?;
    Some(s)
}

fn ptr(s: &str) -> &Pointer {
    Pointer::parse(s).unwrap()
}

fn tree_op<B: Be>(op: &str, args: &[&str]) -> Option<String> {
    // args[0] is the backend name (already consumed by the caller)
    let d = B::from_doc(&Doc::parse(args.get(1)?)?)?;
    match op {
        "resolve" | "resolve_mut" => {
            if args.len() != 3 {
                return None;
            }
            let p = ptr_arg(args[2])?;
            Some(ops_doc::op_resolve::<B>(d, ptr(&p), op == "resolve_mut"))
        }
        "write" | "assign" => {
            if args.len() != 4 {
                return None;
            }
            let p = ptr_arg(args[2])?;
            let v = B::from_doc(&Doc::parse(args[3])?)?;
            Some(if op == "write" {
                ops_doc::op_write::<B>(d, ptr(&p), v)
            } else {
                ops_doc::op_assign::<B>(d, ptr(&p), v)
            })
        }
        "delete" => {
            if args.len() != 3 {
                return None;
            }
            let p = ptr_arg(args[2])?;
            Some(ops_doc::op_delete::<B>(d, ptr(&p)))
        }
        "tree_hist" => ops_doc::op_tree_hist::<B>(d, &args[2..]),
        _ => None,
    }
}

/// Executes one line. `None` = `bad_op=1`.
fn dispatch(line: &str) -> Option<String> {
    let fields: Vec<&str> = line.split(' ').collect();
    if fields.iter().any(|f| f.is_empty()) {
        return None;
    }
    let op = fields[0];
    let a = &fields[1..];
    let one = |a: &[&str]| -> Option<String> {
        if a.len() == 1 {
            parse_x(a[0])
        } else {
            None
        }
    };
    let onep = |a: &[&str]| -> Option<String> {
        if a.len() == 1 {
            ptr_arg(a[0])
        } else {
            None
        }
    };
    match op {
        "parse" => Some(ops_text::op_parse(&one(a)?)),
        "tok_new" => Some(ops_text::op_tok_new(&one(a)?)),
        "from_encoded" => Some(ops_text::op_from_encoded(&one(a)?)),
        "index_str" => Some(ops_text::op_index_str(&one(a)?)),
        "index_len" => {
            if a.len() != 2 {
                return None;
            }
            ops_text::op_index_len(a[0], a[1])
        }
        "from_tokens" => {
            let toks: Vec<String> = a.iter().map(|f| parse_x(f)).collect::<Option<Vec<_>>>()?;
            Some(ops_ptr::op_from_tokens(&toks))
        }
        "ptr_view" => Some(ops_ptr::op_ptr_view(ptr(&onep(a)?))),
        "with" => {
            if a.len() != 3 {
                return None;
            }
            let p = ptr_arg(a[0])?;
            let lead = match a[1] {
                "lead" => true,
                "trail" => false,
                _ => return None,
            };
            let t = parse_x(a[2])?;
            Some(ops_ptr::op_with(ptr(&p), lead, &t))
        }
        "concat" => {
            if a.len() != 2 {
                return None;
            }
            let (p, q) = (ptr_arg(a[0])?, ptr_arg(a[1])?);
            Some(ops_ptr::op_concat(ptr(&p), ptr(&q)))
        }
        "from_token" => Some(ops_ptr::op_from_token(&one(a)?)),
        "from_usize" => {
            if a.len() != 1 {
                return None;
            }
            Some(ops_ptr::op_from_usize(parse_n(a[0])?))
        }
        "buf_hist" => {
            let p = ptr_arg(a.first()?)?;
            ops_ptr::op_buf_hist(ptr(&p), &a[1..])
        }
        "split_front" => Some(ops_ptr::op_split_front(ptr(&onep(a)?))),
        "split_back" => Some(ops_ptr::op_split_back(ptr(&onep(a)?))),
        "parent" => Some(ops_ptr::op_parent(ptr(&onep(a)?))),
        "split_at" => {
            if a.len() != 2 {
                return None;
            }
            let p = ptr_arg(a[0])?;
            Some(ops_ptr::op_split_at(ptr(&p), parse_n(a[1])?))
        }
        "get" => {
            if a.len() != 2 {
                return None;
            }
            let p = ptr_arg(a[0])?;
            ops_ptr::op_get(ptr(&p), a[1])
        }
        "rel" => {
            if a.len() != 2 {
                return None;
            }
            let (p, q) = (ptr_arg(a[0])?, ptr_arg(a[1])?);
            Some(ops_ptr::op_rel(ptr(&p), ptr(&q)))
        }
        "rel3" => {
            if a.len() != 3 {
                return None;
            }
            let (p, q, r) = (ptr_arg(a[0])?, ptr_arg(a[1])?, ptr_arg(a[2])?);
            Some(ops_ptr::op_rel3(ptr(&p), ptr(&q), ptr(&r)))
        }
        "resolve" | "resolve_mut" | "write" | "assign" | "delete" | "tree_hist" => match *a.first()? {
            "json" => tree_op::<serde_json::Value>(op, a),
            "toml" => tree_op::<toml::Value>(op, a),
            _ => None,
        },
        "deep" => {
            if a.len() != 2 {
                return None;
            }
            let n = parse_n(a[1])?;
            match a[0] {
                "json" => Some(ops_doc::op_deep_json(n)),
                "toml" => Some(ops_doc::op_deep_toml(n)),
                _ => None,
            }
        }
        "cmp" => {
            if a.len() != 2 {
                return None;
            }
            let (p, q) = (ptr_arg(a[0])?, ptr_arg(a[1])?);
            Some(ops_misc::op_cmp(ptr(&p), ptr(&q)))
        }
        "conv" => Some(ops_text::op_conv(ptr(&onep(a)?))),
        "deser" => Some(ops_text::op_deser(&one(a)?)),
        "tok_int" => {
            if a.len() != 2 {
                return None;
            }
            ops_text::op_tok_int(a[0], a[1])
        }
        "zc_ptr" => Some(ops_misc::op_zc_ptr(ptr(&onep(a)?))),
        "zc_parse" => Some(ops_misc::op_zc_parse(&one(a)?)),
        "zc_tok" => Some(ops_misc::op_zc_tok(&one(a)?)),
        _ => None,
    }
}

pub fn run_line(line: &str) -> String {
    match guard(|| dispatch(line)) {
        None => "r=panic".to_string(),
        Some(None) => "bad_op=1".to_string(),
        Some(Some(s)) => s,
    }
}

pub fn main() {
    std::panic::set_hook(Box::new(|_| {}));
    let stdin = std::io::stdin();
    let stdout = std::io::stdout();
    let mut out = BufWriter::with_capacity(1 << 16, stdout.lock());
    let mut input = stdin.lock();
    let mut buf: Vec<u8> = Vec::with_capacity(1 << 12);
    // JPSERVE_FLUSH=1: answer line by line (used by the check to isolate a line on which the crate hangs)
    let flush_each = std::env::var_os("JPSERVE_FLUSH").is_some();
    loop {
        buf.clear();
        match input.read_until(b'\n', &mut buf) {
            Ok(0) => break,
            Ok(_) => {}
            Err(_) => break,
        }
        if buf.last() == Some(&b'\n') {
            buf.pop();
        }
        let res = match std::str::from_utf8(&buf) {
            Ok(line) => run_line(line),
            Err(_) => "bad_op=1".to_string(),
        };
        if out.write_all(res.as_bytes()).is_err() || out.write_all(b"\n").is_err() {
            break;
        }
        if flush_each && out.flush().is_err() {
            break;
        }
    }
    let _ = out.flush();
}
