//! parse, tok_new, from_encoded, index_str, index_len, conv, deser, tok_int

use super::util::*;
use jsonptr::diagnostic::{Diagnose, Diagnostic, Label};
use jsonptr::index::{Index, ParseIndexError};
use jsonptr::{InvalidEncoding, ParseError, Pointer, PointerBuf, Token};
use serde::de::value::{BorrowedStrDeserializer, Error as DeError};
use serde::Deserialize;
use std::borrow::Cow;
use std::fmt::Write as _;
use std::str::FromStr;

pub fn label_of(l: Label) -> (usize, usize) {
    let sp = miette::LabeledSpan::from(l);
    (sp.offset(), sp.len())
}

pub fn fmt_label(l: Option<(usize, usize)>) -> String {
    match l {
        None => "none".to_string(),
        Some((o, n)) => format!("({o},{n})"),
    }
}

// ---------------------------------------------------------------------------------------------
// parse
// ---------------------------------------------------------------------------------------------

enum Door {
    Ok(String),
    Err(ParseError),
    De,
    Panic,
}

impl Door {
    fn fmt(&self) -> String {
        match self {
            Door::Ok(t) => format!("ok({})", xh(t)),
            Door::Err(e) => fmt_parse_err(e),
            Door::De => "err(de)".to_string(),
            Door::Panic => "panic".to_string(),
        }
    }
    fn is_ok(&self) -> bool {
        matches!(self, Door::Ok(_))
    }
}

fn fmt_parse_err(e: &ParseError) -> String {
    match e {
        ParseError::NoLeadingSlash => "err(nls)".to_string(),
        ParseError::InvalidEncoding { .. } => {
            format!("err(enc,{},{})", e.pointer_offset(), e.source_offset())
        }
    }
}

fn door<F: FnOnce() -> Result<String, ParseError>>(f: F) -> Door {
    match guard(f) {
        None => Door::Panic,
        Some(Ok(t)) => Door::Ok(t),
        Some(Err(e)) => Door::Err(e),
    }
}

pub fn borrowed_deser(s: &str) -> Result<&Pointer, DeError> {
    <&Pointer as Deserialize>::deserialize(BorrowedStrDeserializer::<DeError>::new(s))
}

pub fn op_parse(s: &str) -> String {
    let mut o = Out::new();

    let mut p1: Option<*const u8> = None;
    let d1 = match guard(|| Pointer::parse(s).map(|p| (p.as_str().to_owned(), p.as_str().as_ptr()))) {
        None => Door::Panic,
        Some(Ok((t, ptr))) => {
            p1 = Some(ptr);
            Door::Ok(t)
        }
        Some(Err(e)) => Door::Err(e),
    };
    let mut rsubj: Option<String> = None;
    let d2 = match guard(|| PointerBuf::parse(s.to_string())) {
        None => Door::Panic,
        Some(Ok(b)) => Door::Ok(b.as_str().to_owned()),
        Some(Err(rep)) => {
            rsubj = Some(rep.subject().to_string());
            Door::Err(rep.into_original())
        }
    };
    let d3 = door(|| s.parse::<PointerBuf>().map(|b| b.as_str().to_owned()));
    let d4 = door(|| PointerBuf::try_from(s).map(|b| b.as_str().to_owned()));
    let d5 = door(|| PointerBuf::try_from(s.to_string()).map(|b| b.as_str().to_owned()));
    let mut p6: Option<*const u8> = None;
    let d6 = match guard(|| borrowed_deser(s).map(|p| (p.as_str().to_owned(), p.as_str().as_ptr()))) {
        None => Door::Panic,
        Some(Ok((t, ptr))) => {
            p6 = Some(ptr);
            Door::Ok(t)
        }
        Some(Err(_)) => Door::De,
    };
    let d7 = match guard(|| serde_json::from_value::<PointerBuf>(serde_json::Value::String(s.to_string()))) {
        None => Door::Panic,
        Some(Ok(b)) => Door::Ok(b.as_str().to_owned()),
        Some(Err(_)) => Door::De,
    };
    let d8 = {
        let leaked: &'static mut str = Box::leak(s.to_owned().into_boxed_str());
        let raw: *mut str = leaked;
        let sref: &'static str = unsafe { &*raw };
        let r = guard(|| Pointer::from_static(sref).as_str().to_owned());
        // reclaim: nothing refers to the leaked text any more (the result was copied)
        unsafe { drop(Box::from_raw(raw)) };
        match r {
            None => Door::Panic,
            Some(t) => Door::Ok(t),
        }
    };

    let doors = [&d1, &d2, &d3, &d4, &d5, &d6, &d7, &d8];
    for (i, d) in doors.iter().enumerate() {
        o.f(&format!("d{}", i + 1), &d.fmt());
    }

    // co / src / label
    let subject = s.to_string();
    let (co, src, label) = match &d1 {
        Door::Err(e) => {
            let co = Some(e.complete_offset());
            let src = match e {
                ParseError::InvalidEncoding { source, .. } => Some(match source.source {
                    InvalidEncoding::Slash => "slash",
                    InvalidEncoding::Tilde => "tilde",
                }),
                ParseError::NoLeadingSlash => None,
            };
            let label = guard(|| {
                <ParseError as Diagnostic>::labels(e, &subject).and_then(|mut it| it.next()).map(label_of)
            });
            (co, src, label)
        }
        _ => (None, None, Some(None)),
    };
    o.f("co", &opt_plain(co.map(|c| c.to_string())));
    o.f("src", src.unwrap_or("none"));
    match &label {
        Some(l) => o.f("label", &fmt_label(*l)),
        None => o.f("label", "panic"),
    }
    o.f("rsubj", &opt_plain(rsubj.as_deref().map(xh)));

    // ---- laws ----
    let mut law_grammar = Law::new();
    match &d1 {
        Door::Panic => law_grammar.fail("d1_panic"),
        d => law_grammar.ck(d.is_ok() == valid_pointer(s), if d.is_ok() { "accepted_invalid" } else { "rejected_valid" }),
    }

    let mut law_doors = Law::new();
    {
        let ok1 = d1.is_ok();
        for (i, d) in doors.iter().enumerate() {
            if i < 7 && matches!(d, Door::Panic) {
                law_doors.fail(&format!("d{}_panic", i + 1));
            }
            law_doors.ck(d.is_ok() == ok1, &format!("d{}_decides_differently", i + 1));
            if let Door::Ok(t) = d {
                law_doors.ck(t == s, &format!("d{}_text_differs", i + 1));
            }
        }
        // the two serde doors again, through a format that is not self-describing (typed hints only, `deserialize_any` refused,
        // not human readable): the same decision and the same text
        for (n, r) in [
            ("hint_only_owned", guard(|| <PointerBuf as Deserialize>::deserialize(HintOnly { s, borrowed: false }).ok().map(|b| b.as_str().to_owned()))),
            ("hint_only_owned_from_borrowed", guard(|| <PointerBuf as Deserialize>::deserialize(HintOnly { s, borrowed: true }).ok().map(|b| b.as_str().to_owned()))),
            ("hint_only_borrowed", guard(|| <&Pointer as Deserialize>::deserialize(HintOnly { s, borrowed: true }).ok().map(|b| b.as_str().to_owned()))),
        ] {
            match r {
                None => law_doors.fail(&format!("{n}_panic")),
                Some(t) => {
                    law_doors.ck(t.is_some() == ok1, &format!("{n}_decides_differently"));
                    if let Some(t) = t {
                        law_doors.ck(t == s, &format!("{n}_text_differs"));
                    }
                }
            }
        }
        if let Door::Err(e1) = &d1 {
            for (i, d) in [&d2, &d3, &d4, &d5].iter().enumerate() {
                if let Door::Err(e) = d {
                    law_doors.ck(e == e1, &format!("d{}_error_differs", i + 2));
                }
            }
        }
    }

    let mut law_same_ptr = Law::new();
    if !s.is_empty() {
        if let Some(p) = p1 {
            law_same_ptr.ck(p == s.as_ptr(), "d1_not_borrowed");
        }
        if let Some(p) = p6 {
            law_same_ptr.ck(p == s.as_ptr(), "d6_not_borrowed");
        }
    }

    let mut law_report = Law::new();
    if let Door::Err(e1) = &d1 {
        match guard(|| {
            let mut l = Law::new();
            match PointerBuf::parse(s.to_string()) {
                Ok(_) => l.fail("d2_ok"),
                Err(rep) => {
                    l.ck(rep.original() == e1, "original");
                    l.ck(rep.subject() == s, "subject");
                    {
                        let via_deref: &ParseError = &rep;
                        l.ck(via_deref == e1, "deref");
                        l.ck(rep.complete_offset() == e1.complete_offset(), "deref_method");
                    }
                    let (e, subj) = rep.decompose();
                    l.ck(&e == e1, "decompose_err");
                    l.ck(subj == s, "decompose_subject");
                }
            }
            match PointerBuf::parse(s.to_string()) {
                Ok(_) => l.fail("d2_ok"),
                Err(rep) => l.ck(&rep.into_original() == e1, "into_original"),
            }
            match Pointer::parse(s).diagnose(s) {
                Ok(_) => l.fail("diagnose_ok"),
                Err(rep) => {
                    l.ck(rep.original() == e1, "diagnose_original");
                    l.ck(rep.subject() == s, "diagnose_subject");
                    let (e, subj) = rep.decompose();
                    l.ck(&e == e1, "diagnose_decompose_err");
                    l.ck(subj == s, "diagnose_decompose_subject");
                }
            }
            match Pointer::parse(s).diagnose_with(|| s) {
                Ok(_) => l.fail("diagnose_with_ok"),
                Err(rep) => {
                    l.ck(rep.original() == e1, "diagnose_with_original");
                    l.ck(rep.subject() == s, "diagnose_with_subject");
                }
            }
            l
        }) {
            Some(l) => law_report = l,
            None => law_report.fail("panic"),
        }
    }

    let mut law_truth = Law::new();
    if let Door::Err(e1) = &d1 {
        let should_nls = !s.is_empty() && !s.starts_with('/');
        let is_nls = matches!(e1, ParseError::NoLeadingSlash);
        law_truth.ck(is_nls == should_nls, "nls_iff_no_leading_slash");
        // the predicate and offset accessors say what the variant says
        law_truth.ck(
            guard(|| (e1.is_no_leading_slash(), e1.is_invalid_encoding())) == Some((is_nls, !is_nls)),
            "is_predicates_disagree_with_variant",
        );
        law_truth.ck(guard(|| e1.offset()) == Some(e1.pointer_offset()), "offset_accessor_is_not_pointer_offset");
        let lab = match &label {
            Some(l) => *l,
            None => {
                law_truth.fail("label_panicked");
                None
            }
        };
        if let Some((off, len)) = lab {
            law_truth.ck(off.checked_add(len).map_or(false, |e| e <= s.len()), "label_past_end");
        }
        if !is_nls && !should_nls {
            match first_bad_tilde(s) {
                None => law_truth.fail("no_bad_tilde_in_input"),
                Some(f) => {
                    let c = e1.complete_offset();
                    law_truth.ck(c == f, "co_not_first_bad_tilde");
                    // nearest '/' at or before f
                    let po = s.as_bytes()[..=f].iter().rposition(|&b| b == b'/');
                    match po {
                        None => law_truth.fail("no_slash_before"),
                        Some(po) => {
                            law_truth.ck(e1.pointer_offset() == po, "pointer_offset");
                            law_truth.ck(e1.source_offset() == f - po, "source_offset");
                        }
                    }
                    if let Some((off, _)) = lab {
                        law_truth.ck(off == c, "label_offset_not_co");
                    }
                }
            }
        }
    }

    let mut law_fmt = Law::new();
    if let Door::Err(e1) = &d1 {
        let r = guard(|| {
            let mut sink = String::new();
            let _ = write!(sink, "{}", e1);
            let _ = write!(sink, "{:?}", e1);
            // every formatting flag a caller can pass: alternate, width / fill / alignment, precision
            let _ = write!(sink, "{:#}{:#?}{:>40}{:<3}{:^17}{:.3}{:.0}{:*^9.2}", e1, e1, e1, e1, e1, e1, e1, e1);
            {
                let d: &dyn miette::Diagnostic = e1;
                if let Some(it) = d.labels() {
                    for l in it {
                        let _ = write!(sink, "{:?}", l);
                    }
                }
                if let Some(u) = d.url() {
                    let _ = write!(sink, "{}", u);
                }
                let _ = d.source_code().is_some();
            }
            let _ = write!(sink, "{}", <ParseError as Diagnostic>::url());
            {
                // the cause chain, as an error reporter walks it
                let mut cur: Option<&(dyn std::error::Error + 'static)> = std::error::Error::source(e1);
                let mut depth = 0;
                while let Some(c) = cur {
                    let _ = write!(sink, "{}{:?}{:#}{:#?}{:.2}", c, c, c, c, c);
                    cur = c.source();
                    depth += 1;
                    if depth > 8 { break; }
                }
            }
            // (not for lines of 32 KiB and more: miette 7.4's graphical handler itself pads with run-time widths, which `core::fmt` limits to
            // `u16` — its panic there is miette's, with correct labels from this crate; the Report's own Display / Debug are formatted below for every length)
            if s.len() < 32 * 1024 {
              if let Err(rep) = PointerBuf::parse(s.to_string()) {
                // rendered the way the crate's documentation shows: through miette's graphical handler
                let h = miette::GraphicalReportHandler::new_themed(miette::GraphicalTheme::unicode_nocolor()).with_width(80);
                let _ = h.render_report(&mut sink, &rep);
              }
            }
            if let Err(rep) = PointerBuf::parse(s.to_string()) {
                let _ = write!(sink, "{}", rep);
                let _ = write!(sink, "{:?}", rep);
                let _ = write!(sink, "{:#}{:#?}{:>40}{:<3}{:^17}{:.3}{:.0}{:*^9.2}", rep, rep, rep, rep, rep, rep, rep, rep);
                let d: &dyn miette::Diagnostic = &rep;
                if let Some(it) = d.labels() {
                    for l in it {
                        let _ = write!(sink, "{:?}", l);
                    }
                }
                if let Some(u) = d.url() {
                    let _ = write!(sink, "{}", u);
                }
                let _ = d.source_code().is_some();
            }
            sink.len()
        });
        law_fmt.ck(r.is_some(), "panic");
    }

    o.law("law_grammar", &law_grammar);
    // the decision and the error must not depend on where the input lives (alignment of the `&str`, neighbours in a
    // larger buffer): same outcome for the text placed at every offset from an 8-byte boundary
    let mut law_align = Law::new();
    {
        let show = |r: Result<&Pointer, ParseError>| match r {
            Ok(p) => format!("ok({})", p.as_str()),
            Err(e) => fmt_parse_err(&e),
        };
        if let Some(base) = guard(|| show(Pointer::parse(s))) {
            with_alignments(s, |k, v| {
                let got = guard(|| show(Pointer::parse(v)));
                law_align.ck(got.as_deref() == Some(base.as_str()), &format!("parse_differs_at_offset_{k}"));
                // … and the borrowed result is a view of THOSE bytes (an empty input cut out of a larger buffer has a real
                // address, unlike `String::new()`, so a canned `""` shows)
                if let Some(Ok((ptr, len))) = guard(|| Pointer::parse(v).map(|p| (p.as_str().as_ptr(), p.as_str().len()))) {
                    law_align.ck(ptr == v.as_ptr() && len == v.len(), &format!("parse_result_is_not_a_view_of_its_input_at_offset_{k}"));
                }
                if let Some(Ok((ptr, len))) = guard(|| borrowed_deser(v).map(|p| (p.as_str().as_ptr(), p.as_str().len()))) {
                    law_align.ck(ptr == v.as_ptr() && len == v.len(), &format!("borrowed_deserialize_is_not_a_view_of_its_input_at_offset_{k}"));
                }
            });
        }
    }
    // the generic doors take any `AsRef<str>` / `Into<String>`: with an argument whose `as_ref()` answers differently on
    // every call (safe code can write one), whatever is accepted must still be valid pointer text — the text that was
    // validated has to be the text that is wrapped
    {
        struct Flaky {
            texts: [String; 2],
            calls: std::cell::Cell<usize>,
        }
        impl AsRef<str> for Flaky {
            fn as_ref(&self) -> &str {
                let n = self.calls.get();
                self.calls.set(n + 1);
                &self.texts[n.min(1)]
            }
        }
        let other = if valid_pointer(s) { "no-leading-slash/~".to_string() } else { "/ok".to_string() };
        for (a, b) in [(s.to_string(), other.clone()), (other, s.to_string())] {
            let f = Flaky { texts: [a, b], calls: std::cell::Cell::new(0) };
            if let Some(Ok(p)) = guard(|| Pointer::parse(&f).map(|p| p.as_str().to_string())) {
                law_align.ck(valid_pointer(&p), "parse_accepts_text_it_did_not_validate");
            }
        }
    }
    o.law("law_align", &law_align);
    o.law("law_doors", &law_doors);
    o.law("law_same_ptr", &law_same_ptr);
    o.law("law_report", &law_report);
    o.law("law_truth", &law_truth);
    o.law("law_fmt", &law_fmt);
    o.finish()
}

// ---------------------------------------------------------------------------------------------
// tok_new / from_encoded
// ---------------------------------------------------------------------------------------------

pub fn op_tok_new(s: &str) -> String {
    let mut o = Out::new();
    let t = Token::new(s);
    let enc = t.encoded().to_string();
    let dec = t.decoded().to_string();
    o.f("enc", &xh(&enc));
    o.f("dec", &xh(&dec));

    let mut law_enc = Law::new();
    law_enc.ck(enc == escape(s), "not_the_escaped_input");
    let mut law_dec = Law::new();
    law_dec.ck(dec == s, "decoded_differs_from_input");
    let mut law_valid = Law::new();
    law_valid.ck(valid_token(&enc), "encoded_invalid");
    match Token::from_encoded(&enc) {
        Ok(t2) => {
            law_valid.ck(t2 == t, "from_encoded_unequal");
            law_valid.ck(t2.encoded() == enc, "from_encoded_text");
        }
        Err(_) => law_valid.fail("from_encoded_err"),
    }
    let mut law_from = Law::new();
    {
        let st = s.to_string();
        let a: Token = Token::from(s);
        let b: Token = Token::from(&st);
        let c: Token = Token::from(st.clone());
        let d: Token = Token::new(st.clone());
        let e: Token = t.clone().into_owned();
        let f: Token = t.to_owned();
        let g: Token = Token::from(&t);
        for (n, x) in [("from_str", &a), ("from_ref_string", &b), ("from_string", &c), ("new_string", &d), ("into_owned", &e), ("to_owned", &f), ("from_ref_token", &g)] {
            law_from.ck(*x == t, &format!("{n}_unequal"));
            law_from.ck(x.encoded() == enc, &format!("{n}_encoded"));
        }
        // an owned `String` whose buffer has spare capacity (hidden state that must not matter), built in pieces
        for extra in [1usize, 2, 8, 64] {
            let mut sp = String::with_capacity(s.len() + extra);
            for ch in s.chars() {
                sp.push(ch);
            }
            // (a clone would shrink the capacity to the length: each door gets its own piecewise-built string)
            let mut sp2 = String::with_capacity(s.len() + extra);
            for ch in s.chars() {
                sp2.push(ch);
            }
            let h: Token = Token::from(sp2);
            let i: Token = Token::new(sp);
            for (n, x) in [("from_string_spare", &h), ("new_string_spare", &i)] {
                law_from.ck(*x == t, &format!("{n}_unequal"));
                law_from.ck(x.encoded() == enc && x.decoded() == s, &format!("{n}_text"));
            }
        }
    }
    {
        let toks: Vec<Token> = vec![t.clone(), Token::new(format!("{s}~/x")), Token::new(""), Token::new("a".repeat(s.len() + 9)), t.clone().into_owned(),
            Token::new(String::from("plain")), Token::from(7usize)];
        clone_from_law(&mut law_from, "token", &toks);
        for b in &toks {
            let mut x = toks[1].clone();
            x.clone_from(b);
            law_from.ck(x.encoded() == b.encoded() && x.decoded() == b.decoded(), "token_clone_from_text");
        }
    }
    let mut law_align = Law::new();
    with_alignments(s, |k, v| {
        let tv = Token::new(v);
        law_align.ck(tv.encoded() == enc && tv.decoded() == dec, &format!("new_differs_at_offset_{k}"));
    });
    with_alignments(&enc, |k, v| {
        if let Ok(tv) = Token::from_encoded(v) {
            law_align.ck(tv.decoded() == dec, &format!("decoded_differs_at_offset_{k}"));
        }
    });
    o.law("law_enc", &law_enc);
    o.law("law_dec", &law_dec);
    o.law("law_valid", &law_valid);
    o.law("law_from", &law_from);
    o.law("law_align", &law_align);
    o.finish()
}

pub fn op_from_encoded(s: &str) -> String {
    let mut o = Out::new();
    let r = Token::from_encoded(s);
    let mut law_exact = Law::new();
    let mut law_verbatim = Law::new();
    let mut law_inverse = Law::new();
    let mut law_truth = Law::new();
    let valid = valid_token(s);
    match &r {
        Ok(t) => {
            let enc = t.encoded().to_string();
            let dec = t.decoded().to_string();
            let re = Token::new(dec.as_str()).encoded().to_string();
            o.f("r", &format!("ok({},{},{})", xh(&enc), xh(&dec), xh(&re)));
            law_exact.ck(valid, "accepted_invalid");
            law_verbatim.ck(enc == s, "encoded_differs");
            if valid {
                law_inverse.ck(dec == unescape(s), "decoded_differs_from_reference");
                law_inverse.ck(re == s, "reencode_differs");
            }
        }
        Err(e) => {
            let kind = match e.source {
                InvalidEncoding::Slash => "slash",
                InvalidEncoding::Tilde => "tilde",
            };
            o.f("r", &format!("err({},{})", kind, e.offset));
            law_exact.ck(!valid, "rejected_valid");
            if let Some(f) = first_token_offence(s) {
                let off = e.offset;
                let b = s.as_bytes();
                law_truth.ck(f == off || f + 1 == off, "offset_not_at_first_offence");
                let bad_tilde_at = |i: usize| -> bool {
                    i < b.len() && b[i] == b'~' && !(i + 1 < b.len() && (b[i + 1] == b'0' || b[i + 1] == b'1'))
                };
                match e.source {
                    InvalidEncoding::Slash => law_truth.ck(off < b.len() && b[off] == b'/', "slash_kind_without_slash"),
                    InvalidEncoding::Tilde => law_truth.ck(
                        bad_tilde_at(off) || (off > 0 && bad_tilde_at(off - 1)),
                        "tilde_kind_without_bad_tilde",
                    ),
                }
            }
        }
    }
    let mut law_align = Law::new();
    {
        let show = |r: &Result<Token, jsonptr::EncodingError>| match r {
            Ok(t) => format!("ok({})", t.encoded()),
            Err(e) => format!("err({:?},{})", e.source, e.offset),
        };
        let base = show(&r);
        with_alignments(s, |k, v| {
            let rv = Token::from_encoded(v);
            law_align.ck(show(&rv) == base, &format!("result_differs_at_offset_{k}"));
        });
    }
    o.law("law_align", &law_align);
    o.law("law_exact", &law_exact);
    o.law("law_verbatim", &law_verbatim);
    o.law("law_inverse", &law_inverse);
    o.law("law_truth", &law_truth);
    o.finish()
}

// ---------------------------------------------------------------------------------------------
// index_str / index_len
// ---------------------------------------------------------------------------------------------

pub fn fmt_pie(e: &ParseIndexError) -> String {
    use std::num::IntErrorKind as K;
    match e {
        ParseIndexError::LeadingZeros => "lz".to_string(),
        ParseIndexError::InvalidCharacter(ic) => format!("ic({})", ic.offset()),
        ParseIndexError::InvalidInteger(pe) => match pe.kind() {
            K::Empty => "ii(empty)".to_string(),
            K::PosOverflow => "ii(overflow)".to_string(),
            _ => "ii(other)".to_string(),
        },
    }
}

/// Is the index-parse error a truthful description of `tok`? (C16 truth rules.)
pub fn pie_truthful(e: &ParseIndexError, tok: &str) -> Result<(), String> {
    use std::num::IntErrorKind as K;
    match e {
        ParseIndexError::LeadingZeros => {
            if tok.len() > 1 && tok.starts_with('0') {
                Ok(())
            } else {
                Err("lz_without_leading_zero".into())
            }
        }
        ParseIndexError::InvalidCharacter(ic) => {
            let want = tok.chars().position(|c| !c.is_ascii_digit());
            if want != Some(ic.offset()) {
                return Err("ic_offset_not_first_non_digit".into());
            }
            if ic.source() != tok {
                return Err("ic_source_differs".into());
            }
            match guard(|| ic.char()) {
                None => Err("ic_char_panicked".into()),
                Some(c) => {
                    if Some(c) == tok.chars().nth(ic.offset()) {
                        Ok(())
                    } else {
                        Err("ic_char_differs".into())
                    }
                }
            }
        }
        ParseIndexError::InvalidInteger(pe) => match pe.kind() {
            K::Empty => {
                if tok.is_empty() {
                    Ok(())
                } else {
                    Err("ii_empty_for_non_empty".into())
                }
            }
            K::PosOverflow => {
                if digits_overflow(tok) {
                    Ok(())
                } else {
                    Err("ii_overflow_without_overflow".into())
                }
            }
            _ => Err("ii_other".into()),
        },
    }
}

fn fmt_index_res(r: &Result<Index, ParseIndexError>) -> String {
    match r {
        Ok(Index::Num(n)) => format!("ok(num,{n})"),
        Ok(Index::Next) => "ok(next)".to_string(),
        Err(ParseIndexError::LeadingZeros) => "err(lz)".to_string(),
        Err(ParseIndexError::InvalidCharacter(ic)) => format!("err(ic,{})", ic.offset()),
        Err(e @ ParseIndexError::InvalidInteger(_)) => {
            let s = fmt_pie(e); // ii(kind)
            format!("err(ii,{})", &s[3..s.len() - 1])
        }
    }
}

pub fn op_index_str(s: &str) -> String {
    let mut o = Out::new();
    let r = Index::from_str(s);
    o.f("r", &fmt_index_res(&r));
    let disp = r.as_ref().ok().map(|i| i.to_string());
    o.f("disp", &opt_plain(disp.as_deref().map(xh)));

    let reference = ref_index(s);
    let mut law_grammar = Law::new();
    match (&r, reference) {
        (Ok(Index::Next), RefIdx::Next) => {}
        (Ok(Index::Num(n)), RefIdx::Num(m)) => law_grammar.ck(*n == m, "wrong_value"),
        (Err(_), RefIdx::Bad) => {}
        (Ok(_), RefIdx::Bad) => law_grammar.fail("accepted_non_index"),
        (Err(_), _) => law_grammar.fail("rejected_index"),
        (Ok(_), _) => law_grammar.fail("wrong_kind"),
    }
    let mut law_display = Law::new();
    if let Some(d) = &disp {
        law_display.ck(d == s, "display_differs");
    }
    let mut law_forms = Law::new();
    {
        let st = s.to_string();
        law_forms.ck(Index::try_from(s) == r, "try_from_str");
        law_forms.ck(Index::try_from(st.clone()) == r, "try_from_string");
        law_forms.ck(Index::try_from(&st) == r, "try_from_ref_string");
        let t = Token::new(s);
        let rt = Index::from_str(t.encoded());
        law_forms.ck(Index::try_from(&t) == rt, "try_from_ref_token");
        law_forms.ck(Index::try_from(t.clone()) == rt, "try_from_token");
        law_forms.ck(t.to_index() == rt, "to_index");
        law_forms.ck(t.is_next() == (t.encoded() == "-"), "is_next");
        if let Ok(Index::Num(n)) = &r {
            law_forms.ck(Index::from(*n) == Index::Num(*n), "from_usize");
        }
    }
    let mut law_truth = Law::new();
    if let Err(e) = &r {
        law_truth.res(pie_truthful(e, s));
    }
    {
        // copies of a rejection are the same truthful rejection, also when written over an earlier one (`clone_from`)
        let mut errs: Vec<ParseIndexError> = Vec::new();
        let mut oks: Vec<Index> = Vec::new();
        for v in [s.to_string(), format!("1{s}"), format!("{s}x"), "x".to_string(), format!("12{s}\u{e9}"), "00".to_string(), String::new()] {
            match Index::from_str(&v) {
                Ok(i) => oks.push(i),
                Err(e) => errs.push(e),
            }
        }
        clone_from_law(&mut law_truth, "parse_index_error", &errs);
        clone_from_law(&mut law_truth, "index", &oks);
        let ices: Vec<jsonptr::index::InvalidCharacterError> = errs.iter().filter_map(|e| match e {
            ParseIndexError::InvalidCharacter(c) => Some(c.clone()),
            _ => None,
        }).collect();
        clone_from_law(&mut law_truth, "invalid_character_error", &ices);
        for c in &ices {
            let mut x = ices[0].clone();
            x.clone_from(c);
            law_truth.ck(guard(|| x.char()) == guard(|| c.char()) && x.offset() == c.offset() && x.source() == c.source(), "invalid_character_error_clone_from_accessors");
        }
    }
    o.law("law_grammar", &law_grammar);
    o.law("law_display", &law_display);
    o.law("law_forms", &law_forms);
    o.law("law_truth", &law_truth);
    o.finish()
}

pub fn op_index_len(i: &str, n: &str) -> Option<String> {
    let idx = if i == "next" {
        Index::Next
    } else {
        Index::Num(parse_n(i.strip_prefix("num:")?)?)
    };
    let n = parse_n(n)?;
    let mut o = Out::new();
    let fl = idx.for_len(n);
    let fli = idx.for_len_incl(n);
    let flu = idx.for_len_unchecked(n);
    let f = |r: &Result<usize, jsonptr::index::OutOfBoundsError>| match r {
        Ok(k) => format!("ok({k})"),
        Err(e) => format!("err({},{})", e.length, e.index),
    };
    o.f("fl", &f(&fl));
    o.f("fli", &f(&fli));
    o.f("flu", &flu.to_string());

    let mut law = Law::new();
    // reference: (ok value | err(len, idx))
    type R = Result<usize, (usize, usize)>;
    let (want_fl, want_fli, want_flu): (R, R, usize) = match idx {
        Index::Num(k) => (
            if k < n { Ok(k) } else { Err((n, k)) },
            if k <= n { Ok(k) } else { Err((n, k)) },
            k,
        ),
        Index::Next => (Err((n, n)), Ok(n), n),
    };
    let simp = |r: &Result<usize, jsonptr::index::OutOfBoundsError>| -> R {
        match r {
            Ok(k) => Ok(*k),
            Err(e) => Err((e.length, e.index)),
        }
    };
    law.ck(simp(&fl) == want_fl, "for_len");
    law.ck(simp(&fli) == want_fli, "for_len_incl");
    law.ck(flu == want_flu, "for_len_unchecked");
    o.law("law_bounds", &law);
    Some(o.finish())
}

// ---------------------------------------------------------------------------------------------
// conv / deser / tok_int
// ---------------------------------------------------------------------------------------------

pub fn op_conv(p: &Pointer) -> String {
    let mut o = Out::new();
    let text = p.as_str();
    let ser = match serde_json::to_value(p) {
        Ok(serde_json::Value::String(s)) => Some(s),
        _ => None,
    };
    o.f("ser", &ser.as_deref().map(xh).unwrap_or_else(|| "err".to_string()));

    let mut bad: Vec<String> = Vec::new();
    let mut ck = |name: &str, ok: bool| {
        if !ok && !bad.iter().any(|b| b == name) {
            bad.push(name.to_string());
        }
    };
    ck("to_buf", p.to_buf().as_str() == text);
    {
        let owned: PointerBuf = p.to_owned();
        ck("to_owned", owned.as_str() == text);
    }
    {
        let c: Cow<Pointer> = Cow::from(p);
        ck("cow_ref", c.as_str() == text && matches!(c, Cow::Borrowed(_)));
        let c2: Cow<'static, Pointer> = Cow::from(p.to_buf());
        ck("cow_buf", c2.as_str() == text);
        ck("cow_buf", c2.into_owned().as_str() == text);
    }
    {
        // `ToOwned::clone_into` / `Cow::clone_from` into targets that already hold other text (longer, shorter, empty)
        let longer = format!("{}/zzzz/yyyy", text);
        let sibling = same_lead_sibling(text).unwrap_or_else(|| text.to_string());
        let sibling_longer = format!("{}/zzzz", sibling);
        let mut half = text.len() / 2;
        while !text.is_char_boundary(half) {
            half -= 1;
        }
        let prefix_then_other = format!("{}{}", &text[..half], "/q");
        for (name, init) in [("clone_into_longer", longer.as_str()), ("clone_into_shorter", ""), ("clone_into_slash", "/"), ("clone_into_same", text),
            ("clone_into_sibling", sibling.as_str()), ("clone_into_sibling_longer", sibling_longer.as_str()), ("clone_into_shared_prefix", prefix_then_other.as_str())] {
            if let Ok(mut target) = PointerBuf::parse(init.to_string()) {
                p.clone_into(&mut target);
                ck(name, target.as_str() == text);
                let mut c: Cow<'static, Pointer> = Cow::Owned(PointerBuf::parse(init.to_string()).expect("valid"));
                c.clone_from(&Cow::Owned(p.to_buf()));
                ck("cow_clone_from", c.as_str() == text);
                let mut b2 = PointerBuf::parse(init.to_string()).expect("valid");
                b2.clone_from(&p.to_buf());
                ck("buf_clone_from", b2.as_str() == text);
            }
        }
    }
    let len = text.len();
    for (name, cap) in [("box_len", len), ("box_len1", len + 1), ("box_2len7", 2 * len + 7), ("box_4len64", 4 * len + 64)] {
        let mut st = String::with_capacity(cap);
        st.push_str(text);
        match PointerBuf::try_from(st) {
            Ok(buf) => {
                let bx: Box<Pointer> = Box::<Pointer>::from(buf);
                let ok_box = bx.as_str() == text;
                let back = bx.into_buf();
                ck(name, ok_box && back.as_str() == text);
            }
            Err(_) => ck(name, false),
        }
    }
    {
        // borrowed views of the same text through the std conversion traits
        let buf = p.to_buf();
        ck("borrow_str", <Pointer as std::borrow::Borrow<str>>::borrow(p) == text);
        ck("as_ref_ptr", <PointerBuf as AsRef<Pointer>>::as_ref(&buf).as_str() == text);
        ck("borrow_ptr", <PointerBuf as std::borrow::Borrow<Pointer>>::borrow(&buf).as_str() == text);
        ck("ptr_as_ref_ptr", <Pointer as AsRef<Pointer>>::as_ref(p).as_str() == text && std::ptr::eq(<Pointer as AsRef<Pointer>>::as_ref(p), p));
        ck("ptr_as_ref_str", <Pointer as AsRef<str>>::as_ref(p) == text);
        ck("ptr_as_ref_bytes", <Pointer as AsRef<[u8]>>::as_ref(p) == text.as_bytes());
        ck("deref", (&*buf).as_str() == text);
        // SAFETY: `text` is the text of a valid pointer
        ck("new_unchecked", unsafe { PointerBuf::new_unchecked(text.to_string()) }.as_str() == text);
        let dflt: &Pointer = Default::default();
        ck("default", dflt.as_str().is_empty() && PointerBuf::default().as_str().is_empty());
    }
    ck("to_json_value", p.to_json_value() == serde_json::Value::String(text.to_string()));
    ck("value_from", serde_json::Value::from(p) == serde_json::Value::String(text.to_string()));
    ck("display", format!("{}", p) == text && format!("{}", p.to_buf()) == text);
    ck("to_string", p.to_string() == text && p.to_buf().to_string() == text);
    ck(
        "buf_ser",
        matches!(serde_json::to_value(p.to_buf()), Ok(serde_json::Value::String(ref s)) if s == text),
    );
    ck("ser", ser.as_deref() == Some(text));
    // … as ONE STRING, for every serializer: a recording serializer that refuses every other shape
    ck("ser_shape_pointer", matches!(serde::Serialize::serialize(p, OnlyStr), Ok(ref s) if s == text));
    ck("ser_shape_pointerbuf", matches!(serde::Serialize::serialize(&p.to_buf(), OnlyStr), Ok(ref s) if s == text));
    for t in p.tokens() {
        let enc = t.encoded().to_string();
        ck("tok_to_owned", t.to_owned().encoded() == enc);
        ck("tok_into_owned", t.into_owned().encoded() == enc);
    }
    if let Some(s) = &ser {
        match serde_json::from_value::<PointerBuf>(serde_json::Value::String(s.clone())) {
            Ok(b) => ck("rt_owned", &*b == p && b.as_str() == text),
            Err(_) => ck("rt_owned", false),
        }
        match borrowed_deser(s.as_str()) {
            Ok(q) => ck("rt_borrowed", q == p && q.as_str() == text),
            Err(_) => ck("rt_borrowed", false),
        }
    } else {
        ck("rt_owned", false);
        ck("rt_borrowed", false);
    }
    if bad.is_empty() {
        o.f("conv", "ok");
    } else {
        o.f("conv", &format!("bad:{}", bad.join(",")));
    }
    o.finish()
}

pub fn op_deser(s: &str) -> String {
    let mut o = Out::new();
    let own = serde_json::from_value::<PointerBuf>(serde_json::Value::String(s.to_string()));
    let bor = borrowed_deser(s);
    let f = |r: Option<&str>| match r {
        Some(t) => format!("ok({})", xh(t)),
        None => "err".to_string(),
    };
    o.f("own", &f(own.as_ref().ok().map(|b| b.as_str())));
    o.f("bor", &f(bor.as_ref().ok().map(|b| b.as_str())));
    let mut law = Law::new();
    let valid = valid_pointer(s);
    law.ck(own.is_ok() == valid, if valid { "owned_rejected_valid" } else { "owned_accepted_invalid" });
    law.ck(bor.is_ok() == valid, if valid { "borrowed_rejected_valid" } else { "borrowed_accepted_invalid" });
    // serde's in-place door (`Deserialize::deserialize_in_place`, used by serde for containers and by callers that
    // reuse buffers): whatever it returns, the buffer it was given must hold valid pointer text afterwards (C01),
    // and on success exactly the input (C18); an invalid string is refused.
    for init in ["", "/a", "/a~0b/c/d/e/f/g/h/i/j/k/l/m/n/o/p"] {
        let mut place = PointerBuf::parse(init.to_string()).expect("valid");
        let de = serde::de::value::StrDeserializer::<DeError>::new(s);
        let r = <PointerBuf as serde::Deserialize>::deserialize_in_place(de, &mut place);
        law.ck(r.is_ok() == valid, if valid { "in_place_rejected_valid" } else { "in_place_accepted_invalid" });
        law.ck(valid_pointer(place.as_str()), "in_place_left_invalid_text_behind");
        if r.is_ok() {
            law.ck(place.as_str() == s, "in_place_text_differs");
        }
        let de2 = serde::de::value::StringDeserializer::<DeError>::new(s.to_string());
        let mut place2 = PointerBuf::parse(init.to_string()).expect("valid");
        let r2 = <PointerBuf as serde::Deserialize>::deserialize_in_place(de2, &mut place2);
        law.ck(r2.is_ok() == valid && valid_pointer(place2.as_str()) && (r2.is_err() || place2.as_str() == s), "in_place_owned_string");
    }
    // the byte-string carriers (`visit_bytes` / `visit_borrowed_bytes` / `visit_byte_buf`, used by binary formats): no
    // panic; whatever is accepted is valid pointer text and exactly the bytes that were given; a valid pointer given as
    // bytes is not an occasion to crash (the root pointer is the empty byte string)
    {
        use serde::de::value::{BorrowedBytesDeserializer, BytesDeserializer};
        let mut variants: Vec<Vec<u8>> = vec![s.as_bytes().to_vec()];
        let mut bad = s.as_bytes().to_vec();
        bad.push(0xff);
        variants.push(bad);
        let mut bad2 = vec![b'/', 0xc3];
        bad2.extend_from_slice(s.as_bytes());
        variants.push(bad2);
        for v in &variants {
            let r1 = guard(|| <PointerBuf as Deserialize>::deserialize(BytesDeserializer::<DeError>::new(v)).ok().map(|b| b.as_str().to_string()));
            let r2 = guard(|| <PointerBuf as Deserialize>::deserialize(BorrowedBytesDeserializer::<DeError>::new(v)).ok().map(|b| b.as_str().to_string()));
            let r3 = guard(|| <&Pointer as Deserialize>::deserialize(BorrowedBytesDeserializer::<DeError>::new(v)).ok().map(|b| b.as_str().to_string()));
            for (n, r) in [("bytes_owned", r1), ("borrowed_bytes_owned", r2), ("borrowed_bytes_borrowed", r3)] {
                match r {
                    None => law.fail(&format!("{n}_panicked")),
                    Some(Some(t)) => {
                        law.ck(valid_pointer(&t), &format!("{n}_accepted_invalid_text"));
                        law.ck(t.as_bytes() == v.as_slice(), &format!("{n}_text_differs_from_the_bytes_given"));
                    }
                    Some(None) => {}
                }
            }
        }
    }
    // a format that is not self-describing (typed hints only): both doors decide as the grammar says, and what is accepted is the input
    for (n, r) in [
        ("hint_only_owned", guard(|| <PointerBuf as Deserialize>::deserialize(HintOnly { s, borrowed: false }).ok().map(|b| b.as_str().to_owned()))),
        ("hint_only_option", guard(|| <Option<PointerBuf> as Deserialize>::deserialize(HintOnly { s, borrowed: false }).ok().flatten().map(|b| b.as_str().to_owned()))),
        ("hint_only_borrowed", guard(|| <&Pointer as Deserialize>::deserialize(HintOnly { s, borrowed: true }).ok().map(|b| b.as_str().to_owned()))),
    ] {
        match r {
            None => law.fail(&format!("{n}_panicked")),
            Some(t) => {
                law.ck(t.is_some() == valid, &format!("{n}_{}", if valid { "rejected_valid" } else { "accepted_invalid" }));
                if let Some(t) = t {
                    law.ck(t == s, &format!("{n}_text_differs"));
                }
            }
        }
    }
    o.law("law_refuse", &law);
    o.finish()
}

/// Canonical decimal of a literal: optional sign, digits; no leading zeros, `-` only for
/// negatives.
fn canonical_decimal(lit: &str) -> Option<String> {
    let (neg, digits) = if let Some(d) = lit.strip_prefix('-') {
        (true, d)
    } else if let Some(d) = lit.strip_prefix('+') {
        (false, d)
    } else {
        (false, lit)
    };
    if digits.is_empty() || !digits.bytes().all(|b| b.is_ascii_digit()) {
        return None;
    }
    let t = digits.trim_start_matches('0');
    if t.is_empty() {
        return Some("0".to_string());
    }
    Some(if neg { format!("-{t}") } else { t.to_string() })
}

pub fn op_tok_int(ty: &str, dec: &str) -> Option<String> {
    let canon = canonical_decimal(dec)?;
    let mut law_mut = Law::new();
    macro_rules! mk {
        ($t:ty) => {{
            let v: $t = dec.parse::<$t>().ok()?;
            // the same integer as the token argument of every mutator and builder that takes `impl Into<Token>` (C11): the pointer
            // gains exactly the token that spells the number in canonical decimal, and nothing panics
            let want = format!("/{canon}");
            let r = guard(|| {
                let mut ok = true;
                let mut b = PointerBuf::new(); b.push_back(v); ok &= b.as_str() == want;
                let mut b = PointerBuf::new(); b.push_front(v); ok &= b.as_str() == want;
                let mut b = PointerBuf::parse("/x").expect("valid"); ok &= b.replace(0, v).is_ok() && b.as_str() == want;
                ok &= PointerBuf::from_tokens([v]).as_str() == want;
                ok &= Pointer::root().with_trailing_token(v).as_str() == want && Pointer::root().with_leading_token(v).as_str() == want;
                ok
            });
            match r {
                None => law_mut.fail("a_mutator_panics_on_an_integer_token"),
                Some(ok) => law_mut.ck(ok, "integer_token_through_a_mutator_is_not_its_decimal"),
            }
            Token::from(v).encoded().to_string()
        }};
    }
    let enc = match ty {
        "u8" => mk!(u8),
        "u16" => mk!(u16),
        "u32" => mk!(u32),
        "u64" => mk!(u64),
        "u128" => mk!(u128),
        "usize" => mk!(usize),
        "i8" => mk!(i8),
        "i16" => mk!(i16),
        "i32" => mk!(i32),
        "i64" => mk!(i64),
        "i128" => mk!(i128),
        "isize" => mk!(isize),
        _ => return None,
    };
    let mut o = Out::new();
    o.f("enc", &xh(&enc));
    let mut law = Law::new();
    law.ck(enc == canon, "not_canonical_decimal");
    law.merge(&law_mut);
    o.law("law_decimal", &law);
    Some(o.finish())
}
