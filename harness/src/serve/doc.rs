//! Neutral documents (`DOC` syntax), locations, and the backend abstraction over
//! `serde_json::Value` / `toml::Value` used by the tree operations and their oracles.

use super::util::{hex_into, unhex};
use std::collections::BTreeMap;

#[derive(Debug, Clone, PartialEq, Eq)]
pub enum Doc {
    Null,
    Bool(bool),
    Int(i64),
    Str(String),
    /// `#d<16 hex digits>`: an f64 by its bits; json number (finite only) / toml float
    Float(u64),
    /// `#u<digits>`: a u64 above i64::MAX (json only)
    U64(u64),
    /// `#T<hex of the text>`: a toml datetime (toml only)
    Date(String),
    Arr(Vec<Doc>),
    Obj(BTreeMap<String, Doc>),
}

// ---------------------------------------------------------------------------------------------
// parsing / printing
// ---------------------------------------------------------------------------------------------

struct P<'a> {
    b: &'a [u8],
    i: usize,
    depth: usize,
}

impl<'a> P<'a> {
    fn peek(&self) -> Option<u8> {
        self.b.get(self.i).copied()
    }
    fn hex_run(&mut self) -> &'a [u8] {
        let st = self.i;
        while let Some(c) = self.peek() {
            if c.is_ascii_digit() || (b'a'..=b'f').contains(&c) {
                self.i += 1;
            } else {
                break;
            }
        }
        &self.b[st..self.i]
    }
    fn hex_string(&mut self) -> Option<String> {
        let run = self.hex_run();
        String::from_utf8(unhex(run)?).ok()
    }
    fn doc(&mut self) -> Option<Doc> {
        self.depth += 1;
        if self.depth > 512 {
            return None;
        }
        let r = self.doc_inner();
        self.depth -= 1;
        r
    }
    fn doc_inner(&mut self) -> Option<Doc> {
        match self.peek()? {
            b'#' => {
                self.i += 1;
                let k = self.peek()?;
                self.i += 1;
                match k {
                    b'n' => Some(Doc::Null),
                    b't' => Some(Doc::Bool(true)),
                    b'f' => Some(Doc::Bool(false)),
                    b'i' => {
                        let st = self.i;
                        if self.peek() == Some(b'-') {
                            self.i += 1;
                        }
                        let ds = self.i;
                        while matches!(self.peek(), Some(c) if c.is_ascii_digit()) {
                            self.i += 1;
                        }
                        if self.i == ds {
                            return None;
                        }
                        let txt = std::str::from_utf8(&self.b[st..self.i]).ok()?;
                        txt.parse::<i64>().ok().map(Doc::Int)
                    }
                    b's' => self.hex_string().map(Doc::Str),
                    b'd' => {
                        let st = self.i;
                        while matches!(self.peek(), Some(c) if c.is_ascii_hexdigit()) { self.i += 1; }
                        let txt = std::str::from_utf8(&self.b[st..self.i]).ok()?;
                        if txt.len() != 16 { return None; }
                        let bits = u64::from_str_radix(txt, 16).ok()?;
                        // non-finite bit patterns are accepted here: toml can hold `nan` / `inf` (serde_json cannot: the conversion fails there)
                        Some(Doc::Float(bits))
                    }
                    b'u' => {
                        let st = self.i;
                        while matches!(self.peek(), Some(c) if c.is_ascii_digit()) { self.i += 1; }
                        let txt = std::str::from_utf8(&self.b[st..self.i]).ok()?;
                        let v = txt.parse::<u64>().ok()?;
                        if v <= i64::MAX as u64 { return None; }
                        Some(Doc::U64(v))
                    }
                    b'T' => {
                        let s = self.hex_string()?;
                        s.parse::<toml::value::Datetime>().ok()?;
                        Some(Doc::Date(s))
                    }
                    _ => None,
                }
            }
            b'[' => {
                self.i += 1;
                let mut v = Vec::new();
                if self.peek()? == b']' {
                    self.i += 1;
                    return Some(Doc::Arr(v));
                }
                loop {
                    v.push(self.doc()?);
                    match self.peek()? {
                        b',' => self.i += 1,
                        b']' => {
                            self.i += 1;
                            return Some(Doc::Arr(v));
                        }
                        _ => return None,
                    }
                }
            }
            b'{' => {
                self.i += 1;
                let mut m = BTreeMap::new();
                if self.peek()? == b'}' {
                    self.i += 1;
                    return Some(Doc::Obj(m));
                }
                loop {
                    let key = self.hex_string()?;
                    if self.peek()? != b':' {
                        return None;
                    }
                    self.i += 1;
                    let val = self.doc()?;
                    if m.insert(key, val).is_some() {
                        return None; // duplicate key
                    }
                    match self.peek()? {
                        b',' => self.i += 1,
                        b'}' => {
                            self.i += 1;
                            return Some(Doc::Obj(m));
                        }
                        _ => return None,
                    }
                }
            }
            _ => None,
        }
    }
}

impl Doc {
    pub fn parse(s: &str) -> Option<Doc> {
        let mut p = P { b: s.as_bytes(), i: 0, depth: 0 };
        let d = p.doc()?;
        if p.i == p.b.len() {
            Some(d)
        } else {
            None
        }
    }

    pub fn print_into(&self, o: &mut String) {
        match self {
            Doc::Null => o.push_str("#n"),
            Doc::Bool(true) => o.push_str("#t"),
            Doc::Bool(false) => o.push_str("#f"),
            Doc::Int(i) => {
                o.push_str("#i");
                o.push_str(&i.to_string());
            }
            Doc::Str(s) => {
                o.push_str("#s");
                hex_into(o, s.as_bytes());
            }
            Doc::Float(b) => {
                o.push_str("#d");
                o.push_str(&format!("{:016x}", b));
            }
            Doc::U64(v) => {
                o.push_str("#u");
                o.push_str(&v.to_string());
            }
            Doc::Date(s) => {
                o.push_str("#T");
                hex_into(o, s.as_bytes());
            }
            Doc::Arr(v) => {
                o.push('[');
                for (i, d) in v.iter().enumerate() {
                    if i > 0 {
                        o.push(',');
                    }
                    d.print_into(o);
                }
                o.push(']');
            }
            Doc::Obj(m) => {
                o.push('{');
                for (i, (k, d)) in m.iter().enumerate() {
                    if i > 0 {
                        o.push(',');
                    }
                    hex_into(o, k.as_bytes());
                    o.push(':');
                    d.print_into(o);
                }
                o.push('}');
            }
        }
    }

    pub fn print(&self) -> String {
        let mut s = String::new();
        self.print_into(&mut s);
        s
    }

    pub fn has_null(&self) -> bool {
        match self {
            Doc::Null => true,
            Doc::Arr(v) => v.iter().any(Doc::has_null),
            Doc::Obj(m) => m.values().any(Doc::has_null),
            _ => false,
        }
    }
}

// ---------------------------------------------------------------------------------------------
// locations
// ---------------------------------------------------------------------------------------------

#[derive(Debug, Clone, PartialEq, Eq)]
pub enum Step {
    K(String),
    I(usize),
}

impl Step {
    /// The decoded token text that spells this step.
    pub fn token_text(&self) -> String {
        match self {
            Step::K(k) => k.clone(),
            Step::I(i) => i.to_string(),
        }
    }
}

pub fn loc(path: &[Step]) -> String {
    let mut o = String::from("loc(");
    for (i, s) in path.iter().enumerate() {
        if i > 0 {
            o.push(',');
        }
        match s {
            Step::K(k) => {
                o.push('k');
                hex_into(&mut o, k.as_bytes());
            }
            Step::I(n) => {
                o.push('i');
                o.push_str(&n.to_string());
            }
        }
    }
    o.push(')');
    o
}

// ---------------------------------------------------------------------------------------------
// backends
// ---------------------------------------------------------------------------------------------

pub trait Be:
    Sized
    + Clone
    + PartialEq
    + jsonptr::Resolve<Value = Self, Error = jsonptr::resolve::Error>
    + jsonptr::ResolveMut<Value = Self, Error = jsonptr::resolve::Error>
    + jsonptr::Assign<Value = Self, Error = jsonptr::assign::Error>
    + jsonptr::Delete<Value = Self>
{
    /// `None` when the document cannot be represented (null under toml).
    fn from_doc(d: &Doc) -> Option<Self>;
    fn to_doc(&self) -> Doc;
    fn as_arr(&self) -> Option<&[Self]>;
    fn is_obj(&self) -> bool;
    /// Object member (None when not an object or no such member).
    fn member(&self, key: &str) -> Option<&Self>;
    /// Calls `f` for each member of an object (nothing for other kinds).
    fn each_member<'a>(&'a self, f: &mut dyn FnMut(&'a str, &'a Self));
    fn member_count(&self) -> usize;
    /// What `delete` of the root leaves behind.
    fn deleted_root() -> Self;
    /// An equal document (`==`) in which every array's `Vec` has spare capacity — hidden state that must
    /// not influence any operation.
    fn with_slack(&self) -> Self;

    fn is_scalar(&self) -> bool {
        self.as_arr().is_none() && !self.is_obj()
    }
}

impl Be for serde_json::Value {
    fn from_doc(d: &Doc) -> Option<Self> {
        use serde_json::Value as V;
        Some(match d {
            Doc::Null => V::Null,
            Doc::Bool(b) => V::Bool(*b),
            Doc::Int(i) => V::Number((*i).into()),
            Doc::Str(s) => V::String(s.clone()),
            Doc::Float(b) => V::Number(serde_json::Number::from_f64(f64::from_bits(*b))?),
            Doc::U64(v) => V::Number((*v).into()),
            Doc::Date(_) => return None,
            Doc::Arr(v) => V::Array(v.iter().map(Self::from_doc).collect::<Option<Vec<_>>>()?),
            Doc::Obj(m) => {
                let mut o = serde_json::Map::new();
                for (k, v) in m {
                    o.insert(k.clone(), Self::from_doc(v)?);
                }
                V::Object(o)
            }
        })
    }
    fn to_doc(&self) -> Doc {
        use serde_json::Value as V;
        match self {
            V::Null => Doc::Null,
            V::Bool(b) => Doc::Bool(*b),
            V::Number(n) => {
                if let Some(i) = n.as_i64() { Doc::Int(i) }
                else if let Some(u) = n.as_u64() { Doc::U64(u) }
                else { Doc::Float(n.as_f64().unwrap_or(0.0).to_bits()) }
            }
            V::String(s) => Doc::Str(s.clone()),
            V::Array(v) => Doc::Arr(v.iter().map(Be::to_doc).collect()),
            V::Object(m) => Doc::Obj(m.iter().map(|(k, v)| (k.clone(), v.to_doc())).collect()),
        }
    }
    fn as_arr(&self) -> Option<&[Self]> {
        match self {
            serde_json::Value::Array(v) => Some(v.as_slice()),
            _ => None,
        }
    }
    fn is_obj(&self) -> bool {
        matches!(self, serde_json::Value::Object(_))
    }
    fn member(&self, key: &str) -> Option<&Self> {
        match self {
            serde_json::Value::Object(m) => m.get(key),
            _ => None,
        }
    }
    fn each_member<'a>(&'a self, f: &mut dyn FnMut(&'a str, &'a Self)) {
        if let serde_json::Value::Object(m) = self {
            for (k, v) in m.iter() {
                f(k.as_str(), v);
            }
        }
    }
    fn member_count(&self) -> usize {
        match self {
            serde_json::Value::Object(m) => m.len(),
            _ => 0,
        }
    }
    fn with_slack(&self) -> Self {
        use serde_json::Value as V;
        match self {
            V::Array(v) => {
                let mut w = Vec::with_capacity(v.len() + 5);
                w.extend(v.iter().map(|c| c.with_slack()));
                V::Array(w)
            }
            V::Object(m) => V::Object(m.iter().map(|(k, c)| (k.clone(), c.with_slack())).collect()),
            other => other.clone(),
        }
    }
    fn deleted_root() -> Self {
        serde_json::Value::Null
    }
}

impl Be for toml::Value {
    fn from_doc(d: &Doc) -> Option<Self> {
        use toml::Value as V;
        Some(match d {
            Doc::Null => return None,
            Doc::Bool(b) => V::Boolean(*b),
            Doc::Int(i) => V::Integer(*i),
            Doc::Str(s) => V::String(s.clone()),
            Doc::Float(b) => V::Float(f64::from_bits(*b)),
            Doc::U64(_) => return None,
            Doc::Date(s) => V::Datetime(s.parse::<toml::value::Datetime>().ok()?),
            Doc::Arr(v) => V::Array(v.iter().map(Self::from_doc).collect::<Option<Vec<_>>>()?),
            Doc::Obj(m) => {
                let mut o = toml::map::Map::new();
                for (k, v) in m {
                    o.insert(k.clone(), Self::from_doc(v)?);
                }
                V::Table(o)
            }
        })
    }
    fn to_doc(&self) -> Doc {
        use toml::Value as V;
        match self {
            V::Boolean(b) => Doc::Bool(*b),
            V::Integer(i) => Doc::Int(*i),
            V::String(s) => Doc::Str(s.clone()),
            V::Array(v) => Doc::Arr(v.iter().map(Be::to_doc).collect()),
            V::Table(m) => Doc::Obj(m.iter().map(|(k, v)| (k.clone(), v.to_doc())).collect()),
            // never produced by the generator
            V::Float(f) => Doc::Float(f.to_bits()),
            V::Datetime(d) => Doc::Date(d.to_string()),
        }
    }
    fn as_arr(&self) -> Option<&[Self]> {
        match self {
            toml::Value::Array(v) => Some(v.as_slice()),
            _ => None,
        }
    }
    fn is_obj(&self) -> bool {
        matches!(self, toml::Value::Table(_))
    }
    fn member(&self, key: &str) -> Option<&Self> {
        match self {
            toml::Value::Table(m) => m.get(key),
            _ => None,
        }
    }
    fn each_member<'a>(&'a self, f: &mut dyn FnMut(&'a str, &'a Self)) {
        if let toml::Value::Table(m) = self {
            for (k, v) in m.iter() {
                f(k.as_str(), v);
            }
        }
    }
    fn member_count(&self) -> usize {
        match self {
            toml::Value::Table(m) => m.len(),
            _ => 0,
        }
    }
    fn with_slack(&self) -> Self {
        use toml::Value as V;
        match self {
            V::Array(v) => {
                let mut w = Vec::with_capacity(v.len() + 5);
                w.extend(v.iter().map(|c| c.with_slack()));
                V::Array(w)
            }
            V::Table(m) => V::Table(m.iter().map(|(k, c)| (k.clone(), c.with_slack())).collect()),
            other => other.clone(),
        }
    }
    fn deleted_root() -> Self {
        toml::Value::Table(toml::map::Map::new())
    }
}

/// Walks `doc` along `path` using accessors only.
pub fn at_path<'a, B: Be>(doc: &'a B, path: &[Step]) -> Option<&'a B> {
    let mut cur = doc;
    for s in path {
        cur = match s {
            Step::K(k) => cur.member(k)?,
            Step::I(i) => cur.as_arr()?.get(*i)?,
        };
    }
    Some(cur)
}

/// Depth-first search for the node whose address is `target`.
pub fn find_addr<B: Be>(root: &B, target: *const B) -> Option<Vec<Step>> {
    fn go<B: Be>(node: &B, target: *const B, path: &mut Vec<Step>) -> bool {
        if std::ptr::eq(node as *const B, target) {
            return true;
        }
        if let Some(a) = node.as_arr() {
            for (i, c) in a.iter().enumerate() {
                path.push(Step::I(i));
                if go(c, target, path) {
                    return true;
                }
                path.pop();
            }
        } else if node.is_obj() {
            let mut found = false;
            node.each_member(&mut |k, c| {
                if found {
                    return;
                }
                path.push(Step::K(k.to_string()));
                if go(c, target, path) {
                    found = true;
                } else {
                    path.pop();
                }
            });
            return found;
        }
        false
    }
    let mut path = Vec::new();
    if go(root, target, &mut path) {
        Some(path)
    } else {
        None
    }
}

/// Visits every node of `doc` (pre-order) with its path. `f` returns false to skip the
/// node's descendants.
pub fn visit<'a, B: Be>(doc: &'a B, f: &mut dyn FnMut(&[Step], &'a B) -> bool) {
    fn go<'a, B: Be>(node: &'a B, path: &mut Vec<Step>, f: &mut dyn FnMut(&[Step], &'a B) -> bool) {
        if !f(path, node) {
            return;
        }
        if let Some(a) = node.as_arr() {
            for (i, c) in a.iter().enumerate() {
                path.push(Step::I(i));
                go(c, path, f);
                path.pop();
            }
        } else if node.is_obj() {
            // collect first: the closure borrows `path` mutably
            let mut kids: Vec<(&'a str, &'a B)> = Vec::with_capacity(node.member_count());
            node.each_member(&mut |k, c| kids.push((k, c)));
            for (k, c) in kids {
                path.push(Step::K(k.to_string()));
                go(c, path, f);
                path.pop();
            }
        }
    }
    let mut path = Vec::new();
    go(doc, &mut path, f);
}
