//! The one PRNG of the generator: splitmix64 for seeding, xorshift64* for the stream.
//! Every random choice made by `jpgen` goes through this type.

pub struct Rng(u64);

fn splitmix64(state: &mut u64) -> u64 {
    *state = state.wrapping_add(0x9E37_79B9_7F4A_7C15);
    let mut z = *state;
    z = (z ^ (z >> 30)).wrapping_mul(0xBF58_476D_1CE4_E5B9);
    z = (z ^ (z >> 27)).wrapping_mul(0x94D0_49BB_1331_11EB);
    z ^ (z >> 31)
}

impl Rng {
    /// `stream` separates the properties: the same SEED gives unrelated streams for C02 and C14.
    pub fn new(seed: u64, stream: u64) -> Rng {
        let mut s = seed ^ stream.wrapping_mul(0xD6E8_FEB8_6659_FD93);
        let mut v = splitmix64(&mut s);
        v ^= splitmix64(&mut s).rotate_left(17);
        if v == 0 {
            v = 0x9E37_79B9_7F4A_7C15;
        }
        let mut r = Rng(v);
        for _ in 0..4 {
            r.next();
        }
        r
    }

    #[inline]
    pub fn next(&mut self) -> u64 {
        let mut x = self.0;
        x ^= x >> 12;
        x ^= x << 25;
        x ^= x >> 27;
        self.0 = x;
        x.wrapping_mul(0x2545_F491_4F6C_DD1D)
    }

    /// Uniform in `0..n` (`n > 0`), multiply-high reduction.
    #[inline]
    pub fn below(&mut self, n: u64) -> u64 {
        debug_assert!(n > 0);
        ((self.next() as u128 * n as u128) >> 64) as u64
    }

    /// Uniform in `lo..=hi`.
    #[inline]
    pub fn range(&mut self, lo: usize, hi: usize) -> usize {
        debug_assert!(lo <= hi);
        lo + self.below((hi - lo) as u64 + 1) as usize
    }

    /// True with probability `pct` percent.
    #[inline]
    pub fn pct(&mut self, pct: u64) -> bool {
        self.below(100) < pct
    }

    /// True once in `n`.
    #[inline]
    pub fn one_in(&mut self, n: u64) -> bool {
        self.below(n) == 0
    }

    #[inline]
    pub fn pick<'a, T>(&mut self, xs: &'a [T]) -> &'a T {
        &xs[self.below(xs.len() as u64) as usize]
    }

    /// Index chosen with the given weights.
    pub fn weighted(&mut self, ws: &[u32]) -> usize {
        let total: u64 = ws.iter().map(|&w| w as u64).sum();
        let mut r = self.below(total);
        for (i, &w) in ws.iter().enumerate() {
            if r < w as u64 {
                return i;
            }
            r -= w as u64;
        }
        ws.len() - 1
    }
}
