//! String, token and pointer-text generators (DESIGN §4 "Strings", "Pointers", "Token lists").
//! Tokens are handled in their RAW (decoded) form; `encode` is the RFC 6901 escape map, which is a
//! bijection raw string -> valid encoded token, so every valid pointer text is reachable.

use super::rng::Rng;

/// The delicate-token pool of DESIGN §4 (raw tokens).
pub const POOL: &[&str] = &[
    "", "~", "/", "~0", "~1", "~01", "0", "1", "-", "01", "00", "10", "+1", "é", "a/b", "m~n",
];

/// More tokens that are interesting for one operation or another.
pub const POOL2: &[&str] = &[
    "a", "b", "c", "foo", "foobar", "bar", "2", "9", "11", "12", " ", "€", "😀", "٣", "\u{131}", "1\u{130}", "\u{132}", "\u{4e30}", "~~", "//", "~/", "/~",
    "a~", "~a", "~2", "-1", "--", "0x", "1e3", "18446744073709551615", "18446744073709551616", "A", "\u{0}",
    "\"", "\\", "e\u{301}", "key", "x",
];

pub const TWO_BYTE: &[char] = &['é', 'ß', 'ñ', '\u{7ff}', '\u{80}', '\u{130}', '\u{131}', '\u{12f}', '\u{17e}'];
pub const THREE_BYTE: &[char] = &['€', '한', '\u{ffff}', '\u{800}', '\u{ff5e}'];
pub const FOUR_BYTE: &[char] = &['😀', '𝄞', '\u{10000}', '\u{10ffff}'];
pub const CONTROL: &[char] = &['\u{0}', '\t', '\n', '\r', '\u{1b}', '\u{7f}'];
const LETTERS: &[u8] = b"abcdefghijklmnopqrstuvwxyzABCDEFXYZ_.";

#[derive(Clone, Copy, PartialEq)]
pub enum Mode {
    General,
    Tilde,
    Alpha,
    Digits,
}

pub fn push_char(rng: &mut Rng, mode: Mode, out: &mut String) {
    match mode {
        Mode::General => {
            // weights sum to 100
            let r = rng.below(100);
            let c = match r {
                0..=6 => '/',
                7..=15 => '~',
                16..=20 => '0',
                21..=25 => '1',
                26..=30 => (b'2' + rng.below(8) as u8) as char,
                31..=33 => '-',
                34..=35 => '+',
                36..=68 => *rng.pick(LETTERS) as char,
                69..=71 => ' ',
                72..=74 => *rng.pick(CONTROL),
                75..=77 => {
                    if rng.pct(50) {
                        '"'
                    } else {
                        '\\'
                    }
                }
                78..=84 => *rng.pick(TWO_BYTE),
                85..=89 => *rng.pick(THREE_BYTE),
                90..=93 => *rng.pick(FOUR_BYTE),
                _ => '٣',
            };
            out.push(c);
        }
        Mode::Tilde => {
            let r = rng.below(100);
            out.push(match r {
                0..=34 => '~',
                35..=49 => '/',
                50..=64 => '0',
                65..=79 => '1',
                _ => 'x',
            });
        }
        Mode::Alpha => out.push(*rng.pick(LETTERS) as char),
        Mode::Digits => {
            let r = rng.below(100);
            out.push(match r {
                0..=84 => (b'0' + rng.below(10) as u8) as char,
                85..=89 => '-',
                90..=92 => '+',
                93..=95 => '٣',
                _ => *rng.pick(LETTERS) as char,
            });
        }
    }
}

/// Length classes 0 / 1-4 / 5-16 / 17-64 (in chars). The 1k-8k class is requested explicitly.
pub fn short_len(rng: &mut Rng) -> usize {
    match rng.below(100) {
        0..=3 => 0,
        4..=49 => rng.range(1, 4),
        50..=84 => rng.range(5, 16),
        _ => rng.range(17, 64),
    }
}

pub fn long_len(rng: &mut Rng) -> usize {
    rng.range(1024, 8192)
}

pub fn pick_mode(rng: &mut Rng) -> Mode {
    match rng.below(100) {
        0..=49 => Mode::General,
        50..=79 => Mode::Tilde,
        80..=92 => Mode::Alpha,
        _ => Mode::Digits,
    }
}

pub fn string_of(rng: &mut Rng, mode: Mode, len: usize) -> String {
    let mut s = String::with_capacity(len + 8);
    for _ in 0..len {
        push_char(rng, mode, &mut s);
    }
    s
}

/// An arbitrary UTF-8 string (may contain `/`, stray `~`, anything).
pub fn gen_string(rng: &mut Rng) -> String {
    let mode = pick_mode(rng);
    let len = short_len(rng);
    string_of(rng, mode, len)
}

/// Same with the tilde-dense mode made prominent (C03).
pub fn gen_string_tilde(rng: &mut Rng) -> String {
    let mode = if rng.pct(60) { Mode::Tilde } else { pick_mode(rng) };
    let len = short_len(rng);
    string_of(rng, mode, len)
}

pub fn gen_long_string(rng: &mut Rng) -> String {
    let mode = if rng.pct(50) { Mode::Tilde } else { pick_mode(rng) };
    let len = long_len(rng);
    string_of(rng, mode, len)
}

/// RFC 6901 escaping, `~` -> `~0`, `/` -> `~1`.
pub fn encode_into(raw: &str, out: &mut String) {
    for c in raw.chars() {
        match c {
            '~' => out.push_str("~0"),
            '/' => out.push_str("~1"),
            c => out.push(c),
        }
    }
}

pub fn encode(raw: &str) -> String {
    let mut s = String::with_capacity(raw.len() + 4);
    encode_into(raw, &mut s);
    s
}

/// Pointer text of a raw token list.
pub fn ptr_of<S: AsRef<str>>(toks: &[S]) -> String {
    let mut s = String::new();
    for t in toks {
        s.push('/');
        encode_into(t.as_ref(), &mut s);
    }
    s
}

/// A raw token: delicate pool, second pool, or the string generator (short).
pub fn gen_token(rng: &mut Rng) -> String {
    match rng.below(100) {
        0..=39 => (*rng.pick(POOL)).to_string(),
        40..=54 => (*rng.pick(POOL2)).to_string(),
        _ => {
            let mode = pick_mode(rng);
            let len = match rng.below(10) {
                0 => 0,
                1..=6 => rng.range(1, 4),
                7..=8 => rng.range(5, 12),
                _ => rng.range(13, 40),
            };
            string_of(rng, mode, len)
        }
    }
}

/// A plain token (letters / small numbers) for the boring parts of a pointer.
pub fn gen_plain_token(rng: &mut Rng) -> String {
    match rng.below(10) {
        0..=5 => {
            let n = rng.range(1, 5);
            string_of(rng, Mode::Alpha, n)
        }
        6..=8 => rng.below(13).to_string(),
        _ => (*rng.pick(&["foo", "bar", "a", "b", "key"])).to_string(),
    }
}

pub fn gen_count(rng: &mut Rng) -> usize {
    match rng.below(100) {
        0..=7 => 0,
        8..=27 => 1,
        28..=49 => 2,
        50..=69 => 3,
        70..=81 => 4,
        82..=90 => 5,
        91..=96 => 6,
        _ => rng.range(7, 12),
    }
}

/// 0-6 (rarely up to 12) raw tokens.
pub fn gen_tokens(rng: &mut Rng) -> Vec<String> {
    let n = gen_count(rng);
    gen_tokens_n(rng, n)
}

pub fn gen_tokens_n(rng: &mut Rng, n: usize) -> Vec<String> {
    let plain = rng.pct(15);
    (0..n)
        .map(|_| if plain || rng.pct(20) { gen_plain_token(rng) } else { gen_token(rng) })
        .collect()
}

/// A valid pointer text.
pub fn gen_ptr(rng: &mut Rng) -> String {
    ptr_of(&gen_tokens(rng))
}

/// A short valid pointer (0-3 tokens), used as an appended / secondary pointer.
pub fn gen_small_ptr(rng: &mut Rng) -> String {
    let n = match rng.below(10) {
        0..=1 => 0,
        2..=5 => 1,
        6..=8 => 2,
        _ => 3,
    };
    ptr_of(&gen_tokens_n(rng, n))
}

/// A long valid pointer: thousands of tokens or a few multi-kilobyte tokens.
pub fn gen_long_ptr(rng: &mut Rng) -> String {
    if rng.pct(60) {
        let n = rng.range(1000, 4000);
        let mut s = String::with_capacity(n * 4);
        for _ in 0..n {
            s.push('/');
            match rng.below(8) {
                0 => {}
                1 => s.push_str("~0"),
                2 => s.push_str("~1"),
                3 => s.push('é'),
                4 => s.push_str(&rng.below(100).to_string()),
                _ => {
                    let k = rng.range(1, 3);
                    for _ in 0..k {
                        push_char(rng, Mode::Alpha, &mut s);
                    }
                }
            }
        }
        s
    } else {
        let n = rng.range(1, 4);
        let toks: Vec<String> = (0..n)
            .map(|_| {
                let mode = if rng.pct(50) { Mode::Alpha } else { pick_mode(rng) };
                let len = rng.range(700, 3000);
                string_of(rng, mode, len)
            })
            .collect();
        ptr_of(&toks)
    }
}

/// Independent-of-the-crate recogniser used by the generator itself to classify its output.
pub fn is_valid_ptr(s: &str) -> bool {
    let b = s.as_bytes();
    if b.is_empty() {
        return true;
    }
    if b[0] != b'/' {
        return false;
    }
    let mut i = 0;
    while i < b.len() {
        if b[i] == b'~' {
            if i + 1 >= b.len() || (b[i + 1] != b'0' && b[i + 1] != b'1') {
                return false;
            }
        }
        i += 1;
    }
    true
}

/// Char boundaries of `s` (including 0 and len).
fn boundaries(s: &str) -> Vec<usize> {
    let mut v: Vec<usize> = s.char_indices().map(|(i, _)| i).collect();
    v.push(s.len());
    v
}

const BAD_AFTER_TILDE: &[&str] = &["2", "9", "a", "~", "é", "€", "😀", " ", "-", "x", "٣", "\u{0}", "~0", "~1",
    // code points whose low byte is '0' / '1' / '/' / '~' (what a truncating `c as u8` keeps)
    "\u{130}", "\u{131}", "\u{12f}", "\u{17e}", "\u{4e30}", "\u{1f631}"];

/// Malformed-pointer stream: corrupt a valid pointer text (DESIGN §4). The result is *usually* invalid.
pub fn corrupt_ptr(rng: &mut Rng, valid: &str) -> String {
    let mut s = valid.to_string();
    match rng.below(100) {
        // drop the leading '/'
        0..=17 => {
            if s.is_empty() {
                s = gen_plain_token(rng);
                if s.is_empty() {
                    s.push('a');
                }
            } else {
                s.remove(0);
                if s.is_empty() || s.starts_with('/') {
                    // "/" -> "" and "//a" -> "/a" would still be valid: put something in front
                    s.insert_str(0, &gen_plain_token(rng));
                }
            }
        }
        // insert a stray '~' at a random char boundary
        18..=41 => {
            if s.is_empty() {
                s.push('/');
            }
            let bs = boundaries(&s);
            let at = bs[rng.range(1, bs.len() - 1)];
            s.insert(at, '~');
        }
        // truncate right after a '~' (or append one)
        42..=57 => {
            let tildes: Vec<usize> = s.match_indices('~').map(|(i, _)| i).collect();
            if tildes.is_empty() {
                if s.is_empty() {
                    s.push('/');
                }
                s.push('~');
            } else {
                let at = *rng.pick(&tildes);
                s.truncate(at + 1);
            }
        }
        // change an escape digit
        58..=75 => {
            let tildes: Vec<usize> = s.match_indices('~').map(|(i, _)| i).collect();
            if tildes.is_empty() {
                if s.is_empty() {
                    s.push('/');
                }
                s.push('~');
                s.push_str(*rng.pick(BAD_AFTER_TILDE));
            } else {
                let at = *rng.pick(&tildes);
                // the byte after a '~' in a valid pointer is '0' or '1'
                s.replace_range(at + 1..at + 2, *rng.pick(BAD_AFTER_TILDE));
            }
        }
        // a multi-byte char right after a '~'
        76..=89 => {
            if s.is_empty() {
                s.push('/');
            }
            let bs = boundaries(&s);
            let at = bs[rng.range(1, bs.len() - 1)];
            let mut ins = String::from("~");
            ins.push(match rng.below(3) {
                0 => *rng.pick(TWO_BYTE),
                1 => *rng.pick(THREE_BYTE),
                _ => *rng.pick(FOUR_BYTE),
            });
            s.insert_str(at, &ins);
        }
        // '~' directly before a '/' or at the very end
        _ => {
            if s.is_empty() {
                s.push('/');
            }
            let slashes: Vec<usize> = s.match_indices('/').map(|(i, _)| i).filter(|&i| i > 0).collect();
            if slashes.is_empty() || rng.pct(40) {
                s.push('~');
            } else {
                let at = *rng.pick(&slashes);
                s.insert(at, '~');
            }
        }
    }
    s
}

/// C14: a rejected string with the offence placed deliberately: bad `~` in the first / a middle / the
/// last token, at the token's start / middle / end (end = before '/' or the very end), followed by a
/// digit, letter, `~`, multi-byte char; optionally after earlier valid escapes.
pub fn gen_bad_tilde_ptr(rng: &mut Rng) -> String {
    let n = match rng.below(10) {
        0..=2 => 1,
        3..=5 => 2,
        6..=8 => 3,
        _ => rng.range(4, 7),
    };
    let earlier_escapes = rng.pct(50);
    let mut toks: Vec<String> = (0..n)
        .map(|_| {
            if earlier_escapes && rng.pct(70) {
                let raw = match rng.below(5) {
                    0 => "~".to_string(),
                    1 => "/".to_string(),
                    2 => "a~b/c".to_string(),
                    3 => "~~//".to_string(),
                    _ => gen_token(rng),
                };
                encode(&raw)
            } else if rng.pct(25) {
                encode(&gen_token(rng))
            } else {
                encode(&gen_plain_token(rng))
            }
        })
        .collect();
    // which token
    let k = match rng.below(3) {
        0 => 0,
        1 => n - 1,
        _ => rng.range(0, n - 1),
    };
    let tok = toks[k].clone();
    // where inside the token: never between a '~' and its digit unless we mean it
    let mut cuts: Vec<usize> = Vec::new();
    let b = tok.as_bytes();
    for (i, _) in tok.char_indices() {
        if i > 0 && b[i - 1] == b'~' {
            continue;
        }
        cuts.push(i);
    }
    cuts.push(tok.len());
    let at = match rng.below(4) {
        0 => 0,
        1 => tok.len(),
        _ => *rng.pick(&cuts),
    };
    let at_end = at == tok.len();
    let mut ins = String::from("~");
    let follow = rng.below(10);
    if at_end && follow < 5 {
        // bare '~' at the end of the token: before '/' or at the very end of the string
    } else {
        match follow {
            0..=2 => ins.push((b'2' + rng.below(8) as u8) as char),
            3..=4 => push_char(rng, Mode::Alpha, &mut ins),
            5 => ins.push('~'),
            6 => ins.push(*rng.pick(TWO_BYTE)),
            7 => ins.push(*rng.pick(THREE_BYTE)),
            8 => ins.push(*rng.pick(FOUR_BYTE)),
            _ => ins.push(*rng.pick(&[' ', '-', '٣', '\u{0}', '"'])),
        }
    }
    let mut t = tok;
    t.insert_str(at, &ins);
    toks[k] = t;
    // sometimes a second offence later (only the first must be reported)
    if rng.pct(12) {
        toks.push("~".to_string());
    }
    let mut s = String::new();
    for t in &toks {
        s.push('/');
        s.push_str(t);
    }
    s
}

/// A string that does not start with '/' (and is not empty).
pub fn gen_no_leading_slash(rng: &mut Rng) -> String {
    let mut s = match rng.below(6) {
        0 => gen_ptr(rng),
        1 => gen_bad_tilde_ptr(rng),
        _ => gen_string(rng),
    };
    while s.starts_with('/') {
        s.remove(0);
    }
    if s.is_empty() || rng.pct(30) {
        let mut pre = String::new();
        match rng.below(6) {
            0 => pre.push('~'),
            1 => pre.push_str("~0"),
            2 => pre.push(' '),
            3 => pre.push('é'),
            4 => pre.push('#'),
            _ => push_char(rng, Mode::Alpha, &mut pre),
        }
        s.insert_str(0, &pre);
    }
    s
}

/// All strings over `alphabet` of length 0..=max_len, shortest first, odometer order.
pub fn for_all_strings<F: FnMut(&str)>(alphabet: &[&str], max_len: usize, mut f: F) {
    let mut s = String::new();
    for_all_lists(alphabet.len(), max_len, |idx| {
        s.clear();
        for &i in idx {
            s.push_str(alphabet[i]);
        }
        f(&s);
    });
}

/// All lists over `pool` of length 0..=max_len (as index vectors).
pub fn for_all_lists<F: FnMut(&[usize])>(k: usize, max_len: usize, mut f: F) {
    for len in 0..=max_len {
        let mut idx = vec![0usize; len];
        'outer: loop {
            f(&idx);
            let mut p = len;
            loop {
                if p == 0 {
                    break 'outer;
                }
                p -= 1;
                idx[p] += 1;
                if idx[p] < k {
                    break;
                }
                idx[p] = 0;
            }
        }
    }
}
