//! Independent re-parser of operation lines for `jpgen selfcheck`. Shares no code with the
//! emitters: own hex decoder, own pointer recogniser, own DOC parser.

pub struct LineInfo {
    pub max_doc_nodes: usize,
}

fn unhex(h: &str) -> Result<Vec<u8>, String> {
    let b = h.as_bytes();
    if b.len() % 2 != 0 {
        return Err(format!("odd hex length {}", b.len()));
    }
    let mut out = Vec::with_capacity(b.len() / 2);
    let val = |c: u8| -> Result<u8, String> {
        match c {
            b'0'..=b'9' => Ok(c - b'0'),
            b'a'..=b'f' => Ok(c - b'a' + 10),
            _ => Err(format!("bad hex digit {:?}", c as char)),
        }
    };
    let mut i = 0;
    while i < b.len() {
        out.push(val(b[i])? * 16 + val(b[i + 1])?);
        i += 2;
    }
    Ok(out)
}

/// `xHEX` -> String (must be UTF-8)
fn xstr(f: &str) -> Result<String, String> {
    let h = f.strip_prefix('x').ok_or_else(|| format!("string field {:?} lacks the x prefix", trunc(f)))?;
    String::from_utf8(unhex(h)?).map_err(|e| format!("not UTF-8: {}", e))
}

fn trunc(s: &str) -> String {
    if s.len() > 60 {
        let mut e = 60;
        while !s.is_char_boundary(e) {
            e -= 1;
        }
        format!("{}…", &s[..e])
    } else {
        s.to_string()
    }
}

fn ptr_ok(s: &str) -> bool {
    if s.is_empty() {
        return true;
    }
    let mut it = s.chars().peekable();
    if it.next() != Some('/') {
        return false;
    }
    while let Some(c) = it.next() {
        if c == '~' {
            match it.next() {
                Some('0') | Some('1') => {}
                _ => return false,
            }
        }
    }
    true
}

fn enc_tok_ok(s: &str) -> bool {
    !s.contains('/') && ptr_ok(&format!("/{}", s))
}

fn xptr(f: &str) -> Result<String, String> {
    let s = xstr(f)?;
    if !ptr_ok(&s) {
        return Err(format!("pointer argument is not a valid pointer: {:?}", trunc(&s)));
    }
    Ok(s)
}

fn usize_ok(f: &str) -> Result<u64, String> {
    if f.is_empty() || !f.bytes().all(|c| c.is_ascii_digit()) || (f.len() > 1 && f.starts_with('0')) {
        return Err(format!("not a canonical decimal usize: {:?}", trunc(f)));
    }
    f.parse::<u64>().map_err(|_| format!("usize out of range: {}", f))
}

fn backend(f: &str) -> Result<bool, String> {
    match f {
        "json" => Ok(false),
        "toml" => Ok(true),
        _ => Err(format!("bad backend {:?}", trunc(f))),
    }
}

struct DocParser<'a> {
    b: &'a [u8],
    i: usize,
    toml: bool,
    nodes: usize,
}

impl<'a> DocParser<'a> {
    fn peek(&self) -> Option<u8> {
        self.b.get(self.i).copied()
    }
    fn hexrun(&mut self) -> &'a str {
        let st = self.i;
        while let Some(c) = self.peek() {
            if c.is_ascii_digit() || (b'a'..=b'f').contains(&c) {
                self.i += 1;
            } else {
                break;
            }
        }
        std::str::from_utf8(&self.b[st..self.i]).unwrap()
    }
    fn doc(&mut self, depth: usize) -> Result<(), String> {
        if depth > 64 {
            return Err("document nesting > 64".into());
        }
        self.nodes += 1;
        match self.peek() {
            Some(b'#') => {
                self.i += 1;
                match self.peek() {
                    Some(b'n') => {
                        self.i += 1;
                        if self.toml {
                            return Err("#n in a toml document".into());
                        }
                        Ok(())
                    }
                    Some(b't') | Some(b'f') => {
                        self.i += 1;
                        Ok(())
                    }
                    Some(b'i') => {
                        self.i += 1;
                        let st = self.i;
                        if self.peek() == Some(b'-') {
                            self.i += 1;
                        }
                        while matches!(self.peek(), Some(c) if c.is_ascii_digit()) {
                            self.i += 1;
                        }
                        let txt = std::str::from_utf8(&self.b[st..self.i]).unwrap();
                        let v: i64 = txt.parse().map_err(|_| format!("integer atom not an i64: {:?}", txt))?;
                        if v.to_string() != txt {
                            return Err(format!("integer atom not canonical: {:?}", txt));
                        }
                        Ok(())
                    }
                    Some(b's') => {
                        self.i += 1;
                        let h = self.hexrun();
                        String::from_utf8(unhex(h)?).map_err(|_| "string atom not UTF-8".to_string())?;
                        Ok(())
                    }
                    other => Err(format!("bad atom tag {:?}", other.map(|c| c as char))),
                }
            }
            Some(b'[') => {
                self.i += 1;
                if self.peek() == Some(b']') {
                    self.i += 1;
                    return Ok(());
                }
                loop {
                    self.doc(depth + 1)?;
                    match self.peek() {
                        Some(b',') => self.i += 1,
                        Some(b']') => {
                            self.i += 1;
                            return Ok(());
                        }
                        other => return Err(format!("expected , or ] in array, got {:?}", other.map(|c| c as char))),
                    }
                }
            }
            Some(b'{') => {
                self.i += 1;
                if self.peek() == Some(b'}') {
                    self.i += 1;
                    return Ok(());
                }
                let mut keys: Vec<Vec<u8>> = Vec::new();
                loop {
                    let h = self.hexrun();
                    let k = unhex(h)?;
                    if std::str::from_utf8(&k).is_err() {
                        return Err("object key not UTF-8".into());
                    }
                    if keys.contains(&k) {
                        return Err(format!("duplicate object key (hex {})", h));
                    }
                    keys.push(k);
                    if self.peek() != Some(b':') {
                        return Err("expected : after object key".into());
                    }
                    self.i += 1;
                    self.doc(depth + 1)?;
                    match self.peek() {
                        Some(b',') => self.i += 1,
                        Some(b'}') => {
                            self.i += 1;
                            return Ok(());
                        }
                        other => return Err(format!("expected , or }} in object, got {:?}", other.map(|c| c as char))),
                    }
                }
            }
            other => Err(format!("unexpected {:?} at document offset {}", other.map(|c| c as char), self.i)),
        }
    }
}

fn doc_ok(f: &str, toml: bool, info: &mut LineInfo) -> Result<(), String> {
    let mut p = DocParser { b: f.as_bytes(), i: 0, toml, nodes: 0 };
    p.doc(0)?;
    if p.i != f.len() {
        return Err(format!("trailing garbage in document at {}", p.i));
    }
    if p.nodes > info.max_doc_nodes {
        info.max_doc_nodes = p.nodes;
    }
    Ok(())
}

fn token_kind(kind: &str, t: &str) -> Result<(), String> {
    let s = xstr(t)?;
    match kind {
        "raw" => Ok(()),
        "enc" => {
            if enc_tok_ok(&s) {
                Ok(())
            } else {
                Err(format!("enc step token is not a valid encoded token: {:?}", trunc(&s)))
            }
        }
        _ => Err(format!("bad token kind {:?}", kind)),
    }
}

fn buf_step(st: &str) -> Result<(), String> {
    let p: Vec<&str> = st.split('@').collect();
    match (p[0], p.len()) {
        ("pf", 3) | ("pb", 3) => token_kind(p[1], p[2]),
        ("pof", 1) | ("pob", 1) | ("cl", 1) => Ok(()),
        ("ap", 2) => xptr(p[1]).map(|_| ()),
        ("rp", 4) => {
            usize_ok(p[1])?;
            token_kind(p[2], p[3])
        }
        _ => Err(format!("bad buf_hist step {:?}", trunc(st))),
    }
}

fn tree_step(st: &str, toml: bool, info: &mut LineInfo) -> Result<(), String> {
    let p: Vec<&str> = st.split('@').collect();
    match (p[0], p.len()) {
        ("as", 3) | ("wr", 3) => {
            xptr(p[1])?;
            doc_ok(p[2], toml, info)
        }
        ("de", 2) | ("re", 2) => xptr(p[1]).map(|_| ()),
        _ => Err(format!("bad tree_hist step {:?}", trunc(st))),
    }
}

fn bound(b: &str) -> Result<(), String> {
    if b == "un" {
        return Ok(());
    }
    if let Some(n) = b.strip_prefix("in:").or_else(|| b.strip_prefix("ex:")) {
        return usize_ok(n).map(|_| ());
    }
    Err(format!("bad bound {:?}", trunc(b)))
}

fn range(r: &str) -> Result<(), String> {
    let p: Vec<&str> = r.split('@').collect();
    match (p[0], p.len()) {
        ("tok", 2) | ("rf", 2) | ("rt", 2) | ("rti", 2) => usize_ok(p[1]).map(|_| ()),
        ("r", 3) | ("ri", 3) => {
            usize_ok(p[1])?;
            usize_ok(p[2]).map(|_| ())
        }
        ("full", 1) => Ok(()),
        ("bb", 3) => {
            bound(p[1])?;
            bound(p[2])
        }
        _ => Err(format!("bad range {:?}", trunc(r))),
    }
}

fn int_in_type(ty: &str, dec: &str) -> Result<(), String> {
    // canonical decimal
    let digits = dec.strip_prefix('-').unwrap_or(dec);
    if digits.is_empty()
        || !digits.bytes().all(|c| c.is_ascii_digit())
        || (digits.len() > 1 && digits.starts_with('0'))
        || dec == "-0"
    {
        return Err(format!("tok_int literal not canonical: {:?}", trunc(dec)));
    }
    let ok = match ty {
        "u8" => dec.parse::<u8>().is_ok(),
        "u16" => dec.parse::<u16>().is_ok(),
        "u32" => dec.parse::<u32>().is_ok(),
        "u64" | "usize" => dec.parse::<u64>().is_ok(),
        "u128" => dec.parse::<u128>().is_ok(),
        "i8" => dec.parse::<i8>().is_ok(),
        "i16" => dec.parse::<i16>().is_ok(),
        "i32" => dec.parse::<i32>().is_ok(),
        "i64" | "isize" => dec.parse::<i64>().is_ok(),
        "i128" => dec.parse::<i128>().is_ok(),
        _ => return Err(format!("bad integer type {:?}", ty)),
    };
    if ok {
        Ok(())
    } else {
        Err(format!("{} out of range for {}", trunc(dec), ty))
    }
}

fn argc(f: &[&str], n: usize) -> Result<(), String> {
    if f.len() - 1 != n {
        Err(format!("{} takes {} argument(s), got {}", f[0], n, f.len() - 1))
    } else {
        Ok(())
    }
}

/// Check one operation line. Returns the op name.
pub fn check_line<'a>(line: &'a str, info: &mut LineInfo) -> Result<&'a str, String> {
    if line.is_empty() {
        return Err("empty line".into());
    }
    if line.contains('\n') || line.contains('\r') || line.contains('\t') {
        return Err("line contains a control separator".into());
    }
    let f: Vec<&str> = line.split(' ').collect();
    if f.iter().any(|x| x.is_empty()) {
        return Err("empty field (double, leading or trailing space)".into());
    }
    if !line.is_ascii() {
        return Err("non-ASCII byte in line".into());
    }
    let op = f[0];
    match op {
        "parse" | "tok_new" | "from_encoded" | "index_str" | "deser" | "zc_parse" | "zc_tok" | "from_token" => {
            argc(&f, 1)?;
            xstr(f[1])?;
        }
        "index_len" => {
            argc(&f, 2)?;
            if f[1] != "next" {
                let k = f[1].strip_prefix("num:").ok_or_else(|| format!("bad index {:?}", f[1]))?;
                usize_ok(k)?;
            }
            usize_ok(f[2])?;
        }
        "from_tokens" => {
            for t in &f[1..] {
                xstr(t)?;
            }
        }
        "ptr_view" | "split_front" | "split_back" | "parent" | "conv" | "zc_ptr" => {
            argc(&f, 1)?;
            xptr(f[1])?;
        }
        "with" => {
            argc(&f, 3)?;
            xptr(f[1])?;
            if f[2] != "lead" && f[2] != "trail" {
                return Err(format!("with: bad side {:?}", f[2]));
            }
            xstr(f[3])?;
        }
        "concat" | "rel" | "cmp" => {
            argc(&f, 2)?;
            xptr(f[1])?;
            xptr(f[2])?;
        }
        "rel3" => {
            argc(&f, 3)?;
            xptr(f[1])?;
            xptr(f[2])?;
            xptr(f[3])?;
        }
        "from_usize" => {
            argc(&f, 1)?;
            usize_ok(f[1])?;
        }
        "buf_hist" => {
            if f.len() < 2 {
                return Err("buf_hist needs a start pointer".into());
            }
            xptr(f[1])?;
            for st in &f[2..] {
                buf_step(st)?;
            }
        }
        "split_at" => {
            argc(&f, 2)?;
            xptr(f[1])?;
            usize_ok(f[2])?;
        }
        "get" => {
            argc(&f, 2)?;
            xptr(f[1])?;
            range(f[2])?;
        }
        "resolve" | "resolve_mut" | "delete" => {
            argc(&f, 3)?;
            let t = backend(f[1])?;
            doc_ok(f[2], t, info)?;
            xptr(f[3])?;
        }
        "write" | "assign" => {
            argc(&f, 4)?;
            let t = backend(f[1])?;
            doc_ok(f[2], t, info)?;
            xptr(f[3])?;
            doc_ok(f[4], t, info)?;
        }
        "tree_hist" => {
            if f.len() < 3 {
                return Err("tree_hist needs backend and document".into());
            }
            let t = backend(f[1])?;
            doc_ok(f[2], t, info)?;
            for st in &f[3..] {
                tree_step(st, t, info)?;
            }
        }
        "tok_int" => {
            argc(&f, 2)?;
            int_in_type(f[1], f[2])?;
        }
        _ => return Err(format!("unknown op {:?}", trunc(op))),
    }
    Ok(op)
}
