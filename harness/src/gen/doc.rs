//! Neutral documents, the DOC syntax, a document generator, pointers generated *for* a document and
//! a small RFC 6901 reference tree store (used only to keep the generator's own "live" document
//! in step while it produces histories; it is not an oracle).

use super::rng::Rng;
use super::strs::{self, POOL, POOL2};

#[derive(Clone, Debug, PartialEq)]
pub enum Doc {
    Null,
    Bool(bool),
    Int(i64),
    Str(String),
    Arr(Vec<Doc>),
    Obj(Vec<(String, Doc)>),
}

const HEX: &[u8; 16] = b"0123456789abcdef";

pub fn hex_into(s: &str, out: &mut String) {
    for &b in s.as_bytes() {
        out.push(HEX[(b >> 4) as usize] as char);
        out.push(HEX[(b & 15) as usize] as char);
    }
}

/// `xHEX`
pub fn xhex(s: &str, out: &mut String) {
    out.push('x');
    hex_into(s, out);
}

impl Doc {
    pub fn write(&self, out: &mut String) {
        match self {
            Doc::Null => out.push_str("#n"),
            Doc::Bool(true) => out.push_str("#t"),
            Doc::Bool(false) => out.push_str("#f"),
            Doc::Int(i) => {
                out.push_str("#i");
                out.push_str(&i.to_string());
            }
            Doc::Str(s) => {
                out.push_str("#s");
                hex_into(s, out);
            }
            Doc::Arr(a) => {
                out.push('[');
                for (i, d) in a.iter().enumerate() {
                    if i > 0 {
                        out.push(',');
                    }
                    d.write(out);
                }
                out.push(']');
            }
            Doc::Obj(o) => {
                out.push('{');
                for (i, (k, d)) in o.iter().enumerate() {
                    if i > 0 {
                        out.push(',');
                    }
                    hex_into(k, out);
                    out.push(':');
                    d.write(out);
                }
                out.push('}');
            }
        }
    }

    pub fn nodes(&self) -> usize {
        match self {
            Doc::Arr(a) => 1 + a.iter().map(|d| d.nodes()).sum::<usize>(),
            Doc::Obj(o) => 1 + o.iter().map(|(_, d)| d.nodes()).sum::<usize>(),
            _ => 1,
        }
    }

    fn child_count(&self) -> usize {
        match self {
            Doc::Arr(a) => a.len(),
            Doc::Obj(o) => o.len(),
            _ => 0,
        }
    }
}

// ---------------------------------------------------------------------------------------------
// document generator

#[derive(Clone, Copy)]
pub struct DocCfg {
    pub max_depth: usize,
    pub null_ok: bool,
    /// force a chain of containers down to `max_depth` (C15: failing token deep in the pointer)
    pub spine: bool,
    /// percentage of containers that are arrays
    pub arr_pct: u64,
    /// node budget
    pub budget: usize,
}

pub fn gen_key(rng: &mut Rng) -> String {
    match rng.below(100) {
        0..=59 => (*rng.pick(POOL)).to_string(),
        60..=79 => (*rng.pick(POOL2)).to_string(),
        80..=91 => strs::gen_plain_token(rng),
        _ => strs::gen_token(rng),
    }
}

pub fn gen_scalar(rng: &mut Rng, null_ok: bool) -> Doc {
    loop {
        return match rng.below(100) {
            0..=14 => {
                if !null_ok {
                    continue;
                }
                Doc::Null
            }
            15..=29 => Doc::Bool(rng.pct(50)),
            30..=64 => Doc::Int(match rng.below(10) {
                0 => i64::MIN,
                1 => i64::MAX,
                2 => -1,
                3 => 0,
                4..=7 => rng.below(100) as i64,
                _ => rng.next() as i64 >> rng.below(64),
            }),
            _ => Doc::Str(match rng.below(10) {
                0 => String::new(),
                1..=3 => (*rng.pick(POOL)).to_string(),
                4..=7 => strs::gen_plain_token(rng),
                _ => {
                    let n = rng.range(1, 8);
                    strs::string_of(rng, strs::Mode::General, n)
                }
            }),
        };
    }
}

fn gen_node(rng: &mut Rng, cfg: &DocCfg, depth: usize, budget: &mut usize, force_container: bool) -> Doc {
    if *budget > 0 {
        *budget -= 1;
    }
    let can_nest = depth < cfg.max_depth && *budget > 0;
    let container = can_nest && (force_container || rng.pct(if depth == 0 { 92 } else { 45 }));
    if !container {
        return gen_scalar(rng, cfg.null_ok);
    }
    let is_arr = rng.pct(cfg.arr_pct);
    let mut width = match rng.below(100) {
        0..=9 => 0,
        10..=34 => 1,
        35..=59 => 2,
        60..=81 => 3,
        82..=96 => 4,
        // two-digit indices: arrays of 11..13 (scalars mostly)
        _ => {
            if is_arr {
                rng.range(11, 13)
            } else {
                4
            }
        }
    };
    if force_container && width == 0 && depth + 1 < cfg.max_depth {
        width = 1;
    }
    width = width.min(*budget);
    // the child that continues the spine
    let spine_child = if cfg.spine && width > 0 && depth + 1 < cfg.max_depth { rng.range(0, width - 1) } else { usize::MAX };
    if is_arr {
        let big = width > 4;
        let mut v = Vec::with_capacity(width);
        for i in 0..width {
            if big && i != spine_child && !rng.one_in(6) {
                if *budget > 0 {
                    *budget -= 1;
                }
                v.push(gen_scalar(rng, cfg.null_ok));
            } else {
                v.push(gen_node(rng, cfg, depth + 1, budget, i == spine_child));
            }
        }
        Doc::Arr(v)
    } else {
        let mut o: Vec<(String, Doc)> = Vec::with_capacity(width);
        for i in 0..width {
            let mut key = gen_key(rng);
            let mut tries = 0;
            while o.iter().any(|(k, _)| *k == key) {
                key = if tries < 4 { gen_key(rng) } else { format!("k{}", rng.below(1000)) };
                tries += 1;
            }
            let d = gen_node(rng, cfg, depth + 1, budget, i == spine_child);
            o.push((key, d));
        }
        Doc::Obj(o)
    }
}

pub fn gen_doc(rng: &mut Rng, cfg: &DocCfg) -> Doc {
    let mut budget = cfg.budget;
    gen_node(rng, cfg, 0, &mut budget, cfg.spine)
}

/// A small value to assign / write.
pub fn gen_value(rng: &mut Rng, null_ok: bool) -> Doc {
    match rng.below(100) {
        0..=57 => gen_scalar(rng, null_ok),
        58..=65 => Doc::Arr(vec![]),
        66..=73 => Doc::Obj(vec![]),
        _ => {
            let cfg = DocCfg { max_depth: 2, null_ok, spine: false, arr_pct: 50, budget: 6 };
            let mut budget = cfg.budget;
            gen_node(rng, &cfg, 0, &mut budget, true)
        }
    }
}

// ---------------------------------------------------------------------------------------------
// reference tree store over RAW token lists

/// Canonical array index: "0" or digits without a leading zero, fitting usize.
pub fn parse_index(tok: &str) -> Option<usize> {
    let b = tok.as_bytes();
    if b.is_empty() || !b.iter().all(|c| c.is_ascii_digit()) {
        return None;
    }
    if b.len() > 1 && b[0] == b'0' {
        return None;
    }
    tok.parse::<usize>().ok()
}

pub fn resolve<'a, S: AsRef<str>>(doc: &'a Doc, toks: &[S]) -> Option<&'a Doc> {
    let mut cur = doc;
    for t in toks {
        let t = t.as_ref();
        cur = match cur {
            Doc::Obj(o) => &o.iter().find(|(k, _)| k == t)?.1,
            Doc::Arr(a) => a.get(parse_index(t)?)?,
            _ => return None,
        };
    }
    Some(cur)
}

pub fn resolve_mut<'a, S: AsRef<str>>(doc: &'a mut Doc, toks: &[S]) -> Option<&'a mut Doc> {
    let mut cur = doc;
    for t in toks {
        let t = t.as_ref();
        cur = match cur {
            Doc::Obj(o) => &mut o.iter_mut().find(|(k, _)| k == t)?.1,
            Doc::Arr(a) => a.get_mut(parse_index(t)?)?,
            _ => return None,
        };
    }
    Some(cur)
}

fn expand<S: AsRef<str>>(toks: &[S], v: Doc) -> Doc {
    let mut v = v;
    for t in toks.iter().rev() {
        let t = t.as_ref();
        v = if t == "0" || t == "-" { Doc::Arr(vec![v]) } else { Doc::Obj(vec![(t.to_string(), v)]) };
    }
    v
}

/// RFC 6901 assignment with the crate's expand rule. Returns false (document unchanged) on error.
pub fn assign<S: AsRef<str>>(doc: &mut Doc, toks: &[S], v: Doc) -> bool {
    let mut cur = doc;
    let mut i = 0;
    while i < toks.len() {
        let t = toks[i].as_ref();
        match cur {
            Doc::Arr(a) => {
                let idx = if t == "-" {
                    a.len()
                } else {
                    match parse_index(t) {
                        Some(k) => k,
                        None => return false,
                    }
                };
                if idx > a.len() {
                    return false;
                }
                if idx == a.len() {
                    a.push(expand(&toks[i + 1..], v));
                    return true;
                }
                cur = &mut a[idx];
            }
            Doc::Obj(o) => match o.iter().position(|(k, _)| k == t) {
                Some(p) => cur = &mut o[p].1,
                None => {
                    o.push((t.to_string(), expand(&toks[i + 1..], v)));
                    return true;
                }
            },
            _ => {
                *cur = expand(&toks[i..], v);
                return true;
            }
        }
        i += 1;
    }
    *cur = v;
    true
}

/// Delete; `toml` selects the root replacement. Returns whether something was removed.
pub fn delete<S: AsRef<str>>(doc: &mut Doc, toks: &[S], toml: bool) -> bool {
    if toks.is_empty() {
        *doc = if toml { Doc::Obj(vec![]) } else { Doc::Null };
        return true;
    }
    let (last, head) = toks.split_last().unwrap();
    let last = last.as_ref();
    match resolve_mut(doc, head) {
        Some(Doc::Obj(o)) => match o.iter().position(|(k, _)| k == last) {
            Some(p) => {
                o.remove(p);
                true
            }
            None => false,
        },
        Some(Doc::Arr(a)) => match parse_index(last) {
            Some(k) if k < a.len() => {
                a.remove(k);
                true
            }
            _ => false,
        },
        _ => false,
    }
}

pub fn write<S: AsRef<str>>(doc: &mut Doc, toks: &[S], v: Doc) -> bool {
    match resolve_mut(doc, toks) {
        Some(n) => {
            *n = v;
            true
        }
        None => false,
    }
}

// ---------------------------------------------------------------------------------------------
// pointers for a document (raw token lists)

/// Random descent: returns the raw tokens of the path of some node. `stop_pct` = chance to stop at
/// each inner node.
pub fn walk_path(rng: &mut Rng, doc: &Doc, stop_pct: u64) -> Vec<String> {
    let mut toks = Vec::new();
    let mut cur = doc;
    loop {
        let n = cur.child_count();
        // the root itself is a boring target: a quarter of the usual stop chance there
        let stop = if toks.is_empty() { stop_pct / 4 } else { stop_pct };
        if n == 0 || rng.pct(stop) {
            return toks;
        }
        let mut i = rng.range(0, n - 1);
        // prefer going deeper: one re-draw when the child is a leaf
        let leaf = |i: usize| match cur {
            Doc::Arr(a) => a[i].child_count() == 0,
            Doc::Obj(o) => o[i].1.child_count() == 0,
            _ => true,
        };
        if n > 1 && leaf(i) && rng.pct(60) {
            i = rng.range(0, n - 1);
        }
        match cur {
            Doc::Arr(a) => {
                toks.push(i.to_string());
                cur = &a[i];
            }
            Doc::Obj(o) => {
                toks.push(o[i].0.clone());
                cur = &o[i].1;
            }
            _ => unreachable!(),
        }
    }
}

const BAD_INDEX: &[&str] = &[
    "01", "00", "+1", "٣", "18446744073709551615", "18446744073709551616", "-1", "a", "", "1e0", "0x0", " 1", "1 ",
    "~", "/", "--", "1٣", "é", "99999999999999999999", "-0", "+0",
];

/// A token that fails (or expands) at `node`.
fn perturb_token(rng: &mut Rng, node: &Doc) -> String {
    match node {
        Doc::Arr(a) => match rng.below(100) {
            0..=21 => a.len().to_string(),
            22..=35 => (a.len() + 1).to_string(),
            36..=55 => "-".to_string(),
            56..=61 => (a.len() + rng.range(2, 30)).to_string(),
            _ => (*rng.pick(BAD_INDEX)).to_string(),
        },
        Doc::Obj(o) => {
            for _ in 0..6 {
                let k = match rng.below(10) {
                    0..=5 => gen_key(rng),
                    6 => "0".to_string(),
                    7 => "-".to_string(),
                    8 => (*rng.pick(BAD_INDEX)).to_string(),
                    _ => {
                        // near miss of an existing key: encoded/decoded confusion, case, extra char
                        if o.is_empty() {
                            "x".to_string()
                        } else {
                            let k = &o[rng.range(0, o.len() - 1)].0;
                            match rng.below(4) {
                                0 => strs::encode(k),
                                1 => format!("{}x", k),
                                2 => k.to_uppercase(),
                                _ => k.replace("~0", "~").replace("~1", "/"),
                            }
                        }
                    }
                };
                if !o.iter().any(|(kk, _)| *kk == k) {
                    return k;
                }
            }
            "missing".to_string()
        }
        _ => match rng.below(10) {
            0..=3 => gen_key(rng),
            4..=5 => "0".to_string(),
            6 => "-".to_string(),
            _ => strs::gen_plain_token(rng),
        },
    }
}

/// Perturbed pointer: follow a real path to a random depth, then put one token that does not
/// resolve there; keep the rest of the path / append extras / truncate.
pub fn perturbed_path(rng: &mut Rng, doc: &Doc, min_depth: usize) -> Vec<String> {
    let path = walk_path(rng, doc, 8);
    let lo = min_depth.min(path.len());
    let d = rng.range(lo, path.len());
    let node = resolve(doc, &path[..d]).expect("walked path resolves");
    let mut toks: Vec<String> = path[..d].to_vec();
    toks.push(perturb_token(rng, node));
    match rng.below(10) {
        0..=3 => {}
        4..=6 => {
            if d + 1 < path.len() {
                toks.extend_from_slice(&path[d + 1..]);
            } else {
                toks.push(expand_token(rng));
            }
        }
        _ => {
            let k = rng.range(1, 2);
            for _ in 0..k {
                toks.push(expand_token(rng));
            }
        }
    }
    toks
}

/// Tokens appended after the failing one: these decide what `assign` creates.
fn expand_token(rng: &mut Rng) -> String {
    match rng.below(10) {
        0..=1 => "0".to_string(),
        2..=3 => "-".to_string(),
        4 => (*rng.pick(&["00", "1", "01", "~0", "~", "/", ""])).to_string(),
        5..=7 => gen_key(rng),
        _ => strs::gen_plain_token(rng),
    }
}

/// Pointer ending at an array boundary: path of an array + len / len+1 / `-` / len-1 / 0 (C08, C06).
pub fn array_end_path(rng: &mut Rng, doc: &Doc) -> Option<Vec<String>> {
    array_path(rng, doc, false)
}

/// Pointer whose token at an existing array is one `assign` must refuse (index > len, malformed
/// index), optionally followed by more tokens (C15).
pub fn array_fail_path(rng: &mut Rng, doc: &Doc) -> Option<Vec<String>> {
    array_path(rng, doc, true)
}

fn array_path(rng: &mut Rng, doc: &Doc, failing: bool) -> Option<Vec<String>> {
    // collect paths of arrays by repeated random descent (cheap, documents are small)
    for _ in 0..6 {
        let mut toks = Vec::new();
        let mut cur = doc;
        let mut found: Option<(usize, usize)> = None; // (prefix len, array len)
        loop {
            if let Doc::Arr(a) = cur {
                if found.is_none() || rng.pct(60) {
                    found = Some((toks.len(), a.len()));
                }
            }
            let n = cur.child_count();
            if n == 0 {
                break;
            }
            let i = rng.range(0, n - 1);
            match cur {
                Doc::Arr(a) => {
                    toks.push(i.to_string());
                    cur = &a[i];
                }
                Doc::Obj(o) => {
                    toks.push(o[i].0.clone());
                    cur = &o[i].1;
                }
                _ => unreachable!(),
            }
        }
        if let Some((plen, alen)) = found {
            toks.truncate(plen);
            if failing {
                let last = match rng.below(100) {
                    0..=29 => (alen + 1).to_string(),
                    30..=41 => (alen + rng.range(2, 40)).to_string(),
                    _ => (*rng.pick(BAD_INDEX)).to_string(),
                };
                toks.push(last);
                let extra = match rng.below(10) {
                    0..=4 => 0,
                    5..=7 => 1,
                    _ => 2,
                };
                for _ in 0..extra {
                    toks.push(expand_token(rng));
                }
                return Some(toks);
            }
            let last = match rng.below(100) {
                0..=29 => alen.to_string(),
                30..=49 => (alen + 1).to_string(),
                50..=74 => "-".to_string(),
                75..=86 => alen.saturating_sub(1).to_string(),
                87..=93 => "0".to_string(),
                _ => (*rng.pick(BAD_INDEX)).to_string(),
            };
            toks.push(last);
            return Some(toks);
        }
    }
    None
}

/// 40 % path-directed, 40 % perturbed, 20 % free (DESIGN §4).
pub fn ptr_for_doc(rng: &mut Rng, doc: &Doc) -> Vec<String> {
    match rng.below(100) {
        0..=39 => walk_path(rng, doc, 16),
        40..=79 => perturbed_path(rng, doc, 0),
        _ => free_path(rng),
    }
}

pub fn free_path(rng: &mut Rng) -> Vec<String> {
    let n = match rng.below(10) {
        0 => 0,
        1..=4 => 1,
        5..=7 => 2,
        8 => 3,
        _ => 4,
    };
    (0..n).map(|_| gen_key(rng)).collect()
}

// ---------------------------------------------------------------------------------------------
// tiny grammar (bounded-exhaustive scope): depth <= 2, keys {a,0}, arrays <= 2

fn tiny_level(prev: &[Doc]) -> Vec<Doc> {
    let mut out = vec![Doc::Int(1)];
    // arrays of 0..=2 elements
    out.push(Doc::Arr(vec![]));
    for a in prev {
        out.push(Doc::Arr(vec![a.clone()]));
    }
    for a in prev {
        for b in prev {
            out.push(Doc::Arr(vec![a.clone(), b.clone()]));
        }
    }
    // objects over keys {a, 0}: each key absent or bound
    let mut opts: Vec<Option<&Doc>> = vec![None];
    opts.extend(prev.iter().map(Some));
    for x in &opts {
        for y in &opts {
            let mut o = Vec::new();
            if let Some(d) = x {
                o.push(("a".to_string(), (*d).clone()));
            }
            if let Some(d) = y {
                o.push(("0".to_string(), (*d).clone()));
            }
            out.push(Doc::Obj(o));
        }
    }
    out
}

fn renumber(d: &mut Doc, next: &mut i64) {
    match d {
        Doc::Arr(a) => a.iter_mut().for_each(|x| renumber(x, next)),
        Doc::Obj(o) => o.iter_mut().for_each(|(_, x)| renumber(x, next)),
        Doc::Int(i) => {
            *i = *next;
            *next += 1;
        }
        _ => {}
    }
}

/// All documents of the tiny grammar up to `depth` (1 -> 8 documents, 2 -> 155); scalars are
/// numbered 1,2,3… in document order so that moved / removed elements are distinguishable.
pub fn tiny_docs(depth: usize) -> Vec<Doc> {
    let mut level = vec![Doc::Int(1)];
    for _ in 0..depth {
        level = tiny_level(&level);
    }
    for d in level.iter_mut() {
        let mut n = 1;
        renumber(d, &mut n);
    }
    level
}

/// RAW tokens; the last one spells `~0` in pointer text.
pub const TINY_TOKENS: &[&str] = &["a", "0", "1", "-", "00", "~"];
