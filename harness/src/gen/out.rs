//! Line sink: buffered stdout, `--limit`, op histogram (JPGEN_STATS=1) and the self-check hook.

use std::io::{BufWriter, StdoutLock, Write};

pub struct Sink {
    w: Option<BufWriter<StdoutLock<'static>>>,
    pub limit: u64,
    pub count: u64,
    pub bytes: u64,
    pub max_len: usize,
    /// exact repeats the generator dropped instead of emitting
    pub dropped: u64,
    stats: bool,
    pub ops: Vec<(String, u64)>,
    /// outcome-kind counters predicted by the generator's own reference semantics (stats only)
    pub notes: [Vec<(&'static str, u64)>; 2],
    /// 0 = bounded-exhaustive scope, 1 = random stream
    pub phase: usize,
    pub exhaustive_lines: u64,
    pub want_notes: bool,
    /// Self-check mode: every line goes through this instead of stdout.
    pub checker: Option<Box<dyn FnMut(&str, u64)>>,
    pub on_finish: Option<Box<dyn FnMut(&Sink)>>,
    pub label: String,
}

impl Sink {
    pub fn new(label: &str, limit: u64, stats: bool, to_stdout: bool) -> Sink {
        let w = if to_stdout {
            Some(BufWriter::with_capacity(1 << 16, std::io::stdout().lock()))
        } else {
            None
        };
        Sink {
            w,
            limit,
            count: 0,
            bytes: 0,
            max_len: 0,
            dropped: 0,
            stats,
            ops: Vec::new(),
            notes: [Vec::new(), Vec::new()],
            phase: 0,
            exhaustive_lines: 0,
            want_notes: stats,
            checker: None,
            on_finish: None,
            label: label.to_string(),
        }
    }

    /// Emit one operation line (without the newline). Terminates the process when the limit is hit.
    pub fn emit(&mut self, line: &str) {
        if self.count >= self.limit {
            self.finish_and_exit();
        }
        self.count += 1;
        if self.phase == 0 {
            self.exhaustive_lines += 1;
        }
        self.bytes += line.len() as u64;
        if line.len() > self.max_len {
            self.max_len = line.len();
        }
        if self.stats || self.checker.is_some() {
            let op = line.split(' ').next().unwrap_or("");
            match self.ops.iter_mut().find(|(o, _)| o == op) {
                Some(e) => e.1 += 1,
                None => self.ops.push((op.to_string(), 1)),
            }
        }
        if let Some(c) = self.checker.as_mut() {
            c(line, self.count);
        }
        if let Some(w) = self.w.as_mut() {
            let ok = w.write_all(line.as_bytes()).is_ok() && w.write_all(b"\n").is_ok();
            if !ok {
                // broken pipe (e.g. `| head`): stop quietly
                std::process::exit(0);
            }
        }
        if self.count >= self.limit {
            self.finish_and_exit();
        }
    }

    /// Count an expected-outcome kind (only when stats are on).
    #[inline]
    pub fn note(&mut self, what: &'static str) {
        if !self.want_notes {
            return;
        }
        let notes = &mut self.notes[self.phase];
        match notes.iter_mut().find(|(o, _)| *o == what) {
            Some(e) => e.1 += 1,
            None => notes.push((what, 1)),
        }
    }

    pub fn finish(&mut self) {
        if let Some(w) = self.w.as_mut() {
            let _ = w.flush();
        }
        if self.stats {
            let mut ops = self.ops.clone();
            ops.sort();
            let hist: Vec<String> = ops.iter().map(|(o, n)| format!("{}={}", o, n)).collect();
            let avg = if self.count == 0 { 0.0 } else { self.bytes as f64 / self.count as f64 };
            let fmt = |ns: &Vec<(&'static str, u64)>| -> String {
                let mut ns = ns.clone();
                ns.sort();
                let v: Vec<String> = ns.iter().map(|(o, n)| format!("{}={}", o, n)).collect();
                v.join(" ")
            };
            eprintln!(
                "jpgen-stats {} lines={} exhaustive_lines={} avg_len={:.1} max_len={} repeats_dropped={} ops: {} | expected(exhaustive): {} | expected(random): {}",
                self.label,
                self.count,
                self.exhaustive_lines,
                avg,
                self.max_len,
                self.dropped,
                hist.join(" "),
                fmt(&self.notes[0]),
                fmt(&self.notes[1])
            );
        }
        if let Some(mut f) = self.on_finish.take() {
            f(self);
        }
    }

    pub fn finish_and_exit(&mut self) -> ! {
        self.finish();
        std::process::exit(0);
    }
}
