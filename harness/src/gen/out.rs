//! Line sink: buffered stdout, `--limit`, op histogram (JPGEN_STATS=1) and the self-check hook.

use std::io::{BufWriter, StdoutLock, Write};

pub struct Sink {
    w: Option<BufWriter<StdoutLock<'static>>>,
    pub limit: u64,
    pub count: u64,
    pub bytes: u64,
    pub max_len: usize,
    stats: bool,
    pub ops: Vec<(String, u64)>,
    /// Self-check mode: every line goes through this instead of stdout.
    pub checker: Option<Box<dyn FnMut(&str, u64)>>,
    pub on_finish: Option<Box<dyn FnMut(&Sink)>>,
    pub label: String,
}

impl Sink {
    pub fn new(label: &str, limit: u64, stats: bool, to_stdout: bool) -> Sink {
        let w = if to_stdout {
            Some(BufWriter::with_capacity(1 << 16, std::io::stdout().lock()))
        } else {
            None
        };
        Sink {
            w,
            limit,
            count: 0,
            bytes: 0,
            max_len: 0,
            stats,
            ops: Vec::new(),
            checker: None,
            on_finish: None,
            label: label.to_string(),
        }
    }

    /// Emit one operation line (without the newline). Terminates the process when the limit is hit.
    pub fn emit(&mut self, line: &str) {
        if self.count >= self.limit {
            self.finish_and_exit();
        }
        self.count += 1;
        self.bytes += line.len() as u64;
        if line.len() > self.max_len {
            self.max_len = line.len();
        }
        if self.stats || self.checker.is_some() {
            let op = line.split(' ').next().unwrap_or("");
            match self.ops.iter_mut().find(|(o, _)| o == op) {
                Some(e) => e.1 += 1,
                None => self.ops.push((op.to_string(), 1)),
            }
        }
        if let Some(c) = self.checker.as_mut() {
            c(line, self.count);
        }
        if let Some(w) = self.w.as_mut() {
            let ok = w.write_all(line.as_bytes()).is_ok() && w.write_all(b"\n").is_ok();
            if !ok {
                // broken pipe (e.g. `| head`): stop quietly
                std::process::exit(0);
            }
        }
        if self.count >= self.limit {
            self.finish_and_exit();
        }
    }

    pub fn finish(&mut self) {
        if let Some(w) = self.w.as_mut() {
            let _ = w.flush();
        }
        if self.stats {
            let mut ops = self.ops.clone();
            ops.sort();
            let hist: Vec<String> = ops.iter().map(|(o, n)| format!("{}={}", o, n)).collect();
            let avg = if self.count == 0 { 0.0 } else { self.bytes as f64 / self.count as f64 };
            eprintln!(
                "jpgen-stats {} lines={} avg_len={:.1} max_len={} ops: {}",
                self.label,
                self.count,
                avg,
                self.max_len,
                hist.join(" ")
            );
        }
        if let Some(mut f) = self.on_finish.take() {
            f(self);
        }
    }

    pub fn finish_and_exit(&mut self) -> ! {
        self.finish();
        std::process::exit(0);
    }
}
