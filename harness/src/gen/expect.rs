//! Expected outcome kinds, computed from the arguments with the generator's own reference semantics.
//! Only used for the JPGEN_STATS histogram (so that the recorded distribution shows how often the
//! interesting outcomes are hit); never influences what is generated.

use super::doc::{self, Doc};
use super::strs;

/// Raw (decoded) tokens of a valid pointer text.
pub fn toks_of(p: &str) -> Vec<String> {
    if p.is_empty() {
        return Vec::new();
    }
    p[1..].split('/').map(|t| t.replace("~1", "/").replace("~0", "~")).collect()
}

fn count(p: &str) -> u64 {
    if p.is_empty() {
        0
    } else {
        p.bytes().filter(|&b| b == b'/').count() as u64
    }
}

fn valid_enc(s: &str) -> bool {
    !s.contains('/') && strs::is_valid_ptr(&format!("/{}", s))
}

fn index_kind(s: &str) -> &'static str {
    if s == "-" {
        return "index_str:next";
    }
    if s.is_empty() {
        return "index_str:empty";
    }
    if let Some(_) = s.chars().find(|c| !c.is_ascii_digit()) {
        if s.len() > 1 && s.starts_with('0') {
            return "index_str:lz";
        }
        return "index_str:badchar";
    }
    if s.len() > 1 && s.starts_with('0') {
        return "index_str:lz";
    }
    if s.parse::<u64>().is_ok() {
        "index_str:num"
    } else {
        "index_str:overflow"
    }
}

pub fn str_op(op: &str, s: &str) -> Option<&'static str> {
    Some(match op {
        "parse" => {
            if strs::is_valid_ptr(s) {
                "parse:valid"
            } else if !s.starts_with('/') {
                "parse:noslash"
            } else {
                "parse:badtilde"
            }
        }
        "deser" => {
            if strs::is_valid_ptr(s) {
                "deser:valid"
            } else {
                "deser:invalid"
            }
        }
        "zc_parse" => {
            if strs::is_valid_ptr(s) {
                "zc_parse:valid"
            } else {
                "zc_parse:invalid"
            }
        }
        "from_encoded" => {
            if valid_enc(s) {
                if s.contains('~') {
                    "from_encoded:valid_esc"
                } else {
                    "from_encoded:valid_plain"
                }
            } else {
                "from_encoded:invalid"
            }
        }
        "tok_new" => {
            if s.contains('~') || s.contains('/') {
                "tok_new:special"
            } else {
                "tok_new:plain"
            }
        }
        "zc_tok" => {
            if s.contains('~') || s.contains('/') {
                "zc_tok:special"
            } else {
                "zc_tok:plain"
            }
        }
        "index_str" => index_kind(s),
        "ptr_view" | "conv" | "zc_ptr" => {
            if s.len() >= 1024 {
                match op {
                    "ptr_view" => "ptr_view:long",
                    "conv" => "conv:long",
                    _ => "zc_ptr:long",
                }
            } else {
                return None;
            }
        }
        _ => return None,
    })
}

pub fn doc_op(op: &str, d: &Doc, p: &str) -> &'static str {
    let toks = toks_of(p);
    let found = doc::resolve(d, &toks).is_some();
    match op {
        "resolve" => {
            if found {
                if toks.len() >= 2 {
                    "resolve:ok_deep"
                } else {
                    "resolve:ok"
                }
            } else {
                "resolve:err"
            }
        }
        "resolve_mut" => {
            if found {
                "resolve_mut:ok"
            } else {
                "resolve_mut:err"
            }
        }
        _ => {
            if toks.is_empty() {
                return "delete:root";
            }
            if found {
                return "delete:some";
            }
            // the zone of defect D4: parent is an array and the last token is `-` or an index >= len
            let (last, head) = toks.split_last().unwrap();
            if let Some(Doc::Arr(a)) = doc::resolve(d, head) {
                if last == "-" {
                    return "delete:none_dash";
                }
                if let Some(k) = doc::parse_index(last) {
                    if k == a.len() {
                        return if a.is_empty() { "delete:none_at_len_empty" } else { "delete:none_at_len" };
                    }
                    return "delete:none_past_len";
                }
                return "delete:none_badindex";
            }
            "delete:none"
        }
    }
}

pub fn doc_op_v(op: &str, d: &Doc, p: &str) -> &'static str {
    let toks = toks_of(p);
    let found = doc::resolve(d, &toks).is_some();
    if op == "write" {
        return if found { "write:ok" } else { "write:err" };
    }
    if found {
        return "assign:replaced";
    }
    let mut copy = d.clone();
    if doc::assign(&mut copy, &toks, Doc::Null) {
        "assign:created"
    } else {
        "assign:err"
    }
}

fn bound_lo(b: &str) -> Option<u64> {
    if b == "un" {
        return Some(0);
    }
    let v: u64 = b[3..].parse().unwrap();
    if b.starts_with("in:") {
        Some(v)
    } else {
        v.checked_add(1)
    }
}

fn bound_hi(b: &str, n: u64) -> Option<u64> {
    if b == "un" {
        return Some(n);
    }
    let v: u64 = b[3..].parse().unwrap();
    if b.starts_with("ex:") {
        Some(v)
    } else {
        v.checked_add(1)
    }
}

pub fn ptr_arg(op: &str, p: &str, arg: &str) -> &'static str {
    if op == "split_at" {
        let k: u64 = arg.parse().unwrap();
        return if (k as usize) < p.len() && k < (1 << 40) && p.as_bytes()[k as usize] == b'/' { "split_at:some" } else { "split_at:none" };
    }
    let n = count(p);
    let f: Vec<&str> = arg.split('@').collect();
    let num = |s: &str| -> u64 { s.parse().unwrap() };
    let some = match f[0] {
        "tok" => return if num(f[1]) < n { "get:tok_some" } else { "get:tok_none" },
        "r" => num(f[1]) <= num(f[2]) && num(f[1]) < n && num(f[2]) <= n,
        "rf" => num(f[1]) < n,
        "rt" => num(f[1]) <= n,
        "ri" => num(f[1]) <= num(f[2]) && num(f[2]) < n,
        "rti" => num(f[1]) < n,
        "full" => true,
        _ => {
            if f[1].starts_with("ex:18446744073709551615") {
                return "get:bb_ex_max";
            }
            match (bound_lo(f[1]), bound_hi(f[2], n)) {
                (Some(a), Some(b)) => {
                    // start unbounded behaves like `..b`, end unbounded like `a..`
                    if f[1] == "un" && f[2] == "un" {
                        true
                    } else if f[1] == "un" {
                        b <= n
                    } else if f[2] == "un" {
                        a < n
                    } else {
                        a <= b && a < n && b <= n
                    }
                }
                _ => false,
            }
        }
    };
    if some {
        "get:range_some"
    } else {
        "get:range_none"
    }
}

fn tok_prefix(p: &str, q: &str) -> bool {
    q.is_empty() || p == q || (p.starts_with(q) && p.as_bytes()[q.len()] == b'/')
}

pub fn pair(op: &str, p: &str, q: &str) -> &'static str {
    match op {
        "rel" => {
            if p == q {
                "rel:equal"
            } else if q.is_empty() || p.is_empty() {
                "rel:root"
            } else if tok_prefix(p, q) {
                "rel:q_prefix_of_p"
            } else if tok_prefix(q, p) {
                "rel:p_prefix_of_q"
            } else if p.starts_with(q) || q.starts_with(p) {
                "rel:string_prefix_only"
            } else if p.ends_with(q) || q.ends_with(p) {
                "rel:suffix"
            } else {
                "rel:diverge"
            }
        }
        "cmp" => match p.cmp(q) {
            std::cmp::Ordering::Less => "cmp:lt",
            std::cmp::Ordering::Equal => "cmp:eq",
            std::cmp::Ordering::Greater => "cmp:gt",
        },
        _ => {
            if p.is_empty() || q.is_empty() {
                "concat:root"
            } else {
                "concat:both"
            }
        }
    }
}
