#!/usr/bin/env python3
"""prints the markdown table of /verif/seeded/*/meta.json for DESIGN.md §12"""
import json, glob, os, re
VERIF = os.path.dirname(os.path.dirname(os.path.abspath(__file__)))
rows = []
for f in sorted(glob.glob(os.path.join(VERIF, "seeded", "*", "meta.json"))):
    m = json.load(open(f))
    first = (m["description"].splitlines() or [""])[0][:110]
    tgt = m["breaks_property"]
    rep = m["detection"].get(tgt, {}).get("report", "")
    kind = "concrete replay" if "no-failing-input-found" not in rep and m["target_property_caught"] else ("no-failing-input-found" if m["target_property_caught"] else "MISSED")
    if not m["target_property_caught"] and m.get("not_reported_by_target_because"):
        kind = "NOT REPORTED by the target check (reported by: " + (", ".join(m["caught_by"]) or "none") + ") — see the corrections log"
    if m.get("target_caught_at_first_run") is False and m["target_property_caught"]:
        kind += " (not at the first run — after the strengthening recorded in the corrections log)"
    first = re.sub(r"^[#*\s]+", "", first)
    line = re.search(r"line=(.*)$", rep)
    rows.append(f"| {m['id']} | {first} | {', '.join(m['caught_by']) or '—'} | {kind} | `{(line.group(1)[:60] if line else '')}` |")
table = "| change | what it does (first line of the author's note) | reported by | target check | replay line (shrunk) |\n|---|---|---|---|---|\n" + "\n".join(rows)
import sys
if "--design" in sys.argv:
    p = os.path.join(VERIF, "DESIGN.md"); s = open(p).read()
    a = s.index("<!-- SEEDED-TABLE-BEGIN -->") + len("<!-- SEEDED-TABLE-BEGIN -->"); b = s.index("<!-- SEEDED-TABLE-END -->")
    open(p, "w").write(s[:a] + "\n" + table + "\n" + s[b:])
    print("DESIGN.md table updated:", len(rows), "rows")
else:
    print(table)
