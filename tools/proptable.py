"""
Per-property tables for /verif/check: which operations a property consumes, which result fields are
compared between the implementation (jpserve) and the Lean model (jpdriver), which implementation
fields are compared with the model-independent spec fields (`spec_*`, printed by jpdriver from the
declarative definitions in Jp/Spec), and which implementation-only law oracles must say `ok`.
A property compares only what it states (DESIGN.md §4 "Per-property observables").
"""
import re

ident = lambda s: s
kind_only = lambda s: re.sub(r"^ok\(some\((.*)\)\)$", r"ok(some(\1))", s)

def _ok_flag(s):          # from_encoded: r -> spec_valid
    return "1" if s.startswith("ok(") else "0"

def _fe_dec(s):           # from_encoded: r=ok(enc,dec,re) -> dec ; else none
    m = re.match(r"ok\((x[0-9a-f]*),(x[0-9a-f]*),(x[0-9a-f]*)\)$", s)
    return m.group(2) if m else "none"

def _some_doc(s):         # delete r: none|some(DOC) -> same syntax as spec_r
    return s

def _get_spec(line, fi, fm):
    """`get`: token form compares with spec_r (the token), range forms with spec_view (the span of the denoted token range)"""
    rng = line.split(" ")[2] if len(line.split(" ")) > 2 else ""
    return (fi.get("r"), fm.get("spec_r") if rng.startswith("tok@") else fm.get("spec_view"))

def _valid_token_hex(h):
    """independent RFC 6901 token recogniser on a hex string: no raw '/', every '~' followed by '0' or '1'"""
    try: b = bytes.fromhex(h)
    except ValueError: return False
    i = 0
    while i < len(b):
        if b[i] == 0x2f: return False
        if b[i] == 0x7e:
            if i + 1 >= len(b) or b[i + 1] not in (0x30, 0x31): return False
            i += 1
        i += 1
    return True

def _law_enc_valid(line, fi, fm):
    """C01 on `tok_int`: the token made from an integer is valid token text (what it spells is C18's business)"""
    e = fi.get("enc")
    return "ok" if e is not None and e.startswith("x") and _valid_token_hex(e[1:]) else f"FAIL(invalid_token:{e})"

def _dec(v):
    """decision only: ok(text) kept, any error collapsed (payloads belong to C14/C03/C15)"""
    if v is None: return None
    return "err" if v.startswith("err") else v

def _acc(v):
    """accepted (with which text) / rejected — an error, a serde error and a panic all count as rejected"""
    if v is None: return None
    return v if v.startswith("ok(") else "rejected"

def _door_vs_spec(door):
    """a door's accept/reject decision (and the accepted text) against the declarative grammar verdict"""
    return lambda line, fi, fm, d=door: (_acc(fi.get(d)), _acc(fm.get("spec_d")))

# ---- tolerant views: where the property's statement itself allows more than one answer, implementation and model
# are compared only up to that freedom (which answer is given, and that it is truthful, is decided by the
# implementation-side law of the same row: law_truth / law_locate). See DESIGN.md §15.

def _arg_text(line, k):
    """k-th argument of an operation line decoded from xHEX to text (None if not hex)"""
    parts = line.split(" ")
    if k >= len(parts) or not parts[k].startswith("x"): return None
    try: return bytes.fromhex(parts[k][1:]).decode("utf-8", "replace")
    except ValueError: return None

def _index_reasons(tok):
    """the set of rejection reasons C16 allows for a string that is not an index: leading-zeros only for a
    multi-character string starting with '0'; invalid-character iff there is a non-digit; invalid-integer only for
    empty or overflowing digit strings"""
    rs = set()
    digits = all(c in "0123456789" for c in tok)
    if len(tok) > 1 and tok[0] == "0": rs.add("lz")
    if not digits: rs.add("ic")
    if tok == "" or (digits and int(tok) > 2 ** 64 - 1): rs.add("ii")
    return rs

def _idx_err_view(tok, v):
    """err(lz) | err(ic,OFF) | err(ii,KIND)  ->  err(one-of:…) when C16 allows several reasons for this string"""
    if v is None or tok is None or not v.startswith("err("): return v
    rs = _index_reasons(tok)
    return "err(one-of:" + "|".join(sorted(rs)) + ")" if len(rs) > 1 else v

def _idx_r(other):
    return lambda line, fi, fm, o=other: (_idx_err_view(_arg_text(line, 1), fi.get("r")), _idx_err_view(_arg_text(line, 1), fm.get(o)))

def _pl_view(tok, v):
    """C15 payload of an index-parse error: lz | ic(OFF) | ii(KIND) -> one-of when several reasons are truthful"""
    if v is None or tok is None or not re.match(r"^(lz|ic\(|ii\()", v): return v
    rs = _index_reasons(tok)
    return "one-of:" + "|".join(sorted(rs)) if len(rs) > 1 else v

def _fe_err_view(v, firstbad):
    """Token::from_encoded error: C03 lets the reported offset be that of the offence or of the byte after it (and
    for `~/` either offence may be named): err(KIND,OFF) -> err(@first-offence) when OFF is one of the two"""
    m = re.match(r"^err\((slash|tilde),(\d+)\)$", v or "")
    if not m or firstbad in (None, "none"): return v
    f, k = int(firstbad), int(m.group(2))
    return "err(@first-offence)" if k in (f, f + 1) else v

def _fe_r(line, fi, fm):
    fb = fm.get("spec_firstbad")
    return (_fe_err_view(fi.get("r"), fb), _fe_err_view(fm.get("r"), fb))

def _label14(line, fi, fm):
    """C14 label: for an encoding error it begins at the offending '~' (offset compared; the length only has to stay
    inside the input: law_truth); for NoLeadingSlash it only has to lie inside the input (law_truth)"""
    a, b = fi.get("label"), fm.get("label")
    if fi.get("d1") == "err(nls)" and fm.get("d1") == "err(nls)": return None
    off = lambda v: re.sub(r"^\((\d+),\d+\)$", r"(\1,_)", v) if v else v
    return (off(a), off(b))

def _decision(field):
    return (field + ":decision", lambda line, fi, fm, f=field: (_dec(fi.get(f)), _dec(fm.get(f))))

def _okerr(field):
    """ok / err only (neither payload nor kind)"""
    k = lambda v: None if v is None else ("ok" if v.startswith("ok") or v.startswith("some") or v == "none" else "err")
    return (field + ":ok/err", lambda line, fi, fm, f=field: (k(fi.get(f)), k(fm.get(f))))

def _locate(field):
    """C15: the locating fields are compared only when implementation and model both report an error
    (whether an error occurs at all is C05/C06's business)"""
    def fn(line, fi, fm, f=field):
        if not (fi.get("r", "").startswith("err") and fm.get("r", "").startswith("err")): return None
        a, b = fi.get(f), fm.get(f)
        if f == "pl":
            # the failing token's own text (encoded; `~` is a non-digit either way)
            gp = fi.get("gp")
            tok = None
            if gp and gp.startswith("x"):
                try: tok = bytes.fromhex(gp[1:]).decode("utf-8", "replace")
                except ValueError: tok = None
            a, b = _pl_view(tok, a), _pl_view(tok, b)
        if f == "label":
            # an empty token gets "an empty span at that place": either side of the separator (law_locate pins it)
            em = lambda v, off: "(@token,0)" if v and off and re.match(r"^\((\d+),0\)$", v) and int(v[1:-3]) in (int(off), int(off) + 1) else v
            try: a, b = em(a, fi.get("off")), em(b, fm.get("off"))
            except ValueError: pass
        return (a, b)
    return (field, fn)

ACC = ["text", "toks", "encs", "count", "first", "last", "gets", "comps", "is_root", "len"]
LOCATE = ["pos", "off", "pl", "label", "gp", "sa"]

PROPS = {
 "C01": dict(
  # C01 is about the *validity* of every value the safe API yields: each value is re-checked on the real
  # crate by an independent recogniser (law_valid & co.); against the model only the accept/reject
  # decisions are compared (exact texts, offsets and views are compared by C02–C04, C11–C13).
  ops={
   "parse": dict(fields=[_decision("d1"), _decision("d5"), _decision("d8")],
                 spec=[_door_vs_spec("d%d" % i) for i in range(1, 9)], laws=["law_grammar", "law_align"]),
   "deser": dict(fields=[_decision("own"), _decision("bor")], laws=["law_refuse"]),
   "tok_new": dict(fields=[], laws=["law_valid"]),
   "from_encoded": dict(fields=[_okerr("r")], laws=["law_exact", "law_verbatim", "law_align"]),
   "tok_int": dict(fields=[], laws=[("py_enc_valid", _law_enc_valid)]),
   "from_tokens": dict(fields=[], laws=["law_valid"]),
   "ptr_view": dict(fields=[], laws=["law_valid", "law_rt"]),
   "with": dict(fields=[], laws=["law_valid"]),
   "concat": dict(fields=[], laws=["law_valid"]),
   "from_token": dict(fields=[], laws=["law_valid"]),
   "from_usize": dict(fields=[], laws=["law_valid"]),
   "buf_hist": dict(fields=[], laws=["law_valid"]),
   "split_front": dict(fields=[], laws=["law_valid"]),
   "split_back": dict(fields=[], laws=["law_valid"]),
   "parent": dict(fields=[], laws=["law_valid"]),
   "split_at": dict(fields=[], laws=["law_valid"]),
   "get": dict(fields=[], laws=["law_valid"]),
   # law_alias: the prefix/suffix operations on views into the operand's own buffer (a returned pointer that is
   # not at a token boundary is invalid text)
   "rel": dict(fields=[], laws=["law_valid", "law_alias"]),
  },
  augment_budget=120000,
  rule="corpus + bounded-exhaustive + seeded random lines over every safe constructor/accessor/splitter/slicer/prefix-suffix op and mutator histories; a case is non-trivial when an argument contains '~', '/' or a multi-byte char",
  theorems="Jp.C01.* (validity invariant per operation, history_valid), with C02 validate_ok_iff, C03 enc_valid/fromEncoded_ok_iff, C04, C11 history_refines, C12, C13",
 ),
 "C02": dict(
  ops={
   # decision and text per door; that the doors return the *same* ParseError is law_doors; what the
   # offsets inside it are is C14's business
   "parse": dict(fields=[_decision("d%d" % i) for i in range(1, 9)],
                 spec=[_door_vs_spec("d%d" % i) for i in range(1, 9)],
                 laws=["law_grammar", "law_doors", "law_same_ptr", "law_align"]),
   "deser": dict(fields=["own", "bor"], laws=["law_refuse"]),
  },
  rule="all strings over {/,~,0,1,a,é} up to length 6 (quick) / 7 (thorough) + seeded random valid/corrupted pointers through all eight doors; non-trivial: contains '~', '/' or a multi-byte char",
  exhaustive="every string over {/,~,0,1,a,é} up to length 6 (quick) / 7 (thorough)",
  theorems="Jp.C02.validate_ok_iff, parse_eq_spec, parse_ok_text, doors_agree, from_static_panics_iff, deserialize_refuses",
  partial="address identity of the borrowed view (law_same_ptr) is checked on the implementation only",
 ),
 "C03": dict(
  ops={
   "tok_new": dict(fields=["enc", "dec"], spec=[("enc", "spec_enc", ident), ("dec", "spec_dec", ident)],
                   laws=["law_enc", "law_dec", "law_valid", "law_from", "law_align"]),
   "from_encoded": dict(fields=[("r", _fe_r)], spec=[("r", "spec_valid", _ok_flag), ("r", "spec_dec", _fe_dec)],
                        laws=["law_exact", "law_verbatim", "law_inverse", "law_truth", "law_align"]),
  },
  rule="all strings over {/,~,0,1,a,é} up to length 6/7 for both ops + seeded random (tilde-dense, 1k–8k long); non-trivial: contains '~', '/' or a multi-byte char",
  exhaustive="every string over {/,~,0,1,a,é} up to length 6 (quick) / 7 (thorough), for Token::new and Token::from_encoded",
  theorems="Jp.C03.new_encoded, decoded_new, dec_enc, enc_valid, enc_dec, fromEncoded_ok_iff, fromEncoded_verbatim, fromEncoded_decoded, fromEncoded_reencode, fromEncoded_err_truthful",
 ),
 "C04": dict(
  ops={
   "from_tokens": dict(fields=ACC, spec=[("text", "spec_text", ident), ("toks", "spec_toks", ident)], laws=["law_list"]),
   "ptr_view": dict(fields=ACC + ["rt"], laws=["law_list", "law_rt"]),
   "with": dict(fields=["text"], laws=["law_list"]),
   "concat": dict(fields=["text"], laws=["law_list"]),
   "from_token": dict(fields=["text"], laws=["law_list"]),
   "from_usize": dict(fields=["text"], laws=["law_list"]),
  },
  rule="seeded random token lists (0–6 raw strings incl. the delicate pool) and valid pointer texts; non-trivial: a token is empty or needs escaping",
  theorems="Jp.C04.tokens_fromRaw, count_fromRaw, text_fromRaw, fromTokens_tokens, fromRaw_injective, front_eq, back_eq, concat_tokens, …",
 ),
 "C05": dict(
  twin_toml=True,
  # both flavours of resolving (`resolve`, `resolve_mut`: every resolve line is also run as resolve_mut), and the
  # position the error names ("the error names the first step that fails")
  twin_ops={"resolve": "resolve_mut"},
  ops={"deep": dict(fields=[], laws=["law_deep"]), "resolve": dict(fields=["r", "val", _locate("pos")], spec=[("r", "spec_r", ident)], laws=["law_walk", "law_fwd", "law_nodes"]),
       "resolve_mut": dict(fields=["r", "val", _locate("pos")], spec=[("r", "spec_r", ident)], laws=["law_walk", "law_fwd"])},
  rule="all documents of a tiny grammar × all pointers of ≤2 (quick) / ≤3 (thorough) tokens over a delicate pool, + seeded random documents with path-directed / perturbed / free pointers; non-trivial: ≥2 tokens or an index/escaped token, on a container",
  exhaustive="155 tiny documents × all pointers of ≤2/≤3 tokens over {a,0,1,-,00,~0}",
  theorems="Jp.C05.resolve_eq_walk, resolve_returns_node, every_node_addressable, pointer_of_node_unique, resolve_no_panic",
  partial="address identity (the returned reference is the node at the location: LOC is computed from addresses by jpserve) is an implementation-side observation",
 ),
 "C06": dict(
  twin_toml=True,
  ops={"deep": dict(fields=[], laws=["law_deep"]), "assign": dict(fields=["r", "doc"], spec=[("r", "spec_r", ident), ("doc", "spec_doc", ident)], laws=["law_slack", "law_fwd"])},
  rule="tiny-grammar exhaustive scope + seeded random (document, pointer, value); non-trivial: ≥2 tokens or an index/escaped token, on a container",
  exhaustive="155 tiny documents × all pointers of ≤2/≤3 tokens × 1–2 values",
  theorems="Jp.C06.assign_eq_spec, expand_eq_spec, assign_root, only_two_failures, spec_rules",
 ),
 "C07": dict(
  twin_toml=True,
  # the six laws are evaluated on the real crate; against the model only ok/err and the document
  # afterwards are compared (error kinds and the returned value belong to C06)
  ops={"assign": dict(fields=[_okerr("r"), "doc"], laws=["law_atomic", "law_ryw", "law_frame", "law_replaced", "law_idem", "law_slack", "law_fwd"])},
  rule="as C06; the six laws are evaluated on the real crate for every case",
  exhaustive="155 tiny documents × all pointers of ≤2/≤3 tokens × 1–2 values",
  theorems="Jp.C07.atomic, read_your_write, frame, replaced_some, replaced_none, idempotent",
 ),
 "C08": dict(
  twin_toml=True,
  ops={"deep": dict(fields=[], laws=["law_deep"]), "delete": dict(fields=["r", "doc"], spec=[("r", "spec_r", ident), ("doc", "spec_doc", ident)],
                      laws=["law_agrees", "law_none_unchanged", "law_removed", "law_root", "law_slack", "law_fwd"])},
  rule="tiny-grammar exhaustive scope + seeded random, many pointers ending in index = len, len+1, '-', empty arrays; non-trivial as C05",
  exhaustive="155 tiny documents × all pointers of ≤2/≤3 tokens",
  theorems="Jp.C08.delete_eq_spec, delete_some_iff_resolves, delete_none_unchanged, delete_no_panic, delete_root, removeAt_*",
 ),
 "C09": dict(
  ops={
   # C09 is a relation BETWEEN implementations: it is decided by comparing the six real walks with each
   # other on the same lines (json vs toml: `cross_backend`; resolve vs resolve_mut: law_mut_same;
   # write-through: law_write). The tie of those walks to the model is the business of C05/C06/C08/C15.
   "resolve": dict(fields=[], laws=["law_mut_same", "law_fwd"]),
   "resolve_mut": dict(fields=[], laws=["law_mut_same", "law_fwd"]),
   "write": dict(fields=[], laws=["law_write"]),
   "assign": dict(fields=[], laws=[]),
   "delete": dict(fields=[], laws=[]),
  },
  cross_backend=["r", "val", "pos", "off", "pl", "doc", "rb", "label"],
  rule="every case is run through all six walks on both backends (same arguments, consecutive lines) and compared with the one model and json-vs-toml with each other; non-trivial as C05",
  exhaustive="tiny documents × short pointers, ten lines (5 ops × 2 backends) per case",
  theorems="Jp.C09.resolveMut_eq_resolve, write_then_read, write_frame, ancestors_keep_shape, delete_backend_independent",
  partial="the model is parametric in the backend, so JSON = TOML is true of the model by construction; the agreement of the separately written Rust copies is decided by the differential run",
 ),
 "C10": dict(
  ops={"deep": dict(fields=[], laws=["law_deep"]), "tree_hist": dict(fields=["steps"], spec=[("steps", "spec_steps", ident)], laws=["law_nopanic", "law_nodes", "law_wf"])},
  rule="all histories of length ≤3 over an 8-op pool from 3 start documents (json and toml) + seeded random histories (1–30 / 1–200 steps) generated against the live document; non-trivial: ≥3 steps",
  exhaustive="all histories of length ≤ 3 over 8 operations from 3 start documents, both backends",
  theorems="Jp.C10.step_refines, history_refines, no_step_panics, nodes_addressable_after, wf_preserved",
 ),
 "C11": dict(
  ops={"buf_hist": dict(fields=["steps"], spec=[("steps", "spec_steps", ident)], laws=["law_deque"]),
       # an integer as the token argument of push_back / push_front / replace / from_tokens / with_*_token
       "tok_int": dict(fields=["enc"], laws=["law_decimal"])},
  rule="all histories of length ≤3 over a 10-step pool from 3 start pointers + seeded random histories (1–12 / ≤40 steps); non-trivial: a token is empty or needs escaping, or ≥3 steps",
  exhaustive="all histories of length ≤ 3 over 10 steps from the pointers \"\", \"/\", \"/a/~0\"",
  theorems="Jp.C11.step_refines, history_refines, history_text, history_decoded, replace_out_of_range, append_*",
 ),
 "C12": dict(
  release_too=True,
  ops={
   "split_front": dict(fields=["r"], spec=[("r", "spec_r", ident)], laws=["law_concat"]),
   "split_back": dict(fields=["r"], spec=[("r", "spec_r", ident)], laws=["law_concat"]),
   "parent": dict(fields=["r"], spec=[("r", "spec_r", ident)], laws=["law_concat"]),
   "split_at": dict(fields=["r"], laws=["law_concat", "law_sep"]),
   "get": dict(fields=["r"], spec=[_get_spec], laws=["law_sublist", "law_view", "law_join"]),
  },
  rule="seeded random pointers (empty/escaped/multi-byte tokens) × all eight index forms and nine Bound pairings with bounds from {0,1,2,n-1,n,n+1,2^64-2,2^64-1} ∪ random; split_at at every k ≤ len+1; non-trivial: range neither `..` nor wholly out of range, or a bound ≥ 2^64-2",
  theorems="Jp.C12.getRange*_spec, getBounds_spec, span_is_sublist, no_panic, excluded_max_none, splitAt_iff, splitAt_concat, split*_spec, *_view",
  partial="that a non-empty result is a view into the receiver's buffer (VIEW offsets from address arithmetic) is observed on the implementation",
 ),
 "C13": dict(
  ops={
   "rel": dict(fields=["sw", "ew", "sp", "ss", "ix", "ixr", "cc"],
               spec=[("sw", "spec_sw", ident), ("ew", "spec_ew", ident), ("sp", "spec_sp", ident), ("ss", "spec_ss", ident),
                     ("ix", "spec_ix", ident), ("ixr", "spec_ix", ident), ("cc", "spec_cc", ident)],
               laws=["law_prefix", "law_suffix", "law_ix", "law_concat", "law_alias"]),
   "rel3": dict(fields=["cc", "assoc"], laws=["law_concat"]),
   "concat": dict(fields=["text"], laws=["law_list"]),
  },
  rule="seeded random pairs/triples: common prefix + diverging suffixes, string-prefix-but-not-token-prefix, root either side, equal, token-prefix/suffix; non-trivial: a token is empty/escaped or the texts share a proper string prefix",
  theorems="Jp.C13.startsWith_iff, stripPrefix_iff, stripPrefix_concat, endsWith_iff, stripSuffix_iff, intersection_lcp, intersection_comm, concat_assoc, …",
 ),
 "C14": dict(
  ops={"parse": dict(fields=["d1", "d2", "co", "src", ("label", _label14), "rsubj"], spec=[("d1", "spec_d", ident)],
                     laws=["law_truth", "law_report", "law_fmt", "law_align"])},
  rule="all strings over {/,~,0,1,a,é} up to length 6/7 + seeded random rejected strings (bad '~' in first/middle/last token, at the end, before '/', before multi-byte, after valid escapes); non-trivial: contains '~', '/' or multi-byte",
  exhaustive="every string over {/,~,0,1,a,é} up to length 6 (quick) / 7 (thorough)",
  theorems="Jp.C14.no_leading_slash_iff, invalid_encoding_offsets, report_keeps_input, label_inside, label_starts_at_tilde (+ C02.parse_eq_spec)",
  partial="'formatting never panics' (law_fmt) exists only on the implementation side",
 ),
 "C15": dict(
  twin_toml=True,
  ops={
   "resolve": dict(fields=[_locate(f) for f in LOCATE], laws=["law_locate", "law_fwd"]),
   "resolve_mut": dict(fields=[_locate(f) for f in LOCATE], laws=["law_locate", "law_fwd"]),
   "assign": dict(fields=[_locate(f) for f in LOCATE], laws=["law_locate", "law_fwd"]),
  },
  rule="seeded random documents (depth ≤4) with pointers that mostly fail at a random depth, escaped/empty/multi-byte tokens before the failing one, json and toml; non-trivial as C05",
  theorems="Jp.C15.resolve_err_locates, resolveMut_err_locates, assign_err_locates, resolve_payload, assign_payload, label_covers_token",
 ),
 "C16": dict(
  release_too=True,
  ops={
   "index_str": dict(fields=[("r", _idx_r("r")), "disp"], spec=[_idx_r("spec_r")], laws=["law_grammar", "law_display", "law_forms", "law_truth"]),
   "index_len": dict(fields=["fl", "fli", "flu"], laws=["law_bounds"]),
  },
  rule="all strings over {0,1,9,-,+,a,٣} up to length 5 + grammar-directed random index strings (around 2^64) + the (index,len) boundary grid; non-trivial: not a plain 1–3 digit number",
  exhaustive="every string over {0,1,9,-,+,a,٣} up to length 5; the boundary grid {0,1,2,5,2^63,2^64-2,2^64-1}² × {num,next}",
  theorems="Jp.C16.fromStr_eq_spec, fromStr_ok_iff, display_fromStr, fromStr_display, *_truthful, forLen*_exact",
 ),
 "C17": dict(
  ops={"cmp": dict(fields=["eq", "ord"], spec=[("eq", "spec_eq", ident), ("ord", "spec_ord", ident)], laws=["law_ops", "law_hash", "law_maps", "law_alias", "law_reuse"])},
  rule="seeded random ordered pairs of valid pointers (equal, prefix-related, differing in first/middle/last byte or only in length, multi-byte) through all 20 PartialEq and 20 PartialOrd/Ord forms; non-trivial: the texts differ",
  theorems="Jp.C17.eq_impls_are_text_eq, ord_impls_are_lexCmp, lexCmp_* (total order), hash_inputs_equal",
  partial="hash values and map lookups (law_hash, law_maps) exist only on the implementation side; the theorems are shallow by nature",
 ),
 "C18": dict(
  ops={
   # the model's `conv=ok` / `ser` = text IS the property (every conversion preserves the text exactly)
   "conv": dict(fields=[], spec=[("ser", "ser", ident), ("conv", "conv", ident)], laws=[]),
   "deser": dict(fields=["own", "bor"], laws=["law_refuse"]),
   "tok_int": dict(fields=["enc"], laws=["law_decimal"]),
  },
  rule="seeded random valid pointers (incl. long) through every conversion and serde round trip, valid+invalid strings through both Deserialize impls, all 12 integer types at boundaries and random values; non-trivial: text non-empty",
  theorems="Jp.C18.serialize_text, deserialize_roundtrip, deserialize_refuses, conversions_identity, ofInt_decimal",
  partial="Box raw-pointer casts and buffer capacities exist only on the Rust side",
 ),
 "C19": dict(
  ops={
   # a measured allocation on a listed operation IS the failing input: compared as impl-vs-spec
   # (the model's annotation is what the theorems of Jp.C19 are about)
   "zc_ptr": dict(fields=[], spec=[("zc", "zc", ident), ("ctl", "ctl", ident)], laws=[]),
   "zc_parse": dict(fields=[], spec=[("parse", "parse", ident), ("fe", "fe", ident)], laws=[]),
   "zc_tok": dict(fields=[], spec=[("new", "new", ident), ("dec_b", "dec_b", ident), ("dec_o", "dec_o", ident), ("new_o", "new_o", ident)], laws=[]),
  },
  rule="seeded random pointers (0–6 tokens; 1 in 200 with thousands of tokens), valid and invalid strings (some multi-kilobyte) measured with a counting global allocator, zero/non-zero compared with the model's allocation annotation; non-trivial: ≥2 tokens or length ≥ 2",
  theorems="Jp.C19.* (every listed operation yields a view/pass-through; Token.new / decoded build a buffer iff a special byte is present)",
  partial="the allocator is runtime behaviour: which Rust expressions allocate is a hand annotation in the model, validated per call (zero / non-zero) by the counting allocator",
 ),
 "C20": dict(ops={}, rule="all 2^n subsets of the features Cargo.toml declares (256 on the pinned tree)", theorems="Jp.C20.all_subsets_build"),
}

SPECIAL = re.compile(r"7e|2f|[c-f][0-9a-f]")   # '~', '/', or a UTF-8 lead byte, at byte alignment (approximate)

def _hexargs(line):
    return re.findall(r"x([0-9a-f]*)", line)

def _has_special(h):
    return any(h[i:i + 2] in ("7e", "2f") or h[i] in "cdef" for i in range(0, len(h) - 1, 2))

def nontrivial(prop, line):
    """the per-property rule of DESIGN.md Appendix B, evaluated on the operation line"""
    parts = line.split(" ")
    op = parts[0]
    hx = _hexargs(line)
    if prop in ("C01", "C02", "C03", "C14"):
        return any(_has_special(h) for h in hx)
    if prop in ("C04", "C11", "C13"):
        if op in ("buf_hist",) and len(parts) >= 5: return True
        return any(h == "" or "7e" in h or "2f2f" in h or h.endswith("2f") for h in hx) or \
               (prop == "C13" and len(hx) >= 2 and hx[0] != hx[1] and (hx[0].startswith(hx[1]) or hx[1].startswith(hx[0])))
    if prop in ("C05", "C06", "C07", "C08", "C09", "C15"):
        doc = next((a for a in parts[1:] if a and a[0] in "[{"), None)
        ptr = next((a for a in parts[2:] if a.startswith("x")), "x")
        ntok = ptr.count("2f")
        return doc is not None and (ntok >= 2 or "7e" in ptr or any(c in ptr for c in ("2f30", "2f31", "2f2d")))
    if prop == "C10":
        return len(parts) >= 6
    if prop == "C12":
        if op != "get": return True
        big = any(int(n) >= 18446744073709551614 for n in re.findall(r"\d{19,}", line))
        return big or ("full" not in line)
    if prop == "C16":
        if op == "index_len": return True
        return not re.fullmatch(r"x(3[0-9]){1,3}", parts[1])
    if prop == "C17":
        return len(parts) == 3 and parts[1] != parts[2]
    if prop == "C18":
        return len(parts) > 1 and parts[1] not in ("x",)
    if prop == "C19":
        return any(len(h) >= 4 for h in hx)
    return True
