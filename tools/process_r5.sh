#!/bin/sh
# tools/process_r5.sh Cxx [Cyy ...] — round-5 sub-agent changes in /tmp/wt5-Cxx/MUT5/{P,Q}: confirm in the scratch
# worktree, then run the TARGET quick check (C20 changes: ./check C20) with the change applied to /repo (always reverted).
cd /verif
LOGD=work/mutlog${ROUND:-5}; mkdir -p $LOGD
for P in "$@"; do
  for X in ${LETTERS:-P Q}; do
    [ -f /tmp/wt5-$P/${MUTD:-MUT5}/$X.diff ] || continue
    LOG=$LOGD/${P}_$X.txt
    { if [ -f /tmp/wt5-$P/${MUTD:-MUT5}/demo_$X.rs ]; then tools/confirm_mutant.sh /tmp/wt5-$P $X ${MUTD:-MUT5}; else echo "RESULT /tmp/wt5-$P $X (no rust demo)"; fi
      python3 tools/selftest.py /tmp/wt5-$P/${MUTD:-MUT5}/$X.diff $P ${EXTRA:-}
    } > $LOG 2>&1
    echo "done $P $X: $(grep -E "^$P rc" $LOG | cut -c1-160)"
  done
done
