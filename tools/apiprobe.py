#!/usr/bin/env python3
"""
tools/apiprobe.py — C01 quantifies over *every* safe public function that yields a Pointer, PointerBuf or Token.
The harness knows the functions of the pinned tree; a change can add new ones (a constructor from another syntax, a
`From<char>`, a convenience method). This step finds public items of `Pointer`, `PointerBuf`, `Token` and `Report<ParseError>` (`RichParseError`) that are not in
the snapshot (lean/anchors_src), generates a probe program that calls each of them on generated inputs, and checks every
pointer / token they return, or leave behind in a `&mut self` receiver, with the independent RFC 6901 recogniser.

  run(repo, verif, inputs, log) -> list of dict(function, input_hex, what, text_hex)

Only call shapes the generator understands are probed (see ARG_EXPR); anything else is reported in the log and skipped —
never an alarm. The probe crate is /verif/harness-probe (src/main.rs is generated, src/rt.rs is static).
"""
import os, re, subprocess, sys, json
sys.path.insert(0, os.path.dirname(os.path.abspath(__file__)))
from rsparse import strip_comments, match_brace

TYPES = ("Pointer", "PointerBuf", "Token", "RichParseError")

def strip_tests(s):
    i = s.find("#[cfg(test)]")
    while i >= 0:
        m = re.match(r"#\[cfg\(test\)\]\s*mod\s+\w+\s*\{", s[i:])
        if m:
            b = i + m.end() - 1
            try: e = match_brace(s, b)
            except Exception: break
            s = s[:i] + s[e + 1:]
            i = s.find("#[cfg(test)]", i)
        else:
            i = s.find("#[cfg(test)]", i + 1)
    return s

def surface(srcdir):
    """{(type, name): signature} for inherent `pub fn`s, and {('From', type, argtype): header} for From impls"""
    out = {}
    for root, _, fs in os.walk(srcdir):
        for f in fs:
            if not f.endswith(".rs"): continue
            try: s = strip_tests(strip_comments(open(os.path.join(root, f), encoding="utf-8", errors="replace").read()))
            except OSError: continue
            # `impl From<$ty> for Token` inside a macro: the argument types are the macro's invocation arguments
            for mm in re.finditer(r"macro_rules!\s*(\w+)\s*\{", s):
                b0 = mm.end() - 1
                try: e0 = match_brace(s, b0)
                except Exception: continue
                mbody = s[b0:e0]
                mf0 = re.search(r"impl\s+From<\$\w+>\s+for\s+(Pointer|PointerBuf|Token)\b", mbody)
                if not mf0: continue
                for inv in re.finditer(r"\b" + mm.group(1) + r"!\s*[\(\{\[]([^\)\}\]]*)[\)\}\]]", s[e0:]):
                    for a in inv.group(1).split(","):
                        a = a.strip()
                        if re.fullmatch(r"[A-Za-z_][\w:]*", a): out[("From", mf0.group(1), a)] = f"{mm.group(1)}!({a})"
            for m in re.finditer(r"(?m)^\s*impl\b([^{;]*)\{", s):
                hdr = " ".join(m.group(1).split())
                b = m.end() - 1
                try: e = match_brace(s, b)
                except Exception: continue
                body = s[b:e]
                mf = re.match(r"(?:<[^>]*>\s*)?From<(.+)>\s+for\s+(Pointer|PointerBuf|Token)\b", hdr)
                if mf:
                    if not mf.group(1).strip().startswith("$"): out[("From", mf.group(2), mf.group(1).strip())] = hdr
                    continue
                if " for " in hdr: continue
                mt = re.match(r"(?:<[^>]*>\s*)?(PointerBuf|Pointer|Token|RichParseError|Report<ParseError>)(?![\w<])", hdr)
                if not mt: continue
                ty = "RichParseError" if mt.group(1).startswith(("Rich", "Report")) else mt.group(1)
                for fm in re.finditer(r"\bpub\s+(?:const\s+)?(unsafe\s+)?fn\s+(\w+)\s*(<[^>(]*>)?\s*\(", body):
                    if fm.group(1): continue                       # unsafe fns are exempt from C01
                    # argument list up to the matching ')'
                    i = fm.end(); depth = 1
                    while i < len(body) and depth:
                        depth += body[i] == "("; depth -= body[i] == ")"; i += 1
                    args = body[fm.end():i - 1]
                    rest = body[i:body.find("{", i)] if body.find("{", i) >= 0 else ""
                    ret = rest.split("where")[0].strip()
                    ret = ret[2:].strip() if ret.startswith("->") else "()"
                    out[(ty, fm.group(2))] = (" ".join(args.split()), " ".join(ret.split()), (fm.group(3) or ""), " ".join(rest.split()))
    return out

# how to build an argument of a given (normalised) Rust type from the probe input `s: &str`; None = one call per input
ARG_EXPR = [
    (r"&(?:'\w+\s+)?str$", "s"),
    (r"String$", "s.to_string()"),
    (r"impl (?:Into<String>|AsRef<str>|Into<Cow<'?\w*,? ?str>>|ToString|core::fmt::Display|std::fmt::Display|fmt::Display)$", "s"),
    (r"&(?:'\w+\s+)?\[u8\]$", "s.as_bytes()"),
    (r"&(?:'\w+\s+)?String$", "&s.to_string()"),
    (r"Cow<'?\w*,? ?str>$", "std::borrow::Cow::Borrowed(s)"),
    (r"&(?:'\w+\s+)?(?:Self|Pointer)$", "match jsonptr::Pointer::parse(s) { Ok(p) => p, Err(_) => return }"),
    (r"(?:Self|PointerBuf)$", "match jsonptr::PointerBuf::parse(s) { Ok(p) => p, Err(_) => return }"),
    (r"&(?:'\w+\s+)?(?:PointerBuf)$", "&match jsonptr::PointerBuf::parse(s) { Ok(p) => p, Err(_) => return }"),
    (r"(?:impl Into<Token<'?\w*>>|Token<?'?\w*>?)$", "jsonptr::Token::new(s)"),
    (r"&(?:'\w+\s+)?Token<?'?\w*>?$", "&jsonptr::Token::new(s)"),
]
CHARLIKE = re.compile(r"char$")
INTLIKE = re.compile(r"(?:u8|u16|u32|u64|u128|usize|i8|i16|i32|i64|i128|isize)$")
GENERIC_STR = re.compile(r"&(\w)$")          # `s: &S` with `S: AsRef<str> + ?Sized`

def arg_code(ty, generics_text):
    ty = ty.strip()
    for rx, ex in ARG_EXPR:
        if re.match(rx, ty): return ("one", ex)
    if CHARLIKE.match(ty): return ("chars", "c")
    if INTLIKE.match(ty): return ("int", f"(n as {ty})")
    m = GENERIC_STR.match(ty)
    if m and re.search(m.group(1) + r"\s*:\s*[^,>]*AsRef<str>", generics_text): return ("one", "s")
    m2 = re.match(r"(\w)$", ty)
    if m2 and re.search(m2.group(1) + r"\s*:\s*[^,>]*(?:AsRef<str>|Into<String>)", generics_text): return ("one", "s")
    return None

def gen_probe(idx, key, sig):
    """returns (label, rust fn source) or (label, None, reason)"""
    if key[0] == "From":
        _, ty, argty = key
        label = f"<{ty} as From<{argty}>>::from"
        ac = arg_code(argty, "")
        if not ac: return label, None, "argument type " + argty
        call = f"<jsonptr::{ty} as From<{argty.replace(chr(39) + '_', chr(39) + 'static') if False else argty}>>::from"
        call = f"jsonptr::{ty}::from"
        body = wrap(ac, f"let r = {call}(ARG); r.probe(LABEL, s, out);")
        return label, f"fn probe_{idx}(s: &str, out: &mut Vec<String>) {{\n    const LABEL: &str = {json.dumps(label)};\n{body}\n}}\n", None
    ty, name = key
    args, ret, generics, rest = sig
    label = f"{ty}::{name}"
    parts = split_args(args)
    recv = None
    if parts and re.match(r"(&\s*(?:'\w+\s+)?(?:mut\s+)?)?(mut\s+)?self$", parts[0].strip()):
        recv = parts[0].strip(); parts = parts[1:]
    if len(parts) > 1: return label, None, "more than one argument"
    where = generics + " " + rest
    pre = ""; after = ""
    if recv is None: target = f"jsonptr::{ty}::{name}"
    else:
        if ty == "RichParseError":
            # a report is an error *and a subject the caller chose* (`diagnose`, `into_report` take any string; the error types have
            # public fields): every sample error is paired with the probe input as its subject. A panic yields nothing and is ignored.
            if parts: return label, None, "argument on a report method"
            body = ("    for e in rt::sample_parse_errors() {\n"
                    "        let mut recv = jsonptr::diagnostic::Diagnostic::into_report(e, s.to_string());\n"
                    f"        let _ = std::panic::catch_unwind(std::panic::AssertUnwindSafe(|| {{ let mut o2: Vec<String> = Vec::new(); {{ let r = recv.{name}(); r.probe(LABEL, s, &mut o2); }} o2 }})).map(|o2| out.extend(o2));\n"
                    "    }")
            return label, f"#[allow(unused_mut, unused_variables)]\nfn probe_{idx}(s: &str, out: &mut Vec<String>) {{\n    const LABEL: &str = {json.dumps(label)};\n{body}\n}}\n", None
        mk = {"Pointer": "let recv: &jsonptr::Pointer = match jsonptr::Pointer::parse(s) { Ok(p) => p, Err(_) => return };",
              "PointerBuf": "let mut recv: jsonptr::PointerBuf = match jsonptr::PointerBuf::parse(s) { Ok(p) => p, Err(_) => return };",
              "Token": "let mut recv: jsonptr::Token = jsonptr::Token::new(s);"}[ty]
        pre = mk + "\n    "
        target = f"recv.{name}"
        if "mut" in recv and ty == "PointerBuf": after = " (&recv).probe(LABEL, s, out);"
    if parts:
        pty = parts[0].split(":", 1)[1].strip() if ":" in parts[0] else parts[0]
        ac = arg_code(pty, where)
        if not ac: return label, None, "argument type " + pty
        if recv is not None and ac[0] == "one" and "return" in ac[1]: return label, None, "second pointer argument"
    else: ac = ("one", None)
    callexpr = f"{target}(ARG)" if parts else f"{target}()"
    # the receiver of a `&mut self` method is rebuilt per call; results that borrow from it are probed before it is reused
    body = wrap(ac, f"{pre}{{ let r = {callexpr}; r.probe(LABEL, s, out); }}{after}")
    return label, f"#[allow(unused_mut, unused_variables)]\nfn probe_{idx}(s: &str, out: &mut Vec<String>) {{\n    const LABEL: &str = {json.dumps(label)};\n{body}\n}}\n", None

def wrap(ac, stmt):
    kind, ex = ac
    if kind == "one":
        return "    " + (stmt.replace("ARG", ex) if ex else stmt.replace("(ARG)", "()"))
    if kind == "chars":
        return "    for c in s.chars() {\n        let s2 = c.to_string(); let s: &str = &s2; let _ = s;\n        " + stmt.replace("ARG", "c") + "\n    }"
    if kind == "int":
        return "    if let Ok(n) = s.parse::<i128>() {\n        " + stmt.replace("ARG", ex) + "\n    }\n    if let Ok(n) = s.parse::<u128>() {\n        " + stmt.replace("ARG", ex) + "\n    }"
    return "    "

def split_args(a):
    out = []; depth = 0; cur = ""
    for ch in a + ",":
        if ch in "<([": depth += 1
        if ch in ">)]": depth -= 1
        if ch == "," and depth == 0:
            if cur.strip(): out.append(cur.strip())
            cur = ""
        else: cur += ch
    return out

def run(repo, verif, inputs, log=lambda s: None):
    cur = surface(os.path.join(repo, "src"))
    old = surface(os.path.join(verif, "lean", "anchors_src", "src"))
    new = {k: v for k, v in cur.items() if k not in old}
    if not new: return []
    probes = []; skipped = []
    for i, (k, v) in enumerate(sorted(new.items(), key=str)):
        label, src, why = gen_probe(i, k, v)
        if src is None: skipped.append(f"{label} ({why})")
        else: probes.append((i, label, src))
    log(f"C01: public items not in the validated snapshot: {[l for _, l, _ in probes] + skipped}")
    if skipped: log(f"C01: not probed (call shape outside the probe generator): {skipped}")
    if not probes: return []
    pdir = os.path.join(verif, "harness-probe")
    def build(ps):
        main = "mod rt;\nuse rt::Probe;\n\n" + "\n".join(src for _, _, src in ps) + \
               "\nfn main() {\n    rt::drive(&[" + ", ".join(f"probe_{i}" for i, _, _ in ps) + "]);\n}\n"
        open(os.path.join(pdir, "src", "main.rs"), "w").write(main)
        env = dict(os.environ, CARGO_NET_OFFLINE="true")
        r = subprocess.run(["cargo", "build", "--profile", "checked", "--offline"], cwd=pdir, capture_output=True, text=True, env=env)
        return r.returncode == 0, r.stderr
    ok, err = build(probes)
    if not ok:
        # keep the probes that compile on their own
        good = []
        for p in probes:
            ok1, err1 = build([p])
            if ok1: good.append(p)
            else: log(f"C01: probe for {p[1]} does not compile (return or argument type outside the probe runtime): {err1.strip().splitlines()[-1][:160] if err1.strip() else ''}")
        probes = good
        if not probes: return []
        ok, err = build(probes)
        if not ok: return []
    binp = os.path.join(pdir, "target", "checked", "jpprobe")
    r = subprocess.run([binp], input="\n".join(inputs) + "\n", capture_output=True, text=True)
    viol = []
    for line in r.stdout.splitlines():
        f = line.split("\t")
        if len(f) == 4 and f[0] == "VIOL": viol.append(dict(function=f[1], input_hex=f[2], what_text=f[3]))
        if len(f) == 3 and f[0] == "PANIC": viol.append(dict(function=f[1], input_hex=f[2], what_text="panicked"))
    labels = [l for _, l, _ in probes]
    log(f"C01: probed {labels} on {len(inputs)} inputs: {len(viol)} invalid value(s)")
    return viol

if __name__ == "__main__":
    V = os.path.dirname(os.path.dirname(os.path.abspath(__file__)))
    repo = sys.argv[1] if len(sys.argv) > 1 else "/repo"
    ins = [b.hex() for b in [b"/a", b"#/%7E", b"/", b"~", b"a~", b"", b"/~0", b"12", b"/%7e"]]
    for v in run(repo, V, ins, print): print(v)
