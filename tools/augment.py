"""
tools/augment.py — structure-preserving transformations of generated operation lines, aimed at code that
treats its input in blocks / words or by byte neighbourhood (a realistic class of "optimisation" bugs that
neither small exhaustive scopes nor uniform random strings reach):

  * alignment sweep: shift the interesting part of an argument by k plain bytes, k around every 8/16/32/64-byte
    boundary (strings: padding in front; pointers: an extra leading token of k bytes, which keeps validity and
    all token relations between several pointer arguments);
  * byte neighbours: replace the plain letter `a` by `.` (0x2E, one below `/`) resp. `}` (0x7D, one below `~`);
  * degenerate token lists: the pointer doubled (`P` + `P`: every token occurs twice, every key is a prefix of
    a later text), and all tokens made empty (`/` repeated).

Every variant is a well-formed line of the same operation (valid pointers stay valid); the expected answers
are computed by the two servers as for any other line. Deterministic in the seed.
"""
import random, re

KS = [6, 7, 8, 14, 15, 16, 17, 30, 31, 32, 33, 62, 63, 64, 65]
# strings only: the same boundaries further out (a block-wise scanner that switches on above 128 / 256 bytes)
KS_LONG = [94, 95, 96, 126, 127, 128, 158, 159, 160, 190, 191, 192, 222, 223, 224, 253, 254, 255, 256, 257, 286, 287, 288]

STR_OPS = {"parse": "after_slash", "deser": "after_slash", "zc_parse": "after_slash",
           "from_encoded": "front", "tok_new": "front", "zc_tok": "front"}
PTR_ARGS = {  # op -> indices of the xHEX arguments that are valid pointers
    "ptr_view": [1], "split_front": [1], "split_back": [1], "parent": [1], "split_at": [1], "get": [1],
    "rel": [1, 2], "rel3": [1, 2, 3], "concat": [1, 2], "with": [1], "zc_ptr": [1], "cmp": [1, 2], "conv": [1],
    "buf_hist": [1],
}

def _hex(b): return "x" + b.hex()
def _boundary(b, j):
    """the first UTF-8 char boundary of `b` at or after byte j"""
    while j < len(b) and (b[j] & 0xC0) == 0x80: j += 1
    return j
def _unhex(a):
    if not a.startswith("x"): return None
    try: return bytes.fromhex(a[1:])
    except ValueError: return None

def variants(line, rng):
    parts = line.split(" ")
    op = parts[0]
    out = []
    if op in STR_OPS and len(parts) == 2:
        s = _unhex(parts[1])
        if s is None or len(s) > 12: return out
        for k in KS + (rng.sample(KS_LONG, 8) if len(s) <= 6 else []):
            pad = b"a" * k
            if STR_OPS[op] == "after_slash" and s[:1] == b"/":
                out.append(f"{op} {_hex(b'/' + pad + s[1:])}")
            else:
                out.append(f"{op} {_hex(pad + s)}")
            if k in (30, 62, 126, 254) or k in KS_LONG[:3]:
                out.append(f"{op} {_hex(s + pad)}")                       # long tail behind the interesting bytes
            if len(s) >= 3:                                               # padding BETWEEN the interesting bytes
                j = _boundary(s, 2 if s[:1] != b"/" else 3)
                out.append(f"{op} {_hex(s[:j] + pad + s[j:])}")
        for a, b in ((b"a", b"."), (b"a", b"}")):
            if a in s: out.append(f"{op} {_hex(s.replace(a, b))}")
        return out
    if op in PTR_ARGS:
        idxs = PTR_ARGS[op]
        ptrs = [_unhex(parts[i]) if i < len(parts) else None for i in idxs]
        if any(p is None for p in ptrs) or sum(len(p) for p in ptrs) > 40: return out
        # alignment sweep: one extra leading token of k bytes on every pointer argument
        for k in rng.sample(KS, 6):
            tok = b"/" + b"a" * k
            q = list(parts)
            for i, p in zip(idxs, ptrs): q[i] = _hex(tok + p)
            if op == "split_at" and len(q) > 2 and q[2].isdigit():
                q[2] = str(int(q[2]) + len(tok)) if int(q[2]) < 2 ** 63 else q[2]
            out.append(" ".join(q))
        # byte neighbours
        for b in (b".", b"}"):
            if any(b"a" in p for p in ptrs):
                q = list(parts)
                for i, p in zip(idxs, ptrs): q[i] = _hex(p.replace(b"a", b))
                out.append(" ".join(q))
        # doubled pointer: every token occurs twice
        q = list(parts)
        for i, p in zip(idxs, ptrs): q[i] = _hex(p + p)
        out.append(" ".join(q))
        # many tokens / long text: every pointer argument repeated 20 times (> 40 tokens, > 150 bytes for most)
        if all(0 < len(p) <= 16 for p in ptrs):
            q = list(parts)
            for i, p in zip(idxs, ptrs): q[i] = _hex(p * 20)
            out.append(" ".join(q))
        # past the 64 / 128-entry thresholds of inline tables and depth caps: >= 130 tokens
        if all(len(p) <= 24 for p in ptrs) and any(p for p in ptrs):
            q = list(parts)
            reps = []
            for i, p in zip(idxs, ptrs):
                nt = max(1, p.count(b"/")); k = -(-130 // nt) if p else 1
                reps.append((k, nt)); q[i] = _hex(p * k)
            if op == "get" and len(q) > 2:
                # move the range to the far end so that its bounds lie beyond the thresholds too
                k, nt = reps[0]; shift = (k - 1) * nt
                q[2] = re.sub(r"\d+", lambda m: str(int(m.group(0)) + shift) if int(m.group(0)) < 2 ** 32 else m.group(0), q[2])
            out.append(" ".join(q))
            q = list(parts)
            for i, p in zip(idxs, ptrs): q[i] = _hex(b"/" * rng.choice([64, 65, 129, 130, 200]))
            if op == "get" and len(q) > 2:
                q[2] = re.sub(r"\d+", lambda m: str(rng.choice([63, 64, 65, 128, 129])) if int(m.group(0)) < 2 ** 32 else m.group(0), q[2])
            out.append(" ".join(q))
        # long prefix-related pairs: identical first 256+ bytes, different numbers of 256-byte blocks
        if len(idxs) > 1 and 0 < len(ptrs[0]) <= 24:
            k = -(-260 // len(ptrs[0]))
            for a, b in ((k, 2 * k), (2 * k, k), (k, k)):
                q = list(parts); q[idxs[0]] = _hex(ptrs[0] * a); q[idxs[1]] = _hex(ptrs[0] * b)
                out.append(" ".join(q))
        # first argument doubled only (prefix relations between the arguments)
        if len(idxs) > 1:
            q = list(parts); q[idxs[0]] = _hex(ptrs[0] + ptrs[0]); out.append(" ".join(q))
        # all tokens empty
        q = list(parts)
        for i, p in zip(idxs, ptrs): q[i] = _hex(b"/" * p.count(b"/"))
        out.append(" ".join(q))
        return out
    return out

# includes multi-byte chars (so that fixed byte cuts fall inside a char) and chars whose UTF-8 bytes alias the
# special bytes under a 7-bit mask: Я = D0 AF (AF & 7F = '/'), ° = C2 B0, ± = C2 B1 ('0', '1'), ï = C3 AF
WORD_ALPHA = [b"/", b".", b"a", b"a", b"~", b"0", b"1", b"}", b":", b"~0", b"~1", b".", b"\xc3\xa9", b"\xe6\x97\xa5",
              b"\xd0\xaf", b"\xc2\xb0", b"\xc2\xb1",
              # code points whose LOW BYTE aliases a special ASCII byte (what `c as u8` keeps): U+0130 İ / U+0131 ı ('0','1'),
              # U+012F į ('/'), U+017E ž ('~'), U+4E30 丰 ('0'), U+1F631 😱 ('1')
              "\u0130".encode(), "\u0131".encode(), "\u012f".encode(), "\u017e".encode(), "\u4e30".encode(), "\U0001f631".encode()]
PTR_ALPHA = [b"/", b"/", b".", b"a", b"a", b"~0", b"~1", b"0", b"-", b"}", b"\xef\xbd\x9e", b"\xf0\x9f\x98\x80",
             b"\xd0\xaf", b"\xc3\xaf", b"\xc2\xb1", "\u0130".encode(), "\u0131".encode(), "\u012f".encode(), "\u017e".encode()]

def _len(rng, lo, hi):
    # mostly word scale (8..24), one in five cache-line / SIMD-block scale (25..140)
    r = rng.random()
    if MINED_LENS and r < 0.15: return rng.choice(MINED_LENS)
    if r < 0.78: return rng.randint(lo, hi)
    if r < 0.92: return rng.randint(hi + 1, 140)
    return rng.randint(250, 340)                # past 256-byte thresholds (stack scratch buffers, bulk paths)

def _rand_str(rng, lo=8, hi=24):
    n = _len(rng, lo, hi)
    if n > hi and rng.random() < 0.6:
        # long plain run with the interesting bytes near one end: what block-wise scanners skip over
        core = b"".join(rng.choice(WORD_ALPHA) for _ in range(rng.randint(1, 6)))
        pad = b"a" * (n - len(core))
        return pad + core if rng.random() < 0.5 else core + pad
    return b"".join(rng.choice(WORD_ALPHA) for _ in range(n))

def _rand_ptr(rng, lo=7, hi=24):
    """a valid pointer text of word-scale length over a tiny alphabet rich in neighbours of the special bytes"""
    n = _len(rng, lo, hi)
    out = b"/"
    while len(out) < n: out += rng.choice(PTR_ALPHA)
    return out

def wordscale(prop, lines, rng, n):
    """random inputs of 8..24 bytes over {/ . a ~ 0 1 } : ~0 ~1 ～ 😀}: long enough to cross word / block
    boundaries, dense in the bytes that differ from `/`, `~`, `0`, `9` by one bit or by one — the inputs on
    which word-at-a-time scanners and bit tricks go wrong"""
    ops = sorted(set(l.split(" ", 1)[0] for l in lines))
    out = []
    if not ops: return out
    templates = {}
    for l in lines:
        templates.setdefault(l.split(" ", 1)[0], []).append(l)
    for _ in range(n):
        op = rng.choice(ops)
        if op in STR_OPS:
            s = _rand_str(rng)
            if STR_OPS[op] == "after_slash" and rng.random() < 0.85: s = b"/" + s
            out.append(f"{op} {_hex(s)}")
        elif op == "index_str":
            k = rng.randint(7, 20) if rng.random() < 0.9 else rng.choice([255, 256, 257, 300])
            digs = bytes(rng.choice(b"0123456789") for _ in range(k))
            if rng.random() < 0.8:
                pos = rng.randrange(k); digs = digs[:pos] + rng.choice([b":", b"/", b";", b"?", b"+", b" "]) + digs[pos + 1:]
            if digs[:1] == b"0" and rng.random() < 0.8: digs = b"1" + digs[1:]
            out.append(f"{op} {_hex(digs)}")
        elif op in PTR_ARGS:
            t = rng.choice(templates[op]).split(" ")
            idxs = PTR_ARGS[op]
            base = _rand_ptr(rng)
            for j, i in enumerate(idxs):
                if i >= len(t): continue
                if j == 0: t[i] = _hex(base)
                else:
                    # related second/third pointer: a token-prefix, a token-suffix, a same-length sibling, or fresh
                    cuts = [k for k in range(len(base)) if base[k:k + 1] == b"/"] or [0]
                    r = rng.random()
                    if r < 0.3: t[i] = _hex(base[:rng.choice(cuts)])
                    elif r < 0.5: t[i] = _hex(base[rng.choice(cuts):])
                    elif r < 0.7:
                        sib = bytearray(base)
                        if len(sib) > 1:
                            k = rng.randrange(1, len(sib))
                            if sib[k] == 0x61: sib[k] = 0x2e
                        t[i] = _hex(bytes(sib))
                    else: t[i] = _hex(_rand_ptr(rng))
            if op == "split_at" and len(t) > 2: t[2] = str(rng.randint(0, len(base) + 1))
            out.append(" ".join(t))
    return out

TREE_OPS = {"resolve": (2, 3, None), "resolve_mut": (2, 3, None), "write": (2, 3, 4), "assign": (2, 3, 4), "delete": (2, 3, None)}
PZERO = "#d0000000000000000"                    # 0.0
NZERO = "#d8000000000000000"                    # -0.0 (== 0.0, but a different value)
FLOAT = "#d3ff8000000000000"                    # 1.5
BIGU = "#u18446744073709551615"                 # u64::MAX (json only)
DATE = "#T" + b"1979-05-27T07:32:00Z".hex()     # toml only

def _wrap(doc, ptr_hex, kind, rng):
    """embed `doc` inside a bigger document and prefix the pointer accordingly (semantics-preserving for
    everything the operation does below the wrapper)"""
    p = bytes.fromhex(ptr_hex)
    if kind == "deep_obj":
        k = rng.randint(7, 9)
        for _ in range(k): doc = "{77:" + doc + "}"
        return doc, (b"/w" * k + p).hex()
    if kind == "deep_arr":
        k = rng.randint(7, 9)
        for _ in range(k): doc = "[" + doc + "]"
        return doc, (b"/0" * k + p).hex()
    if kind == "deeper_arr":                    # past serde_json's recursion limit of 128
        k = rng.choice([129, 130, 140])
        return "[" * k + doc + "]" * k, (b"/0" * k + p).hex()
    if kind == "wider_arr":                     # three-digit indices above 255
        n, at = 300, rng.choice([256, 299])
        elems = ["#i%d" % i for i in range(n)]; elems[at] = doc
        return "[" + ",".join(elems) + "]", (b"/%d" % at + p).hex()
    if kind == "wide_arr":
        n, at = 120, rng.choice([100, 105, 119])
        elems = ["#i%d" % i for i in range(n)]; elems[at] = doc
        return "[" + ",".join(elems) + "]", (b"/%d" % at + p).hex()
    if kind == "wide_obj":
        members = ["%s:#i%d" % (("k%02d" % i).encode().hex(), i) for i in range(25)] + ["77:" + doc]
        return "{" + ",".join(sorted(members)) + "}", (b"/w" + p).hex()
    if kind == "edge_key":                      # a key with an escape whose length sits at a 64/128/256 boundary
        key = b"a" * rng.choice([61, 62, 63, 64, 65, 66, 126, 127, 128, 129, 253, 254, 255, 256] + [k for k in MINED_LENS if k <= 600]) + rng.choice([b"/", b"~", b"/~", b"~1"])
        enc = key.replace(b"~", b"~0").replace(b"/", b"~1")
        return "{" + key.hex() + ":" + doc + "}", (b"/" + enc + p).hex()
    if kind == "esc_keys":
        # several members on the path whose names need escapes, of different (also long) lengths: per-walk state
        # (scratch buffers, cached decodings) carried from one step to the next shows only on such paths
        pre = b""
        for _ in range(rng.choice([2, 2, 3])):
            n = rng.choice([1, 3, 9, 20, 31, 32, 33, 34, 40, 63, 64, 65, 70, 130] + [k for k in MINED_LENS if k <= 600] * 2)
            body = bytes(rng.choice(b"abcxyz.-_ ") for _ in range(n))
            cut = rng.randrange(len(body) + 1)
            key = body[:cut] + rng.choice([b"/", b"~", b"~1", b"/~0"]) + body[cut:]
            enc = key.replace(b"~", b"~0").replace(b"/", b"~1")
            doc = "{" + key.hex() + ":" + doc + "}"
            pre = b"/" + enc + pre
        return doc, (pre + p).hex()
    if kind == "long_key":
        key = b"a" * rng.choice([150, 200, 300])
        return "{" + key.hex() + ":" + doc + "}", (b"/" + key + p).hex()
    return doc, ptr_hex

def _top_members(doc):
    """top-level `key:value` strings of an object document, or None"""
    if not (doc.startswith("{") and doc.endswith("}")): return None
    body = doc[1:-1]; out = []; depth = 0; cur = ""
    for ch in body:
        if ch in "{[": depth += 1
        if ch in "}]": depth -= 1
        if ch == "," and depth == 0:
            out.append(cur); cur = ""
        else: cur += ch
    if cur: out.append(cur)
    return out

def _confusable(doc, pb):
    out = []
    if pb.count(b"/") < 2 and b"~" not in pb: return out
    ms = _top_members(doc)
    if ms is None:
        doc = "{77:" + doc + "}"; pb = b"/w" + pb; ms = _top_members(doc)
    keys = {m.split(":", 1)[0] for m in ms}
    cands = []
    if pb.count(b"/") >= 2: cands.append(pb[1:])                       # the whole tail, slashes and all
    first = pb[1:].split(b"/")[0]
    if b"~" in first: cands.append(first)                               # the first token as written (escapes not decoded)
    dec = first.replace(b"~1", b"/").replace(b"~0", b"~")
    if pb.count(b"/") >= 2 and dec != first: cands.append(dec + b"/" + pb[1:].split(b"/", 1)[1])
    for k in cands:
        if k.hex() in keys or not k: continue
        for val in ("#i7", "{62:#i8}"):
            members = sorted(ms + [k.hex() + ":" + val], key=lambda m: bytes.fromhex(m.split(":", 1)[0]))
            out.append(("{" + ",".join(members) + "}", pb))
    return out

def tree_variants(line, rng, prop):
    parts = line.split(" ")
    op = parts[0]
    out = []
    if op in TREE_OPS and len(parts) >= 4:
        di, pi, vi = TREE_OPS[op]
        backend, doc, ptr = parts[1], parts[di], parts[pi]
        if not ptr.startswith("x"): return out
        kinds = ["deep_obj", "deep_arr", "wide_arr", "wide_obj", "long_key", "edge_key", "esc_keys", "esc_keys"]
        if rng.random() < 0.15: kinds += ["deeper_arr", "wider_arr"]
        for kind in kinds:
            d2, p2 = _wrap(doc, ptr[1:], kind, rng)
            q = list(parts); q[di] = d2; q[pi] = "x" + p2
            out.append(" ".join(q))
        pb = bytes.fromhex(ptr[1:])
        # a sibling member whose NAME is the raw text of the pointer's tail ("a/b" next to a = {b: …} for /a/b), and one named like
        # the first token's *encoded* text: only a walk that splits and decodes token by token tells them apart
        for conf in _confusable(doc, pb):
            q = list(parts); q[di] = conf[0]; q[pi] = "x" + conf[1].hex(); out.append(" ".join(q))
        # a token spelled in a FOREIGN encoding of the member it would name (percent-encoding as in a URI fragment, a JSON string
        # escape): RFC 6901 evaluation knows `~0` / `~1` only, so such a token names a member of exactly that spelling
        toks_ = pb.split(b"/")[1:]
        for j in sorted({0, len(toks_) - 1}) if toks_ else []:
            t = toks_[j].replace(b"~1", b"/").replace(b"~0", b"~")
            if not t or len(t) > 12: continue
            try: tx = t.decode("utf-8")
            except UnicodeDecodeError: continue
            c0 = tx[0].encode("utf-8"); r0 = tx[1:].encode("utf-8")
            for enc in (b"".join(b"%%%02X" % c for c in t), b"".join(b"%%%02x" % c for c in c0) + r0, (b"\\u%04x" % ord(tx[0]) if ord(tx[0]) < 0x10000 else c0) + r0):
                enc = enc.replace(b"~", b"~0")
                q = list(parts); q[pi] = "x" + (b"".join(b"/" + x for x in toks_[:j]) + b"/" + enc + b"".join(b"/" + x for x in toks_[j + 1:])).hex()
                out.append(" ".join(q))
        # an EMPTY token in the middle (`/a//b`): where its error's (empty) label sits, and what it names, are their own cases
        seps = [i for i, c in enumerate(pb) if c == 0x2f]
        for i in sorted({seps[0], seps[-1], seps[len(seps) // 2]}) if seps else []:
            q = list(parts); q[pi] = "x" + (pb[:i] + b"/" + pb[i:]).hex(); out.append(" ".join(q))
            q = list(parts); q[pi] = "x" + (pb[:i] + b"//" + pb[i:]).hex(); out.append(" ".join(q))
        # a long remainder to materialise / to fail on: > 64 tokens behind the original pointer
        q = list(parts); q[pi] = "x" + (pb + b"/a" * rng.choice([64, 65, 70, 129, 130]) + b"/b").hex(); out.append(" ".join(q))
        # three-digit indices (above 255) and a 20-digit overflow in the last position
        # … and random 20/21-digit numbers above 2^64 (a hand-rolled overflow check is right on the round probes only)
        big = [str(rng.randint(2, 9)).encode() + bytes(rng.choice(b"0123456789") for _ in range(rng.choice([19, 19, 20]))) for _ in range(2)]
        # … an overflowing digit run FOLLOWED by a non-digit (the reason is the character, not the overflow)
        big += [big[0] + rng.choice([b"x", b" ", b"+", "\u0663".encode()]), b"18446744073709551616a"]
        big += ["\u0131".encode(), "1\u0130".encode(), "\u0132".encode()]      # code points whose low byte is an ASCII digit
        big += [b"~1", b"1~12", b"0~0", b"~01"]                                    # escapes where an index is expected: the reason quotes the token as written
        for tok in [b"256", b"299", b"999", b"18446744073709551616"] + big:
            if rng.random() < 0.5 or tok in big:
                q = list(parts); q[pi] = "x" + (pb[:pb.rfind(b"/")] + b"/" + tok if b"/" in pb else b"/" + tok).hex(); out.append(" ".join(q))
        # IEEE signed zero: `0.0 == -0.0`, so an implementation that compares before it replaces keeps the old one
        if vi is not None and vi < len(parts) and "#t" in parts[di]:
            q = list(parts)
            q[di] = re.sub(r"#t(?=[,\]}]|$)", PZERO, q[di]); q[vi] = NZERO
            out.append(" ".join(q))
            q = list(parts)
            q[di] = re.sub(r"#t(?=[,\]}]|$)", NZERO, q[di]); q[vi] = "[" + PZERO + "]" if rng.random() < 0.3 else PZERO
            out.append(" ".join(q))
        # toml floats may be `nan` (which is not `==` to itself): a contract check written with `assert_eq!` on the removed value fires there
        if backend == "toml" and op == "delete" and "#t" in parts[di]:
            for nanbits in ("#d7ff8000000000000", "#dfff8000000000001", "#d7ff0000000000000"):
                q = list(parts); q[di] = re.sub(r"#t(?=[,\]}]|$)", nanbits, q[di]); out.append(" ".join(q))
            q = list(parts); q[di] = "[" + parts[di] + ",#d7ff8000000000000]"; q[pi] = "x" + (b"/0" + pb).hex(); out.append(" ".join(q))
        # a value that is the TEXT of the typed scalar it replaces (toml date-time vs the string that spells it)
        if backend == "toml" and vi is not None and vi < len(parts) and "#t" in parts[di] and prop != "C09":
            q = list(parts)
            q[di] = re.sub(r"#t(?=[,\]}]|$)", DATE, q[di]); q[vi] = "#s" + b"1979-05-27T07:32:00Z".hex()
            out.append(" ".join(q))
            q = list(parts)
            q[di] = re.sub(r"#t(?=[,\]}]|$)", DATE, q[di]); q[vi] = "#s" + b"2002-02-02".hex()
            out.append(" ".join(q))
        # unusual scalar kinds where a boolean stood (C09 keeps to the common domain: floats only)
        if "#t" in line:
            if prop == "C09":
                # the common JSON/TOML domain (floats), plus — for the resolve/resolve_mut relation on toml alone — datetimes
                kinds = [FLOAT] + ([DATE] if backend == "toml" and op in ("resolve", "resolve_mut", "write") else [])
            else:
                kinds = [FLOAT, BIGU] if backend == "json" else [FLOAT, DATE]
            for k in kinds:
                q = list(parts)
                q[di] = re.sub(r"#t(?=[,\]}]|$)", k, q[di])
                if vi is not None and vi < len(q): q[vi] = re.sub(r"#t(?=[,\]}]|$)", k, q[vi])
                out.append(" ".join(q))
    elif op == "tree_hist" and len(parts) >= 3:
        backend, doc, steps = parts[1], parts[2], parts[3:]
        hist_kinds = ["deep_obj", "wide_arr", "long_key", "edge_key", "esc_keys"] + (["wider_arr"] if rng.random() < 0.2 else [])
        # three-digit indices (above 255) in one step of the history itself
        if steps:
            j = rng.randrange(len(steps)); f = steps[j].split("@")
            if len(f) >= 2 and f[1].startswith("x"):
                pb = bytes.fromhex(f[1][1:]); tok = rng.choice([b"256", b"299", b"999", b"~1", b"0~0", b"1~12"])
                f[1] = "x" + ((pb[:pb.rfind(b"/")] if b"/" in pb else b"") + b"/" + tok).hex()
                out.append(" ".join([op, backend, doc] + steps[:j] + ["@".join(f)] + steps[j + 1:]))
        for kind in hist_kinds:
            d2, pre = _wrap(doc, "", kind, rng)
            pre = bytes.fromhex(pre)
            new_steps, ok = [], True
            for st in steps:
                f = st.split("@")
                if len(f) < 2 or not f[1].startswith("x"): ok = False; break
                f[1] = "x" + (pre + bytes.fromhex(f[1][1:])).hex()
                new_steps.append("@".join(f))
            if ok: out.append(" ".join([op, backend, d2] + new_steps))
    return out

def same_length_families(lines, rng, n_templates=60):
    """pointers of exactly the same byte length (256, 320) but different token structure, emitted back to back
    (twice, in two orders) for the same operation: what a cache keyed by (address, length) gets wrong when the
    allocator hands the same buffer out again"""
    out = []
    cand = [l for l in lines if l.split(" ", 1)[0] in PTR_ARGS and l.split(" ", 1)[0] not in ("buf_hist",)]
    if not cand: return out
    for l in rng.sample(cand, min(n_templates, len(cand))):
        parts = l.split(" "); idxs = PTR_ARGS[parts[0]]
        for L in (256, 320):
            fam = []
            for ntok in (1, 2, 3, 5, 64, L):
                if ntok == L: fam.append(b"/" * L); continue
                base = (L - ntok) // ntok; rem = (L - ntok) - base * ntok
                toks = [b"a" * (base + (1 if i < rem else 0)) for i in range(ntok)]
                fam.append(b"".join(b"/" + t for t in toks))
            order = fam + fam[::-1] + fam
            for f in order:
                q = list(parts)
                for i in idxs:
                    if i < len(q): q[i] = _hex(f)
                if parts[0] == "get" and len(q) > 2:
                    q[2] = rng.choice(["rt@1", "rf@1", "r@0@2", "rt@2", "rti@0", "ri@0@1"])
                out.append(" ".join(q))
    return out

def from_tokens_variants(line, rng):
    parts = line.split(" ")
    toks = [_unhex(a) for a in parts[1:]]
    out = []
    if not toks or any(t is None for t in toks) or sum(len(t) for t in toks) > 40: return out
    for k in rng.sample(KS + KS_LONG, 6):
        pad = b"a" * k
        j = rng.randrange(len(toks)); t = toks[j]
        for v in (pad + t, t + pad, t[:_boundary(t, 1)] + pad + t[_boundary(t, 1):] if len(t) >= 2 else None):
            if v is not None:
                q = list(toks); q[j] = v
                out.append("from_tokens " + " ".join(_hex(x) for x in q))
    out.append("from_tokens " + " ".join(_hex(x) for x in (toks * 30)[:140]))       # many tokens
    return out

def parse_memo_families(lines, rng):
    """a long string that parses, immediately followed by near-identical strings that must not (same length and
    — through allocator reuse — plausibly the same address; or sharing a >= 64-byte prefix): what a
    'recently validated' memo gets wrong"""
    out = []
    ops = sorted(set(l.split(" ", 1)[0] for l in lines) & {"parse", "deser", "zc_parse"})
    for op in ops:
        for L in (64, 65, 128, 256, 257, 320):
            good = b"/" + b"a" * (L - 1)
            g2 = b"/" + (b"ab/" * L)[:L - 1]
            for g in (good, g2):
                bads = [g[:-1] + b"~", b"x" + g[1:], g[:L // 2] + b"~" + g[L // 2 + 1:], g + b"~", g[:70] + b"~" + g[70:] if L > 72 else g + b"~x"]
                for b in bads:
                    out.append(f"{op} {_hex(g)}"); out.append(f"{op} {_hex(b)}")
    return out

def ascii_sweep(lines):
    """every ASCII byte in front of, behind and just inside a few base strings, for the operations that take a string: a character
    that is given a meaning it does not have (`#` as a URI-fragment marker, `%`, `\\`, a space to trim, NUL) is outside every alphabet"""
    ops = {l.split(" ", 1)[0] for l in lines}
    out = []
    bases = [b"", b"/", b"/a", b"/~", b"/~0", b"/a/~", b"a", b"~", b"/a~x/b", b"0", b"-"]
    for op in sorted(ops & (set(STR_OPS) | {"index_str"})):
        for b in bases:
            for c in range(128):
                ch = bytes([c])
                for v in (ch + b, b + ch, b[:1] + ch + b[1:], ch + ch + b):
                    out.append(f"{op} {_hex(v)}")
    return sorted(set(out))

NOTABLE = ["\ufeff", "\u200b", "\u00a0", "\u2028", "\u0085", "\u1680", "\u3000", "\u200e", "\u200f", "\u0301", "\ufffd", "\ufdd0", "\ufdef", "\ufffe", "\uffff",
           "\ue000", "\uf8ff", "\ud7ff", "\U00010000", "\U0001fffe", "\U0010ffff", "\U000e0001", "\u2044", "\u2215", "\uff0f", "\uff5e", "\u02dc", "\u0338"]
def unicode_sweep(lines):
    """code points that text-handling code singles out or borrows as sentinels (BOM, zero-width and exotic spaces, line separators, combining
    marks, noncharacters such as U+FDD0 / U+FFFE, private use, the last scalar values, look-alikes of `/` and `~`), in front of, behind and inside
    a few base strings, for the operations that take a string"""
    ops = {l.split(" ", 1)[0] for l in lines}
    out = []
    bases = [b"", b"/", b"/a", b"/~0", b"/~1x", b"~", b"a/b", b"/a~", b"a~0", b"0", b"/a/b~0c"]
    for op in sorted(ops & (set(STR_OPS) | {"index_str"})):
        for b in bases:
            for ch in NOTABLE:
                c = ch.encode("utf-8")
                for v in (c + b, b + c, b[:1] + c + b[1:], b[:2] + c + b[2:]):
                    out.append(f"{op} {_hex(v)}")
    return sorted(set(out))

def token_count_sweep(lines, rng):
    """pointers with EXACTLY c tokens for every c within 2 of a power of two up to 512 and of every mined number (inline tables,
    depth caps, `zip` against a fixed array: off by one at exactly one count), for the operations that take a pointer; the
    harness's own laws (`law_join` over every cut, `law_list`, …) then look at every position of each"""
    ops = {l.split(" ", 1)[0] for l in lines}
    base = [8, 16, 32, 64, 128, 256, 512] + [k for k in MINED_LENS if 4 <= k <= 2048]
    counts = sorted({c for n in base for c in (n - 2, n - 1, n, n + 1, n + 2) if c > 0})
    out = []
    for c in counts:
        shapes = [b"/a" * c, b"/" * c] + ([b"".join(b"/" + rng.choice([b"a", b"~0", b"", b"bc", b"~1"]) for _ in range(c))] if c <= 520 else [])
        for sh in shapes:
            h = _hex(sh)
            if "get" in ops:
                for r in (f"rt@{c}", f"rf@{c - 1}", f"ri@0@{c - 1}", f"r@1@{c}", f"tok@{c - 1}", f"rti@{c - 1}", f"bb@ex:0@in:{c - 1}"):
                    out.append(f"get {h} {r}")
            for op in ("ptr_view", "split_back", "parent", "split_front"):
                if op in ops: out.append(f"{op} {h}")
            if "split_at" in ops: out.append(f"split_at {h} {len(sh) - len(sh.rsplit(b'/', 1)[-1]) - 1}")
            if "rel" in ops:
                out.append(f"rel {h} {_hex(sh[:max(0, sh.rfind(b'/', 0, len(sh) // 2 + 1))])}"); out.append(f"rel {h} {h}")
    return out

MINED_LENS = []      # lengths mined from changed source lines (tools/mine.py), set per run by augment()

def use_mined(mined):
    """numbers mined from changed source become pad sizes / key lengths / string lengths (±2); mined byte, char and string
    literals join the word-scale alphabets"""
    global KS, KS_LONG
    for n in mined.get("nums", []):
        if 2 <= n <= 4096:
            for k in (n - 2, n - 1, n, n + 1, n + 2, 2 * n - 1, 2 * n, 2 * n + 1):
                if k >= 1 and k not in MINED_LENS: MINED_LENS.append(k)
    for k in MINED_LENS:
        if k <= 70 and k not in KS: KS.append(k)
        elif 70 < k <= 600 and k not in KS_LONG: KS_LONG.append(k)
    for b in mined.get("strs", []):
        if b not in WORD_ALPHA: WORD_ALPHA.extend([b, b])
        enc = b.replace(b"~", b"~0").replace(b"/", b"~1")
        if enc not in PTR_ALPHA: PTR_ALPHA.extend([enc, enc])

def augment(prop, lines, seed, budget=40000, mined=None):
    """extra lines derived from a deterministic sample of `lines`"""
    if mined: use_mined(mined)
    rng = random.Random(seed * 1000003 + int(prop[1:]))
    tree = [l for l in lines if l.split(" ", 1)[0] in TREE_OPS or l.startswith("tree_hist ")]
    if tree:
        seen, out = set(lines), []
        # stack use must not grow with the pointer: one pointer of 60 000 tokens against documents that exist only along it
        for b in ("json", "toml"):
            out.append(f"deep {b} 60000"); out.append(f"deep {b} {rng.choice([1, 2, 3, 17])}")
        for l in rng.sample(tree, min(len(tree), max(1, budget // 8))):
            if len(l) > 600: continue
            for v in tree_variants(l, rng, prop):
                if v not in seen:
                    seen.add(v); out.append(v)
            if len(out) >= budget: break
        return out
    cand = [l for l in lines if l.split(" ", 1)[0] in STR_OPS or l.split(" ", 1)[0] in PTR_ARGS]
    if not cand and not any(l.startswith(("index_str", "from_tokens")) for l in lines): return []
    # short lines first (the exhaustive scopes), then a random sample
    short = sorted(set(l for l in cand if len(l) <= 24), key=lambda l: (len(l), l))[:1200]
    rest = rng.sample(cand, min(1800, len(cand))) if cand else []
    seen, out = set(lines), []
    out.extend(same_length_families(lines, rng))     # repeats are the point here: no de-duplication
    out.extend(parse_memo_families(lines, rng))
    for l in [x for x in lines if x.startswith("from_tokens ")][:1500]:
        for v in from_tokens_variants(l, rng):
            if v not in seen: seen.add(v); out.append(v)
    # short mutator histories on a start pointer whose tokens are all long (a representation that switches strategy
    # on the amount of text left — lazy front offsets, inline buffers — is only exercised by long remainders)
    for l in lines:
        if l.startswith("buf_hist ") and l.count(" ") <= 5:
            q = l.split(" ")
            p0 = _unhex(q[1])
            if p0 is None or not (0 < len(p0) <= 24): continue
            k = rng.choice([31, 63, 64, 65, 70, 130] + [m for m in MINED_LENS if m <= 300])
            q[1] = _hex(b"".join(b"/" + t + b"a" * k for t in p0.split(b"/")[1:]))
            v = " ".join(q)
            if v not in seen: seen.add(v); out.append(v)
    # … and two pointers sharing 100 000 leading tokens (prefix / suffix / intersection walk them together)
    if any(l.startswith("rel ") for l in lines):
        a = b"/a" * 100000
        out.append(f"rel {_hex(a + b'/l')} {_hex(a + b'/r')}")
        out.append(f"rel {_hex(a + b'/l')} {_hex(a)}")
    # recursion instead of iteration: a pointer of several hundred thousand empty tokens, sliced near its end
    if any(l.startswith("get ") for l in lines):
        n = 300000
        big = _hex(b"/" * n)
        for r in (f"rf@{n - 1}", f"bb@in:{n - 1}@un", f"rt@{n - 1}", f"r@{n - 2}@{n}", f"tok@{n - 1}"):
            out.append(f"get {big} {r}")
    out.extend(token_count_sweep(lines, rng))
    out.extend(ascii_sweep(lines))
    out.extend(unicode_sweep(lines))
    # past 2^16 bytes / characters: run-time width and precision arguments of `format_args!` must fit in `u16`, offsets kept in 16 bits wrap
    for op in sorted({l.split(" ", 1)[0] for l in lines} & set(STR_OPS)):
        for n in (65534, 65535, 65536, 65537, 70000):
            body = b"a" * n
            for v in (b"/" + body + b"~x", b"/" + body + b"/~", b"/" + body, b"/x/" + body + b"~", "é".encode() * (n // 2) + b"~"):
                out.append(f"{op} {_hex(v)}")
    if any(l.startswith("get ") for l in lines):
        # the far end of the index type in every range form (an `i + 1` on the index overflows only there)
        M = 2 ** 64 - 1
        for ph in ("x", "x2f", "x2f61", "x2f612f7e30"):
            for r in (f"tok@{M}", f"tok@{M - 1}", f"rf@{M}", f"rt@{M}", f"ri@0@{M}", f"ri@{M}@{M}", f"r@{M}@{M}", f"r@0@{M}", f"rti@{M}",
                      f"bb@in:{M}@un", f"bb@ex:{M}@un", f"bb@un@in:{M}", f"bb@un@ex:{M}", f"bb@ex:{M - 1}@in:{M}"):
                out.append(f"get {ph} {r}")
    for v in wordscale(prop, lines, rng, budget // 3):
        if v not in seen:
            seen.add(v); out.append(v)
    for l in short + rest:
        for v in variants(l, rng):
            if v not in seen:
                seen.add(v); out.append(v)
                if len(out) >= budget: return out
    return out
