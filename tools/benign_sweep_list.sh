#!/bin/bash
# tools/benign_sweep_list.sh NAME... — like benign_sweep.sh, for the named patches under benign/ in the given order
cd "$(dirname "$0")/.." || exit 2
mkdir -p work/rwlog
for n in "$@"; do
  f=benign/$n.diff
  [ -f "$f" ] || continue
  python3 tools/selftest.py "$f" C01 C02 C03 C04 C05 C06 C07 C08 C09 C10 C11 C12 C13 C14 C15 C16 C17 C18 C19 C20 > "work/rwlog/$n.txt" 2>&1
  s=$(grep -c "rc=0 silent" "work/rwlog/$n.txt"); v=$(grep -c "^C[0-9][0-9] rc=[1-9]" "work/rwlog/$n.txt")
  echo "done $n: silent-lines=$s alarm-lines=$v $(grep "^C[0-9][0-9] rc=[1-9]" "work/rwlog/$n.txt" | cut -c1-120 | tr '\n' ';')"
done
