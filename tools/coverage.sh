#!/bin/bash
# tools/coverage.sh — which lines of /repo/src do the correspondence inputs of all checks actually execute?
# Builds a coverage-instrumented jpserve (nightly, -C instrument-coverage) in a scratch directory, feeds it the
# exact operation lines of a quick run of C01…C19 (VERIF_DUMP_OPS), prints llvm-cov's per-file summary and the
# never-executed source lines, and removes the scratch directory. Not part of any registered check.
set -e
VERIF="$(cd "$(dirname "$0")/.." && pwd)"
W=$(mktemp -d /tmp/covwork.XXXXXX)
trap 'rm -rf "$W"' EXIT
B=$(dirname "$(rustup which --toolchain nightly rustc)")/../lib/rustlib/x86_64-unknown-linux-gnu/bin
cd "$W"   # build scripts of instrumented dependencies drop *.profraw into their cwd; keep that away from /repo
for p in C01 C02 C03 C04 C05 C06 C07 C08 C09 C10 C11 C12 C13 C14 C15 C16 C17 C18 C19; do
  VERIF_DUMP_OPS="$W/ops" "$VERIF/check" $p --skip-proof > "$W/$p.log" 2>&1 || { echo "$p: check failed"; tail -3 "$W/$p.log"; }
done
( cd "$VERIF" && git checkout -q evidence )   # --skip-proof evidence must not stay
( cd "$VERIF/harness" && LLVM_PROFILE_FILE="$W/build-%p.profraw" CARGO_NET_OFFLINE=true RUSTFLAGS="-C instrument-coverage" \
    cargo +nightly build --profile checked --offline --target-dir "$W/target" --bin jpserve >/dev/null 2>&1 )
mkdir prof
ls ops/*.ops | xargs -P 16 -I{} sh -c 'LLVM_PROFILE_FILE='"$W"'/prof/$(basename {}).profraw '"$W"'/target/checked/jpserve < {} > /dev/null 2>&1'
"$B/llvm-profdata" merge -sparse prof/*.profraw -o all.profdata
"$B/llvm-cov" report target/checked/jpserve -instr-profile=all.profdata --ignore-filename-regex='(registry|rustc|harness|rustup)' 2>/dev/null \
  | awk '$1 !~ /^(-|Filename)/ {printf "%-40s lines=%s missed=%s %s  functions=%s missed=%s\n", $1, $8, $9, $10, $5, $6}'
"$B/llvm-cov" show target/checked/jpserve -instr-profile=all.profdata --ignore-filename-regex='(registry|rustc|harness|rustup)' 2>/dev/null > show.txt
python3 - "$W/show.txt" <<'PY'
import re, sys
cur = None; last = None
for l in open(sys.argv[1]):
    m = re.match(r'^(/repo/src/\S+):$', l.strip())
    if m: cur = m.group(1); continue
    m = re.match(r'^\s*(\d+)\|\s*([0-9.kMG]*)\|(.*)$', l.rstrip('\n'))
    if m and cur and m.group(2) == '0':
        ln = int(m.group(1))
        if not (last and last[0] == cur and ln - last[1] <= 1): print('---', cur)
        print(f"{ln:5} {m.group(3)}")
        last = (cur, ln)
PY
find /root/.cargo/registry/src /repo -name '*.profraw' -delete 2>/dev/null || true
