#!/bin/sh
# tools/confirm_mutant.sh WORKTREE X   — confirm a sub-agent change in its scratch worktree:
# applies MUTANTS/X.diff to the pristine worktree, runs the unedited suite and the demo (must fail),
# reverts, runs the demo again (must pass). Prints a summary line. Uses a shared target dir.
WT="$1"; X="$2"; MD="${3:-MUTANTS}"
export CARGO_NET_OFFLINE=true CARGO_TARGET_DIR=/tmp/mut-target
cd "$WT" || exit 2
git checkout -q -- . ; git clean -fdq tests 2>/dev/null
git apply "$MD/$X.diff" || { echo "RESULT $WT $X patch-does-not-apply"; exit 1; }
cargo build --offline --features toml,miette >/dev/null 2>&1 || { echo "RESULT $WT $X does-not-build"; git checkout -q -- .; exit 1; }
SUITE=$(cargo test --workspace --no-fail-fast --offline 2>&1 | grep -E "^test result" | tr '\n' ' ')
mkdir -p tests; cp "$MD/demo_$X.rs" tests/demo_mut.rs
WITH=$(cargo test --offline --features toml,miette --test demo_mut 2>&1 | grep -E "^test result|error(\[|:)" | head -2 | tr '\n' ' ')
git checkout -q -- src Cargo.toml
WITHOUT=$(cargo test --offline --features toml,miette --test demo_mut 2>&1 | grep -E "^test result|error(\[|:)" | head -2 | tr '\n' ' ')
rm -f tests/demo_mut.rs; rmdir tests 2>/dev/null; git checkout -q -- . ; git clean -fdq tests 2>/dev/null
echo "RESULT $WT $X"
echo "  suite-with-change: $SUITE"
echo "  demo-with-change:  $WITH"
echo "  demo-without:      $WITHOUT"
