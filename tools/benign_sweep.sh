#!/bin/bash
# tools/benign_sweep.sh — every check must stay silent on every behaviour-preserving rewrite under benign/.
# Patches /repo one rewrite at a time through tools/selftest.py (which always reverts); run nothing else meanwhile.
cd "$(dirname "$0")/.." || exit 2
mkdir -p work/rwlog
bad=0
for f in benign/*.diff; do
  n=$(basename "$f" .diff)
  python3 tools/selftest.py "$f" C01 C02 C03 C04 C05 C06 C07 C08 C09 C10 C11 C12 C13 C14 C15 C16 C17 C18 C19 C20 > "work/rwlog/$n.txt" 2>&1
  s=$(grep -c "rc=0 silent" "work/rwlog/$n.txt"); v=$(grep -c "^C[0-9][0-9] rc=[1-9]" "work/rwlog/$n.txt")
  echo "done $n: silent-lines=$s alarm-lines=$v"
  [ "$v" -ne 0 ] && bad=1
done
git -C /repo status --short | grep -q . && { echo "/repo not clean"; exit 2; }
exit $bad
