#!/usr/bin/env python3
"""
tools/tie.py — the translator tie of DESIGN §16, as one step of ./check.

  run(prop, repo, lean_dir, log) -> dict(functions={id: {...status...}}, escalate=bool, all_proved=bool)

For the functions property `prop` is anchored in: regenerate lean/Jp/Gen/Rs/<id>.lean from the current source
(tools/rs2lean.py), build the tie modules Jp.Tie.<id> and the transported property theorems, audit their axioms.
Status per function: `proved` | `untranslatable: <why>` | `tie-broken: <first error>`.
Anything but `proved` is not an alarm: it escalates the correspondence budget (the caller does that).
"""
import os, re, json, subprocess, sys
sys.path.insert(0, os.path.dirname(os.path.abspath(__file__)))
import rs2lean

SLICE = ['GetRange', 'GetRangeFrom', 'GetRangeTo', 'GetRangeFull', 'GetRangeIncl', 'GetRangeToIncl', 'GetBounds']
TOKEN = ['FromEncoded', 'TokenNew', 'Decoded']
INDEX = ['ForLen', 'ForLenIncl', 'ForLenUnchecked', 'IndexFromStr', 'IndexTryFromTokenRef', 'IndexTryFromToken', 'TokenToIndex']
TOIDX = ['IndexFromStr', 'IndexTryFromTokenRef', 'TokenToIndex']
SPLITS = ['SplitFront', 'SplitAt', 'SplitBack', 'Parent']
RELS = ['IsRoot', 'SplitAt', 'StartsWith', 'StripPrefix', 'EndsWith', 'StripSuffix', 'Intersection']
ACCESS = ['IsRoot', 'Count', 'Back', 'Front']
POINTER = ['IsRoot', 'Count', 'Back', 'Front', 'SplitFront', 'SplitAt', 'SplitBack', 'Parent', 'StripSuffix', 'StripPrefix',
           'EndsWith', 'StartsWith', 'Intersection']
WALKS = ['ParseIndex', 'ResolveJson', 'ResolveMutJson', 'ResolveToml', 'ResolveMutToml']
DELETE = ['DeleteJson', 'DeleteToml', 'SplitBack']
EXPAND = ['ExpandJson', 'ExpandToml', 'SplitBack']
ASSIGN = [f + b for b in ('Json', 'Toml') for f in ('AssignScalar', 'AssignObject', 'AssignArray', 'AssignValue', 'Assign')] + ['SplitFront', 'IsRoot', 'ForLenIncl']
LABELS = [n + 'Err' + a for n in ('Resolve', 'Assign') for a in ('Position', 'Offset', 'Labels')]
PREDS_WALK = ['ResolveErrIsUnreachable', 'ResolveErrIsNotFound', 'ResolveErrIsOutOfBounds', 'ResolveErrIsFailedToParseIndex', 'AssignErrIsOutOfBounds', 'AssignErrIsFailedToParseIndex']
PREDS_PARSE = ['ParseErrIsNoLeadingSlash', 'ParseErrIsInvalidEncoding']
PARSEERR = ['ParseErrOffset', 'ParseErrPointerOffset', 'ParseErrSourceOffset', 'ParseErrCompleteOffset', 'ParseErrInvalidEncodingLen', 'ParseErrLabels']
CMP = [sp['id'] for sp in rs2lean.FUNCS if sp.get('cmpimpl')]
DOORS = ['Validate', 'PointerParse', 'PointerBufParse', 'BufTryFromString', 'BufTryFromStr', 'BufFromStr']
ITER = ['PointerTokens', 'TokensNext', 'ComponentsFrom', 'ComponentsNext']
DISPLAY = ['DisplayToken', 'DisplayPointer', 'DisplayPointerBuf', 'DisplayIndex']
SERDE = ['SerializePointer', 'SerializePointerBuf', 'DeserializePointerBuf', 'VisitBorrowedStr']
BUILD = ['GetUsize', 'First', 'Last', 'WithTrailingToken', 'WithLeadingToken', 'Concat']
BUF = ['FromTokens', 'PushFront', 'PushBack', 'PopBack', 'Append', 'Clear', 'PopFront', 'Replace']
def _u(*ls):
    out = []
    for l in ls:
        for x in l:
            if x not in out: out.append(x)
    return out
# which regenerated functions each property rests on, and the transported theorem modules
PROP_FUNCS = {
    'C01': _u(['ValidateBytes'], DOORS, TOKEN, SLICE, POINTER, BUF, BUILD),
    'C11': _u(BUF, ['IsRoot', 'Count']),
    'C02': _u(['ValidateBytes'], DOORS, ['DeserializePointerBuf', 'VisitBorrowedStr']), 'C14': _u(['ValidateBytes'], PARSEERR, DOORS, PREDS_PARSE),
    'C05': _u(WALKS, ['IndexFromStr', 'ForLen'], TOIDX), 'C09': _u(WALKS, DELETE, EXPAND, ASSIGN, ['IndexFromStr', 'ForLen'], TOIDX, ['DisplayToken']), 'C15': _u(WALKS, ASSIGN, LABELS, PREDS_WALK, ['IndexFromStr', 'ForLen'], TOIDX),
    'C08': _u(WALKS, DELETE, ['IndexFromStr', 'ForLen'], TOIDX), 'C10': _u(WALKS, DELETE, EXPAND, ASSIGN, ['IndexFromStr', 'ForLen'], TOIDX, ['DisplayToken']),
    'C06': _u(EXPAND, ASSIGN, ['IndexFromStr', 'ForLenIncl'], TOIDX, ['DisplayToken']), 'C07': _u(EXPAND, ASSIGN, ['IndexFromStr', 'ForLenIncl'], TOIDX, ['DisplayToken']),
    'C17': CMP, 'C18': _u(DISPLAY, SERDE, ['BufTryFromString', 'PointerParse', 'Validate', 'ValidateBytes']),
    'C03': _u(TOKEN, ['DisplayToken']), 'C04': _u(ACCESS, ['FromTokens'], BUILD, ['PushBack', 'PushFront', 'Append'], ITER), 'C12': _u(SLICE, SPLITS, ['GetUsize']), 'C13': _u(RELS, ['Append', 'Concat']), 'C16': _u(INDEX, ['DisplayIndex']),
    'C19': _u(TOKEN, SLICE, SPLITS, RELS, ACCESS),
}
TRANSPORT_MEMBERS = {'TransportValidate': ['ValidateBytes'], 'TransportToken': TOKEN, 'TransportSlice': SLICE, 'TransportIndex': INDEX,
                     'TransportPointer': POINTER, 'TransportResolve': WALKS, 'TransportBuf': BUF, 'TransportDelete': ['DeleteJson', 'DeleteToml'], 'TransportExpand': ['ExpandJson', 'ExpandToml'],
                     'TransportAssign': [x for x in ASSIGN if x.startswith('Assign')], 'TransportBuild': BUILD, 'TransportDoors': DOORS, 'TransportIter': ITER, 'TransportSerde': SERDE, 'TransportCmp': CMP, 'TransportLabels': LABELS, 'TransportParseErr': PARSEERR}
TIE_THEOREMS = {
    'ValidateBytes': ['Jp.Tie.validate_bytes_eq', 'Jp.Tie.validate_bytes_nil'], 'FromEncoded': ['Jp.Tie.from_encoded_eq'],
    'TokenNew': ['Jp.Tie.new_eq'], 'Decoded': ['Jp.Tie.decoded_eq'], 'ForLen': ['Jp.Tie.for_len_eq'],
    'ForLenIncl': ['Jp.Tie.for_len_incl_eq'], 'ForLenUnchecked': ['Jp.Tie.for_len_unchecked_eq'],
    'GetRange': ['Jp.Tie.range_eq'], 'GetRangeFrom': ['Jp.Tie.range_from_eq'], 'GetRangeTo': ['Jp.Tie.range_to_eq'],
    'GetRangeFull': ['Jp.Tie.range_full_eq'], 'GetRangeIncl': ['Jp.Tie.range_incl_eq'],
    'GetRangeToIncl': ['Jp.Tie.range_to_incl_eq'], 'GetBounds': ['Jp.Tie.bounds_eq'],
    'IsRoot': ['Jp.Tie.is_root_eq'], 'Count': ['Jp.Tie.count_eq'], 'Back': ['Jp.Tie.back_eq'], 'Front': ['Jp.Tie.front_eq'],
    'SplitFront': ['Jp.Tie.split_front_eq'], 'SplitAt': ['Jp.Tie.split_at_eq'], 'SplitBack': ['Jp.Tie.split_back_eq'],
    'Parent': ['Jp.Tie.parent_eq'], 'StripSuffix': ['Jp.Tie.strip_suffix_eq'], 'StripPrefix': ['Jp.Tie.strip_prefix_eq'],
    'EndsWith': ['Jp.Tie.ends_with_eq'], 'StartsWith': ['Jp.Tie.starts_with_eq'],
    'Intersection': ['Jp.Tie.intersection_eq', 'Jp.Tie.intersection_loop_eq'],
    'FromTokens': ['Jp.Tie.from_tokens_eq'], 'PushFront': ['Jp.Tie.push_front_eq'], 'PushBack': ['Jp.Tie.push_back_eq'],
    'PopBack': ['Jp.Tie.pop_back_eq'], 'Append': ['Jp.Tie.append_eq'], 'Clear': ['Jp.Tie.clear_eq'],
    'PopFront': ['Jp.Tie.pop_front_eq'], 'Replace': ['Jp.Tie.replace_eq'],
    'IndexFromStr': ['Jp.Tie.index_from_str_eq'],
    'IndexTryFromTokenRef': ['Jp.Tie.index_try_from_token_ref_eq'], 'IndexTryFromToken': ['Jp.Tie.index_try_from_token_eq'],
    'TokenToIndex': ['Jp.Tie.token_to_index_eq', 'Jp.Tie.token_index_doors_agree'],
    'ExpandJson': ['Jp.Tie.expand_json_eq'], 'ExpandToml': ['Jp.Tie.expand_toml_eq'],
    'DeleteJson': ['Jp.Tie.delete_json_eq'], 'DeleteToml': ['Jp.Tie.delete_toml_eq'],
    'AssignScalarJson': ['Jp.Tie.assign_scalar_json_eq'], 'AssignObjectJson': ['Jp.Tie.assign_object_json_eq'],
    'AssignArrayJson': ['Jp.Tie.assign_array_json_eq'], 'AssignValueJson': ['Jp.Tie.assign_value_json_eq', 'Jp.Tie.assign_value_json_loop'],
    'AssignJson': ['Jp.Tie.assign_json_eq'],
    'AssignScalarToml': ['Jp.Tie.assign_scalar_toml_eq'], 'AssignObjectToml': ['Jp.Tie.assign_object_toml_eq'],
    'AssignArrayToml': ['Jp.Tie.assign_array_toml_eq'], 'AssignValueToml': ['Jp.Tie.assign_value_toml_eq', 'Jp.Tie.assign_value_toml_loop'],
    'AssignToml': ['Jp.Tie.assign_toml_eq', 'Jp.Tie.assign_toml_eq_toml'],
    'ResolveErrPosition': ['Jp.Tie.resolve_err_position_eq'], 'ResolveErrOffset': ['Jp.Tie.resolve_err_offset_eq'], 'ResolveErrLabels': ['Jp.Tie.resolve_err_labels_eq'],
    'AssignErrPosition': ['Jp.Tie.assign_err_position_eq'], 'AssignErrOffset': ['Jp.Tie.assign_err_offset_eq'], 'AssignErrLabels': ['Jp.Tie.assign_err_labels_eq'],
    'ParseErrOffset': ['Jp.Tie.parse_err_offset_eq'], 'ParseErrPointerOffset': ['Jp.Tie.parse_err_pointer_offset_eq'],
    'ParseErrSourceOffset': ['Jp.Tie.parse_err_source_offset_eq'], 'ParseErrCompleteOffset': ['Jp.Tie.parse_err_complete_offset_eq'],
    'ParseErrInvalidEncodingLen': ['Jp.Tie.parse_err_invalid_encoding_len_eq'], 'ParseErrLabels': ['Jp.Tie.parse_err_labels_eq'],
    'GetUsize': ['Jp.Tie.get_usize_eq', 'Jp.Tie.get_usize_none'], 'First': ['Jp.Tie.first_eq'], 'Last': ['Jp.Tie.last_eq'],
    'WithTrailingToken': ['Jp.Tie.with_trailing_token_eq'], 'WithLeadingToken': ['Jp.Tie.with_leading_token_eq'], 'Concat': ['Jp.Tie.concat_eq'],
    'Validate': ['Jp.Tie.validate_eq'], 'PointerParse': ['Jp.Tie.pointer_parse_eq'], 'PointerBufParse': ['Jp.Tie.pointer_buf_parse_eq'],
    'BufTryFromString': ['Jp.Tie.buf_try_from_string_eq'], 'BufTryFromStr': ['Jp.Tie.buf_try_from_str_eq'], 'BufFromStr': ['Jp.Tie.buf_from_str_eq'],
    'PointerTokens': ['Jp.Tie.pointer_tokens_iter_eq'], 'TokensNext': ['Jp.Tie.tokens_next_eq'], 'ComponentsFrom': ['Jp.Tie.components_from_eq'],
    'ComponentsNext': ['Jp.Tie.components_next_eq'],
    'DisplayToken': ['Jp.Tie.display_token_eq'], 'DisplayPointer': ['Jp.Tie.display_pointer_eq'], 'DisplayPointerBuf': ['Jp.Tie.display_pointer_buf_eq'],
    'DisplayIndex': ['Jp.Tie.display_index_eq'],
    'SerializePointer': ['Jp.Tie.serialize_pointer_eq'], 'SerializePointerBuf': ['Jp.Tie.serialize_pointer_buf_eq'],
    'DeserializePointerBuf': ['Jp.Tie.deserialize_pointer_buf_eq'], 'VisitBorrowedStr': ['Jp.Tie.visit_borrowed_str_eq'],
    'ParseIndex': ['Jp.Tie.parse_index_eq'], 'ResolveJson': ['Jp.Tie.resolve_json_eq', 'Jp.Tie.resolve_json_loop'],
    'ResolveMutJson': ['Jp.Tie.resolve_mut_json_eq'], 'ResolveToml': ['Jp.Tie.resolve_toml_eq'], 'ResolveMutToml': ['Jp.Tie.resolve_mut_toml_eq'],
}
for _i in CMP: TIE_THEOREMS[_i] = [f'Jp.Tie.cmp_{_i}_eq']
for _i in PREDS_WALK + PREDS_PARSE: TIE_THEOREMS[_i] = ['Jp.Tie.' + _i[0].lower() + _i[1:] + '_iff']
TRANSPORT_THEOREMS = {
    'TransportSerde': ['gen_serde_roundtrip', 'gen_serde_refuses'],
    'TransportIter': ['gen_tokens_iter_eq', 'gen_components_iter_eq', 'gen_tokens_iter_fused'],
    'TransportDoors': ['gen_parse_eq_spec', 'gen_parse_ok_iff', 'gen_doors_agree', 'gen_parse_no_panic'],
    'TransportCmp': ['gen_eq_impls_are_text_eq', 'gen_ord_impls_are_lexCmp', 'gen_eq_iff_ord_eq'],
    'TransportValidate': ['gen_validate_ok_iff', 'gen_validate_no_panic', 'gen_no_leading_slash_iff'],
    'TransportToken': ['gen_from_encoded_ok_iff', 'gen_from_encoded_verbatim', 'gen_from_encoded_err_truthful',
                       'gen_from_encoded_no_panic', 'gen_new_encoded', 'gen_decoded_new', 'gen_decoded_eq_dec',
                       'gen_new_fresh_iff', 'gen_decoded_fresh_iff'],
    'TransportSlice': ['gen_bounds_spec', 'gen_range_spec', 'gen_no_panic', 'gen_excluded_max_none'],
    'TransportIndex': ['gen_for_len_exact', 'gen_for_len_incl_exact', 'gen_for_len_unchecked_exact', 'gen_from_str_eq_spec',
                       'gen_from_str_ok_iff', 'gen_from_str_no_panic', 'gen_display_from_str'],
    'TransportPointer': ['gen_starts_with_iff', 'gen_strip_prefix_iff', 'gen_strip_suffix_iff', 'gen_ends_with_iff',
                         'gen_intersection_lcp', 'gen_intersection_comm', 'gen_split_at_iff', 'gen_split_at_concat'],
    'TransportBuf': ['gen_buf_step_eq', 'gen_step_refines', 'gen_from_tokens_tokens', 'gen_append_tokens', 'gen_append_root',
                     'run_gen_buf_eq', 'gen_history_refines'],
    'TransportExpand': ['gen_expand_json_spec', 'gen_expand_backends_agree'],
    'TransportParseErr': ['gen_invalid_encoding_offsets', 'gen_label_inside', 'gen_label_starts_at_tilde'],
    'TransportBuild': ['gen_get_usize_list', 'gen_first_last', 'gen_with_trailing_tokens', 'gen_with_leading_tokens', 'gen_concat_tokens'],
    'TransportLabels': ['gen_resolve_err_locates', 'gen_resolve_err_locates_all', 'gen_assign_err_locates_labels', 'gen_label_covers_token'],
    'TransportAssign': ['gen_assign_eq_spec', 'gen_assign_root', 'gen_assign_no_panic', 'gen_assign_atomic', 'gen_assign_read_your_write',
                        'gen_assign_frame', 'gen_assign_replaced_some', 'gen_assign_replaced_none', 'gen_assign_idempotent',
                        'gen_assign_backends_agree', 'gen_assign_err_locates', 'gen_assign_error_offsets_bounded',
                        'genStep_eq_modelStep', 'gen_tree_history_refines', 'gen_tree_no_step_panics'],
    'TransportDelete': ['gen_delete_json', 'gen_delete_toml', 'gen_delete_some_iff_resolves', 'gen_delete_none_unchanged',
                        'gen_delete_no_panic', 'gen_delete_backends_agree'],
    'TransportResolve': ['gen_resolve_json', 'gen_resolve_mut_json', 'gen_resolve_toml', 'gen_resolve_mut_toml', 'gen_four_walks_agree',
                         'gen_resolve_eq_walk', 'gen_resolve_returns_node', 'gen_every_node_addressable', 'gen_resolve_no_panic'],
}
# theorems about the model that back a harness-only law and are built + audited with the same step
EXTRA = {'Jp.Props.Depth': (['C05', 'C06', 'C10'], ['Jp.Depth.expandSpec_zeros', 'Jp.Depth.assignSpec_zeros', 'Jp.Depth.walk_zeros',
                                                    'Jp.Depth.assign_zeros', 'Jp.Depth.resolve_zeros'])}
ALLOWED_AXIOMS = {'propext', 'Classical.choice', 'Quot.sound'}

def sh(cmd, cwd, timeout=1800):
    p = subprocess.run(cmd, cwd=cwd, capture_output=True, text=True, timeout=timeout)
    return p.returncode, p.stdout + p.stderr

def first_error(out, module):
    path = module.replace('.', '/') + '.lean'
    m = re.search(r"error: " + re.escape(path) + r":(\d+):\d+: ([^\n]*)", out)
    if m: return f"{path}:{m.group(1)}: {m.group(2)[:160]}"
    m = re.search(r"error: ([^\n]*)", out)
    return (m.group(1)[:200] if m else "build failed")

def run(prop, repo, lean_dir, log=lambda s: None):
    ids = PROP_FUNCS.get(prop)
    if not ids: return dict(functions={}, escalate=False, all_proved=True, applicable=False)
    st = rs2lean.run(repo, os.path.join(lean_dir, 'Jp', 'Gen', 'Rs'))          # all functions: cheap, and transports need siblings
    deps = {sp['id']: list(sp.get('imports', [])) for sp in rs2lean.FUNCS}
    res = {}
    for i in ids:
        s = st[i]
        res[i] = dict(rust=f"{s['file']}", lean='Jp.Gen.' + s['lean'], sha=s.get('sha'))
        if s['status'] != 'translated':
            res[i]['status'] = 'untranslatable: ' + s['why']
    todo = [i for i in ids if 'status' not in res[i]]
    # one lake invocation for everything that translated; failures are attributed per module afterwards
    if todo:
        mods = [f"Jp.Tie.{i}" for i in todo]
        rc, out = sh(['lake', 'build'] + mods, lean_dir)
        failed = set(re.findall(r"^- (Jp\.[A-Za-z0-9_.]+)$", out, re.M)) if rc != 0 else set()
        for i in todo:
            m = f"Jp.Tie.{i}"
            if rc == 0 or (m not in failed and f"Jp.Gen.Rs.{i}" not in failed and not (i == 'GetBounds' and failed)):
                res[i]['status'] = 'proved'
            else:
                # build that module alone to get its own first error
                rc1, out1 = sh(['lake', 'build', m], lean_dir)
                if rc1 == 0: res[i]['status'] = 'proved'
                else:
                    gen_broken = f"Jp.Gen.Rs.{i}" in set(re.findall(r"^- (Jp\.[A-Za-z0-9_.]+)$", out1, re.M))
                    res[i]['status'] = ('untranslatable: generated definition does not elaborate: ' if gen_broken else 'tie-broken: ') + \
                        first_error(out1, f"Jp.Gen.Rs.{i}" if gen_broken else m)
    proved = [i for i in ids if res[i].get('status') == 'proved']
    for i in ids:
        if res[i].get('status') != 'proved' and any(st[d]['status'] != 'translated' or res.get(d, {}).get('status', 'proved') != 'proved'
                                                    for d in deps.get(i, [])):
            res[i]['depends_broken'] = True      # it calls regenerated siblings; their change is the cause
    # axiom audit of the tie theorems + transported theorems (only for what built)
    audit_names = []
    for i in proved: audit_names += TIE_THEOREMS[i]
    tmods = [tm for tm, members in TRANSPORT_MEMBERS.items() if any(m in ids for m in members)]
    tbuilt = []
    for tm in tmods:
        if not all(st[m]['status'] == 'translated' and res.get(m, {}).get('status', 'proved') == 'proved' for m in TRANSPORT_MEMBERS[tm]): continue
        rc, out = sh(['lake', 'build', f"Jp.Tie.{tm}"], lean_dir)
        if rc == 0:
            tbuilt.append(tm); audit_names += ['Jp.Tie.' + n for n in TRANSPORT_THEOREMS[tm]]
        else:
            log(f"{prop}: transported theorems Jp.Tie.{tm} do not build: {first_error(out, 'Jp.Tie.' + tm)}")
    extra_built = []
    for mod, (props_, names) in EXTRA.items():
        if prop in props_:
            rc, out = sh(['lake', 'build', mod], lean_dir)
            if rc == 0: extra_built.append(mod); audit_names += names
            else: log(f"{prop}: {mod} does not build: {first_error(out, mod)}")
    axioms_ok = True; bad_ax = {}
    if audit_names:
        adir = os.path.join(lean_dir, '.audit'); os.makedirs(adir, exist_ok=True)
        f = os.path.join(adir, f"Tie_{prop}.lean")
        imports = [f"import Jp.Tie.{i}" for i in proved] + [f"import Jp.Tie.{t}" for t in tbuilt] + [f"import {m}" for m in extra_built]
        open(f, 'w').write('\n'.join(imports) + '\n' + '\n'.join(f"#print axioms {n}" for n in audit_names) + '\n')
        rc, out = sh(['lake', 'env', 'lean', f], lean_dir)
        cur = None
        for line in out.split('\n'):
            m = re.match(r"'([^']+)' depends on axioms: \[(.*)\]", line)
            m2 = re.match(r"'([^']+)' does not depend on any axioms", line)
            if m:
                ax = {a.strip() for a in m.group(2).split(',') if a.strip()}
                if not ax <= ALLOWED_AXIOMS: bad_ax[m.group(1)] = sorted(ax - ALLOWED_AXIOMS)
        if rc != 0 or bad_ax:
            axioms_ok = False
    out = dict(applicable=True, functions=res, transported_modules=tbuilt, extra_modules=extra_built,
               theorems_checked=len(audit_names), axioms_ok=axioms_ok, bad_axioms=bad_ax,
               all_proved=(len(proved) == len(ids)) and axioms_ok and len(tbuilt) == len(tmods),
               escalate=(len(proved) != len(ids)))
    return out

if __name__ == '__main__':
    V = os.path.dirname(os.path.dirname(os.path.abspath(__file__)))
    r = run(sys.argv[1], os.environ.get('VERIF_REPO', '/repo'), os.path.join(V, 'lean'), print)
    print(json.dumps(r, indent=1))
