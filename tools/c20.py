"""
tools/c20.py — the C20 check: (1) regenerate the feature-gate table from the working tree and let the
Lean kernel re-check `Jp.C20.all_subsets_build`; (2) correspondence: `cargo check --lib
--no-default-features --features <S>` on the working tree for ALL 2^n subsets of the declared features (256 on the pinned tree), compared with the
model's verdict per subset; (3) second half: the core operations (parse, token escaping, tokenisation,
slicing, prefix/suffix) through a harness built with all default features off (no_std + alloc) and
through the default build, on the same lines; a difference between the two builds is the violation
(the model's answer is recorded with it; agreement of both with the model is decided by C02…C16).
"""
import re, os, sys, json, time, subprocess, concurrent.futures, shutil

VERIF = os.path.dirname(os.path.dirname(os.path.abspath(__file__)))
REPO = os.environ.get("VERIF_REPO", "/repo")
HARNESS = os.path.join(VERIF, "harness")
CORE = os.path.join(VERIF, "harness-core")
LEAN = os.path.join(VERIF, "lean")
FEATS = ["std", "serde", "json", "toml", "assign", "resolve", "delete", "miette"]   # replaced in run() by what Cargo.toml declares now
ENV = dict(os.environ, CARGO_NET_OFFLINE="true")
WORKERS = 8

CORE_FIELDS = {
    "parse": ["d1", "co", "src"],
    "tok_new": ["enc", "dec"],
    "from_encoded": ["r"],
    "from_tokens": ["text", "toks", "encs", "count", "first", "last", "is_root", "len"],
    "ptr_view": ["text", "toks", "encs", "count", "first", "last", "is_root", "len", "rt"],
    "split_front": ["r"], "split_back": ["r"], "parent": ["r"], "split_at": ["r"], "get": ["r"],
    "rel": ["sw", "ew", "sp", "ss", "ix", "ixr", "cc"],
    "with": ["text"], "concat": ["text"], "index_str": ["r", "disp"], "tok_int": ["enc"],
}

MODEL_ONLY = [0]

def sh(cmd, cwd=None, timeout=None, env=None):
    p = subprocess.run(cmd, cwd=cwd, env=env or ENV, stdout=subprocess.PIPE, stderr=subprocess.STDOUT, text=True, timeout=timeout)
    return p.returncode, p.stdout

def cargo_check(mask, slot, release=False):
    feats = [f for i, f in enumerate(FEATS) if mask >> i & 1]
    cmd = ["cargo", "check", "--lib", "--offline", "--no-default-features", "--quiet"] + (["--release"] if release else []) + [
           "--manifest-path", os.path.join(REPO, "Cargo.toml"),
           "--target-dir", os.path.join(HARNESS, f"target-feat-{slot}")]
    if feats: cmd += ["--features", ",".join(feats)]
    rc, out = sh(cmd, timeout=1800)
    errs = [l for l in out.splitlines() if l.startswith("error")]
    return mask, rc == 0, errs[:3]

def sweep(masks, release=False):
    res = {}
    # one worker per target dir, masks striped so each dir sees related feature sets
    def work(slot):
        out = []
        for m in masks[slot::WORKERS]:
            out.append(cargo_check(m, slot, release))
        return out
    with concurrent.futures.ThreadPoolExecutor(max_workers=WORKERS) as ex:
        for lst in ex.map(work, range(WORKERS)):
            for m, ok, errs in lst: res[m] = (ok, errs)
    return res

def fields(line):
    d = {}
    for tok in line.split(" "):
        if "=" in tok:
            k, v = tok.split("=", 1); d[k] = v
    return d

def core_half(tier, seed, log, escalate=False):
    """returns (n_lines, problems[list of (line, field, core, default, model)], undecided_reason)"""
    rc, out = sh(["cargo", "build", "--profile", "checked", "--offline"], cwd=CORE, timeout=3600)
    if rc != 0: return 0, [], "harness-core does not build against the working tree (no-default-features):\n" + out[-1500:]
    rc, out = sh(["cargo", "build", "--profile", "checked", "--offline"], cwd=HARNESS, timeout=3600)
    if rc != 0: return 0, [], "harness does not build:\n" + out[-1500:]
    jpgen = os.path.join(HARNESS, "target", "checked", "jpgen")
    lines = []
    corpus = os.path.join(VERIF, "corpus", "C20.ops")
    if os.path.exists(corpus):
        lines += [l.rstrip("\n") for l in open(corpus) if l.strip() and not l.startswith("#")]
    if escalate: tier_b = "thorough"
    else: tier_b = tier
    limit = 6000 if tier_b == "quick" else 60000
    mined = None
    try:
        import mine as _mine
        mined = _mine.mine(REPO, VERIF)
        if mined and (mined["nums"] or mined["strs"]):
            log(f"C20: literals mined from changed source lines {mined['files']}: numbers {mined['nums'][:12]} — used as lengths by the augmentation")
    except Exception as ex:
        mined = None
    for prop in ("C02", "C03", "C04", "C12", "C13", "C16", "C18"):
        # the whole stream, thinned evenly: a head-limit would keep only the first (exhaustive) block of the first
        # operation and never reach e.g. `from_encoded`, `deser` or the random part
        rc, out = sh([jpgen, prop, tier, str(seed)])
        got = [l for l in out.split("\n") if l and l.split(" ", 1)[0] in CORE_FIELDS]
        per_op = {}
        for l in got: per_op.setdefault(l.split(" ", 1)[0], []).append(l)
        for o, ls in per_op.items():
            quota = max(1, limit // max(1, len(per_op)))
            stride = max(1, len(ls) // quota)
            lines += ls[::stride]
    try:
        from augment import augment
        # one augmentation pass per operation, each with its own share of the budget (a pooled pass spends the whole
        # budget on the operations that sort first)
        byop = {}
        for l in lines:
            o = l.split(" ", 1)[0]
            if o in CORE_FIELDS: byop.setdefault(o, []).append(l)
        total = 8000 if tier_b == "quick" else 90000
        share = max(600, total // max(1, len(byop)))
        for j, (o, sub) in enumerate(sorted(byop.items())):
            extra = [l for l in augment("C%02d" % (2 + j % 15), sub[:8000], seed, budget=share, mined=mined if j == 0 else None) if l.split(" ", 1)[0] in CORE_FIELDS]
            lines += extra
    except Exception as e:
        log(f"C20: augmentation skipped ({e})")
    def run(binary):
        p = subprocess.run([binary], input="\n".join(lines) + "\n", stdout=subprocess.PIPE, stderr=subprocess.DEVNULL, text=True)
        o = p.stdout.split("\n")
        if o and o[-1] == "": o.pop()
        return o
    core = run(os.path.join(CORE, "target", "checked", "jpcore"))
    full = run(os.path.join(HARNESS, "target", "checked", "jpserve"))
    model = run(os.path.join(LEAN, ".lake", "build", "bin", "jpdriver"))
    if not (len(core) == len(full) == len(model) == len(lines)):
        return len(lines), [], f"server output lengths differ core={len(core)} default={len(full)} model={len(model)} lines={len(lines)}"
    probs = []
    for l, c, f, m in zip(lines, core, full, model):
        op = l.split(" ", 1)[0]
        fc, ff, fm = fields(c), fields(f), fields(m)
        if "bad_op" in fc or "bad_op" in ff or "bad_op" in fm:
            continue          # a malformed line is a defect of the generator, never a violation
        for k in CORE_FIELDS[op]:
            if fc.get(k) != ff.get(k):
                # C20 states that the core behaves the SAME without std: a difference between the two builds of
                # the real crate is the violation
                probs.append((l, k, fc.get(k), ff.get(k), fm.get(k)))
            elif fc.get(k) != fm.get(k):
                # both builds agree with each other but not with the model: the tie of these operations to the
                # model is the business of C02/C03/C04/C12/C13/C16 (which compare up to what their statements
                # leave open), not of C20
                MODEL_ONLY[0] += 1
    return len(lines), probs, None

def run(tier, seed, replay, proof_phase, write_replay, log):
    t0 = time.time()
    prop = "C20"
    violations = []
    sys.path.insert(0, os.path.join(VERIF, "tools"))
    import featgen
    T = featgen.build_table(REPO)
    FEATS[:] = T["featnames"]
    nsub = 2 ** len(FEATS)
    if FEATS != featgen.KNOWN_FEATS:
        log(f"C20: Cargo.toml now declares the features {FEATS} ({nsub} subsets)")
    if replay:
        rp = json.load(open(replay))
        if rp.get("features") is not None and "mask" in rp:
            masks = [sum(1 << FEATS.index(f) for f in rp["features"] if f in FEATS)]
        else:
            masks = [rp["mask"]] if "mask" in rp else list(range(nsub))
    else:
        masks = list(range(nsub))
    log("C20: regenerate Jp/Gen/Features.lean from the working tree; lake build Jp.Props.C20")
    proof = proof_phase(prop, tier) if not replay else dict(obligations=0, discharged=0, failures=[], axioms={}, checker_cmd="")
    model = {m: featgen.verdict(T, m) for m in range(nsub)}
    model_bad = {m: v[1] for m, v in model.items() if v[1]}
    log(f"C20: table rows={len(T['table'])}; model says {len(model_bad)} subsets have an unsatisfied reference; proof failures={len(proof['failures'])}")
    log(f"C20: cargo check over {len(masks)} feature subsets ({WORKERS} workers)")
    res = sweep(masks)
    cargo_bad = {m: r[1] for m, r in res.items() if not r[0]}
    disagreements = [m for m in masks if (m in cargo_bad) != (m in model_bad)]
    n = 0
    for m in sorted(cargo_bad)[:3]:
        n += 1
        feats = [f for i, f in enumerate(FEATS) if m >> i & 1]
        path = write_replay(prop, seed, n, dict(property=prop, kind="feature subset does not compile (cargo check on the real crate)",
            mask=m, features=feats, cargo_errors=cargo_bad[m], model_unsatisfied=[list(b) for b in model_bad.get(m, [])],
            replay_cmd=f"cd /repo && cargo check --lib --offline --no-default-features --features '{','.join(feats)}'"))
        violations.append((path, ""))
    # "every subset compiles" is not a statement about the dev profile only: code under `cfg(debug_assertions)` (or the absence of it —
    # `debug_assert!` still type-checks its argument when assertions are off) is selected by the profile. The release profile is
    # checked on the empty set, every single feature, every pair, and the full set (quick), on every subset (thorough).
    full = (1 << len(FEATS)) - 1
    if tier == "thorough": rmasks = list(masks)
    else:
        rmasks = sorted({0, full} | {1 << i for i in range(len(FEATS))} | {(1 << i) | (1 << j) for i in range(len(FEATS)) for j in range(i)} |
                        {full ^ (1 << i) for i in range(len(FEATS))})
    rmasks = [m for m in rmasks if m not in cargo_bad]
    log(f"C20: cargo check --release over {len(rmasks)} feature subsets")
    rres = sweep(rmasks, release=True)
    release_bad = {m: r[1] for m, r in rres.items() if not r[0]}
    for m in sorted(release_bad)[:3]:
        n += 1
        feats = [f for i, f in enumerate(FEATS) if m >> i & 1]
        path = write_replay(prop, seed, n, dict(property=prop, kind="feature subset does not compile in the release profile (cargo check --release on the real crate)",
            mask=m, features=feats, cargo_errors=release_bad[m],
            replay_cmd=f"cd /repo && cargo check --release --lib --offline --no-default-features --features '{','.join(feats)}'"))
        violations.append((path, ""))
    # "with all default features off (no_std + alloc only)": in the empty configuration no dependency may have its own
    # `std` feature switched on — a host `cargo check` cannot see that (std is always there on the host), the resolved feature
    # graph can. (With `json` on, serde_json's std is on in the pinned tree as well: only the empty set is stated.)
    rc_t, out_t = sh(["cargo", "tree", "--offline", "--no-default-features", "-e", "normal,features"], cwd=REPO, timeout=600)
    std_nodes = sorted(set(re.findall(r'(\w[\w-]*) feature "std"', out_t))) if rc_t == 0 else []
    if std_nodes:
        n += 1
        path = write_replay(prop, seed, 20 + n, dict(property=prop, kind="the no-default-features configuration is not no_std + alloc only",
            dependencies_with_std_enabled=std_nodes, cargo_tree=out_t[-1500:],
            replay_cmd="cd /repo && cargo tree --offline --no-default-features -e normal,features | grep 'feature \"std\"'"))
        violations.append((path, ""))
    # second half
    log("C20: core operations with all default features off vs default build vs model")
    # a std-selected region that is not an Error impl, or a failed obligation: the table no longer shows the two builds
    # equal — search much harder for a behavioural difference before falling back to no-failing-input-found
    esc = bool(proof["failures"]) or bool([x for x in T.get("stdgated", []) if x[2]])
    if esc: log("C20: proof obligation broken or behavioural std-gated region present: core comparison escalated to the thorough budget")
    nlines, probs, undecided = core_half(tier, seed, log, escalate=esc)
    if undecided and not violations:
        if "no-default-features" in undecided:
            path = write_replay(prop, seed, 9, dict(property=prop, kind="minimal configuration does not build", detail=undecided))
            violations.append((path, ""))
        else:
            log("C20: " + undecided + " — undecided"); return 2
    for pr in probs[:3]:
        n += 1
        path = write_replay(prop, seed, 10 + n, dict(property=prop, kind="core behaviour differs between the no-default-features build and the default build",
            line=pr[0], field=pr[1], no_default_features=pr[2], default=pr[3], model=pr[4],
            replay_cmd=f"printf '%s\\n' '{pr[0]}' | /verif/harness-core/target/checked/jpcore ; printf '%s\\n' '{pr[0]}' | /verif/harness/target/checked/jpserve"))
        violations.append((path, ""))
    std_behavioural = [x for x in T.get("stdgated", []) if x[2]]
    if not violations and (model_bad or proof["failures"]):
        # the theorem no longer checks but every subset compiles: the translator's abstraction (or the
        # table) no longer matches the code — not shown to hold
        m = sorted(model_bad)[0] if model_bad else None
        path = write_replay(prop, seed, 1, dict(property=prop, kind="proof obligation no longer checks",
            theorem="Jp.C20.all_subsets_build", mask=m, model_unsatisfied=[list(b) for b in model_bad.get(m, [])] if m is not None else [],
            proof_failures=proof["failures"], no_failing_input_found=True,
            std_gated_behavioural_regions=[list(x) for x in std_behavioural],
            note="cargo check accepts all subsets; the generated table has a live reference the model cannot satisfy, or a region selected by the `std` feature that is not an Error impl (theorem std_gates_are_behaviour_neutral); the core-operations comparison below searches for a behavioural difference"))
        violations.append((path, " no-failing-input-found"))
    wall = time.time() - t0
    if not replay:
        ev = dict(property_id=prop, tier=tier, seed=seed, level="proof",
            coverage=dict(
                obligations=proof["obligations"], discharged=proof["discharged"], checker_cmd=proof["checker_cmd"],
                trusted_base=["Lean 4.33.0 kernel (`decide +kernel` over the finite generated table)",
                    "axioms per theorem: " + json.dumps(proof["axioms"], sort_keys=True),
                    "translator tools/featgen.py (a comment/string/brace-aware scanner of #[cfg] regions and references: an abstraction of rustc's name resolution), validated by the exhaustive cargo check sweep",
                    "cargo/rustc themselves for the sweep"],
                evaluations=len(masks) + nlines, distinct_nontrivial=len(masks),
                rule=f"all {nsub} subsets of the {len(FEATS)} features Cargo.toml declares ({', '.join(FEATS)}; every subset distinct and non-trivial) + core operation lines through the no-default-features and the default build",
                samples=[dict(mask=m, features=[f for i, f in enumerate(FEATS) if m >> i & 1], cargo_ok=res[m][0], model_ok=m not in model_bad) for m in masks[:3] + masks[-2:]],
                exhaustive=True, programs=len(masks), disagreements_checked=len(disagreements),
                traces_validated_against_impl=len(masks),
                table_rows=len(T["table"]), feature_edges=T["fedges"], crate_edges=T["dedges"],
                std_gated_regions=len(T.get("stdgated", [])), std_gated_behavioural=[list(x) for x in std_behavioural],
                cargo_failing_subsets=len(cargo_bad), release_profile_subsets_checked=len(rmasks), release_profile_failing_subsets=len(release_bad), model_failing_subsets=len(model_bad),
                model_vs_cargo_disagreements=disagreements[:20],
                core_lines=nlines, core_disagreements=len(probs), core_fields_differing_from_model_only=MODEL_ONLY[0], proof_failures=proof["failures"],
                partial="rustc's name resolution is abstracted; the sweep over the finite configuration space closes the gap"),
            assumptions=["cfg atoms other than features (test, doc, docsrs) are false in a library build"],
            wall_s=round(wall, 2), violations=len(violations))
        os.makedirs(os.path.join(VERIF, "evidence"), exist_ok=True)
        json.dump(ev, open(os.path.join(VERIF, "evidence", "C20.json"), "w"), indent=1)
    for path, tail in violations:
        print(f"VIOLATION property=C20 replay={path}{tail}", flush=True)
    if violations: return 1
    log(f"C20: all {len(masks)} subsets compile, model agrees, {nlines} core lines agree across configurations; {wall:.1f}s")
    return 0
