#!/usr/bin/env python3
"""
tools/rsparse.py — lexer, function extractor and recursive-descent parser for the Rust subset that
tools/rs2lean.py translates.  Anything outside the subset raises Unsupported(<construct>).

AST (tuples):
 expr: ('num',n) ('byte',n) ('bstr',[n..]) ('char',c) ('str',s) ('bool',b) ('path',[seg..])
       ('call',f,[args]) ('mcall',recv,name,[args]) ('field',recv,name) ('index',recv,e)
       ('range',lo|None,hi|None,incl) ('bin',op,a,b) ('un',op,a) ('try',e) ('struct',[seg..],[(f,e)..])
       ('tuple',[e..]) ('closure',[param..],body) ('if',c,blk,else|None) ('iflet',pat,e,blk,else|None)
       ('match',e,[(pat,guard|None,body)..]) ('block',[stmt..],tail|None) ('return',e|None) ('break',) ('continue',)
       ('while',c,blk) ('for',pat,iter,blk)
 stmt: ('let',pat,mut,init) ('assign',lhs,op,rhs) ('expr',e)
 pat:  ('pwild',) ('pbind',name) ('plit',n) ('ppath',[seg..]) ('ptuple',[p..]) ('pctor',[seg..],[p..]) ('por',[p..]) ('pref',p)
"""
import re

class Unsupported(Exception):
    pass

TOK = re.compile(r"""
  (?P<ws>\s+|//[^\n]*|/\*.*?\*/)
 |(?P<bstr>b"(?:[^"\\]|\\.)*")
 |(?P<byte>b'(?:[^'\\]|\\.)')
 |(?P<str>"(?:[^"\\]|\\.)*")
 |(?P<char>'(?:[^'\\]|\\.)')
 |(?P<life>'[A-Za-z_][A-Za-z0-9_]*)
 |(?P<num>[0-9][0-9_]*(?:usize|u8|u32|u64|i32|i64)?)
 |(?P<id>[A-Za-z_][A-Za-z0-9_]*)
 |(?P<op>\.\.=|\.\.\.|::|->|=>|==|!=|<=|>=|&&|\|\||\+=|-=|\*=|/=|<<|>>|\.\.|[-+*/%^!&|=<>@.,;:#$?~\[\]{}()])
""", re.X | re.S)

LEANKW = {'end', 'at', 'from', 'then', 'fun', 'do', 'open', 'have', 'show', 'by', 'with', 'namespace', 'section', 'variable',
          'theorem', 'def', 'example', 'instance', 'structure', 'inductive', 'class', 'deriving', 'local', 'calc', 'macro', 'syntax', 'prefix', 'infix', 'notation'}

def unesc(body):
    out = []; i = 0
    while i < len(body):
        c = body[i]
        if c == '\\':
            n = body[i + 1]
            m = {'n': 10, 't': 9, 'r': 13, '0': 0, '\\': 92, "'": 39, '"': 34}
            if n in m: out.append(m[n]); i += 2
            elif n == 'x': out.append(int(body[i + 2:i + 4], 16)); i += 4
            else: raise Unsupported("escape \\" + n)
        else:
            out.extend(c.encode('utf-8')); i += 1
    return out

def lex(src):
    toks = []; pos = 0
    while pos < len(src):
        m = TOK.match(src, pos)
        if not m: raise Unsupported("lex at " + repr(src[pos:pos + 20]))
        pos = m.end(); k = m.lastgroup; v = m.group(k)
        if k == 'ws': continue
        if k == 'bstr': toks.append(('bstr', unesc(v[2:-1])))
        elif k == 'byte': toks.append(('byte', unesc(v[2:-1])[0]))
        elif k == 'str': toks.append(('str', v[1:-1]))
        elif k == 'char': toks.append(('char', bytes(unesc(v[1:-1])).decode('utf-8')))
        elif k == 'life': toks.append(('life', v))
        elif k == 'num': toks.append(('num', int(re.sub(r'[a-z_].*$', '', v.replace('_', '')))))
        elif k == 'id': toks.append(('id', v))
        else: toks.append(('op', v))
    toks.append(('eof', None))
    # Rust identifiers that are Lean keywords get a trailing underscore (not after `.`: field names are looked up)
    for i, (k, v) in enumerate(toks):
        if k == 'id' and v in LEANKW and not (i > 0 and toks[i - 1] in (('op', '.'), ('op', '::'))):
            toks[i] = ('id', v + '_')
    return toks

# ---------------------------------------------------------------------------------------------------
# cutting items out of a file (comment/string aware)

def strip_comments(src):
    """replace comments by spaces, keep strings; used for brace matching"""
    out = []; i = 0; n = len(src)
    while i < n:
        c = src[i]
        if src.startswith('//', i):
            j = src.find('\n', i); j = n if j < 0 else j
            out.append(' ' * (j - i)); i = j
        elif src.startswith('/*', i):
            j = src.find('*/', i); j = n if j < 0 else j + 2
            out.append(re.sub(r'[^\n]', ' ', src[i:j])); i = j
        elif c == '"':
            j = i + 1
            while j < n and src[j] != '"':
                j += 2 if src[j] == '\\' else 1
            out.append(src[i:j + 1]); i = j + 1
        elif c == "'" :
            m = re.match(r"'(?:[^'\\]|\\.[^']*)'", src[i:])
            if m and not re.match(r"'[A-Za-z_][A-Za-z0-9_]*(?!')", src[i:]):
                out.append(m.group(0)); i += len(m.group(0))
            else:
                out.append(c); i += 1
        else:
            out.append(c); i += 1
    return ''.join(out)

def match_brace(s, i):
    """s[i] == '{' (in comment-stripped text); return index of the matching '}'"""
    depth = 0; n = len(s)
    while i < n:
        c = s[i]
        if c == '"':
            i += 1
            while i < n and s[i] != '"':
                i += 2 if s[i] == '\\' else 1
        elif c == "'":
            m = re.match(r"'(?:[^'\\]|\\.[^']*)'", s[i:])
            if m and not re.match(r"'[A-Za-z_][A-Za-z0-9_]*(?!')", s[i:]):
                i += len(m.group(0)) - 1
        elif c == '{': depth += 1
        elif c == '}':
            depth -= 1
            if depth == 0: return i
        i += 1
    raise Unsupported("unbalanced braces")

def find_fn(src, fn_name, impl_re=None, nth=0, mod=None):
    """return (signature, body_text_with_braces) of `fn fn_name` — inside the first impl block whose header
    matches impl_re when given. `src` is the raw file text."""
    s = strip_comments(src)
    lo, hi = 0, len(s)
    if mod:
        mm = re.search(r'(?m)^\s*(?:pub(?:\([a-z]+\))?\s+)?mod\s+' + re.escape(mod) + r'\s*\{', s)
        if not mm: raise Unsupported("module not found: " + mod)
        lo = mm.end() - 1; hi = match_brace(s, lo)
    if impl_re:
        found = None; first = None
        for m in re.finditer(r'(?m)^\s*impl\b[^{;]*\{', s[:hi]):
            if m.start() < lo: continue
            if re.search(impl_re, m.group(0)):
                # several blocks may carry the same header (`impl ParseError {` twice): take the first that has the function
                b0 = m.end() - 1; b1 = match_brace(s, b0)
                if first is None: first = (b0, b1)
                if re.search(r'\bfn\s+' + re.escape(fn_name) + r'\b', s[b0:b1]):
                    found = (b0, b1); break
        if not first: raise Unsupported("impl block not found: " + impl_re)
        lo, hi = found or first
    ms = [m for m in re.finditer(r'\bfn\s+' + re.escape(fn_name) + r'\b', s[lo:hi])]
    if len(ms) <= nth: raise Unsupported("fn not found: " + fn_name)
    st = lo + ms[nth].start()
    b = s.index('{', st)
    # the signature may contain `where` clauses but no braces in this crate
    e = match_brace(s, b)
    return s[st:b].strip(), s[b:e + 1]

def consts(src):
    """`const NAME: T = <literal>;` at any level → {NAME: literal-expr}"""
    out = {}
    for m in re.finditer(r"\bconst\s+([A-Z_][A-Z0-9_]*)\s*:\s*[^=;]+=\s*([^;]+);", strip_comments(src)):
        try:
            t = lex(m.group(2))
        except Unsupported:
            continue
        if len(t) == 2 and t[0][0] in ('num', 'byte', 'bstr', 'char', 'str'):
            out[m.group(1)] = (t[0][0], t[0][1])
    return out

# ---------------------------------------------------------------------------------------------------
# parser

BINPREC = {'||': 1, '&&': 2, '==': 3, '!=': 3, '<': 3, '>': 3, '<=': 3, '>=': 3,
           '|': 4, '^': 5, '&': 6, '<<': 7, '>>': 7, '+': 8, '-': 8, '*': 9, '/': 9, '%': 9}

class Parser:
    def __init__(self, toks):
        self.t = toks; self.i = 0
    def peek(self, k=0): return self.t[min(self.i + k, len(self.t) - 1)]
    def next(self):
        x = self.t[self.i]; self.i += 1; return x
    def at(self, kind, val=None, k=0):
        x = self.peek(k); return x[0] == kind and (val is None or x[1] == val)
    def atop(self, val, k=0): return self.at('op', val, k)
    def atid(self, val, k=0): return self.at('id', val, k)
    def eat(self, kind, val=None):
        if not self.at(kind, val): raise Unsupported(f"expected {val or kind}, found {self.peek()[1]!r}")
        return self.next()
    def eatop(self, v): return self.eat('op', v)

    # ---- types: skipped structurally ------------------------------------------------------------
    def skip_type(self):
        depth = 0
        while True:
            x = self.peek()
            if x[0] == 'eof': raise Unsupported("type runs off")
            if x[0] == 'op':
                if x[1] in '<([': depth += 1
                elif x[1] in '>)]':
                    if depth == 0: return
                    depth -= 1
                elif x[1] == '>>':
                    if depth < 2: raise Unsupported("type >>")
                    depth -= 2
                elif x[1] in (',', ';', '=', '{', '|') and depth == 0: return
            self.next()

    def skip_angle(self):
        """after a `<` has been consumed: skip to (and consume) its matching close; `>>` closes two levels"""
        depth = 1
        while depth > 0:
            x = self.next()
            if x[0] == 'eof': raise Unsupported("generic arguments run off")
            if x[0] == 'op':
                if x[1] == '<': depth += 1
                elif x[1] == '>': depth -= 1
                elif x[1] == '>>': depth -= 2
                elif x[1] == '->': pass
        if depth < 0: raise Unsupported("unbalanced generic arguments")

    # ---- patterns -------------------------------------------------------------------------------
    def pattern(self):
        alts = [self.pattern1()]
        while self.atop('|'):
            self.next(); alts.append(self.pattern1())
        return alts[0] if len(alts) == 1 else ('por', alts)
    def pattern1(self):
        x = self.peek()
        if x[0] == 'op' and x[1] == '&':
            self.next()
            if self.atid('mut'): self.next()
            return ('pref', self.pattern1())
        if x[0] == 'op' and x[1] == '(':
            self.next(); ps = []
            while not self.atop(')'):
                ps.append(self.pattern())
                if self.atop(','): self.next()
            self.next(); return ('ptuple', ps)
        if x[0] in ('num', 'byte'):
            self.next(); return ('plit', x[1])
        if x[0] == 'str':
            self.next(); return ('pstr', unesc(x[1]))
        if x[0] == 'id':
            if x[1] == '_': self.next(); return ('pwild',)
            if x[1] in ('mut', 'ref'):
                self.next(); x = self.peek()
            path = self.path_segments()
            if self.atop('('):
                self.next(); ps = []
                while not self.atop(')'):
                    ps.append(self.pattern())
                    if self.atop(','): self.next()
                self.next(); return ('pctor', path, ps)
            if self.atop('{') and path[-1][0].isupper():
                # struct pattern `Path { field: pat, field, .. }`
                self.next(); fps = []
                while not self.atop('}'):
                    if self.atop('..'): self.next(); continue
                    f = self.eat('id')[1]
                    if self.atop(':'):
                        self.next(); fps.append((f, self.pattern()))
                    else: fps.append((f, ('pbind', f)))
                    if self.atop(','): self.next()
                self.next(); return ('pstruct', path, fps)
            if len(path) == 1 and not path[0][0].isupper(): return ('pbind', path[0])
            return ('ppath', path)
        raise Unsupported(f"pattern starting with {x[1]!r}")
    def path_segments(self):
        segs = [self.eat('id')[1]]
        while self.atop('::'):
            self.next()
            if self.atop('<'):     # turbofish
                self.next(); self.skip_angle(); continue
            segs.append(self.eat('id')[1])
        return segs

    # ---- blocks and statements ------------------------------------------------------------------
    def block(self):
        self.eatop('{'); stmts = []; tail = None
        while not self.atop('}'):
            if self.atop(';'): self.next(); continue
            if self.atid('use'):
                # `use path::{a, b};` inside a body: names only, no effect on the translation
                while not self.atop(';'):
                    if self.at('eof'): raise Unsupported("unterminated use")
                    self.next()
                self.next(); continue
            if self.atid('let'):
                self.next(); mut = False
                if self.atid('mut') : mut = True; self.next()
                pat = self.pattern()
                if self.atop(':'): self.next(); self.skip_type()
                init = None
                if self.atop('='): self.next(); init = self.expr()
                if self.atid('else'):
                    self.next(); eb = self.block(); self.eatop(';')
                    stmts.append(('letelse', pat, init, eb)); continue
                self.eatop(';'); stmts.append(('let', pat, mut, init)); continue
            e = self.expr(stmt=True)
            if self.at('op') and self.peek()[1] in ('=', '+=', '-=', '*=', '/='):
                op = self.next()[1]; rhs = self.expr(); self.eatop(';')
                stmts.append(('assign', e, op, rhs)); continue
            if self.atop(';'):
                self.next(); stmts.append(('expr', e)); continue
            if self.atop('}'):
                if e[0] in ('while', 'for', 'whilelet'): stmts.append(('expr', e))
                else: tail = e
                break
            if e[0] in ('if', 'iflet', 'match', 'while', 'for', 'block', 'whilelet'):
                stmts.append(('expr', e)); continue
            raise Unsupported(f"statement continues with {self.peek()[1]!r}")
        self.eatop('}')
        return ('block', stmts, tail)

    # ---- expressions ----------------------------------------------------------------------------
    def expr(self, stmt=False, nostruct=False):
        return self.binexpr(0, stmt, nostruct)
    def binexpr(self, minprec, stmt, nostruct):
        # ranges have the lowest precedence
        if minprec == 0:
            if self.atop('..') or self.atop('..='):
                incl = self.next()[1] == '..='
                hi = None
                if not (self.at('op') and self.peek()[1] in (')', ']', ';', ',', '}')):
                    hi = self.binexpr(1, False, nostruct)
                return ('range', None, hi, incl)
        lhs = self.unary(stmt, nostruct)
        if stmt and lhs[0] in ('if', 'iflet', 'match', 'while', 'for', 'block', 'whilelet'):
            return lhs      # block-like expression statement: no binary continuation
        while True:
            x = self.peek()
            if x[0] == 'op' and x[1] in BINPREC and BINPREC[x[1]] >= max(minprec, 1):
                # `|` closes a closure parameter list only in closure position: handled there
                op = self.next()[1]
                rhs = self.binexpr(BINPREC[op] + 1, False, nostruct)
                lhs = ('bin', op, lhs, rhs); continue
            if minprec == 0 and x[0] == 'op' and x[1] in ('..', '..='):
                incl = self.next()[1] == '..='
                hi = None
                if not (self.at('op') and self.peek()[1] in (')', ']', ';', ',', '}')):
                    hi = self.binexpr(1, False, nostruct)
                lhs = ('range', lhs, hi, incl); continue
            if x[0] == 'id' and x[1] == 'as':
                self.next(); self.skip_type(); continue      # casts between integer types: identity on Nat
            break
        return lhs
    def unary(self, stmt, nostruct):
        x = self.peek()
        if x[0] == 'op' and x[1] in ('!', '-', '*'):
            self.next(); return ('un', x[1], self.unary(False, nostruct))
        if x[0] == 'op' and x[1] in ('&', '&&'):
            self.next()
            if self.atid('mut'): self.next()
            inner = self.unary(False, nostruct)
            return ('un', '&', inner) if x[1] == '&' else ('un', '&', ('un', '&', inner))
        return self.postfix(self.primary(stmt, nostruct), nostruct)
    def postfix(self, e, nostruct):
        while True:
            if self.atop('?'): self.next(); e = ('try', e); continue
            if self.atop('.'):
                self.next(); x = self.next()
                if x[0] == 'num': e = ('field', e, str(x[1])); continue
                if x[0] != 'id': raise Unsupported("field access")
                if self.atop('::'):
                    self.next(); self.eatop('<'); self.skip_angle()
                if self.atop('('):
                    e = ('mcall', e, x[1], self.args()); continue
                e = ('field', e, x[1]); continue
            if self.atop('['):
                self.next(); ix = self.expr(); self.eatop(']'); e = ('index', e, ix); continue
            if self.atop('('):
                e = ('call', e, self.args()); continue
            return e
    def args(self):
        self.eatop('('); out = []
        while not self.atop(')'):
            out.append(self.expr())
            if self.atop(','): self.next()
        self.next(); return out
    def primary(self, stmt, nostruct):
        x = self.peek()
        k, v = x
        if k == 'num': self.next(); return ('num', v)
        if k == 'byte': self.next(); return ('byte', v)
        if k == 'bstr': self.next(); return ('bstr', v)
        if k == 'char': self.next(); return ('char', v)
        if k == 'str': self.next(); return ('str', v)
        if k == 'op' and v == '(':
            self.next(); es = []; trailing = False
            while not self.atop(')'):
                es.append(self.expr()); trailing = False
                if self.atop(','): self.next(); trailing = True
            self.next()
            if len(es) == 1 and not trailing: return es[0]
            return ('tuple', es)
        if k == 'op' and v == '<':
            # a qualified path `<T>::name(args)` / `<T as Trait>::name(args)`
            self.next(); self.skip_angle()
            self.eat('op', '::')
            segs = ['<qualified>'] + self.path_segments()
            if not self.atop('('): raise Unsupported("qualified path that is not called")
            self.next(); args = []
            while not self.atop(')'):
                args.append(self.expr())
                if self.atop(','): self.next()
            self.next()
            return ('call', ('path', segs), args)
        if k == 'op' and v == '{': return self.block()
        if k == 'op' and v in ('|', '||'):
            self.next(); params = []
            if v == '|':
                while not self.atop('|'):
                    params.append(self.pattern1())
                    if self.atop(':'): self.next(); self.skip_type()
                    if self.atop(','): self.next()
                self.next()
            return ('closure', params, self.expr())
        if k == 'id':
            if v in ('true', 'false'): self.next(); return ('bool', v == 'true')
            if v == 'unsafe': self.next(); return self.block()
            if v == 'return':
                self.next()
                if self.at('op') and self.peek()[1] in (';', '}', ','): return ('return', None)
                return ('return', self.expr())
            if v == 'break':
                self.next()
                if not (self.at('op') and self.peek()[1] in (';', '}', ',')): raise Unsupported("break with value/label")
                return ('break',)
            if v == 'continue': self.next(); return ('continue',)
            if v == 'if': return self.ifexpr()
            if v == 'match':
                self.next(); scrut = self.expr(nostruct=True); self.eatop('{'); arms = []
                while not self.atop('}'):
                    pat = self.pattern(); guard = None
                    if self.atid('if'): self.next(); guard = self.expr()
                    self.eatop('=>')
                    body = self.expr(stmt=True)
                    if self.atop(','): self.next()
                    arms.append((pat, guard, body))
                self.next(); return ('match', scrut, arms)
            if v == 'while':
                self.next()
                if self.atid('let'):
                    self.next(); pat = self.pattern(); self.eatop('='); ex = self.expr(nostruct=True)
                    return ('whilelet', pat, ex, self.block())
                c = self.expr(nostruct=True); return ('while', c, self.block())
            if v == 'for':
                self.next(); pat = self.pattern(); self.eat('id', 'in')
                it = self.expr(nostruct=True); return ('for', pat, it, self.block())
            if v == 'loop': raise Unsupported("loop")
            if v in ('move', 'async', 'let'): raise Unsupported(v)
            path = self.path_segments()
            if self.atop('!') and path == ['vec'] and self.atop('[', 1):
                self.next(); self.next(); es = []
                while not self.atop(']'):
                    es.append(self.expr())
                    if self.atop(';'): raise Unsupported("vec![x; n]")
                    if self.atop(','): self.next()
                self.next(); return ('veclit', es)
            if self.atop('!') and path == ['debug_assert'] and self.atop('(', 1):
                self.next(); self.next(); c = self.expr()
                if self.atop(','): raise Unsupported("debug_assert! with a message")
                self.eat('op', ')'); return ('dbgassert', c)
            if self.atop('!') and path in (['format'], ['write'], ['matches']) and self.atop('(', 1):
                # opaque: the tokens are kept unparsed; translating a use of the value is what fails, not parsing the function
                self.next(); self.next(); d = 1; raw = []
                while d:
                    x = self.next()
                    if x[0] == 'eof': raise Unsupported("unterminated macro")
                    if x[0] == 'op' and x[1] in ('(', '[', '{'): d += 1
                    if x[0] == 'op' and x[1] in (')', ']', '}'): d -= 1
                    if d: raw.append((x[0], x[1]))
                if path == ['matches']:
                    # `matches!(expr, pattern)`
                    try:
                        sub = Parser(list(raw) + [('eof', '')])
                        scrut = sub.expr(); sub.eat('op', ','); pat = sub.pattern()
                        if sub.atop(','): sub.next()
                        if sub.at('eof'): return ('matchesm', scrut, pat)
                    except Unsupported:
                        pass
                if path == ['write']:
                    # `write!(f, "<fmt>")` / `write!(f, "<fmt>", e1, …)`: the formatter, the format string and the parsed arguments
                    try:
                        sub = Parser(list(raw) + [('eof', '')])
                        dest = sub.expr(); sub.eat('op', ','); fmt = sub.next()
                        if fmt[0] != 'str': raise Unsupported("write! without a literal format")
                        fargs = []
                        while sub.atop(','):
                            sub.next()
                            if sub.at('eof'): break
                            fargs.append(sub.expr())
                        if sub.at('eof'): return ('writefmt', dest, unesc(fmt[1]) if isinstance(fmt[1], str) else fmt[1], fargs)
                    except Unsupported:
                        pass
                return ('macro', path[0], tuple(v for _, v in raw))
            if self.atop('!'): raise Unsupported("macro " + '::'.join(path) + "!")
            if self.atop('{') and not nostruct and path[-1][0].isupper():
                self.next(); fields = []
                while not self.atop('}'):
                    f = self.eat('id')[1]
                    if self.atop(':'):
                        self.next(); fields.append((f, self.expr()))
                    else: fields.append((f, ('path', [f])))
                    if self.atop(','): self.next()
                    if self.atop('..'): raise Unsupported("struct update")
                self.next(); return ('struct', path, fields)
            return ('path', path)
        raise Unsupported(f"expression starting with {v!r}")
    def ifexpr(self):
        self.eat('id', 'if')
        if self.atid('let'):
            self.next(); pat = self.pattern(); self.eatop('='); e = self.expr(nostruct=True)
            then = self.block(); els = self.elsepart()
            return ('iflet', pat, e, then, els)
        c = self.expr(nostruct=True); then = self.block(); els = self.elsepart()
        return ('if', c, then, els)
    def elsepart(self):
        if not self.atid('else'): return None
        self.next()
        if self.atid('if'): return ('block', [], self.ifexpr())
        return self.block()

def parse_fn(sig, body):
    """sig: text up to the body brace; returns (name, [(param_name, type_text)], ret_type_text, block)"""
    m0 = re.match(r'fn\s+(\w+)\s*', sig)
    if not m0: raise Unsupported("signature: " + sig)
    name = m0.group(1); i = m0.end()
    if i < len(sig) and sig[i] == '<':            # generics, possibly nested
        d = 0
        while i < len(sig):
            d += sig[i] == '<'; d -= sig[i] == '>' and sig[i - 1] != '-'
            i += 1
            if d == 0: break
    while i < len(sig) and sig[i].isspace(): i += 1
    if i >= len(sig) or sig[i] != '(': raise Unsupported("signature: " + sig)
    j = i; d = 0
    while j < len(sig):
        d += sig[j] == '('; d -= sig[j] == ')'
        j += 1
        if d == 0: break
    ps = sig[i + 1:j - 1]
    rest = sig[j:].strip()
    mr = re.match(r'->\s*(.*?)\s*(?:where.*)?$', rest, re.S)
    ret = (mr.group(1) if mr else '()').strip() or '()'
    params = []
    depth = 0; cur = ''
    for ch in ps + ',':
        if ch in '<([': depth += 1
        if ch in '>)]': depth -= 1
        if ch == ',' and depth == 0:
            cur = cur.strip()
            if cur:
                if ':' in cur:
                    a, b = cur.split(':', 1); params.append((re.sub(r'^mut\s+', '', a.strip()), b.strip()))
                else: params.append(('self', cur))
            cur = ''
        else: cur += ch
    p = Parser(lex(body)); blk = p.block()
    if not p.at('eof'): raise Unsupported("trailing tokens after body")
    return name, params, ret, blk

if __name__ == '__main__':
    import sys, pprint
    src = open(sys.argv[1]).read()
    sig, body = find_fn(src, sys.argv[2], sys.argv[3] if len(sys.argv) > 3 else None)
    pprint.pprint(parse_fn(sig, body), width=140)
