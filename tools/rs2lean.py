#!/usr/bin/env python3
"""
tools/rs2lean.py — regenerate lean/Jp/Gen/Rs/*.lean from the CURRENT Rust source (DESIGN §16).

  rs2lean.py --repo /repo --out /verif/lean/Jp/Gen/Rs [--only id,id] [--json status.json]

For every function in FUNCS the Rust text is cut out of its file, parsed (tools/rsparse.py) and translated
by syntax-directed rules into Lean definitions in namespace `Jp.Gen`.  A function that leaves the supported
subset yields a stub file containing only a comment and the status `untranslatable: <construct>`.
Nothing here is specific to the *behaviour* of a function: the only per-function data are its location, the
Lean name, the representation of its parameters and of its return type (FUNCS), and the API table below.
"""
import sys, os, re, json, argparse, hashlib
sys.path.insert(0, os.path.dirname(os.path.abspath(__file__)))
from rsparse import Unsupported, find_fn, parse_fn, consts, LEANKW

# ---------------------------------------------------------------------------------------------------
# what is translated

FUNCS = [
    dict(id='ValidateBytes', file='src/pointer.rs', fn='validate_bytes', impl=None, lean='validate_bytes',
         params=[('bytes', 'bytes'), ('offset', 'nat')], ret='res', rtype='Res ParseError Unit'),
    dict(id='FromEncoded', file='src/token.rs', fn='from_encoded', impl=r"impl<'a> Token<'a>", lean='Token.from_encoded',
         params=[('s', 'bytes')], ret='res', rtype='Res EncErr Bytes', selfstruct='id'),
    dict(id='TokenNew', file='src/token.rs', fn='new', impl=r"impl<'a> Token<'a>", lean='Token.new',
         params=[('s', 'intocow')], ret='pure', rtype='Cow', selfstruct='id'),
    dict(id='Decoded', file='src/token.rs', fn='decoded', impl=r"impl<'a> Token<'a>", lean='Token.decoded',
         params=[('self', 'tokself')], ret='pure', rtype='Cow'),
    dict(id='ForLen', file='src/index.rs', fn='for_len', impl=r"impl Index \{", lean='Index.for_len',
         params=[('self', 'index'), ('length', 'nat')], ret='res', rtype='Res OobErr Nat'),
    dict(id='ForLenIncl', file='src/index.rs', fn='for_len_incl', impl=r"impl Index \{", lean='Index.for_len_incl',
         params=[('self', 'index'), ('length', 'nat')], ret='res', rtype='Res OobErr Nat'),
    dict(id='ForLenUnchecked', file='src/index.rs', fn='for_len_unchecked', impl=r"impl Index \{", lean='Index.for_len_unchecked',
         params=[('self', 'index'), ('length', 'nat')], ret='pure', rtype='Nat'),
    dict(id='GetRange', file='src/pointer/slice.rs', fn='get', impl=r"for (core::ops::)?Range<usize> \{", lean='Range.get',
         params=[('self', 'fields:start,end'), ('pointer', 'ptr')], ret='optres', rtype='Res Unit (Option Span)'),
    dict(id='GetRangeFrom', file='src/pointer/slice.rs', fn='get', impl=r"for (core::ops::)?RangeFrom<usize> \{", lean='RangeFrom.get',
         params=[('self', 'fields:start'), ('pointer', 'ptr')], ret='optres', rtype='Res Unit (Option Span)'),
    dict(id='GetRangeTo', file='src/pointer/slice.rs', fn='get', impl=r"for (core::ops::)?RangeTo<usize> \{", lean='RangeTo.get',
         params=[('self', 'fields:end'), ('pointer', 'ptr')], ret='optres', rtype='Res Unit (Option Span)'),
    dict(id='GetRangeFull', file='src/pointer/slice.rs', fn='get', impl=r"for (core::ops::)?RangeFull \{", lean='RangeFull.get',
         params=[('self', 'fields:'), ('pointer', 'ptr')], ret='optres', rtype='Res Unit (Option Span)'),
    dict(id='GetRangeIncl', file='src/pointer/slice.rs', fn='get', impl=r"for (core::ops::)?RangeInclusive<usize> \{", lean='RangeInclusive.get',
         params=[('self', 'rangeincl'), ('pointer', 'ptr')], ret='optres', rtype='Res Unit (Option Span)'),
    dict(id='GetRangeToIncl', file='src/pointer/slice.rs', fn='get', impl=r"for (core::ops::)?RangeToInclusive<usize> \{", lean='RangeToInclusive.get',
         params=[('self', 'fields:end'), ('pointer', 'ptr')], ret='optres', rtype='Res Unit (Option Span)'),
    dict(id='GetBounds', file='src/pointer/slice.rs', fn='get', impl=r"for \(Bound<usize>, Bound<usize>\) \{", lean='BoundPair.get',
         params=[('self', 'boundpair'), ('pointer', 'ptr')], ret='optres', rtype='Res Unit (Option Span)',
         imports=['GetRange', 'GetRangeFrom', 'GetRangeTo', 'GetRangeFull', 'GetRangeIncl', 'GetRangeToIncl']),
]

PTR_IMPL = r"impl Pointer \{"
FUNCS += [
    dict(id='IsRoot', file='src/pointer.rs', fn='is_root', impl=PTR_IMPL, lean='Pointer.is_root', params=[('self', 'ptrself')], ret='pure', rtype='Bool'),
    dict(id='Count', file='src/pointer.rs', fn='count', impl=PTR_IMPL, lean='Pointer.count', params=[('self', 'ptrself')], ret='pure', rtype='Nat'),
    dict(id='Back', file='src/pointer.rs', fn='back', impl=PTR_IMPL, lean='Pointer.back', params=[('self', 'ptrself')], ret='pure', rtype='Option Bytes'),
    dict(id='Front', file='src/pointer.rs', fn='front', impl=PTR_IMPL, lean='Pointer.front', params=[('self', 'ptrself')], ret='pure', rtype='Option Bytes', imports=['IsRoot']),
    dict(id='SplitFront', file='src/pointer.rs', fn='split_front', impl=PTR_IMPL, lean='Pointer.split_front', params=[('self', 'ptrself')], ret='pure', rtype='Option (Bytes × Bytes)', imports=['IsRoot']),
    dict(id='SplitAt', file='src/pointer.rs', fn='split_at', impl=PTR_IMPL, lean='Pointer.split_at', params=[('self', 'ptrself'), ('offset', 'nat')], ret='pure', rtype='Option (Bytes × Bytes)'),
    dict(id='SplitBack', file='src/pointer.rs', fn='split_back', impl=PTR_IMPL, lean='Pointer.split_back', params=[('self', 'ptrself')], ret='pure', rtype='Option (Bytes × Bytes)'),
    dict(id='Parent', file='src/pointer.rs', fn='parent', impl=PTR_IMPL, lean='Pointer.parent', params=[('self', 'ptrself')], ret='pure', rtype='Option Bytes'),
    dict(id='StripSuffix', file='src/pointer.rs', fn='strip_suffix', impl=PTR_IMPL, lean='Pointer.strip_suffix', params=[('self', 'ptrself'), ('suffix', 'ptrself')], ret='pure', rtype='Option Bytes'),
    dict(id='StripPrefix', file='src/pointer.rs', fn='strip_prefix', impl=PTR_IMPL, lean='Pointer.strip_prefix', params=[('self', 'ptrself'), ('prefix', 'ptrself')], ret='pure', rtype='Option Bytes'),
    dict(id='EndsWith', file='src/pointer.rs', fn='ends_with', impl=PTR_IMPL, lean='Pointer.ends_with', params=[('self', 'ptrself'), ('other', 'ptrself')], ret='pure', rtype='Bool', imports=['IsRoot']),
    dict(id='StartsWith', file='src/pointer.rs', fn='starts_with', impl=PTR_IMPL, lean='Pointer.starts_with', params=[('self', 'ptrself'), ('other', 'ptrself')], ret='resval', rtype='Res Unit Bool'),
    dict(id='Intersection', file='src/pointer.rs', fn='intersection', impl=PTR_IMPL, lean='Pointer.intersection', params=[('self', 'ptrself'), ('other', 'ptrself')], ret='pure', rtype='Bytes', imports=['IsRoot', 'SplitAt']),
]
WALK_T = 'Res ResolveErr (Loc × Val)'
FUNCS += [
    dict(id='ParseIndex', file='src/resolve.rs', fn='parse_index', impl=None, lean='resolve.parse_index',
         params=[('token', 'tok'), ('array_len', 'nat'), ('position', 'nat'), ('offset', 'nat')], ret='res', rtype='Res ResolveErr Nat', imports=['ForLen']),
    dict(id='ResolveJson', file='src/resolve.rs', fn='resolve', mod='json', impl=r"impl Resolve for Value", lean='json.resolve',
         params=[('self', 'vroot'), ('ptr', 'ptrself')], ret='res', rtype=WALK_T, imports=['ForLen', 'SplitFront']),
    dict(id='ResolveMutJson', file='src/resolve.rs', fn='resolve_mut', mod='json', impl=r"impl ResolveMut for Value", lean='json.resolve_mut',
         params=[('self', 'vroot'), ('ptr', 'ptrself')], ret='res', rtype=WALK_T, imports=['ParseIndex', 'SplitFront']),
    dict(id='ResolveToml', file='src/resolve.rs', fn='resolve', mod='toml', impl=r"impl Resolve for Value", lean='toml.resolve',
         params=[('self', 'vroot'), ('ptr', 'ptrself')], ret='res', rtype=WALK_T, imports=['ForLen', 'SplitFront']),
    dict(id='ResolveMutToml', file='src/resolve.rs', fn='resolve_mut', mod='toml', impl=r"impl ResolveMut for Value", lean='toml.resolve_mut',
         params=[('self', 'vroot'), ('ptr', 'ptrself')], ret='res', rtype=WALK_T, imports=['ForLen', 'SplitFront']),
]
BUF_IMPL = r"impl PointerBuf \{"
FUNCS += [
    dict(id='FromTokens', file='src/pointer.rs', fn='from_tokens', impl=BUF_IMPL, lean='PointerBuf.from_tokens', params=[('tokens', 'toklist')], ret='pure', rtype='Bytes'),
    dict(id='PushFront', file='src/pointer.rs', fn='push_front', impl=BUF_IMPL, lean='PointerBuf.push_front', params=[('self', 'bufself'), ('token', 'intotoken')], ret='mutself', rtype='Bytes'),
    dict(id='PushBack', file='src/pointer.rs', fn='push_back', impl=BUF_IMPL, lean='PointerBuf.push_back', params=[('self', 'bufself'), ('token', 'intotoken')], ret='mutself', rtype='Bytes'),
    dict(id='PopBack', file='src/pointer.rs', fn='pop_back', impl=BUF_IMPL, lean='PointerBuf.pop_back', params=[('self', 'bufself')], ret='mutself', rtype='Bytes × Option Bytes'),
    dict(id='Append', file='src/pointer.rs', fn='append', impl=BUF_IMPL, lean='PointerBuf.append', params=[('self', 'bufself'), ('other', 'asrefptr')], ret='mutself', rtype='Bytes', imports=['IsRoot']),
    dict(id='Clear', file='src/pointer.rs', fn='clear', impl=BUF_IMPL, lean='PointerBuf.clear', params=[('self', 'bufself')], ret='mutself', rtype='Bytes'),
    dict(id='PopFront', file='src/pointer.rs', fn='pop_front', impl=BUF_IMPL, lean='PointerBuf.pop_front', params=[('self', 'bufself')], ret='mutself', rtype='Bytes × Option Bytes', imports=['IsRoot']),
    dict(id='Replace', file='src/pointer.rs', fn='replace', impl=BUF_IMPL, lean='PointerBuf.replace', params=[('self', 'bufself'), ('index', 'nat'), ('token', 'intotoken')],
         ret='mutself', rtype='Bytes × Res ReplaceErr (Option Bytes)', imports=['IsRoot', 'Count']),
]
FUNCS += [
    dict(id='IndexFromStr', file='src/index.rs', fn='from_str', impl=r"impl FromStr for Index", lean='Index.from_str',
         params=[('s', 'bytes')], ret='res', rtype='Res ParseIndexError Index'),
]
DEL_T = 'Val × Res Unit (Option Val)'
FUNCS += [
    dict(id='DeleteJson', file='src/delete.rs', fn='delete', mod='json', impl=r"impl Delete for Value", lean='json.delete',
         params=[('self', 'docself'), ('ptr', 'ptrself')], ret='mutdoc', rtype=DEL_T, imports=['ResolveMutJson', 'SplitBack', 'ForLen'], backend='json'),
    dict(id='DeleteToml', file='src/delete.rs', fn='delete', mod='toml', impl=r"impl Delete for Value", lean='toml.delete',
         params=[('self', 'docself'), ('ptr', 'ptrself')], ret='mutdoc', rtype=DEL_T, imports=['ResolveMutToml', 'SplitBack', 'ForLen'], backend='toml'),
]
FUNCS += [
    dict(id='ExpandJson', file='src/assign.rs', fn='expand', mod='json', impl=None, lean='json.expand',
         params=[('remaining', 'ptrself'), ('value', 'val')], ret='pure', rtype='Val', imports=['SplitBack']),
    dict(id='ExpandToml', file='src/assign.rs', fn='expand', mod='toml', impl=None, lean='toml.expand',
         params=[('remaining', 'ptrself'), ('value', 'val')], ret='pure', rtype='Val', imports=['SplitBack']),
]
ASG_T = 'Val × Res AssignErr (Option Val)'
for _b, _obj in (('json', 'Object'), ('toml', 'Table')):
    _B = _b.capitalize()
    FUNCS += [
        dict(id=f'AssignScalar{_B}', file='src/assign.rs', fn='assign_scalar', mod=_b, impl=None, lean=f'{_b}.assign_scalar', backend=_b,
             params=[('remaining', 'ptrself'), ('scalar', 'vrefmut'), ('value', 'val')], ret='mutdoc', docres='plain', rtype='Val × Assigned', imports=[f'Expand{_B}']),
        dict(id=f'AssignObject{_B}', file='src/assign.rs', fn='assign_object', mod=_b, impl=None, lean=f'{_b}.assign_object', backend=_b,
             params=[('token', 'tok'), ('remaining', 'ptrself'), ('obj', 'orefmut'), ('src', 'val')], ret='mutdoc', docres='plain', rtype='Val × Assigned',
             imports=[f'Expand{_B}', 'IsRoot']),
        dict(id=f'AssignArray{_B}', file='src/assign.rs', fn='assign_array', mod=_b, impl=None, lean=f'{_b}.assign_array', backend=_b,
             params=[('token', 'tok'), ('remaining', 'ptrself'), ('array', 'arefmut'), ('src', 'val'), ('position', 'nat'), ('offset', 'nat')],
             ret='mutdoc', docres='res', rtype='Val × Res AssignErr Assigned', imports=[f'Expand{_B}', 'IsRoot', 'ForLenIncl']),
        dict(id=f'AssignValue{_B}', file='src/assign.rs', fn='assign_value', mod=_b, impl=None, lean=f'{_b}.assign_value', backend=_b,
             params=[('ptr', 'ptrself'), ('dest', 'vrefmut'), ('value', 'val')], ret='mutdoc', docres='res', rtype=ASG_T,
             imports=[f'AssignScalar{_B}', f'AssignObject{_B}', f'AssignArray{_B}', 'SplitFront']),
        dict(id=f'Assign{_B}', file='src/assign.rs', fn='assign', mod=_b, impl=r"impl Assign for Value", lean=f'{_b}.assign', backend=_b,
             params=[('self', 'docself'), ('ptr', 'ptrself'), ('value', 'intoval')], ret='mutdoc', docres='res', rtype=ASG_T, imports=[f'AssignValue{_B}']),
    ]
for _f, _ty, _ns in (('src/resolve.rs', 'resolveerr', 'resolve'), ('src/assign.rs', 'assignerr', 'assign')):
    _N = _ns.capitalize()
    FUNCS += [
        dict(id=f'{_N}ErrPosition', file=_f, fn='position', impl=r"impl Error \{", lean=f'{_ns}.Error.position', params=[('self', 'errself:' + _ty)], ret='pure', rtype='Nat'),
        dict(id=f'{_N}ErrOffset', file=_f, fn='offset', impl=r"impl Error \{", lean=f'{_ns}.Error.offset', params=[('self', 'errself:' + _ty)], ret='pure', rtype='Nat'),
        dict(id=f'{_N}ErrLabels', file=_f, fn='labels', impl=r"impl Diagnostic for Error", lean=f'{_ns}.Error.labels',
             params=[('self', 'errself:' + _ty), ('origin', 'bufref')], ret='pure', rtype='Option (Nat × Nat)', imports=[f'{_N}ErrPosition', f'{_N}ErrOffset'], errns=_ns),
    ]
FUNCS += [
    dict(id='IndexTryFromTokenRef', file='src/index.rs', fn='try_from', impl=r"impl TryFrom<&Token<'_>> for Index", lean='Index.try_from_token_ref',
         params=[('value', 'tok')], ret='res', rtype='Res ParseIndexError Index', imports=['IndexFromStr']),
    dict(id='IndexTryFromToken', file='src/index.rs', fn='try_from', impl=r"impl TryFrom<Token<'_>> for Index", lean='Index.try_from_token',
         params=[('value', 'tok')], ret='res', rtype='Res ParseIndexError Index', imports=['IndexFromStr']),
    dict(id='TokenToIndex', file='src/token.rs', fn='to_index', impl=r"impl<'a> Token<'a>", lean='Token.to_index',
         params=[('self', 'tok')], ret='res', rtype='Res ParseIndexError Index', imports=['IndexTryFromTokenRef']),
]
FUNCS += [
    dict(id='GetUsize', file='src/pointer/slice.rs', fn='get', impl=r"impl<'p> PointerIndex<'p> for usize", lean='Usize.get',
         params=[('self', 'nat'), ('pointer', 'ptrself')], ret='pure', rtype='Option Bytes'),
    dict(id='First', file='src/pointer.rs', fn='first', impl=PTR_IMPL, lean='Pointer.first', params=[('self', 'ptrself')], ret='pure', rtype='Option Bytes', imports=['Front']),
    dict(id='Last', file='src/pointer.rs', fn='last', impl=PTR_IMPL, lean='Pointer.last', params=[('self', 'ptrself')], ret='pure', rtype='Option Bytes', imports=['Back']),
    dict(id='WithTrailingToken', file='src/pointer.rs', fn='with_trailing_token', impl=PTR_IMPL, lean='Pointer.with_trailing_token',
         params=[('self', 'ptrself'), ('token', 'intotoken')], ret='pure', rtype='Bytes', imports=['PushBack']),
    dict(id='WithLeadingToken', file='src/pointer.rs', fn='with_leading_token', impl=PTR_IMPL, lean='Pointer.with_leading_token',
         params=[('self', 'ptrself'), ('token', 'intotoken')], ret='pure', rtype='Bytes', imports=['PushFront']),
    dict(id='Concat', file='src/pointer.rs', fn='concat', impl=PTR_IMPL, lean='Pointer.concat',
         params=[('self', 'ptrself'), ('other', 'ptrself')], ret='pure', rtype='Bytes', imports=['Append']),
]
# the comparison impls between Pointer / PointerBuf / str / &str / String (C17): one function per impl block
CMP_IMPLS = [('PartialEq', l, r) for (l, r) in [
    ('Pointer', '&str'), ('&Pointer', 'String'), ('Pointer', 'str'), ('&str', 'Pointer'), ('String', 'Pointer'), ('str', 'Pointer'),
    ('Pointer', 'String'), ('Pointer', 'PointerBuf'), ('PointerBuf', 'Pointer'), ('String', 'PointerBuf'), ('PointerBuf', 'String'),
    ('str', 'PointerBuf'), ('&str', 'PointerBuf'), ('&Pointer', 'PointerBuf'), ('PointerBuf', '&Pointer'), ('PointerBuf', '&str'), ('PointerBuf', 'str')]] + \
  [('PartialOrd', l, r) for (l, r) in [
    ('Pointer', 'PointerBuf'), ('PointerBuf', 'Pointer'), ('PointerBuf', '&Pointer'), ('String', 'Pointer'), ('&Pointer', 'String'), ('String', 'PointerBuf'),
    ('str', 'Pointer'), ('str', 'PointerBuf'), ('&str', 'PointerBuf'), ('&str', 'Pointer'), ('&Pointer', '&str'), ('Pointer', 'String'),
    ('PointerBuf', '&str'), ('&Pointer', 'PointerBuf'), ('PointerBuf', 'String')]]
def _cmp_name(t): return t.replace('&', 'Ref')
for _tr, _l, _r in CMP_IMPLS:
    _id = ('Eq' if _tr == 'PartialEq' else 'Cmp') + _cmp_name(_l) + _cmp_name(_r)
    FUNCS.append(dict(id=_id, file='src/pointer.rs', fn='eq' if _tr == 'PartialEq' else 'partial_cmp',
                      impl=r"impl " + _tr + "<" + re.escape(_r) + r"> for " + re.escape(_l) + r" \{",
                      lean=('cmp.eq_' if _tr == 'PartialEq' else 'cmp.partial_cmp_') + _cmp_name(_l) + '_' + _cmp_name(_r),
                      params=[('self', 'ptrself'), ('other', 'ptrself')], ret='pure', rtype='Bool' if _tr == 'PartialEq' else 'Option Ordering', cmpimpl=True))
FUNCS += [
    dict(id='Validate', file='src/pointer.rs', fn='validate', impl=None, lean='validate', params=[('value', 'bytes')], ret='res', rtype='Res ParseError Bytes', imports=['ValidateBytes'], door=True),
    dict(id='PointerParse', file='src/pointer.rs', fn='parse', impl=PTR_IMPL, lean='Pointer.parse', params=[('s', 'bytes')], ret='res', rtype='Res ParseError Bytes', imports=['Validate'], door=True),
    dict(id='PointerBufParse', file='src/pointer.rs', fn='parse', impl=BUF_IMPL, lean='PointerBuf.parse', params=[('s', 'bytes')], ret='res', rtype='Res (ParseError × Bytes) Bytes', imports=['Validate'], door=True),
    dict(id='BufTryFromString', file='src/pointer.rs', fn='try_from', impl=r"impl TryFrom<String> for PointerBuf", lean='PointerBuf.try_from_string', params=[('value', 'bytes')], ret='res', rtype='Res ParseError Bytes', imports=['Validate'], door=True),
    dict(id='BufTryFromStr', file='src/pointer.rs', fn='try_from', impl=r"impl TryFrom<&str> for PointerBuf", lean='PointerBuf.try_from_str', params=[('value', 'bytes')], ret='res', rtype='Res ParseError Bytes', imports=['PointerParse'], door=True),
    dict(id='BufFromStr', file='src/pointer.rs', fn='from_str', impl=r"impl FromStr for PointerBuf", lean='PointerBuf.from_str', params=[('s', 'bytes')], ret='res', rtype='Res ParseError Bytes', imports=['BufTryFromStr'], door=True),
]
# the iterators: `&mut self` of an iterator is its state, returned next to the item
FUNCS += [
    dict(id='PointerTokens', file='src/pointer.rs', fn='tokens', impl=PTR_IMPL, lean='Pointer.tokens_iter', params=[('self', 'ptrself')], ret='pure', rtype='Split', iter=True),
    dict(id='TokensNext', file='src/token.rs', fn='next', impl=r"impl<'a> Iterator for Tokens<'a>", lean='Tokens.next', params=[('self', 'iterself:inner=split')],
         ret='mutiter', rtype='Option Bytes × Split', iter=True),
    dict(id='ComponentsFrom', file='src/component.rs', fn='from', impl=r"impl<'t> From<&'t Pointer> for Components<'t>", lean='Components.from_pointer',
         params=[('pointer', 'ptrself')], ret='pure', rtype='Components', imports=['PointerTokens'], iter=True),
    dict(id='ComponentsNext', file='src/component.rs', fn='next', impl=r"impl<'t> Iterator for Components<'t>", lean='Components.next',
         params=[('self', 'iterself:sent_root=bool,tokens=tokensiter')], ret='mutiter', rtype='Option Component × Components', imports=['TokensNext'], iter=True),
]
# `Display::fmt` as "the text written to the formatter"
FUNCS += [
    dict(id='DisplayToken', file='src/token.rs', fn='fmt', impl=r"impl alloc::fmt::Display for Token<'_>", lean='Token.display', params=[('self', 'tok'), ('f', 'fmtr')], ret='fmt', rtype='Bytes', imports=['Decoded']),
    dict(id='DisplayPointer', file='src/pointer.rs', fn='fmt', impl=r"impl core::fmt::Display for Pointer \{", lean='Pointer.display', params=[('self', 'ptrself'), ('f', 'fmtr')], ret='fmt', rtype='Bytes'),
    dict(id='DisplayPointerBuf', file='src/pointer.rs', fn='fmt', impl=r"impl core::fmt::Display for PointerBuf \{", lean='PointerBuf.display', params=[('self', 'ptrself'), ('f', 'fmtr')], ret='fmt', rtype='Bytes'),
    dict(id='DisplayIndex', file='src/index.rs', fn='fmt', impl=r"impl fmt::Display for Index \{", lean='Index.display_fmt', params=[('self', 'errself:index'), ('f', 'fmtr')], ret='fmt', rtype='Bytes'),
]
# serde: `serialize` as "the string handed to the serializer"; `deserialize` from a carrier that holds one string
FUNCS += [
    dict(id='SerializePointer', file='src/pointer.rs', fn='serialize', impl=r"impl serde::Serialize for Pointer \{", lean='Pointer.serialize', params=[('self', 'ptrself'), ('serializer', 'fmtr')], ret='fmt', rtype='Bytes', serde=True),
    dict(id='SerializePointerBuf', file='src/pointer.rs', fn='serialize', impl=r"impl serde::Serialize for PointerBuf \{", lean='PointerBuf.serialize', params=[('self', 'ptrself'), ('serializer', 'fmtr')], ret='fmt', rtype='Bytes', serde=True),
    dict(id='DeserializePointerBuf', file='src/pointer.rs', fn='deserialize', impl=r"impl<'de> serde::Deserialize<'de> for PointerBuf", lean='PointerBuf.deserialize',
         params=[('deserializer', 'strcarrier')], ret='res', rtype='Res DoorErr Bytes', imports=['BufTryFromString'], serde=True, door=True),
    dict(id='VisitBorrowedStr', file='src/pointer.rs', fn='visit_borrowed_str', impl=r"impl<'a> Visitor<'a> for PointerVisitor", lean='PointerVisitor.visit_borrowed_str',
         params=[('self', 'fmtr'), ('v', 'bytes')], ret='res', rtype='Res DoorErr Bytes', imports=['PointerParse'], serde=True, door=True),
]
# the `is_*` predicates (`matches!(self, Variant { .. })`)
for _f, _ty, _ns, _names in (('src/resolve.rs', 'resolveerr', 'resolve', ['is_unreachable', 'is_not_found', 'is_out_of_bounds', 'is_failed_to_parse_index']),
                            ('src/assign.rs', 'assignerr', 'assign', ['is_out_of_bounds', 'is_failed_to_parse_index']),
                            ('src/pointer.rs', 'parseerror', 'ParseError', ['is_no_leading_slash', 'is_invalid_encoding'])):
    for _n in _names:
        FUNCS.append(dict(id=_ns.capitalize().replace('Parseerror', 'ParseErr') + 'Err' * (_ns != 'ParseError') + ''.join(w.capitalize() for w in _n.split('_')), file=_f, fn=_n,
                          impl=r"impl Error \{" if _ns != 'ParseError' else r"impl ParseError \{", lean=(f'{_ns}.Error.{_n}' if _ns != 'ParseError' else f'ParseError.{_n}'),
                          params=[('self', 'errself:' + _ty)], ret='pure', rtype='Bool'))
PE_IMPL = r"impl ParseError \{"
FUNCS += [
    dict(id='ParseErrOffset', file='src/pointer.rs', fn='offset', impl=PE_IMPL, lean='ParseError.offset', params=[('self', 'errself:parseerror')], ret='pure', rtype='Nat'),
    dict(id='ParseErrPointerOffset', file='src/pointer.rs', fn='pointer_offset', impl=PE_IMPL, nth_impl=1, lean='ParseError.pointer_offset', params=[('self', 'errself:parseerror')], ret='pure', rtype='Nat'),
    dict(id='ParseErrSourceOffset', file='src/pointer.rs', fn='source_offset', impl=PE_IMPL, nth_impl=1, lean='ParseError.source_offset', params=[('self', 'errself:parseerror')], ret='pure', rtype='Nat'),
    dict(id='ParseErrCompleteOffset', file='src/pointer.rs', fn='complete_offset', impl=PE_IMPL, nth_impl=1, lean='ParseError.complete_offset', params=[('self', 'errself:parseerror')], ret='pure', rtype='Nat',
         imports=['ParseErrSourceOffset', 'ParseErrPointerOffset'], errns='ParseError'),
    dict(id='ParseErrInvalidEncodingLen', file='src/pointer.rs', fn='invalid_encoding_len', impl=PE_IMPL, lean='ParseError.invalid_encoding_len',
         params=[('self', 'errself:parseerror'), ('subject', 'bytes')], ret='pure', rtype='Nat', imports=['ParseErrCompleteOffset'], errns='ParseError'),
    dict(id='ParseErrLabels', file='src/pointer.rs', fn='labels', impl=r"impl Diagnostic for ParseError", lean='ParseError.labels',
         params=[('self', 'errself:parseerror'), ('subject', 'bytes')], ret='pure', rtype='Option (Nat × Nat)', imports=['ParseErrCompleteOffset', 'ParseErrInvalidEncodingLen'], errns='ParseError'),
]
# free functions of the crate that take a `&mut` into the document: (arity, result type); the document is threaded through them
DOCCALLS = {'assign_array': (6, 'res(assigned;assignerr)'), 'assign_object': (4, 'assigned'), 'assign_scalar': (3, 'assigned'),
            'assign_value': (3, 'res(opt(val);assignerr)')}
ENUM_FIELDS = {'Assigned::Continue': ['next_dest', 'same_value']}
for _p in ('Self', 'Error'):
    for _c in ('FailedToParseIndex', 'OutOfBounds'): ENUM_FIELDS[f'{_p}::{_c}'] = ['position', 'offset', 'source']
    for _c in ('NotFound', 'Unreachable'): ENUM_FIELDS[f'{_p}::{_c}'] = ['position', 'offset']
ENUM_PREFIX = {'index': 'Index', 'bound': 'Bound', 'assigned': 'Assigned'}
SIBLINGS = {'split_back': ('Pointer.split_back', 'opt(tuple:ptrself,tok)'), 'split_front': ('Pointer.split_front', 'opt(tuple:tok,ptrself)'), 'is_root': ('Pointer.is_root', 'bool'), 'count': ('Pointer.count', 'nat'), 'split_at': ('Pointer.split_at', 'opt(tuple:bytes,bytes)'),
            'front': ('Pointer.front', 'opt(bytes)'), 'back': ('Pointer.back', 'opt(bytes)')}

LEANTY = {'nat': 'Nat', 'bool': 'Bool', 'bytes': 'Bytes', 'cow': 'Cow', 'optnat': 'Option Nat', 'toklist': 'List Bytes',
          'tok': 'Bytes', 'index': 'Index', 'bound': 'Bound', 'ptr': 'Bytes', 'span': 'Span', 'tokself': 'Bytes',
          'intocow': 'Bytes', 'unit': 'Unit', 'ptrself': 'Bytes', 'vref': 'Loc × Val', 'vroot': 'Val', 'bufself': 'Bytes', 'intotoken': 'Bytes', 'asrefptr': 'Bytes', 'docself': 'Val', 'val': 'Val', 'aref': 'Loc × List Val', 'oref': 'Loc × List (Bytes × Val)', 'assigned': 'Assigned', 'intoval': 'Val', 'resolveerr': 'ResolveErr', 'assignerr': 'AssignErr', 'parseerror': 'ParseError', 'bufval': 'Bytes', 'fmtr': 'Unit', 'strcarrier': 'Bytes', 'split': 'Split', 'tokensiter': 'Split', 'component': 'Component', 'components': 'Components', 'bufref': 'Bytes', 'kvlist': 'List (Bytes × Val)', 'vallist': 'List Val'}

# enums the subset may match on / construct: type tag -> [(lean ctor, [rust paths], [field types])]
ENUMS = {
    'index': [('.num', ['Self::Num', 'Index::Num'], ['nat']), ('.next', ['Self::Next', 'Index::Next'], [])],
    'bound': [('.included', ['Bound::Included'], ['nat']), ('.excluded', ['Bound::Excluded'], ['nat']),
              ('.unbounded', ['Bound::Unbounded'], [])],
    'optnat': [('some', ['Some'], ['nat']), ('none', ['None'], [])],
    'resolveerr': [('.failedToParseIndex', ['Self::FailedToParseIndex', 'Error::FailedToParseIndex'], ['nat', 'nat', 'pie']),
                   ('.outOfBounds', ['Self::OutOfBounds', 'Error::OutOfBounds'], ['nat', 'nat', 'ooberr']),
                   ('.notFound', ['Self::NotFound', 'Error::NotFound'], ['nat', 'nat']), ('.unreachable', ['Self::Unreachable', 'Error::Unreachable'], ['nat', 'nat'])],
    'assignerr': [('.failedToParseIndex', ['Self::FailedToParseIndex', 'Error::FailedToParseIndex'], ['nat', 'nat', 'pie']),
                  ('.outOfBounds', ['Self::OutOfBounds', 'Error::OutOfBounds'], ['nat', 'nat', 'ooberr'])],
    'assigned': [('.done', ['Assigned::Done'], ['opt(val)']), ('.cont', ['Assigned::Continue'], ['vref', 'val'])],
    'vref': [('.arr', ['Value::Array'], ['aref']), ('.obj', ['Value::Object', 'Value::Table'], ['oref']), ('.scalar', ['<scalar>'], ['atom'])],
}
# unit-like error constants
UNITCTORS = {
    'ParseIndexError::LeadingZeros': ('ParseIndexError.leadingZeros', 'pie'),
    'InvalidEncoding::Slash': ('EncKind.slash', 'enckind'), 'InvalidEncoding::Tilde': ('EncKind.tilde', 'enckind'),
    'ParseError::NoLeadingSlash': ('ParseError.noLeadingSlash', 'parseerror'),
    'Component::Root': ('Component.root', 'component'),
}

PANIC_IDX = '.panic "index out of bounds"'
PANIC_SLICE = '.panic "slice index out of range"'

BYTESLIKE = ('bytes', 'tok', 'ptr', 'ptrself')
def is_res(ty): return ty.startswith('res(')
def res_parts(ty):
    t, e = ty[4:-1].rsplit(';', 1); return t, e
def mk_res(t, e): return f'res({t};{e})'
def is_opt(ty): return ty == 'optnat' or ty.startswith('opt(')
def opt_inner(ty): return 'nat' if ty == 'optnat' else ty[4:-1]
def mk_opt(inner): return 'optnat' if inner == 'nat' else f'opt({inner})'

class Ctx:
    def __init__(self, ret, cont=None, brk=None, raw=None):
        self.raw = raw or ret   # a complete return value (already paired with the document, if any) -> code leaving the function
        self.ret = ret      # lean term of the function's return type -> code leaving the function
        self.cont = cont    # env -> code for `continue` / falling off the end of a loop body
        self.brk = brk      # env -> code for `break`

def ind(s, n=2):
    pad = ' ' * n
    return '\n'.join(pad + l if l else l for l in s.split('\n'))

def paren(s):
    return '(' + s + ')'

class Fn:
    def __init__(self, spec, src, cst):
        self.spec = spec; self.cst = cst
        sig, body = find_fn(src, spec['fn'], spec['impl'], mod=spec.get('mod'))
        self.text = sig + ' ' + body
        self.name, self.rparams, self.rret, self.block = parse_fn(sig, body)
        self.loops = []       # emitted loop definitions (strings)
        self.nloop = 0; self.nvar = 0
        self.retkind = spec['ret']; self.rtype = spec['rtype']
        self.wrap = (lambda t: f"(self_doc, {t})") if self.retkind == 'mutdoc' else (lambda t: t)
    def fresh(self, base='x'):
        self.nvar += 1; return f"{base}{self.nvar}"

    # ---------------- analysis helpers ----------------------------------------------------------
    def walk(self, node, f):
        if isinstance(node, tuple):
            f(node)
            for c in node: self.walk(c, f)
        elif isinstance(node, list):
            for c in node: self.walk(c, f)
    def mentions(self, node):
        names = set()
        def f(n):
            if n and n[0] == 'path' and len(n[1]) == 1: names.add(n[1][0])
            if n and n[0] == 'struct':
                for (fl, e) in n[2]:
                    pass
        self.walk(node, f); return names
    def needed(self, node):
        """names mentioned, not counting the text argument of `Label::new`"""
        names = set()
        def go(n):
            if isinstance(n, list):
                for c in n: go(c)
            elif isinstance(n, tuple) and n:
                if n[0] == 'path' and len(n[1]) == 1: names.add(n[1][0])
                if n[0] == 'call' and n[1] == ('path', ['Label', 'new']) and len(n[2]) == 3:
                    go(n[2][1]); go(n[2][2]); return
                for c in n: go(c)
        go(node); return names
    def escapes(self, node, in_loop=False):
        """does control leave `node` other than by falling off its end? (return / ? anywhere, break/continue of
        the enclosing loop)"""
        if isinstance(node, list): return any(self.escapes(c, in_loop) for c in node)
        if not isinstance(node, tuple) or not node: return False
        k = node[0]
        if k in ('return', 'try'): return True
        if k in ('break', 'continue'): return not in_loop
        if k in ('while', 'for'):
            return any(self.escapes(c, True) for c in node[1:])
        if k == 'closure': return False
        return any(self.escapes(c, in_loop) for c in node[1:])
    def effectful(self, node):
        """checked index access / checked slice / escape inside an expression"""
        if isinstance(node, list): return any(self.effectful(c) for c in node)
        if not isinstance(node, tuple) or not node: return False
        k = node[0]
        if k in ('return', 'try', 'break', 'continue', 'dbgassert'): return True
        if k == 'call' and node[1][0] == 'path' and (node[1][1][-1] in DOCCALLS or node[1][1][-2:] == ['mem', 'replace']): return True
        if k == 'index' and node[2][0] != 'range': return True
        if k == 'index' and node[2][0] == 'range': return True   # conservatively (may be a checked view)
        if k == 'closure': return False
        return any(self.effectful(c) for c in node[1:])
    def assigned(self, node, declared=None):
        """outer variables assigned somewhere in node (list of statements or expr)"""
        out = []
        declared = set(declared or ())
        def add(v):
            if v not in declared and v not in out: out.append(v)
        def stmts(ss, decl):
            decl = set(decl)
            for s in ss:
                if s[0] == 'let':
                    expr(s[3], decl)
                    for v in self.pat_binds(s[1]): decl.add(v)
                elif s[0] == 'assign':
                    expr(s[3], decl)
                    if s[1][0] == 'path' and len(s[1][1]) == 1:
                        if s[1][1][0] not in decl: add(s[1][1][0])
                    elif s[1] == ('field', ('path', ['self']), '0'): add('self_0')
                    elif s[1][0] == 'index' and s[1][1][0] == 'path' and len(s[1][1][1]) == 1: add(s[1][1][1][0])
                    else: raise Unsupported("assignment to a place expression")
                else: expr(s[1], decl)
        def expr(e, decl):
            if not isinstance(e, tuple) or not e: return
            k = e[0]
            if k == 'block':
                stmts(e[1], decl)
                if e[2] is not None: expr(e[2], decl)
            elif k == 'mcall' and e[2] == 'insert' and e[1][0] == 'path' and len(e[1][1]) == 1 and len(e[3]) == 2:
                if e[1][1][0] not in decl: add(e[1][1][0])
                for a in e[3]: expr(a, decl)
            elif k == 'mcall' and e[1] == ('field', ('path', ['self']), '0') and e[2] in ('push', 'push_str', 'insert', 'insert_str', 'pop', 'clear', 'split_off'):
                add('self_0')
                for a in e[3]: expr(a, decl)
            elif k == 'mcall' and e[2] in ('push', 'extend_from_slice', 'push_str') and e[1][0] == 'path' and len(e[1][1]) == 1:
                if e[1][1][0] not in decl: add(e[1][1][0])
                for a in e[3]: expr(a, decl)
            elif k == 'match':
                expr(e[1], decl)
                for (p, g, b) in e[2]:
                    d2 = set(decl) | set(self.pat_binds(p))
                    if g: expr(g, d2)
                    expr(b, d2)
            elif k == 'for':
                expr(e[2], decl); expr(e[3], set(decl) | set(self.pat_binds(e[1])))
            elif k == 'iflet':
                expr(e[2], decl); expr(e[3], set(decl) | set(self.pat_binds(e[1])))
                if e[4]: expr(e[4], decl)
            elif k == 'closure': return
            else:
                for c in e[1:]:
                    if isinstance(c, tuple): expr(c, decl)
                    elif isinstance(c, list):
                        for cc in c:
                            if isinstance(cc, tuple) and cc and isinstance(cc[0], str): expr(cc, decl)
                            elif isinstance(cc, tuple):
                                for ccc in cc:
                                    if isinstance(ccc, tuple): expr(ccc, decl)
        if isinstance(node, list): stmts(node, declared)
        else: expr(node, declared)
        return out
    def pat_binds(self, p):
        k = p[0]
        if k == 'pbind': return [p[1]]
        if k in ('ptuple',): return [v for q in p[1] for v in self.pat_binds(q)]
        if k == 'pctor': return [v for q in p[2] for v in self.pat_binds(q)]
        if k == 'pstruct': return [v for _, q in p[2] for v in self.pat_binds(q)]
        if k == 'pref': return self.pat_binds(p[1])
        if k == 'por': return self.pat_binds(p[1][0])
        return []

    # ---------------- normalisation ---------------------------------------------------------------
    def as_block(self, e):
        if e is None: return ('block', [], None)
        if e[0] == 'block': return e
        return ('block', [], e)
    def norm_stmt_block(self, b):
        """a block used for its effects: move a tail expression into the statement list"""
        b = self.as_block(b)
        st = list(b[1])
        if b[2] is not None: st.append(('expr', b[2]))
        return st
    def to_return(self, e):
        """the expression is the value the function returns: push `return` to the leaves"""
        k = e[0]
        if k == 'block':
            st = list(e[1])
            if e[2] is None: raise Unsupported("function body without a tail value")
            return ('block', st + [('expr', self.to_return(e[2]))], None)
        if k == 'if':
            if e[3] is None: raise Unsupported("value `if` without else")
            return ('if', e[1], self.to_return(self.as_block(e[2])), self.to_return(self.as_block(e[3])))
        if k == 'iflet':
            if e[4] is None: raise Unsupported("value `if let` without else")
            return ('iflet', e[1], e[2], self.to_return(self.as_block(e[3])), self.to_return(self.as_block(e[4])))
        if k == 'match':
            return ('match', e[1], [(p, g, self.to_return(b)) for (p, g, b) in e[2]])
        if k == 'return': return e
        return ('return', e)

    # ---------------- expressions -----------------------------------------------------------------
    def pathstr(self, segs): return '::'.join(segs)

    def E(self, e, env, ctx, k):
        """translate expression e; k(term, type) -> code.  Effects are sequenced in Rust's evaluation order."""
        t = e[0]
        if t == 'num': return k(str(e[1]), 'nat')
        if t == 'byte': return k(str(e[1]), 'nat')
        if t == 'bstr': return k('[' + ', '.join(map(str, e[1])) + ']', 'bytes')
        if t == 'bool': return k('true' if e[1] else 'false', 'bool')
        if t == 'str':
            bs = e[1].encode('utf-8').decode('unicode_escape').encode('latin-1') if '\\' in e[1] else e[1].encode('utf-8')
            return k('[' + ', '.join(str(b) for b in bs) + ']', 'bytes')
        if t == 'char':
            if len(e[1].encode('utf-8')) != 1: raise Unsupported("non-ASCII char literal")
            return k(str(ord(e[1])), 'nat')
        if t == 'veclit':
            def gov(i, acc):
                if i == len(e[1]): return k('[' + ', '.join(acc) + ']', 'vallist')
                return self.E(e[1][i], env, ctx, lambda a, ta: gov(i + 1, acc + [a]) if ta == 'val' else self.bad("vec! of " + ta))
            return gov(0, [])
        if t == 'closure': raise Unsupported("closure outside a known combinator")
        if t == 'path':
            segs = e[1]; ps = self.pathstr(segs)
            if len(segs) == 1:
                v = segs[0]
                if v in env:
                    ty = env[v]
                    if ty == 'vroot': return k(f"(([] : Loc), {v})", 'vref')
                    if ty.startswith('alias:'):      # e.g. self of a Token: the encoded bytes
                        return k(ty.split(':')[1], ty.split(':')[2])
                    return k(v, ty)
                if v in self.cst:
                    return self.E((self.cst[v][0], self.cst[v][1]), env, ctx, k)
                if v == 'None': return k('none', 'optnat')
            if ps in UNITCTORS: return k(UNITCTORS[ps][0], UNITCTORS[ps][1])
            if ps == 'Value::Null' and self.spec.get('backend') == 'json': return k('(Val.scalar [110])', 'val')
            for ty, ctors in ENUMS.items():
                for (lc, rps, fts) in ctors:
                    if ps in rps and not fts:
                        return k(('Index' if ty == 'index' else 'Bound') + lc if ty in ('index', 'bound') else lc, ty)
            raise Unsupported("path " + ps)
        if t == 'un':
            if e[1] in ('&', '*'): return self.E(e[2], env, ctx, k)
            if e[1] == '!':
                return self.E(e[2], env, ctx, lambda a, ty: k(f"(!{a})", 'bool'))
            raise Unsupported("unary " + e[1])
        if t == 'bin':
            op = e[1]
            if op in ('+', '*'):
                return self.E(e[2], env, ctx, lambda a, ta: self.E(e[3], env, ctx, lambda b, tb: k(f"({a} {op} {b})", 'nat')))
            if op in ('==', '!=', '<', '<=', '>', '>=', '&&', '||'):
                if self.effectful(e): raise Unsupported("effectful boolean used as a value")
                return k(self.B(e, env), 'bool')
            raise Unsupported("binary operator " + op)
        if t == 'field':
            recv, f = e[1], e[2]
            if recv[0] == 'path' and recv[1] == ['self']:
                key = 'self.' + f
                if key in env:
                    ty = env[key]
                    return k(ty.split(':')[1], ty.split(':')[2])
            if f == 'offset' and recv[0] == 'path' and len(recv[1]) == 1 and env.get(recv[1][0]) == 'encerr':
                return k(f"{recv[1][0]}.offset", 'nat')
            if f == '0':
                return self.E(recv, env, ctx, lambda a, ta: k(a, 'bytes' if ta == 'ptrself' else ta) if ta in ('ptr', 'ptrself') else (_ for _ in ()).throw(Unsupported("tuple field")))
            raise Unsupported("field ." + f)
        if t == 'tuple':
            def go(i, acc):
                if i == len(e[1]): return k('(' + ', '.join(a for a, _ in acc) + ')', 'tuple:' + ','.join(t for _, t in acc))
                return self.E(e[1][i], env, ctx, lambda a, ta: go(i + 1, acc + [(a, ta)]))
            return go(0, [])
        if t == 'try':
            def after(a, ta):
                if is_res(ta):
                    if self.retkind != 'res' and not (self.retkind == 'mutdoc' and self.spec.get('docres') == 'res'):
                        raise Unsupported("? on a Result in a function not returning Result")
                    tt, te = res_parts(ta)
                    if a.startswith('(Res.ok ') and a.endswith(')') and a.count('(') == a.count(')'):
                        return k(a[len('(Res.ok '):-1], tt)
                    if a.startswith('(Res.err '): return ctx.ret(a)
                    v = self.fresh('v'); ev = self.fresh('e'); mv = self.fresh('m')
                    return paren(f"match {a} with\n| .err {ev} => {ctx.ret(f'(Res.err {ev})')}\n| .panic {mv} => {ctx.ret(f'(Res.panic {mv})')}\n| .ok {v} =>\n{ind(k(v, tt))}")
                if is_opt(ta) and self.retkind == 'mutdoc' and not self.spec.get('docres'):
                    v = self.fresh('v')
                    return paren(f"match {a} with\n| none => {ctx.ret('.ok none')}\n| some {v} =>\n{ind(k(v, opt_inner(ta)))}")
                if is_opt(ta) and self.retkind == 'pure' and self.rtype.startswith('Option'):
                    v = self.fresh('v')
                    return paren(f"match {a} with\n| none => {ctx.ret('none')}\n| some {v} =>\n{ind(k(v, opt_inner(ta)))}")
                if ta != 'optnat': raise Unsupported("? on " + ta)
                if self.retkind != 'optres': raise Unsupported("? in a function not returning Option")
                v = self.fresh('v')
                return paren(f"match {a} with\n| none => {ctx.ret('.ok none')}\n| some {v} =>\n{ind(k(v, 'nat'))}")
            return self.E(e[1], env, ctx, after)
        if t == 'index':
            recv, ix = e[1], e[2]
            if ix[0] == 'range':
                return self.slice(recv, ix, env, ctx, k)
            def after(r, tr):
                if tr == 'aref':
                    def after_a(i, ti):
                        c = self.fresh('c')
                        return paren(f"match {r}.2[{i}]? with\n| none => {ctx.ret(PANIC_IDX)}\n| some {c} =>\n{ind(k(f'({r}.1 ++ [Step.idx {i}], {c})', 'vref'))}")
                    return self.E(ix, env, ctx, after_a)
                if tr not in ('bytes', 'tok'): raise Unsupported("indexing a " + tr)
                def after2(i, ti):
                    v = self.fresh('b')
                    return paren(f"match {r}[{i}]? with\n| none => {ctx.ret(PANIC_IDX)}\n| some {v} =>\n{ind(k(v, 'nat'))}")
                return self.E(ix, env, ctx, after2)
            if self.retkind == 'pure': raise Unsupported("checked index in a function that cannot panic")
            return self.E(recv, env, ctx, after)
        if t == 'call':
            f = e[1]
            if f[0] != 'path': raise Unsupported("call of a non-path")
            ps = self.pathstr(f[1]); args = e[2]
            if ps in ('Ok', 'Err') and len(args) == 1:
                arg = args[0]
                if arg[0] == 'tuple' and not arg[1]: return k(f"(Res.{ps.lower()} ())", mk_res('unit', '?') if ps == 'Ok' else mk_res('?', 'unit'))
                return self.E(arg, env, ctx, lambda a, ta: k(f"(Res.{ps.lower()} {a})", mk_res(ta, '?') if ps == 'Ok' else mk_res('?', ta)))
            if ps == 'parse_index' and len(args) == 4:
                def go(i, acc):
                    if i == 4: return k(f"(resolve.parse_index {' '.join(acc)})", mk_res('nat', 'resolveerr'))
                    return self.E(args[i], env, ctx, lambda a, ta: go(i + 1, acc + [a]))
                return go(0, [])
            if ps == 'Some' and len(args) == 1:
                return self.E(args[0], env, ctx, lambda a, ta: k(f"(some {a})", mk_opt('bytes' if ta in BYTESLIKE else ta)))
            if ps in ('Vec::with_capacity', 'String::with_capacity') and len(args) == 1:
                return k('([] : Bytes)', 'bytes')
            if ps in ('core::mem::replace', 'mem::replace', 'std::mem::replace') and len(args) == 2 and args[0] == ('un', '&', ('field', ('path', ['self']), '0')) and env.get('self_0') == 'bytes':
                old = self.fresh('old')
                return self.E(args[1], env, ctx, lambda a, ta: f"let {old} := self_0\nlet self_0 := {a}\n{k(old, 'bytes')}")
            if ps in ('core::mem::take', 'mem::take', 'std::mem::take') and len(args) == 1 and args[0] == ('un', '&', ('field', ('path', ['self']), '0')) and env.get('self_0') == 'bytes':
                old = self.fresh('old')
                return f"let {old} := self_0\nlet self_0 := ([] : Bytes)\n{k(old, 'bytes')}"
            if ps in ('mem::replace', 'core::mem::replace', 'std::mem::replace') and len(args) == 2 and args[0] == ('path', ['self']) and env.get('self_doc') == 'val':
                old = self.fresh('old')
                return self.E(args[1], env, ctx, lambda a, ta: f"let {old} := self_doc\nlet self_doc := {a}\n{k(old, 'val')}" if ta == 'val' else self.bad("mem::replace with " + ta))
            if ps.endswith('mem::replace') and len(args) == 2 and env.get('self_doc') == 'val' and args[0] != ('path', ['self']):
                # `mem::replace(r, v)` through a reference into the document: read the old node, write the new one at its location
                def aft_place(r, tr):
                    if tr != 'vref': raise Unsupported("mem::replace through " + tr)
                    def aft_new(a, ta):
                        if ta != 'val': raise Unsupported("mem::replace with " + ta)
                        t = self.fresh('t'); old = self.fresh('old')
                        return f"let {t} := {r}\nlet {old} := {t}.2\nlet self_doc := self_doc.setAt {t}.1 {a}\n{k(old, 'val')}"
                    return self.E(args[1], env, ctx, aft_new)
                return self.E(args[0], env, ctx, aft_place)
            if ps == 'expand' and len(args) == 2 and self.spec['file'].endswith('assign.rs'):
                fn = self.spec.get('backend', 'json') + '.expand'
                return self.E(args[0], env, ctx, lambda a, ta: self.E(args[1], env, ctx,
                              lambda b, tb: k(f"({fn} {a} {b})", 'val') if (ta == 'ptrself' and tb == 'val') else self.bad("expand(" + ta + ", " + tb + ")")))
            if ps in DOCCALLS and len(args) == DOCCALLS[ps][0] and env.get('self_doc') == 'val' and self.spec['file'].endswith('assign.rs'):
                fn = self.spec.get('backend', 'json') + '.' + ps
                def god(i, acc):
                    if i == len(args):
                        r = self.fresh('r')
                        return paren(f"match ({fn} self_doc {' '.join(acc)}) with\n| (self_doc, {r}) =>\n{ind(k(r, DOCCALLS[ps][1]))}")
                    return self.E(args[i], env, ctx, lambda a, ta: god(i + 1, acc + ['(([] : Loc), self_doc)' if ta == 'docref' else a]))
                return god(0, [])
            if ps == 'PartialOrd::partial_cmp' and len(args) == 2 and self.spec.get('cmpimpl'):
                def whole(a):
                    # `&x[..]` / `&x.0[..]`: the whole string
                    while a[0] == 'un' and a[1] in ('&', '*'): a = a[2]
                    if a[0] == 'index' and a[2][0] == 'range' and a[2][1] is None and a[2][2] is None: a = a[1]
                    return a
                return self.E(whole(args[0]), env, ctx, lambda a, ta: self.E(whole(args[1]), env, ctx,
                              lambda b, tb: k(f"(some (lexCmp {a} {b}))", 'optord') if (ta in BYTESLIKE and tb in BYTESLIKE) else self.bad("partial_cmp(" + ta + ", " + tb + ")")))
            if self.spec.get('door') and len(args) in (1, 2):
                tgt = {('validate_bytes', 2): ('validate_bytes', 'res(unit;parseerror)'), ('validate', 1): ('validate', 'res(bytes;parseerror)'),
                       ('Pointer::parse', 1): ('Pointer.parse', 'res(bytes;parseerror)'), ('Self::try_from', 1): ('PointerBuf.try_from_str', 'res(bytes;parseerror)')}.get((ps, len(args)))
                if tgt and not (ps == 'Self::try_from' and self.spec['id'] != 'BufFromStr'):
                    def god2(i, acc):
                        if i == len(args): return k(f"({tgt[0]} {' '.join(acc)})", tgt[1])
                        return self.E(args[i], env, ctx, lambda a, ta: god2(i + 1, acc + [a]))
                    return god2(0, [])
            if self.spec.get('serde') and ps in ('<qualified>::serialize', 'String::serialize', 'str::serialize') and len(args) == 2 and args[1] == ('path', ['serializer']):
                return self.E(args[0], env, ctx, lambda a, ta: k(a, 'bytes') if ta in BYTESLIKE else self.bad("serialize of " + ta))
            if self.spec.get('serde') and ps == 'String::deserialize' and len(args) == 1:
                # the carrier holds one string and hands it over
                return self.E(args[0], env, ctx, lambda a, ta: k(f"(Res.ok {a})", mk_res('bytes', 'doorerr')) if ta == 'strcarrier' else self.bad("String::deserialize(" + ta + ")"))
            if self.spec.get('serde') and ps == 'PointerBuf::try_from' and len(args) == 1:
                return self.E(args[0], env, ctx, lambda a, ta: k(f"(PointerBuf.try_from_string {a})", mk_res('bytes', 'parseerror')) if ta in BYTESLIKE else self.bad("PointerBuf::try_from(" + ta + ")"))
            if ps == 'Tokens::new' and len(args) == 1 and self.spec.get('iter'):
                return self.E(args[0], env, ctx, lambda a, ta: k(a, 'tokensiter') if ta == 'split' else self.bad("Tokens::new(" + ta + ")"))
            if ps == 'Label::new' and len(args) == 3:
                return self.E(args[1], env, ctx, lambda o, to: self.E(args[2], env, ctx,
                              lambda l, tl: k(f"({o}, {l})", 'label') if (to == 'nat' and tl == 'nat') else self.bad("Label::new(_, " + to + ", " + tl + ")")))
            if ps in ('Box::new', 'once', 'iter::once', 'core::iter::once') and len(args) == 1:
                return self.E(args[0], env, ctx, lambda a, ta: k(a, ta) if ta == 'label' else self.bad(ps + "(" + ta + ")"))
            if ps == 'Index::from_str' and len(args) == 1 and self.spec['id'].startswith('IndexTryFrom'):
                return self.E(args[0], env, ctx, lambda a, ta: k(f"(Index.from_str {a})", mk_res('index', 'pie')) if ta in BYTESLIKE else self.bad("Index::from_str(" + ta + ")"))
            if ps == 'Table::default' and not args: return k('TABLE0', 'table0')
            if ps in ('Map::new', 'Table::new', 'toml::Table::new', 'serde_json::Map::new') and not args: return k('([] : List (Bytes × Val))', 'kvlist')
            if ps == 'Value::Array' and len(args) == 1:
                return self.E(args[0], env, ctx, lambda a, ta: k(f"(Val.arr {a})", 'val') if ta == 'vallist' else self.bad("Value::Array(" + ta + ")"))
            if ps in ('Value::Object', 'Value::Table') and len(args) == 1:
                return self.E(args[0], env, ctx, lambda a, ta: k(f"(Val.obj {a})", 'val') if ta == 'kvlist' else self.bad(ps + "(" + ta + ")"))
            if ps in ('Vec::new', 'String::new') and not args: return k('([] : Bytes)', 'bytes')
            if ps == 'String::from' and len(args) == 1: return self.E(args[0], env, ctx, lambda a, ta: k(a, 'bytes') if ta in BYTESLIKE else self.bad("String::from(" + ta + ")"))
            if ps == 'ParseIndexError::InvalidCharacter' and len(args) == 1:
                return self.E(args[0], env, ctx, lambda a, ta: k(a, 'pie') if ta == 'pie' else self.bad("InvalidCharacter(" + ta + ")"))
            if ps in ('PointerBuf', 'Self') and len(args) == 1 and self.spec['lean'].startswith('PointerBuf.'):
                return self.E(args[0], env, ctx, lambda a, ta: k(a, 'bytes') if ta in BYTESLIKE else self.bad("PointerBuf(" + ta + ")"))
            if ps in ('String::from_utf8_unchecked', 'core::str::from_utf8_unchecked', 'str::from_utf8_unchecked',
                      'Pointer::new_unchecked', 'Self::new_unchecked', 'Token::from_encoded_unchecked') and len(args) == 1:
                return self.E(args[0], env, ctx, lambda a, ta: k(a, 'bytes' if ta in BYTESLIKE else ta))
            if ps in ('Self::root', 'Pointer::root') and not args: return k('([] : Bytes)', 'bytes')
            if ps == 'Cow::Owned' and len(args) == 1:
                return self.E(args[0], env, ctx, lambda a, ta: k(f"(Cow.owned {a})", 'cow') if ta in ('bytes', 'tok') else self.bad("Cow::Owned of " + ta))
            if ps == 'Cow::Borrowed' and len(args) == 1:
                return self.E(args[0], env, ctx, lambda a, ta: k(f"(Cow.borrowed {a})", 'cow') if ta in ('bytes', 'tok') else self.bad("Cow::Borrowed of " + ta))
            for ty, ctors in ENUMS.items():
                for (lc, rps, fts) in ctors:
                    if ps in rps and len(fts) == len(args) == 1 and ty in ENUM_PREFIX:
                        pre = ENUM_PREFIX[ty]
                        def aft_ctor(a, ta, fts=fts, lc=lc, ty=ty, pre=pre):
                            if fts[0].startswith('opt(') and not is_opt(ta): raise Unsupported(f"{ps}({ta})")
                            return k(f"({pre}{lc} {a})", ty)
                        return self.E(args[0], env, ctx, aft_ctor)
            raise Unsupported("call " + ps)
        if t == 'struct':
            ps = self.pathstr(e[1]); fields = dict(e[2])
            if ps == 'Self' and self.spec.get('selfstruct') == 'id' and list(fields) == ['inner']:
                def after(a, ta):
                    if ta == 'cow': return k(a, 'cow')
                    if ta in ('bytes', 'tok'): return k(a, 'bytes')
                    raise Unsupported("Self { inner } of " + ta)
                inner = fields['inner']
                if inner[0] == 'mcall' and inner[2] == 'into' and not inner[3]:
                    inner = inner[1]
                return self.E(inner, env, ctx, after)
            if ps == 'Self' and self.spec['id'] == 'ComponentsFrom' and set(fields) == {'sent_root', 'tokens'}:
                order = [f for f, _ in e[2]]; vals = {}
                def gos(i):
                    if i == len(order): return k(f"(Components.mk {vals['sent_root']} {vals['tokens']})", 'components')
                    def aft_s(a, ta, i=i):
                        if ta != {'sent_root': 'bool', 'tokens': 'tokensiter'}[order[i]]: raise Unsupported(f"field {order[i]} of type {ta}")
                        vals[order[i]] = a; return gos(i + 1)
                    return self.E(fields[order[i]], env, ctx, aft_s)
                return gos(0)
            if ps == 'EncodingError' and set(fields) == {'offset', 'source'}:
                return self.E(fields['offset'], env, ctx, lambda o, _: self.E(fields['source'], env, ctx,
                              lambda s, ts: k(f"(EncErr.mk {o} {s})", 'encerr') if ts == 'enckind' else self.bad("EncodingError.source")))
            if ps == 'OutOfBoundsError' and set(fields) == {'length', 'index'}:
                return self.E(fields['length'], env, ctx, lambda l, _: self.E(fields['index'], env, ctx,
                              lambda i, __: k(f"(OobErr.mk {l} {i})", 'ooberr')))
            if ps == 'ParseError::InvalidEncoding' and set(fields) == {'offset', 'source'}:
                def after(o, _):
                    def after2(s, ts):
                        if ts != 'encerr': raise Unsupported("InvalidEncoding.source")
                        return k(f"(ParseError.invalidEncoding {o} {s}.offset {s}.kind)", 'parseerror')
                    return self.E(fields['source'], env, ctx, after2)
                return self.E(fields['offset'], env, ctx, after)
            if ps in ('Error::FailedToParseIndex', 'Error::OutOfBounds', 'Error::NotFound', 'Error::Unreachable') and self.spec['file'].endswith('resolve.rs'):
                ctor = {'Error::FailedToParseIndex': 'failedToParseIndex', 'Error::OutOfBounds': 'outOfBounds', 'Error::NotFound': 'notFound',
                        'Error::Unreachable': 'unreachable'}[ps]
                want = ['position', 'offset'] + (['source'] if ctor in ('failedToParseIndex', 'outOfBounds') else [])
                if sorted(fields) != sorted(want): raise Unsupported("fields of " + ps)
                def go(i, acc):
                    if i == len(want): return k(f"(ResolveErr.{ctor} {' '.join(acc)})", 'resolveerr')
                    return self.E(fields[want[i]], env, ctx, lambda a, ta: go(i + 1, acc + [a]))
                return go(0, [])
            if ps in ('Error::FailedToParseIndex', 'Error::OutOfBounds') and self.spec['file'].endswith('assign.rs'):
                ctor = {'Error::FailedToParseIndex': 'failedToParseIndex', 'Error::OutOfBounds': 'outOfBounds'}[ps]
                want = ['position', 'offset', 'source']
                if sorted(fields) != sorted(want): raise Unsupported("fields of " + ps)
                def goa(i, acc):
                    if i == len(want): return k(f"(AssignErr.{ctor} {' '.join(acc)})", 'assignerr')
                    return self.E(fields[want[i]], env, ctx, lambda a, ta: goa(i + 1, acc + [a]))
                return goa(0, [])
            if ps in ENUM_FIELDS and [f for f, _ in e[2]] and sorted(fields) == sorted(ENUM_FIELDS[ps]):
                # fields are evaluated in the order they are written, the constructor takes them in declaration order
                order = [f for f, _ in e[2]]; vals = {}
                def gof(i):
                    if i == len(order): return k(f"(Assigned.cont {vals['next_dest'][0]} {vals['same_value'][0]})", 'assigned')
                    def aft_f(a, ta, i=i):
                        vals[order[i]] = (a, ta)
                        want_t = {'next_dest': 'vref', 'same_value': 'val'}[order[i]]
                        if ta != want_t: raise Unsupported(f"field {order[i]} of type {ta}")
                        return gof(i + 1)
                    return self.E(fields[order[i]], env, ctx, aft_f)
                return gof(0)
            if ps == 'ReplaceError' and set(fields) == {'count', 'index'}:
                return self.E(fields['index'], env, ctx, lambda iv, _: self.E(fields['count'], env, ctx,
                              lambda cv, __: k(f"(ReplaceErr.mk {iv} {cv})", 'replaceerr')))
            if ps == 'InvalidCharacterError' and set(fields) == {'source', 'offset'}:
                return self.E(fields['source'], env, ctx, lambda sv, _: self.E(fields['offset'], env, ctx,
                              lambda ov, __: k(f"(ParseIndexError.invalidCharacter {sv} {ov})", 'pie')))
            raise Unsupported("struct literal " + ps)
        if t == 'matchesm':
            def after_m(a, ta):
                code = self.compile_match([([e[2]], None, True), ([('pwild',)], None, False)], [(a, ta)], env, lambda pl, env2: 'true' if pl else 'false')
                return k(code, 'bool')
            return self.E(e[1], env, ctx, after_m)
        if t == 'writefmt':
            if self.retkind != 'fmt': raise Unsupported("write! outside a Display impl")
            fmt = bytes(e[2]); fargs = e[3]
            def shown(a, ta):
                if ta == 'cow': return k(f"{a}.bytes", 'bytes')
                if ta in BYTESLIKE: return k(a, 'bytes')
                if ta == 'nat': return k(f"(decimal {a})", 'bytes')
                raise Unsupported("Display of " + ta)
            if fmt == b"{}" and len(fargs) == 1: return self.E(fargs[0], env, ctx, shown)
            m = re.fullmatch(rb"\{(\w+)\}", fmt)
            if m and not fargs and m.group(1).decode() in env: return shown(m.group(1).decode(), env[m.group(1).decode()])
            if b"{" not in fmt and not fargs: return k('[' + ', '.join(str(b) for b in fmt) + ']', 'bytes')
            raise Unsupported("format string " + fmt.decode('utf-8', 'replace'))
        if t == 'mcall' and self.retkind == 'fmt' and e[2] == 'fmt' and len(e[3]) == 1 and e[3][0] == ('path', ['f']):
            return self.E(e[1], env, ctx, lambda a, ta: k(a, 'bytes') if ta in BYTESLIKE else (k(f"(decimal {a})", 'bytes') if ta == 'nat' else self.bad("fmt of " + ta)))
        if t == 'mcall' and self.retkind == 'fmt' and e[2] == 'write_str' and e[1] == ('path', ['f']) and len(e[3]) == 1:
            return self.E(e[3][0], env, ctx, lambda a, ta: k(a, 'bytes') if ta in BYTESLIKE else self.bad("write_str of " + ta))
        if t == 'mcall':
            return self.mcall(e, env, ctx, k)
        if t == 'match':
            arms = [([p], g, b) for (p, g, b) in e[2]]
            def after_scrut(a, ta):
                code = self.compile_match(arms, [(a, ta)], env, lambda body, env2: self.E(body, env2, ctx, k))
                if code is None: raise Unsupported("empty match")
                return code
            return self.E(e[1], env, ctx, after_scrut)
        if t == 'block' and e[2] is not None:
            if not e[1]: return self.E(e[2], env, ctx, k)
            if all(st[0] == 'let' for st in e[1]):
                return paren(self.S(list(e[1]), env, ctx, lambda env2: self.E(e[2], env2, ctx, k)))
            raise Unsupported("block expression with statements")
        raise Unsupported("expression " + t)

    def term(self, e, env):
        """translate a pure expression to a Lean term (let-chains and matches allowed); returns (term, type)"""
        out = []
        def nope(t): raise Unsupported("control flow inside a closure or value expression")
        code = self.E(e, env, Ctx(nope), lambda a, ta: (out.append(ta) or a))
        if not out: raise Unsupported("value expression")
        if any(t != out[0] for t in out): raise Unsupported("value expression of varying type")
        return (paren(code) if ('\n' in code and not code.startswith('(')) else code), out[0]
    def closure_head(self, cl, inner, env):
        """(lean binder, env inside) for a one-parameter closure applied to a value of type `inner`"""
        if len(cl[1]) != 1: raise Unsupported("closure arity")
        p = self.strip_ref(cl[1][0]); env2 = dict(env)
        if p[0] == 'pbind':
            env2[p[1]] = inner; return p[1], env2
        if p[0] == 'pwild': return '_', env2
        if p[0] == 'ptuple' and inner.startswith('tuple:'):
            tys = inner.split(':', 1)[1].split(',')
            if len(tys) != len(p[1]): raise Unsupported("closure tuple arity")
            names = []
            for q, t2 in zip(p[1], tys):
                q = self.strip_ref(q)
                if q[0] == 'pbind': env2[q[1]] = t2; names.append(q[1])
                elif q[0] == 'pwild': names.append('_')
                else: raise Unsupported("closure pattern")
            return '(' + ', '.join(names) + ')', env2
        raise Unsupported("closure pattern")
    def rename(self, node, old, new):
        if isinstance(node, list): return [self.rename(c, old, new) for c in node]
        if isinstance(node, tuple):
            if node and node[0] == 'path' and node[1] == [old]: return ('path', [new])
            if node and node[0] == 'pbind' and node[1] == old: return ('pbind', new)
            return tuple(self.rename(c, old, new) for c in node)
        return node
    def has_stmts(self, e):
        if not isinstance(e, tuple) or not e: return False
        if e[0] == 'block': return bool(e[1]) or self.has_stmts(e[2])
        if e[0] in ('if',): return self.has_stmts(e[2]) or self.has_stmts(e[3])
        if e[0] == 'iflet': return self.has_stmts(e[3]) or self.has_stmts(e[4])
        return False
    def V(self, e, env, ctx, kv):
        """value of a control-flow expression whose branches may contain statements and effects; kv(term, type, env)"""
        t = e[0]
        if t == 'block':
            if e[2] is None: raise Unsupported("block without a value")
            return self.S(list(e[1]), env, ctx, lambda env2: self.V(e[2], env2, ctx, kv))
        if t == 'if':
            if e[3] is None: raise Unsupported("value `if` without else")
            return self.C(e[1], env, ctx, self.V(self.as_block(e[2]), env, ctx, kv), self.V(self.as_block(e[3]), env, ctx, kv))
        if t == 'iflet':
            pat = self.strip_ref(e[1])
            if e[4] is None or not (pat[0] == 'pctor' and self.pathstr(pat[1]) == 'Some' and len(pat[2]) == 1 and pat[2][0][0] == 'pbind'):
                raise Unsupported("value `if let` shape")
            v = pat[2][0][1]
            def after(a, ta):
                if not is_opt(ta): raise Unsupported("if let on " + ta)
                env2 = dict(env); env2[v] = opt_inner(ta)
                return paren(f"match {a} with\n| some {v} =>\n{ind(self.V(self.as_block(e[3]), env2, ctx, kv))}\n| none =>\n{ind(self.V(self.as_block(e[4]), env, ctx, kv))}")
            return self.E(e[2], env, ctx, after)
        return self.E(e, env, ctx, lambda a, ta: kv(a, ta, env))
    def bad(self, what):
        raise Unsupported(what)

    def mcall(self, e, env, ctx, k):
        recv, name, args = e[1], e[2], e[3]
        # pointer.get(<range>) — dispatch to the sibling impls (Bound pair)
        if name == 'get' and len(args) == 1 and args[0][0] == 'range':
            r = args[0]
            def after(p, tp):
                if tp != 'ptr': raise Unsupported("get on " + tp)
                lo, hi, incl = r[1], r[2], r[3]
                fn = {(True, True, False): 'Range.get', (True, False, False): 'RangeFrom.get', (False, True, False): 'RangeTo.get',
                      (False, False, False): 'RangeFull.get', (True, True, True): 'RangeInclusive.get',
                      (False, True, True): 'RangeToInclusive.get'}.get((lo is not None, hi is not None, incl))
                if fn is None: raise Unsupported("range form")
                parts = [x for x in (lo, hi) if x is not None]
                def go(i, acc):
                    if i == len(parts): return k(f"({fn} {' '.join(acc + [p])})", 'optres-call')
                    return self.E(parts[i], env, ctx, lambda a, ta: go(i + 1, acc + [a]))
                return go(0, [])
            return self.E(recv, env, ctx, after)
        if self.spec.get('iter') and name == 'next' and not args:
            place = None
            if recv[0] == 'path' and len(recv[1]) == 1 and env.get(recv[1][0]) in ('split', 'tokensiter'): place = (recv[1][0], env[recv[1][0]])
            if recv[0] == 'field' and recv[1] == ('path', ['self']) and ('self.' + recv[2]) in env:
                term, ty = _alias_parts(env['self.' + recv[2]])
                if ty in ('split', 'tokensiter'): place = (term, ty)
            if place is None: raise Unsupported("next() on something that is not an iterator place")
            fn = 'Split.next' if place[1] == 'split' else 'Tokens.next'
            it = self.fresh('it')
            return paren(f"match ({fn} {place[0]}) with\n| ({it}, {place[0]}) =>\n{ind(k(it, 'opt(tok)'))}")
        def after(r, tr):
            if name == 'len' and not args:
                if tr in BYTESLIKE: return k(f"{r}.length", 'nat')
                if tr == 'cow': return k(f"{r}.bytes.length", 'nat')
            if name in ('bytes', 'as_bytes', 'as_str', 'as_ref') and not args:
                if tr in BYTESLIKE: return k(r, tr)
                if tr == 'cow': return k(f"{r}.bytes", 'bytes')
            if name == 'encoded' and not args and tr in ('tok', 'bytes'): return k(r, 'bytes')
            if name == 'into' and not args and tr == 'intocow': return k(f"(Cow.borrowed {r})", 'cow')
            if name == 'tokens' and not args and tr == 'ptr': return k(f"(tokens {r})", 'toklist')
            if name == 'enumerate' and not args and tr in ('bytes', 'toklist'): return k(r, 'enum:' + tr)
            if name == 'iter' and not args and tr in ('bytes',): return k(r, tr)
            if name == 'position' and len(args) == 1 and args[0][0] == 'closure' and tr in ('bytes', 'tok'):
                cl = args[0]
                if len(cl[1]) != 1: raise Unsupported("closure arity")
                p = cl[1][0]
                while p[0] == 'pref': p = p[1]
                if p[0] != 'pbind': raise Unsupported("closure parameter pattern")
                env2 = dict(env); env2[p[1]] = 'nat'
                return k(f"(position (fun {p[1]} => {self.B(cl[2], env2)}) {r})", 'optnat')
            if name == 'checked_add' and len(args) == 1 and tr == 'nat':
                return self.E(args[0], env, ctx, lambda a, ta: k(f"(if {r} + {a} ≤ usizeMax then some ({r} + {a}) else none)", 'optnat'))
            if name == 'into_inner' and not args and tr.startswith('tuple:'): return k(r, tr)
            if tr in BYTESLIKE and name == 'chars' and not args and self.spec['id'] == 'IndexFromStr': return k(r, 'bytes')
            if tr == 'nat' and name == 'is_ascii_digit' and not args: return k(f"(isDigit {r})", 'bool')
            if tr in BYTESLIKE and name == 'parse' and not args and self.spec['id'] == 'IndexFromStr':
                return k(f"(parseUsize {r})", mk_res('nat', 'pie'))      # `s.parse::<usize>()` with the error already as ParseIndexError
            if is_res(tr) and name == 'map' and len(args) == 1 and args[0] == ('path', ['Index', 'Num']):
                tt, te = res_parts(tr); a = self.fresh('a'); ev = self.fresh('e'); m = self.fresh('m')
                return k(paren(f"match {r} with\n| .ok {a} => Res.ok (Index.num {a})\n| .err {ev} => Res.err {ev}\n| .panic {m} => Res.panic {m}"), mk_res('index', te))
            if is_res(tr) and name == 'map_err' and len(args) == 1 and args[0] in (('path', ['ParseIndexError', 'from']), ('path', ['ParseIndexError', 'from_'])): return k(r, tr)
            if self.spec.get('cmpimpl') and tr in BYTESLIKE and name in ('eq', 'partial_cmp') and len(args) == 1:
                def aft_cmp(a, ta):
                    if ta not in BYTESLIKE: raise Unsupported(name + "(" + ta + ")")
                    return k(f"({r} == {a})", 'bool') if name == 'eq' else k(f"(some (lexCmp {r} {a}))", 'optord')
                return self.E(args[0], env, ctx, aft_cmp)
            if tr == 'intotoken' and name == 'into' and not args: return k(r, 'tok')
            if tr == 'ptrself' and name == 'to_buf' and not args: return k(r, 'bufval')
            if self.spec.get('iter') and tr == 'ptrself' and name == 'tokens' and not args: return k(f"(Pointer.tokens_iter {r})", 'tokensiter')
            if self.spec.get('iter') and tr in BYTESLIKE and name == 'split' and len(args) == 1 and args[0] == ('char', '/'): return k(f"(Split.mk (some {r}))", 'split')
            if self.spec.get('iter') and is_opt(tr) and name == 'map' and len(args) == 1 and args[0] == ('path', ['Component', 'Token']):
                return k(f"(Option.map Component.token {r})", 'opt(component)')
            if tr == 'asrefptr' and name == 'as_ref' and not args: return k(r, 'ptrself')
            if tr == 'tok' and name == 'to_string' and not args: return k(f"(Token.toString {r})", 'bytes')     # Display = decoded
            if tr in BYTESLIKE and name in ('to_string', 'to_owned', 'clone') and not args: return k(r, 'bytes')
            if tr == 'toklist' and name == 'into_iter' and not args: return k(r, 'toklist')
            if tr == 'toklist' and name == 'map' and len(args) == 1 and args[0] == ('path', ['Into', 'into']): return k(r, 'toklist')
            if name == 'split_off' and len(args) == 1 and recv == ('field', ('path', ['self']), '0') and env.get('self_0') == 'bytes':
                tl = self.fresh('tail')
                return self.E(args[0], env, ctx, lambda n, tn: f"let {tl} := self_0.drop {n}\nlet self_0 := self_0.take {n}\n{k(tl, 'bytes')}")
            # ---- tree walks ------------------------------------------------------------------------
            if tr == 'tok' and name == 'to_string' and not args: return k(f"(Token.toString {r})", 'bytes')
            if tr == 'tok' or (tr in ('bytes',) and name in ('to_index', 'decoded')):
                if name == 'to_index' and not args: return k(f"(Token.toIndex {r})", mk_res('index', 'pie'))
                if name == 'decoded' and not args: return k(f"(Token.decoded {r})", 'cow')
            if tr == 'cow' and name in ('as_ref', 'as_str') and not args: return k(f"{r}.bytes", 'bytes')
            if tr == 'aref' and name == 'len' and not args: return k(f"{r}.2.length", 'nat')
            if tr == 'oref' and name in ('get', 'get_mut') and len(args) == 1:
                def aft_key(a, ta):
                    if ta not in BYTESLIKE: raise Unsupported("map key of type " + ta)
                    c = self.fresh('c')
                    return k(f"(Option.map (fun {c} => ({r}.1 ++ [Step.key {a}], {c})) (lookup {a} {r}.2))", 'opt(vref)')
                return self.E(args[0], env, ctx, aft_key)
            if tr == 'parseerror' and self.spec.get('errns') == 'ParseError' and name in ('source_offset', 'pointer_offset', 'complete_offset') and not args:
                return k(f"(ParseError.{name} {r})", 'nat')
            if tr == 'parseerror' and self.spec.get('errns') == 'ParseError' and name == 'invalid_encoding_len' and len(args) == 1:
                return self.E(args[0], env, ctx, lambda a, ta: k(f"(ParseError.invalid_encoding_len {r} {a})", 'nat') if ta in BYTESLIKE else self.bad("invalid_encoding_len(" + ta + ")"))
            if tr in ('resolveerr', 'assignerr') and name in ('position', 'offset') and not args and self.spec.get('errns'):
                return k(f"({self.spec['errns']}.Error.{name} {r})", 'nat')
            if tr == 'bufref' and name == 'get' and len(args) == 1 and args[0][0] != 'range':
                return self.E(args[0], env, ctx, lambda i, ti: k(f"(getToken {r} {i})", 'opt(tok)') if ti == 'nat' else self.bad("get(" + ti + ")"))
            if tr == 'bufref' and name in ('as_str', 'as_ref') and not args: return k(r, 'bytes')
            if tr in ('tok', 'tokself') and name == 'try_into' and not args and self.spec['id'] == 'TokenToIndex':
                return k(f"(Index.try_from_token_ref {r})", mk_res('index', 'pie'))      # `&Token -> Index`: the only `TryFrom<&Token>` the crate has
            if tr == 'index' and name == 'for_len_incl' and len(args) == 1:
                return self.E(args[0], env, ctx, lambda a, ta: k(f"(Index.for_len_incl {r} {a})", mk_res('nat', 'ooberr')))
            if tr == 'oref' and name == 'entry' and len(args) == 1:
                return self.E(args[0], env, ctx, lambda a, ta: k(f"({r}, {a})", 'entry') if ta in BYTESLIKE else self.bad("entry(" + ta + ")"))
            if tr == 'occentry' and name == 'into_mut' and not args: return k(r, 'vref')
            if tr == 'intoval' and name == 'into' and not args: return k(r, 'val')
            if tr == 'index' and name == 'for_len' and len(args) == 1:
                return self.E(args[0], env, ctx, lambda a, ta: k(f"(Index.for_len {r} {a})", mk_res('nat', 'ooberr')))
            if is_res(tr) and name == 'map' and len(args) == 1 and self.spec.get('door'):
                tt, te = res_parts(tr); a = self.fresh('a'); ev = self.fresh('e'); m = self.fresh('m')
                if args[0][0] == 'closure':
                    pat, env2 = self.closure_head(args[0], tt, env)
                    body, tb = self.term(args[0][2], env2)
                elif args[0] == ('path', ['Pointer', 'to_buf']) and tt in BYTESLIKE: pat, body, tb = a, a, 'bytes'
                else: raise Unsupported("map with " + str(args[0][0]))
                return k(paren(f"match {r} with\n| .ok {pat} => Res.ok {body}\n| .err {ev} => Res.err {ev}\n| .panic {m} => Res.panic {m}"), mk_res('bytes' if tb in BYTESLIKE else tb, te))
            if tr == 'parseerror' and name == 'into_report' and len(args) == 1 and self.spec.get('door'):
                return self.E(args[0], env, ctx, lambda a, ta: k(f"({r}, {a})", 'report') if ta in BYTESLIKE else self.bad("into_report(" + ta + ")"))
            if tr in BYTESLIKE and name == 'into' and not args and self.spec.get('door'): return k(r, 'bytes')
            if is_res(tr) and name == 'ok' and not args:
                tt, te = res_parts(tr)
                if self.retkind not in ('mutdoc', 'res', 'optres'): raise Unsupported(".ok() where a panic cannot be propagated")
                o = self.fresh('o'); mv = self.fresh('m')
                pan = ctx.ret(f"(Res.panic {mv})") if self.retkind != 'optres' else ctx.ret(f".panic {mv}")
                # a panic inside the callee is not swallowed by `.ok()`: it propagates; otherwise Ok(v) ↦ Some(v), Err(_) ↦ None
                return paren(f"match panicOf {r} with\n| some {mv} => {pan}\n| none =>\n" + ind(f"let {o} := okOf {r}\n" + k(o, mk_opt(tt))))
            if is_res(tr) and name == 'map_err' and len(args) == 1 and self.spec.get('serde'):
                f0 = args[0]; custom = False
                if f0[0] == 'path' and f0[1][-1] == 'custom': custom = True
                if f0[0] == 'closure':
                    b = f0[2]
                    while b[0] == 'block' and not b[1] and b[2] is not None: b = b[2]
                    if b[0] == 'call' and b[1][0] == 'path' and b[1][1][-1] == 'custom': custom = True
                if not custom: raise Unsupported("map_err into something other than a serde custom error")
                tt, te = res_parts(tr); a = self.fresh('a'); m = self.fresh('m')
                return k(paren(f"match {r} with\n| .ok {a} => Res.ok {a}\n| .err _ => Res.err DoorErr.de\n| .panic {m} => Res.panic {m}"), mk_res(tt, 'doorerr'))
            if is_res(tr) and name == 'map_err' and len(args) == 1 and args[0][0] == 'closure':
                tt, te = res_parts(tr)
                pat, env2 = self.closure_head(args[0], te, env)
                body, tb = self.term(args[0][2], env2)
                a = self.fresh('a'); m = self.fresh('m')
                return k(paren(f"match {r} with\n| .ok {a} => Res.ok {a}\n| .err {pat} => Res.err {body}\n| .panic {m} => Res.panic {m}"), mk_res(tt, tb))
            if is_opt(tr) and name == 'ok_or' and len(args) == 1:
                v = self.fresh('v')
                return self.E(args[0], env, ctx, lambda a, ta: k(paren(f"match {r} with\n| some {v} => Res.ok {v}\n| none => Res.err {a}"), mk_res(opt_inner(tr), ta)))
            if tr == 'ptrself' and name == 'resolve_mut' and len(args) == 1 and args[0] == ('path', ['self']) and env.get('self_doc') == 'val':
                fn = 'json.resolve_mut' if self.spec.get('backend') == 'json' else 'toml.resolve_mut'
                return k(f"({fn} self_doc {r})", mk_res('vref', 'resolveerr'))
            if tr == 'aref' and name == 'remove' and len(args) == 1 and env.get('self_doc') == 'val':
                def aft_rm(i, ti):
                    v = self.fresh('v')
                    pan = ctx.ret('(Res.panic "removal index (is idx) should be < len")')
                    upd = f"let self_doc := self_doc.setAt {r}.1 (Val.arr ({r}.2.eraseIdx {i}))" + chr(10) + k(v, 'val')
                    return paren(f"match {r}.2[{i}]? with" + chr(10) + f"| none => {pan}" + chr(10) + f"| some {v} =>" + chr(10) + ind(upd))
                return self.E(args[0], env, ctx, aft_rm)
            if tr == 'oref' and name == 'remove' and len(args) == 1 and env.get('self_doc') == 'val':
                def aft_rk(a, ta):
                    if ta not in BYTESLIKE: raise Unsupported("map key of type " + ta)
                    v = self.fresh('v')
                    return paren(f"match lookup {a} {r}.2 with\n| none =>\n{ind(k('none', 'opt(val)'))}\n| some {v} =>\n" +
                                 ind(f"let self_doc := self_doc.setAt {r}.1 (Val.obj (eraseKey {a} {r}.2))\n" + k(f"(some {v})", 'opt(val)')))
                return self.E(args[0], env, ctx, aft_rk)
            if tr == 'val' and name == 'into' and not args and self.retkind == 'mutdoc': return k(f"(some {r})", 'opt(val)')
            if tr == 'table0' and name == 'into' and not args: return k('(Val.obj [])', 'val')
            # ---- &Pointer / &str receivers -------------------------------------------------------
            if tr in BYTESLIKE:
                if name in SIBLINGS and tr == 'ptrself':
                    lname, lty = SIBLINGS[name]
                    def go(i, acc):
                        if i == len(args): return k(f"({lname} {' '.join([r] + acc)})", lty)
                        return self.E(args[i], env, ctx, lambda a, ta: go(i + 1, acc + [a]))
                    return go(0, [])
                if name in ('rsplit_once', 'split_once', 'find', 'rfind') and len(args) == 1 and args[0][0] == 'char':
                    fn = {'rsplit_once': 'rsplitOnce', 'split_once': 'splitOnce', 'find': 'find', 'rfind': 'rfind'}[name]
                    ty = 'optnat' if name in ('find', 'rfind') else 'opt(tuple:bytes,bytes)'
                    return self.E(args[0], env, ctx, lambda c, _: k(f"({fn} {c} {r})", ty))
                if name in ('strip_suffix', 'strip_prefix', 'starts_with', 'ends_with') and len(args) == 1:
                    if args[0][0] == 'char':
                        if name == 'starts_with': return self.E(args[0], env, ctx, lambda c, _: k(f"({r}.head? == some {c})", 'bool'))
                        raise Unsupported(name + " with a char")
                    fn = {'strip_suffix': 'stripSuffix', 'strip_prefix': 'stripPrefix', 'starts_with': 'startsWith', 'ends_with': 'endsWith'}[name]
                    ty = 'opt(bytes)' if name.startswith('strip') else 'bool'
                    def aft(a, ta):
                        if ta not in BYTESLIKE: raise Unsupported(name + " with " + ta)
                        return k(f"({fn} {r} {a})", ty)
                    return self.E(args[0], env, ctx, aft)
                if name == 'is_empty' and not args: return k(f"{r}.isEmpty", 'bool')
                if name == 'split_at' and len(args) == 1 and tr != 'ptrself':
                    return self.E(args[0], env, ctx, lambda n, _: k(f"({r}.take {n}, {r}.drop {n})", 'tuple:bytes,bytes'))
                if name == 'get' and len(args) == 1 and args[0][0] != 'range':
                    return self.E(args[0], env, ctx, lambda i, ti: k(f"{r}[{i}]?", 'optnat') if ti == 'nat' else self.bad("get(" + ti + ")"))
                if name == 'tokens' and not args and tr == 'ptrself': return k(f"(tokens {r})", 'toklist')
            if tr == 'toklist':
                if name == 'nth' and len(args) == 1: return self.E(args[0], env, ctx, lambda i, ti: k(f"{r}[{i}]?", 'opt(tok)') if ti == 'nat' else self.bad("nth(" + ti + ")"))
                if name == 'collect' and not args: return k(r, 'toklist')
                if name == 'len' and not args: return k(f"{r}.length", 'nat')
                if name == 'get' and len(args) == 1: return self.E(args[0], env, ctx, lambda i, ti: k(f"{r}[{i}]?", 'opt(tok)'))
                if name == 'count' and not args: return k(f"{r}.length", 'nat')
                if name == 'zip' and len(args) == 1:
                    return self.E(args[0], env, ctx, lambda a, ta: k(f"(List.zip {r} {a})", 'zip') if ta == 'toklist' else self.bad("zip with " + ta))
            if name == 'into' and not args and self.rtype.startswith('Option') and not is_opt(tr) and tr != 'intocow':
                return k(f"(some {r})", mk_opt('bytes' if tr in BYTESLIKE else tr))
            # ---- Option combinators ----------------------------------------------------------------
            if is_opt(tr):
                inner = opt_inner(tr)
                if name in ('copied', 'cloned') and not args: return k(r, tr)
                if name == 'map' and len(args) == 1 and args[0][0] == 'path' and args[0][1][-1] in ('to_owned', 'into_owned', 'clone'): return k(r, 'opt(bytes)' if inner in BYTESLIKE else tr)
                if name in ('map', 'filter') and len(args) == 1 and args[0][0] == 'closure':
                    pat, env2 = self.closure_head(args[0], inner, env)
                    if name == 'filter':
                        return k(f"(Option.filter (fun {pat} => {self.B(args[0][2], env2)}) {r})", tr)
                    body, tb = self.term(args[0][2], env2)
                    return k(f"(Option.map (fun {pat} => {body}) {r})", mk_opt('bytes' if tb in BYTESLIKE else tb))
                if name in ('map_or_else', 'map_or') and len(args) == 2 and args[1][0] == 'closure':
                    if name == 'map_or_else':
                        if args[0][0] != 'closure' or args[0][1]: raise Unsupported("map_or_else default")
                        d, td = self.term(args[0][2], env)
                    else: d, td = self.term(args[0], env)
                    pat, env2 = self.closure_head(args[1], inner, env)
                    body, tb = self.term(args[1][2], env2)
                    tb = 'bytes' if tb in BYTESLIKE else tb; td = 'bytes' if td in BYTESLIKE else td
                    if is_res(tb) and is_res(td):      # `Ok(..)` / `Err(..)` literals leave the other side open
                        (t1, e1), (t2, e2) = res_parts(td), res_parts(tb)
                        tu = t1 if t2 == '?' else t2; eu = e1 if e2 == '?' else e2
                        if (t1 in ('?', tu)) and (t2 in ('?', tu)) and (e1 in ('?', eu)) and (e2 in ('?', eu)): td = tb = mk_res(tu, eu)
                    if tb != td: raise Unsupported(f"map_or branches of different types ({td} / {tb})")
                    return k(paren(f"match {r} with\n| none => {d}\n| some {pat} => {body}"), tb)
                if name in ('is_some', 'is_none') and not args:
                    return k(f"{r}.isSome" if name == 'is_some' else f"{r}.isNone", 'bool')
            raise Unsupported(f"method {name} on {tr}")
        return self.E(recv, env, ctx, after)

    def slice(self, recv, rng, env, ctx, k):
        lo, hi, incl = rng[1], rng[2], rng[3]
        if incl: raise Unsupported("inclusive slice")
        def after(r, tr):
            if tr == 'ptr':
                # a view of the receiver: checked, and represented by its span
                if self.retkind != 'optres': raise Unsupported("view of a pointer outside an Option-returning function")
                def withlo(a):
                    def withhi(b):
                        return paren(f"if {a} ≤ {b} ∧ {b} ≤ {r}.length then\n{ind(k(f'({a}, {b})', 'span'))}\nelse {ctx.ret(PANIC_SLICE)}")
                    if hi is None: return withhi(f"{r}.length")
                    return self.E(hi, env, ctx, lambda b, _: withhi(b))
                if lo is None: return withlo('0')
                return self.E(lo, env, ctx, lambda a, _: withlo(a))
            if tr in ('bytes', 'tok', 'ptrself'):
                # sub-slice of a local byte buffer: take/drop (a start beyond the end is not modelled as a panic here)
                if lo is not None and hi is not None: raise Unsupported("two-sided sub-slice")
                if lo is None and hi is None: return k(r, 'bytes')
                if lo is None: return self.E(hi, env, ctx, lambda b, _: k(f"({r}.take {b})", 'bytes'))
                return self.E(lo, env, ctx, lambda a, _: k(f"({r}.drop {a})", 'bytes'))
            if tr == 'ptr' and self.retkind != 'optres':
                raise Unsupported("view of a pointer outside an Option-returning function")
            raise Unsupported("slice of " + tr)
        return self.E(recv, env, ctx, after)

    # pure boolean renderings ----------------------------------------------------------------------
    def pure(self, e, env):
        out = []
        code = self.E(e, env, Ctx(lambda t: (_ for _ in ()).throw(Unsupported("effect in a pure position"))), lambda a, ta: out.append((a, ta)) or a)
        if len(out) != 1 or code != out[0][0]: raise Unsupported("effect in a pure position")
        return out[0]
    def B(self, e, env):
        """Bool-valued Lean term"""
        t = e[0]
        if t == 'bin' and e[1] in ('&&', '||'):
            return f"({self.B(e[2], env)} {e[1]} {self.B(e[3], env)})"
        if t == 'bin' and e[1] in ('==', '!='):
            a, _ = self.pure(e[2], env); b, _ = self.pure(e[3], env)
            return f"({a} {e[1]} {b})"
        if t == 'bin' and e[1] in ('<', '<=', '>', '>='):
            a, _ = self.pure(e[2], env); b, _ = self.pure(e[3], env)
            op = {'<': '<', '<=': '≤', '>': '>', '>=': '≥'}[e[1]]
            return f"(decide ({a} {op} {b}))"
        if t == 'un' and e[1] == '!': return f"(!{self.B(e[2], env)})"
        a, ta = self.pure(e, env)
        if ta != 'bool': raise Unsupported("non-boolean condition")
        return a
    def P(self, e, env):
        """Prop-valued Lean term (for `if`)"""
        t = e[0]
        if t == 'bin' and e[1] == '&&': return f"({self.P(e[2], env)} ∧ {self.P(e[3], env)})"
        if t == 'bin' and e[1] == '||': return f"({self.P(e[2], env)} ∨ {self.P(e[3], env)})"
        if t == 'bin' and e[1] in ('==', '!=', '<', '<=', '>', '>='):
            a, ta = self.pure(e[2], env); b, tb = self.pure(e[3], env)
            op = {'==': '=', '!=': '≠', '<': '<', '<=': '≤', '>': '>', '>=': '≥'}[e[1]]
            return f"{a} {op} {b}"
        if t == 'un' and e[1] == '!': return f"¬ ({self.P(e[2], env)})"
        if t == 'bool': return 'True' if e[1] else 'False'
        if t == 'mcall' and e[2] in ('is_some', 'is_none', 'is_empty') and not e[3]:
            a, ta = self.pure(e[1], env)
            if e[2] == 'is_empty': return f"{a} = []" if ta in ('bytes', 'tok', 'ptr') else self.bad("is_empty on " + ta)
            return f"{a}.isSome = true" if e[2] == 'is_some' else f"{a} = none"
        a, ta = self.pure(e, env)
        if ta != 'bool': raise Unsupported("non-boolean condition")
        return f"{a} = true"

    def C(self, e, env, ctx, kt, kf):
        """condition with Rust's short-circuit order; kt/kf are code strings"""
        if not self.effectful(e):
            return paren(f"if {self.P(e, env)} then\n{ind(kt)}\nelse\n{ind(kf)}")
        t = e[0]
        if t == 'bin' and e[1] == '||':
            return self.C(e[2], env, ctx, kt, self.C(e[3], env, ctx, kt, kf))
        if t == 'bin' and e[1] == '&&':
            return self.C(e[2], env, ctx, self.C(e[3], env, ctx, kt, kf), kf)
        if t == 'un' and e[1] == '!':
            return self.C(e[2], env, ctx, kf, kt)
        if t == 'bin' and e[1] in ('==', '!=', '<', '<=', '>', '>='):
            op = {'==': '=', '!=': '≠', '<': '<', '<=': '≤', '>': '>', '>=': '≥'}[e[1]]
            return self.E(e[2], env, ctx, lambda a, ta: self.E(e[3], env, ctx,
                          lambda b, tb: paren(f"if {a} {op} {b} then\n{ind(kt)}\nelse\n{ind(kf)}")))
        raise Unsupported("effectful condition")

    # ---------------- pattern matching ------------------------------------------------------------
    def lit_of(self, p):
        """literal value of a pattern (number/byte literal or a constant), else None"""
        if p[0] == 'plit': return p[1]
        if p[0] == 'ppath' and len(p[1]) == 1 and p[1][0] in self.cst and self.cst[p[1][0]][0] in ('num', 'byte'):
            return self.cst[p[1][0]][1]
        return None
    def irrefutable(self, p):
        while p[0] == 'pref': p = p[1]
        return p[0] in ('pwild', 'pbind')
    def enum_ctor(self, p, ty):
        """(ctor index, subpatterns) if p is a constructor pattern of enum ty"""
        if p[0] == 'pctor': ps, subs = self.pathstr(p[1]), p[2]
        elif p[0] == 'pstruct':
            ps = self.pathstr(p[1])
            if ps not in ENUM_FIELDS: raise Unsupported("struct pattern " + ps)
            given = dict(p[2])
            if any(f not in ENUM_FIELDS[ps] for f in given): raise Unsupported("unknown field in pattern " + ps)
            subs = [given.get(f, ('pwild',)) for f in ENUM_FIELDS[ps]]
        elif p[0] == 'ppath': ps, subs = self.pathstr(p[1]), []
        else: return None
        for i, (lc, rps, fts) in enumerate(ENUMS[ty]):
            if ps in rps:
                if len(fts) != len(subs): raise Unsupported("constructor arity " + ps)
                return i, subs
        raise Unsupported(f"pattern {ps} for {ty}")

    def compile_match(self, rows, scruts, env, body_k):
        """rows: [(pats, guard, payload)], scruts: [(term, type)]; body_k(payload, env) -> code.
        Classic left-to-right matrix compilation; arms are tried in order."""
        if not rows: return None          # no arm applies (Rust guarantees exhaustiveness; caller decides)
        pats, guard, payload = rows[0]
        pats = [self.strip_ref(p) for p in pats]
        col = next((i for i, p in enumerate(pats) if not self.irrefutable(p)), None)
        if col is None:
            env2 = dict(env); binds = []
            for p, (s, ty) in zip(pats, scruts):
                if p[0] == 'pbind':
                    env2[p[1]] = ty
                    if p[1] != s: binds.append(f"let {p[1]} := {s}")
            body = body_k(payload, env2)
            if guard is not None:
                rest = self.compile_match(rows[1:], scruts, env, body_k)
                if rest is None: raise Unsupported("guarded last arm")
                body = paren(f"if {self.P(guard, env2)} then\n{ind(body)}\nelse\n{ind(rest)}")
            return ('\n'.join(binds) + '\n' if binds else '') + body
        s, ty = scruts[col]
        p = pats[col]
        if ty.startswith('tuple:'):
            tys = ty.split(':', 1)[1].split(',')
            if s.startswith('(') and s.count(',') == len(tys) - 1 and all(re.fullmatch(r'\w+', x.strip()) for x in s[1:-1].split(',')):
                parts = [x.strip() for x in s[1:-1].split(',')]; pre = ''
            else:
                parts = [self.fresh('t') for _ in tys]; pre = f"match {s} with\n| ({', '.join(parts)}) =>\n"
            def expand(row):
                ps, g, pl = row; q = self.strip_ref(ps[col])
                if q[0] == 'ptuple':
                    if len(q[1]) != len(tys): raise Unsupported("tuple pattern arity")
                    sub = q[1]
                elif q[0] == 'pwild': sub = [('pwild',)] * len(tys)
                else: raise Unsupported("binding a whole tuple")
                return (ps[:col] + sub + ps[col + 1:], g, pl)
            rows2 = [expand(r) for r in rows]
            sc2 = scruts[:col] + list(zip(parts, tys)) + scruts[col + 1:]
            inner = self.compile_match(rows2, sc2, env, body_k)
            return paren(pre + ind(inner)) if pre else inner
        if is_res(ty):
            if any(not self.irrefutable(q) for i, q in enumerate(pats) if i != col): raise Unsupported("two refutable columns")
            tt, te = res_parts(ty); arms = {}
            for (ps_, g, pl) in rows:
                q = self.strip_ref(ps_[col])
                if g is not None or q[0] != 'pctor' or self.pathstr(q[1]) not in ('Ok', 'Err') or len(q[2]) != 1: raise Unsupported("pattern on a Result")
                sub = self.strip_ref(q[2][0])
                if sub[0] not in ('pbind', 'pwild'): raise Unsupported("nested pattern on a Result")
                arms.setdefault(self.pathstr(q[1]), (sub, pl))
            if set(arms) != {'Ok', 'Err'}: raise Unsupported("non-exhaustive match on a Result")
            m = self.fresh('m'); outp = []
            for which, lc, tyv in (('Ok', '.ok', tt), ('Err', '.err', te)):
                sub, pl = arms[which]; env2 = dict(env); v = '_'
                if sub[0] == 'pbind': v = sub[1]; env2[v] = tyv
                outp.append(f"| {lc} {v} =>\n{ind(body_k(pl, env2))}")
            # a panic inside the scrutinee leaves the function (only meaningful where the function can report one)
            raise_p = "Res.panic " + m
            return paren(f"match {s} with\n" + "\n".join(outp) + f"\n| .panic {m} => {raise_p}")
        if ty == 'parseerror':
            if any(not self.irrefutable(q) for i, q in enumerate(pats) if i != col): raise Unsupported("two refutable columns")
            arms = {}
            for (ps_, g, pl) in rows:
                q = self.strip_ref(ps_[col])
                if g is not None: raise Unsupported("guard on a ParseError pattern")
                if q[0] == 'pwild':
                    arms.setdefault('NoLeadingSlash', ({}, pl)); arms.setdefault('InvalidEncoding', ({}, pl)); continue
                if q[0] not in ('ppath', 'pstruct'): raise Unsupported("pattern on a ParseError")
                which = self.pathstr(q[1])
                if which.split('::')[0] not in ('Self', 'ParseError') or which.split('::')[-1] not in ('NoLeadingSlash', 'InvalidEncoding'): raise Unsupported("pattern " + which)
                binds = {}
                for f, sp in (q[2] if q[0] == 'pstruct' else []):
                    sp = self.strip_ref(sp)
                    if f not in ('offset', 'source') or which.endswith('NoLeadingSlash'): raise Unsupported("field " + f + " of " + which)
                    if sp[0] == 'pbind': binds[f] = sp[1]
                    elif sp[0] != 'pwild': raise Unsupported("nested pattern in " + which)
                arms.setdefault(which.split('::')[-1], (binds, pl))
            if set(arms) != {'NoLeadingSlash', 'InvalidEncoding'}: raise Unsupported("non-exhaustive match on a ParseError")
            o, so, kd = self.fresh('o'), self.fresh('so'), self.fresh('kd')
            (b1, pl1), (b2, pl2) = arms['NoLeadingSlash'], arms['InvalidEncoding']
            env2 = dict(env); pre = ''
            if 'offset' in b2: env2[b2['offset']] = 'nat'; pre += f"let {b2['offset']} := {o}\n"
            if 'source' in b2: env2[b2['source']] = 'encerr'; pre += f"let {b2['source']} := (EncErr.mk {so} {kd})\n"
            return paren(f"match {s} with\n| .noLeadingSlash =>\n{ind(body_k(pl1, dict(env)))}\n| .invalidEncoding {o} {so} {kd} =>\n{ind(pre + body_k(pl2, env2))}")
        if ty == 'entry':
            # `map.entry(key)`: Occupied(e) — e is the member's place; Vacant(e) — e is (the map's place, the key)
            if any(not self.irrefutable(q) for i, q in enumerate(pats) if i != col): raise Unsupported("two refutable columns")
            arms = {}
            for (ps_, g, pl) in rows:
                q = self.strip_ref(ps_[col])
                if g is not None or q[0] != 'pctor' or len(q[2]) != 1 or self.strip_ref(q[2][0])[0] != 'pbind': raise Unsupported("pattern on a map entry")
                which = self.pathstr(q[1])
                if which not in ('Entry::Occupied', 'Entry::Vacant', 'map::Entry::Occupied', 'map::Entry::Vacant'): raise Unsupported("pattern " + which)
                arms.setdefault(which.split('::')[-1], (self.strip_ref(q[2][0])[1], pl))
            if set(arms) != {'Occupied', 'Vacant'}: raise Unsupported("non-exhaustive match on a map entry")
            en = self.fresh('en'); c = self.fresh('c')
            (on, opl), (vn, vpl) = arms['Occupied'], arms['Vacant']
            eo = dict(env); eo[on] = 'occentry'; ev = dict(env); ev[vn] = 'vacentry'
            occ = f"let {on} := ({en}.1.1 ++ [Step.key {en}.2], {c})\n" + body_k(opl, eo)
            vac = f"let {vn} := {en}\n" + body_k(vpl, ev)
            return paren(f"let {en} := {s}\nmatch lookup {en}.2 {en}.1.2 with\n| some {c} =>\n{ind(occ)}\n| none =>\n{ind(vac)}")
        if ty in ENUMS:
            rows_x = []
            for (ps_, g, pl) in rows:
                q = self.strip_ref(ps_[col])
                if q[0] == 'por':
                    for alt in q[1]: rows_x.append((ps_[:col] + [alt] + ps_[col + 1:], g, pl))
                else: rows_x.append((ps_, g, pl))
            rows = rows_x
            alts = []
            smatch = f"{s}.2" if ty == 'vref' else s
            for ci, (lc, rps, fts) in enumerate(ENUMS[ty]):
                names = None; rows2 = []
                for (ps, g, pl) in rows:
                    q = self.strip_ref(ps[col])
                    if self.irrefutable(q):
                        if q[0] == 'pbind': raise Unsupported("binding an enum value in a match")
                        rows2.append((ps[:col] + [('pwild',)] * len(fts) + ps[col + 1:], g, pl))
                    else:
                        ec = self.enum_ctor(q, ty)
                        if ec[0] == ci:
                            if names is None:
                                names = [sp[1] if sp[0] == 'pbind' else None for sp in ec[1]]
                            rows2.append((ps[:col] + list(ec[1]) + ps[col + 1:], g, pl))
                names = [(n or self.fresh('a')) for n in (names or [None] * len(fts))]
                sc2 = scruts[:col] + list(zip(names, fts)) + scruts[col + 1:]
                inner = self.compile_match(rows2, sc2, env, body_k)
                if inner is None: raise Unsupported("non-exhaustive match")
                if ty == 'vref':
                    # the payload of a container reached through a reference keeps the reference's location
                    pre = ''.join(f"let {n} := ({s}.1, {n})\n" for n, ft in zip(names, fts) if ft in ('aref', 'oref'))
                    inner = pre + inner
                alts.append(f"| {lc}{''.join(' ' + n for n in names)} =>\n{ind(inner)}")
            return paren(f"match {smatch} with\n" + '\n'.join(alts))
        if ty in BYTESLIKE:
            alts_ = p[1] if p[0] == 'por' else [p]
            if any(q[0] != 'pstr' for q in alts_): raise Unsupported("pattern on a string")
            if any(not self.irrefutable(q) for i, q in enumerate(pats) if i != col): raise Unsupported("two refutable columns")
            test = ' ∨ '.join(f"{s} = [{', '.join(map(str, q[1]))}]" for q in alts_)
            if len(alts_) > 1: test = '(' + test + ')'
            if guard is not None: test = f"{test} ∧ {self.P(guard, env)}"
            body = body_k(payload, env)
            restc = self.compile_match(rows[1:], scruts, env, body_k)
            if restc is None: raise Unsupported("non-exhaustive string match")
            return paren(f"if {test} then\n{ind(body)}\nelse\n{ind(restc)}")
        if ty == 'nat':
            lits = [self.lit_of(q) for q in (p[1] if p[0] == 'por' else [p])]
            if any(l is None for l in lits): raise Unsupported("pattern on a number")
            if any(not self.irrefutable(q) for i, q in enumerate(pats) if i != col): raise Unsupported("two refutable columns")
            test = ' ∨ '.join(f"{s} = {l}" for l in lits)
            if len(lits) > 1: test = '(' + test + ')'
            env2 = dict(env); binds = []
            for q, (s2, ty2) in zip(pats, scruts):
                if q[0] == 'pbind':
                    env2[q[1]] = ty2
                    if q[1] != s2: binds.append(f"let {q[1]} := {s2}")
            if guard is not None: test = f"{test} ∧ {self.P(guard, env2)}"
            body = ('\n'.join(binds) + '\n' if binds else '') + body_k(payload, env2)
            rest = self.compile_match(rows[1:], scruts, env, body_k)
            if rest is None: raise Unsupported("non-exhaustive literal match")
            return paren(f"if {test} then\n{ind(body)}\nelse\n{ind(rest)}")
        raise Unsupported("match on " + ty)
    def strip_ref(self, p):
        while p[0] == 'pref': p = p[1]
        return p

    # ---------------- statements ------------------------------------------------------------------
    def tuple_of(self, vs):
        return vs[0] if len(vs) == 1 else '(' + ', '.join(vs) + ')'

    def S(self, stmts, env, ctx, k):
        """translate a statement list; k(env) -> code for what follows"""
        if not stmts: return k(env)
        st = stmts[0]; rest = lambda env2: self.S(stmts[1:], env2, ctx, k)
        kind = st[0]
        if kind == 'let':
            pat, mut, init = st[1], st[2], st[3]
            if init is None: raise Unsupported("let without initialiser")
            if pat[0] == 'pbind' and self.rtype == 'Option (Nat × Nat)' and pat[1] not in self.needed(stmts[1:]):
                return rest(env)          # only the label's text uses it; the text is not part of the model
            if pat[0] == 'pbind':
                def after(a, ta, envv=None):
                    env2 = dict(envv if envv is not None else env); env2[pat[1]] = 'bytes' if ta in ('tok', 'ptrself') and mut else ta
                    if a == pat[1]: return rest(env2)
                    return f"let {pat[1]} := {a}\n{rest(env2)}"
                if init[0] in ('if', 'iflet', 'block') and (self.effectful(init) or self.has_stmts(init) or init[0] == 'if'):
                    return self.V(init, env, ctx, lambda a, ta, e3: after(a, ta, e3))
                return self.E(init, env, ctx, after)
            if pat[0] == 'pwild':
                return self.E(init, env, ctx, lambda a, ta: rest(env))
            if pat[0] == 'ptuple' and all(q[0] == 'pbind' for q in pat[1]):
                def after(a, ta):
                    if not ta.startswith('tuple:'): raise Unsupported("tuple pattern on " + ta)
                    tys = ta.split(':', 1)[1].split(',')
                    env2 = dict(env)
                    for q, t2 in zip(pat[1], tys): env2[q[1]] = t2
                    names = ', '.join(q[1] for q in pat[1])
                    if a == f"({names})": return rest(env2)
                    return paren(f"match {a} with\n| ({names}) =>\n{ind(rest(env2))}")
                return self.E(init, env, ctx, after)
            raise Unsupported("let pattern")
        if kind == 'letelse':
            pat, init, eb = self.strip_ref(st[1]), st[2], st[3]
            if not (pat[0] == 'pctor' and self.pathstr(pat[1]) == 'Some' and len(pat[2]) == 1): raise Unsupported("let-else pattern")
            def after_le(a, ta):
                if not is_opt(ta): raise Unsupported("let-else on " + ta)
                binder, env2 = self.closure_head(('closure', [pat[2][0]], None), opt_inner(ta), env)
                els = self.S(self.norm_stmt_block(eb), env, ctx, lambda e3: self.bad("the else block of a let-else must diverge"))
                return paren(f"match {a} with\n| none =>\n{ind(els)}\n| some {binder} =>\n{ind(rest(env2))}")
            return self.E(init, env, ctx, after_le)
        if kind == 'assign':
            lhs, op, rhs = st[1], st[2], st[3]
            if lhs[0] == 'field' and lhs[1] == ('path', ['self']) and self.spec.get('iter') and ('self.' + lhs[2]) in env:
                lhs = ('path', [_alias_parts(env['self.' + lhs[2]])[0]])
            if lhs[0] == 'field' and lhs[1] == ('path', ['self']) and lhs[2] == '0' and env.get('self_0') == 'bytes':
                lhs = ('path', ['self_0'])
            if lhs[0] == 'index' and lhs[1][0] == 'path' and len(lhs[1][1]) == 1 and env.get(lhs[1][1][0]) == 'toklist' and op == '=':
                lv = lhs[1][1][0]
                # `tokens[i] = x`: a checked store (out of range panics)
                def aft_i(i, ti):
                    def aft_x(x, tx):
                        if tx not in BYTESLIKE: raise Unsupported("element of type " + tx)
                        oob = ctx.ret(PANIC_IDX) if self.retkind != 'mutself' else ctx.ret('(Res' + PANIC_IDX + ')')
                        inner = f"let {lv} := {lv}.set {i} {x}" + chr(10) + rest(env)
                        return paren(f"if {i} < {lv}.length then\n{ind(inner)}\nelse {oob}")
                    return self.E(rhs, env, ctx, aft_x)
                return self.E(lhs[2], env, ctx, aft_i)
            if lhs[0] != 'path' or len(lhs[1]) != 1 or lhs[1][0] not in env: raise Unsupported("assignment target")
            v = lhs[1][0]
            def after(a, ta):
                env2 = dict(env)
                if op == '=':
                    env2[v] = ta if ta != 'opt:nat' else 'optnat'
                    if v == 'self_0': env2[v] = 'bytes'
                    return f"let {v} := {a}\n{rest(env2)}"
                if op == '+=': return f"let {v} := {v} + {a}\n{rest(env2)}"
                raise Unsupported("assignment operator " + op)
            return self.E(rhs, env, ctx, after)
        e = st[1]; t = e[0]
        if t == 'return':
            return self.ret_value(e[1], env, ctx)
        if t == 'break':
            if ctx.brk is None: raise Unsupported("break outside a loop")
            return ctx.brk(env)
        if t == 'continue':
            if ctx.cont is None: raise Unsupported("continue outside a loop")
            return ctx.cont(env)
        if t == 'block':
            inner = self.norm_stmt_block(e)
            declared = [s[1] for s in inner if s[0] == 'let']
            # variables declared inside do not leak: Lean's `let` shadowing is undone by re-binding nothing,
            # so we only allow inner blocks whose lets do not shadow outer names
            for s in inner:
                if s[0] == 'let':
                    for v in self.pat_binds(s[1]):
                        if v in env: raise Unsupported("shadowing in an inner block")
            return self.S(inner + stmts[1:], env, ctx, k)
        if t == 'mcall' and e[1] == ('field', ('path', ['self']), '0') and env.get('self_0') == 'bytes':
            e = ('mcall', ('path', ['self_0']), e[2], e[3]); t = 'mcall'
        if t == 'mcall' and e[1] == ('path', ['self_0']) and e[2] in ('insert', 'insert_str', 'pop', 'clear', 'truncate'):
            name, args = e[2], e[3]
            if name == 'clear' and not args: return f"let self_0 := ([] : Bytes)\n{rest(env)}"
            if name == 'pop' and not args: return f"let self_0 := self_0.dropLast\n{rest(env)}"
            if name in ('insert', 'insert_str') and len(args) == 2:
                def aft_i(i, ti):
                    def aft_x(x, tx):
                        piece = f"[{x}]" if name == 'insert' else x
                        if name == 'insert' and tx != 'nat': raise Unsupported("insert of " + tx)
                        if name == 'insert_str' and tx not in BYTESLIKE: raise Unsupported("insert_str of " + tx)
                        return f"let self_0 := self_0.take {i} ++ {piece} ++ self_0.drop {i}\n{rest(env)}"
                    return self.E(args[1], env, ctx, aft_x)
                return self.E(args[0], env, ctx, aft_i)
            raise Unsupported("String method " + name)
        if t == 'mcall' and e[2] == 'insert' and e[1][0] == 'path' and len(e[1][1]) == 1 and env.get(e[1][1][0]) == 'kvlist' and len(e[3]) == 2:
            v = e[1][1][0]
            return self.E(e[3][0], env, ctx, lambda kk, tk: self.E(e[3][1], env, ctx,
                          lambda vv, tv: f"let {v} := insertKey {kk} {vv} {v}\n{rest(env)}" if tv == 'val' and tk in BYTESLIKE else self.bad("Map::insert types")))
        if t == 'mcall' and e[2] == 'remove' and e[1][0] == 'path' and len(e[1][1]) == 1 and env.get(e[1][1][0]) == 'bytes' and e[3] == [('num', 0)]:
            v = e[1][1][0]
            return f"let {v} := {v}.drop 1\n{rest(env)}"
        if t == 'mcall' and e[1][0] == 'path' and len(e[1][1]) == 1 and env.get(e[1][1][0]) == 'bufval' and e[2] in ('push_back', 'push_front', 'append') and len(e[3]) == 1:
            v = e[1][1][0]
            def aft_buf(a, ta):
                if e[2] == 'append':
                    if ta not in ('ptrself', 'asrefptr'): raise Unsupported("append(" + ta + ")")
                elif ta not in ('tok', 'intotoken'): raise Unsupported(e[2] + "(" + ta + ")")
                return f"let {v} := (PointerBuf.{e[2]} {v} {a})\n{rest(env)}"
            return self.E(e[3][0], env, ctx, aft_buf)
        if t == 'mcall' and e[2] == 'next' and not e[3] and self.spec.get('iter'):
            return self.E(e, env, ctx, lambda a, ta: rest(env))
        if t == 'dbgassert':
            # checked in test and debug builds: a failing condition is a panic
            if not (self.retkind in ('res',) or (self.retkind == 'mutdoc' and self.spec.get('docres') != 'plain')):
                raise Unsupported("debug_assert! in a function that cannot panic")
            return self.C(e[1], env, ctx, rest(env), ctx.ret('(Res.panic "debug_assert")' if self.retkind == 'mutdoc' else '.panic "debug_assert"'))
        if t == 'mcall' and e[2] == 'push' and e[1][0] == 'path' and len(e[1][1]) == 1 and env.get(e[1][1][0]) == 'aref' and len(e[3]) == 1 and env.get('self_doc') == 'val':
            v = e[1][1][0]
            def aft_push(a, ta):
                if ta != 'val': raise Unsupported("push of " + ta)
                return f"let self_doc := self_doc.setAt {v}.1 (Val.arr ({v}.2 ++ [{a}]))\nlet {v} := ({v}.1, {v}.2 ++ [{a}])\n{rest(env)}"
            return self.E(e[3][0], env, ctx, aft_push)
        if t == 'mcall' and e[2] == 'insert' and e[1][0] == 'path' and len(e[1][1]) == 1 and env.get(e[1][1][0]) == 'vacentry' and len(e[3]) == 1 and env.get('self_doc') == 'val':
            v = e[1][1][0]
            def aft_ins(a, ta):
                if ta != 'val': raise Unsupported("insert of " + ta)
                return f"let self_doc := self_doc.setAt {v}.1.1 (Val.obj ({v}.1.2 ++ [({v}.2, {a})]))\n{rest(env)}"
            return self.E(e[3][0], env, ctx, aft_ins)
        if t == 'mcall' and e[2] in ('push', 'extend_from_slice', 'push_str') and e[1][0] == 'path' and len(e[1][1]) == 1 and len(e[3]) == 1:
            v = e[1][1][0]
            if env.get(v) != 'bytes': raise Unsupported(e[2] + " on a non-buffer")
            def after(a, ta):
                if e[2] == 'push':
                    if ta != 'nat': raise Unsupported("push of " + ta)
                    return f"let {v} := {v} ++ [{a}]\n{rest(env)}"
                if ta not in BYTESLIKE: raise Unsupported(e[2] + " of " + ta)
                return f"let {v} := {v} ++ {a}\n{rest(env)}"
            return self.E(e[3][0], env, ctx, after)
        if t == 'if':
            thn = self.norm_stmt_block(e[2]); els = self.norm_stmt_block(e[3]) if e[3] is not None else []
            return self.branch(env, ctx, rest,
                               lambda kt, kf: self.C(e[1], env, ctx, kt, kf), [(thn, env), (els, env)], self.effectful(e[1]))
        if t == 'iflet':
            pat, ex = e[1], e[2]
            thn = self.norm_stmt_block(e[3]); els = self.norm_stmt_block(e[4]) if e[4] is not None else []
            pat = self.strip_ref(pat)
            if pat[0] == 'pctor' and self.pathstr(pat[1]) in ('Err', 'Ok') and len(pat[2]) == 1 and self.strip_ref(pat[2][0])[0] in ('pbind', 'pwild'):
                which = self.pathstr(pat[1]); sub = self.strip_ref(pat[2][0])
                def after_r(a, ta):
                    if not is_res(ta): raise Unsupported("if let " + which + " on " + ta)
                    tt, te = res_parts(ta); v = sub[1] if sub[0] == 'pbind' else '_'; o = self.fresh('o'); m = self.fresh('m')
                    env2 = dict(env)
                    if sub[0] == 'pbind': env2[v] = te if which == 'Err' else tt
                    pan = ctx.ret(f"(Res.panic {m})") if self.retkind == 'mutdoc' else ctx.ret(f".panic {m}")
                    hit, miss = (".err", ".ok") if which == 'Err' else (".ok", ".err")
                    return self.branch(env, ctx, rest,
                                       lambda kt, kf: paren(f"match {a} with\n| {hit} {v} =>\n{ind(kt)}\n| {miss} {o} =>\n{ind(kf)}\n| .panic {m} => {pan}"),
                                       [(thn, env2), (els, env)], True)
                return self.E(ex, env, ctx, after_r)
            if not (pat[0] == 'pctor' and self.pathstr(pat[1]) == 'Some' and len(pat[2]) == 1 and pat[2][0][0] == 'pbind'):
                raise Unsupported("if let pattern")
            v = pat[2][0][1]
            def after(a, ta):
                if ta != 'optnat': raise Unsupported("if let on " + ta)
                env2 = dict(env); env2[v] = 'nat'
                return self.branch(env, ctx, rest,
                                   lambda kt, kf: paren(f"match {a} with\n| some {v} =>\n{ind(kt)}\n| none =>\n{ind(kf)}"),
                                   [(thn, env2), (els, env)], False)
            return self.E(ex, env, ctx, after)
        if t == 'match':
            arms = [(p, g, self.norm_stmt_block(b)) for (p, g, b) in e[2]]
            def after(a, ta):
                # every arm body is translated with the continuation duplicated or merged
                return self.branch_match(env, ctx, rest, a, ta, arms)
            return self.E(e[1], env, ctx, after)
        if t == 'for': return self.for_loop(e, env, ctx, rest)
        if t == 'while': return self.while_loop(e, env, ctx, rest)
        if t == 'whilelet': return self.whilelet_loop(e, env, ctx, rest)
        raise Unsupported("statement " + t)

    def branch(self, env, ctx, rest, shape, branches, cond_effect):
        """if-like statement.  Without escapes: merge the assigned variables; otherwise duplicate the continuation."""
        esc = cond_effect or any(self.escapes(b) or self.effectful(b) for b, _ in branches)
        if not esc:
            vs = []
            for b, _ in branches:
                for v in self.assigned(b):
                    if v in env and v not in vs: vs.append(v)
            if not vs: return rest(env)
            tup = self.tuple_of(vs)
            codes = [self.S(b, e2, ctx, lambda env3: tup) for b, e2 in branches]
            env2 = dict(env)
            for b, e2 in branches:
                # types of merged variables: take them from a dry run
                self.S(b, e2, ctx, lambda env3: (env2.update({v: env3[v] for v in vs if env3.get(v) in ('optnat',)}) or ''))
            return f"let {tup} := {shape(codes[0], codes[1])}\n{rest(env2)}"
        codes = [self.S(b, e2, ctx, lambda env3, e2=e2: rest({**env3, **{}})) for b, e2 in branches]
        return shape(codes[0], codes[1])

    def branch_match(self, env, ctx, rest, scrut, sty, arms):
        esc = any(self.escapes(b) or self.effectful(b) for _, _, b in arms)
        rows = [([p], g, b) for (p, g, b) in arms]
        if not esc:
            vs = []
            for _, _, b in arms:
                for v in self.assigned(b):
                    if v in env and v not in vs: vs.append(v)
            if not vs: return rest(env)
            tup = self.tuple_of(vs)
            code = self.compile_match(rows, [(scrut, sty)], env, lambda b, env2: self.S(b, env2, ctx, lambda env3: tup))
            if code is None: raise Unsupported("empty match")
            return f"let {tup} := {code}\n{rest(env)}"
        code = self.compile_match(rows, [(scrut, sty)], env,
                                  lambda b, env2: self.S(b, env2, ctx, lambda env3: rest({**env, **{v: env3[v] for v in env if v in env3}})))
        if code is None: raise Unsupported("empty match")
        return code

    def ret_value(self, e, env, ctx):
        """`return e` / tail value"""
        rk = self.retkind
        if e is None: raise Unsupported("bare return")
        t = e[0]
        if t in ('if', 'iflet', 'match', 'block'):
            return self.S([('expr', self.to_return(e))], env, ctx, lambda env2: self.bad("fell off a returning block"))
        if rk == 'res':
            if t == 'call' and e[1][0] == 'path' and self.pathstr(e[1][1]) in ('Ok', 'Err') and len(e[2]) == 1:
                which = '.ok' if self.pathstr(e[1][1]) == 'Ok' else '.err'
                arg = e[2][0]
                if arg[0] == 'tuple' and not arg[1]: return ctx.ret(f"{which} ()")
                return self.E(arg, env, ctx, lambda a, ta: ctx.ret(f"{which} {a}"))
            def after_r(a, ta):
                if is_res(ta): return ctx.ret(a)
                raise Unsupported("returned value is not a Result")
            return self.E(e, env, ctx, after_r)
        if rk == 'optres':
            if t == 'path' and e[1] == ['None']: return ctx.ret('.ok none')
            if t == 'call' and e[1][0] == 'path' and self.pathstr(e[1][1]) == 'Some' and len(e[2]) == 1:
                def after(a, ta):
                    if ta == 'span': return ctx.ret(f".ok (some {a})")
                    if ta == 'ptr': return ctx.ret(f".ok (some (0, {a}.length))")
                    raise Unsupported("Some(" + ta + ")")
                return self.E(e[2][0], env, ctx, after)
            def after(a, ta):
                if ta == 'optres-call': return ctx.ret(a)
                raise Unsupported("returned " + ta)
            return self.E(e, env, ctx, after)
        if rk == 'mutdoc' and self.spec.get('docres') == 'res':
            if t == 'call' and e[1][0] == 'path' and self.pathstr(e[1][1]) in ('Ok', 'Err') and len(e[2]) == 1:
                which = 'Res.ok' if self.pathstr(e[1][1]) == 'Ok' else 'Res.err'
                return self.E(e[2][0], env, ctx, lambda a, ta: ctx.ret(f"({which} {a})"))
            return self.E(e, env, ctx, lambda a, ta: ctx.ret(a) if is_res(ta) else self.bad("returned value is not a Result"))
        if rk == 'mutdoc' and self.spec.get('docres') == 'plain':
            return self.E(e, env, ctx, lambda a, ta: ctx.ret(a) if ta == 'assigned' else self.bad("returned " + ta))
        if rk == 'mutdoc':
            if t == 'path' and e[1] == ['None']: return ctx.ret('.ok none')
            if t == 'call' and e[1][0] == 'path' and self.pathstr(e[1][1]) == 'Some' and len(e[2]) == 1:
                return self.E(e[2][0], env, ctx, lambda a, ta: ctx.ret(f".ok (some {a})") if ta == 'val' else self.bad("Some(" + ta + ")"))
            if t == 'mcall' and e[2] == 'and_then' and len(e[3]) == 1 and e[3][0][0] == 'closure' and len(e[3][0][1]) == 1:
                # `opt.and_then(|x| body)` as the returned value: the closure's result is the function's result, so its `?`
                # and its `None` leave the function
                cl = e[3][0]
                def after_at(a, ta):
                    if not is_opt(ta): raise Unsupported("and_then on " + ta)
                    binder, env2 = self.closure_head(cl, opt_inner(ta), env)
                    body = self.S([('expr', self.to_return(self.as_block(cl[2])))], env2, ctx, lambda e3: self.bad("closure falls off its end"))
                    return paren(f"match {a} with\n| none => {ctx.ret('.ok none')}\n| some {binder} =>\n{ind(body)}")
                return self.E(e[1], env, ctx, after_at)
            def after_md(a, ta):
                if ta == 'opt(val)': return ctx.ret(f".ok {a}")
                raise Unsupported("returned " + ta)
            return self.E(e, env, ctx, after_md)
        if rk == 'fmt':
            return self.E(e, env, ctx, lambda a, ta: ctx.ret(a) if ta in BYTESLIKE else self.bad("a Display impl that writes " + ta))
        if rk == 'mutiter':
            want = 'opt(tok)' if self.spec['id'] == 'TokensNext' else 'opt(component)'
            def aft_it(a, ta):
                if ta == 'optnat' and a == 'none': ta = want
                if ta == 'opt(bytes)' and want == 'opt(tok)': ta = want
                if ta != want: raise Unsupported("returning " + ta)
                return ctx.ret(a)
            return self.E(e, env, ctx, aft_it)
        if rk == 'mutself':
            if t == 'mcall' and e[2] == 'then' and len(e[3]) == 1 and e[3][0][0] == 'closure' and not e[3][0][1]:
                # `cond.then(|| { … })` as the returned value: `if cond { Some({ … }) } else { None }`
                body = self.as_block(e[3][0][2])
                return self.C(e[1], env, ctx, self.V(body, env, ctx, lambda a, ta, e3: ctx.ret(f"(some {a})")), ctx.ret('none'))
            if t == 'call' and e[1][0] == 'path' and self.pathstr(e[1][1]) in ('Ok', 'Err') and len(e[2]) == 1:
                w = 'Res.ok' if self.pathstr(e[1][1]) == 'Ok' else 'Res.err'
                return self.E(e[2][0], env, ctx, lambda a, ta: ctx.ret(f"({w} {a})"))
            if t == 'path' and e[1] == ['self']: return ctx.ret('()')
            if t == 'path' and e[1] == ['None']: return ctx.ret('none')
            return self.E(e, env, ctx, lambda a, ta: ctx.ret(a))
        if rk == 'resval':
            # a bool-valued function whose evaluation can panic (checked index inside the condition)
            return self.C(e, env, ctx, ctx.ret('.ok true'), ctx.ret('.ok false'))
        if rk == 'pure' and self.rtype.startswith('Option') and t == 'path' and e[1] == ['None']:
            return ctx.ret('none')
        if rk == 'pure' and self.rtype == 'Option (Nat × Nat)':
            return self.E(e, env, ctx, lambda a, ta: ctx.ret(a) if ta == 'opt(label)' else self.bad("returning " + ta))
        if rk == 'pure':
            want = {'Cow': ('cow',), 'Nat': ('nat',), 'Bool': ('bool',)}.get(self.rtype)
            def after(a, ta):
                if want and ta not in want:
                    if self.rtype == 'Cow' and ta == 'bytes' : raise Unsupported("returning bytes where a Cow is expected")
                    raise Unsupported(f"returning {ta} as {self.rtype}")
                return ctx.ret(a)
            return self.E(e, env, ctx, after)
        raise Unsupported("return kind " + rk)

    # ---------------- loops -----------------------------------------------------------------------
    def loop_common(self, body, env, extra_bound):
        muts = [v for v in self.assigned(body) if v in env]
        if self.retkind == 'mutdoc' and env.get('self_doc') == 'val' and 'self_doc' not in muts: muts.append('self_doc')
        used = self.mentions(body)
        caps = [v for v in env if '.' not in v and v in used and v not in muts and v not in extra_bound
                and not env[v].startswith('alias:')]
        # aliases (self, self.start …) are captured through the variable they expand to
        al = []
        for key, ty in env.items():
            if ty.startswith('alias:'):
                base = key.split('.')[0]
                if base in used and ty.split(':')[1] not in caps and ty.split(':')[1] not in al and ty.split(':')[1] not in muts:
                    al.append(ty.split(':')[1])
        return muts, caps + al
    def lty(self, env, v):
        ty = env.get(v)
        if ty is None:
            for key, t2 in env.items():
                if t2.startswith('alias:') and t2.split(':')[1] == v: return LEANTY[t2.split(':')[2]]
            raise Unsupported("type of " + v)
        if ty not in LEANTY: raise Unsupported("loop-carried variable of type " + ty)
        t = LEANTY[ty]
        return f"({t})" if ' ' in t else t

    def for_loop(self, e, env, ctx, rest):
        pat, it, body = self.strip_ref(e[1]), e[2], self.norm_stmt_block(e[3])
        out = []
        code_it = self.E(it, env, Ctx(lambda t: self.bad("effect in a loop header")), lambda a, ta: out.append((a, ta)) or a)
        if len(out) != 1: raise Unsupported("loop header")
        xs, tys = out[0]
        enum = tys.startswith('enum:')
        if enum: tys = tys.split(':')[1]
        if tys not in ('bytes', 'toklist', 'zip'): raise Unsupported("iteration over " + tys)
        elt = 'nat' if tys == 'bytes' else 'tok'
        zipped = None
        if tys == 'zip':
            if enum or pat[0] != 'ptuple' or len(pat[1]) != 2 or any(self.strip_ref(q)[0] != 'pbind' for q in pat[1]):
                raise Unsupported("zip loop pattern")
            zipped = [self.strip_ref(q)[1] for q in pat[1]]
            pat = ('pbind', '_zx')
        if enum:
            if pat[0] != 'ptuple' or len(pat[1]) != 2: raise Unsupported("enumerate pattern")
            ip, xp = self.strip_ref(pat[1][0]), self.strip_ref(pat[1][1])
        else: ip, xp = None, pat
        for q in (ip, xp):
            if q is not None and q[0] not in ('pbind', 'pwild'): raise Unsupported("loop pattern")
        xname = xp[1] if xp[0] == 'pbind' else '_x'
        iname = (ip[1] if ip[0] == 'pbind' else '_i') if enum else None
        bound = [xname] + ([iname] if enum else [])
        for b in bound:
            if b in env:
                if tys == 'zip' or enum: raise Unsupported("loop variable shadows " + b)
                nb = b + "_"
                while nb in env: nb += "_"
                body = self.rename(body, b, nb); xname = nb; bound = [nb]
        muts, caps = self.loop_common(body, env, bound)
        has_ret = self.escapes(body, in_loop=True)
        self.nloop += 1
        lname = f"{self.spec['lean']}.loop{self.nloop}"
        sigma = self.tuple_of(muts) if muts else '()'
        sty = ' × '.join(self.lty(env, v) for v in muts) if muts else 'Unit'
        done = (lambda s: f".done {s}") if has_ret else (lambda s: s)
        rty = f"Flow ({self.rtype}) ({sty})" if has_ret else sty
        rest_name = '_rest'
        call = lambda env3: f"{lname} {' '.join(caps + [rest_name] + ([f'({iname} + 1)'] if enum else []) + muts)}".rstrip()
        env_b = dict(env); env_b[xname] = elt
        if enum: env_b[iname] = 'nat'
        if zipped:
            del env_b[xname]
            for z in zipped: env_b[z] = 'tok'
            xname = f"({zipped[0]}, {zipped[1]})"
            for z in zipped:
                if z in env: raise Unsupported("loop variable shadows " + z)
        ctx_b = Ctx((lambda t: f".ret ({t})") if has_ret else (lambda t: self.bad("return in a loop without Flow")),
                    cont=call, brk=lambda env3: done(sigma))
        body_code = self.S(body, env_b, ctx_b, call)
        params = ''.join(f" ({c} : {self.lty(env, c)})" for c in caps)
        argtys = [f"List {LEANTY[elt]}" if not zipped else "List (Bytes × Bytes)"] + (['Nat'] if enum else []) + [self.lty(env, v) for v in muts]
        nilpat = ', '.join(['[]'] + (['_'] if enum else []) + muts)
        conspat = ', '.join([f"{xname} :: {rest_name}"] + ([iname] if enum else []) + muts)
        self.loops.append(
            f"def {lname}{params} : {' → '.join(argtys)} → {rty}\n  | {nilpat} => {done(sigma)}\n  | {conspat} =>\n{ind(body_code, 4)}")
        callsite = f"{lname} {' '.join(caps + [xs] + (['0'] if enum else []) + muts)}"
        return self.after_loop(callsite, has_ret, muts, sigma, env, ctx, rest)

    def after_loop(self, callsite, has_ret, muts, sigma, env, ctx, rest):
        if has_ret:
            r = self.fresh('r')
            pat = sigma if muts else '_'
            return paren(f"match {callsite} with\n| .ret {r} => {ctx.raw(r)}\n| .done {pat} =>\n{ind(rest(env))}")
        if not muts: return rest(env)
        if len(muts) == 1: return f"let {muts[0]} := {callsite}\n{rest(env)}"
        return paren(f"match {callsite} with\n| {sigma} =>\n{ind(rest(env))}")

    def while_loop(self, e, env, ctx, rest):
        cond, body = e[1], self.norm_stmt_block(e[2])
        if self.retkind == 'pure': raise Unsupported("while loop in a function that cannot panic")
        if not (cond[0] == 'bin' and cond[1] == '<'): raise Unsupported("while condition shape")
        a, _ = self.pure(cond[2], env); b, _ = self.pure(cond[3], env)
        muts, caps = self.loop_common(body, env, [])
        used_c = self.mentions(cond)
        for v in used_c:
            if v in env and v not in muts and v not in caps and not env[v].startswith('alias:'): caps.append(v)
        self.nloop += 1
        lname = f"{self.spec['lean']}.loop{self.nloop}"
        sigma = self.tuple_of(muts) if muts else '()'
        sty = ' × '.join(self.lty(env, v) for v in muts) if muts else 'Unit'
        rty = f"Flow ({self.rtype}) ({sty})"
        call = lambda env3: f"{lname} {' '.join(caps + ['_fuel'] + muts)}"
        ctx_b = Ctx(lambda t: f".ret ({self.wrap(t)})", cont=call, brk=lambda env3: f".done {sigma}", raw=lambda r: f".ret ({r})")
        body_code = self.S(body, dict(env), ctx_b, call)
        loop_code = self.C(cond, env, ctx_b, body_code, f".done {sigma}")
        params = ''.join(f" ({c} : {self.lty(env, c)})" for c in caps)
        argtys = ['Nat'] + [self.lty(env, v) for v in muts]
        self.loops.append(
            f"def {lname}{params} : {' → '.join(argtys)} → {rty}\n  | {', '.join(['0'] + ['_'] * len(muts))} => .ret (.panic \"fuel\")\n"
            f"  | {', '.join(['_fuel + 1'] + muts)} =>\n{ind(loop_code, 4)}")
        callsite = f"{lname} {' '.join(caps + [f'({b} - {a} + 1)'] + muts)}"
        return self.after_loop(callsite, True, muts, sigma, env, ctx, rest)

    def whilelet_loop(self, e, env, ctx, rest):
        """`while let Some(pat) = <pure option expr> { body }` — fuel = length of the byte string the header consumes + 1"""
        pat, hdr, body = self.strip_ref(e[1]), e[2], self.norm_stmt_block(e[3])
        if not (pat[0] == 'pctor' and self.pathstr(pat[1]) == 'Some' and len(pat[2]) == 1): raise Unsupported("while let pattern")
        if not (hdr[0] == 'mcall' and hdr[1][0] == 'path' and len(hdr[1][1]) == 1 and env.get(hdr[1][1][0]) in ('ptrself', 'bytes')):
            raise Unsupported("while let header")
        consumed = hdr[1][1][0]
        muts, caps = self.loop_common(body, env, [])
        if consumed not in muts: raise Unsupported("while let: the scrutinee is not advanced by the body")
        self.nloop += 1
        lname = f"{self.spec['lean']}.loop{self.nloop}"
        sigma = self.tuple_of(muts); sty = ' × '.join(self.lty(env, v) for v in muts)
        rty = f"Flow ({self.rtype}) ({sty})"
        call = lambda env3: f"{lname} {' '.join(caps + ['_fuel'] + muts)}"
        ctx_b = Ctx(lambda t: f".ret ({self.wrap(t)})", cont=call, brk=lambda env3: f".done {sigma}", raw=lambda r: f".ret ({r})")
        h, th = self.term(hdr, env)
        if not is_opt(th): raise Unsupported("while let on " + th)
        binder, env_b = self.closure_head(('closure', [pat[2][0]], None), opt_inner(th), env)
        body_code = self.S(body, env_b, ctx_b, call)
        loop_code = paren(f"match {h} with\n| none => .done {sigma}\n| some {binder} =>\n{ind(body_code)}")
        params = ''.join(f" ({c} : {self.lty(env, c)})" for c in caps)
        argtys = ['Nat'] + [self.lty(env, v) for v in muts]
        self.loops.append(
            f"def {lname}{params} : {' → '.join(argtys)} → {rty}\n" +
            (f"  | {', '.join(['0'] + muts)} => .ret ((self_doc, Res.panic \"fuel\"))\n" if self.retkind == 'mutdoc' else
             f"  | {', '.join(['0'] + ['_'] * len(muts))} => .ret (.panic \"fuel\")\n" if self.retkind != 'pure' else
             f"  | {', '.join(['0'] + muts)} => .done {sigma}\n") +
            f"  | {', '.join(['_fuel + 1'] + muts)} =>\n{ind(loop_code, 4)}")
        callsite = f"{lname} {' '.join(caps + [f'({consumed}.length + 1)'] + muts)}"
        return self.after_loop(callsite, True, muts, sigma, env, ctx, rest)

    # ---------------- the function ----------------------------------------------------------------
    def translate(self):
        spec = self.spec
        env = {}; lparams = []
        rnames = [p[0] for p in self.rparams]
        for (pname, rep) in spec['params']:
            if pname not in rnames: raise Unsupported(f"parameter {pname} missing (signature: {rnames})")
            if rep.startswith('fields:'):
                for f in [x for x in rep.split(':')[1].split(',') if x]:
                    lparams.append((f"self_{f}", 'nat')); env[f"self.{f}"] = f"alias:self_{f}:nat"
            elif rep == 'rangeincl':
                lparams += [('self_start', 'nat'), ('self_end', 'nat')]
                env['self'] = 'alias:(self_start, self_end):tuple:nat,nat'
            elif rep == 'boundpair':
                lparams += [('self_0', 'bound'), ('self_1', 'bound')]
                env['self'] = 'alias:(self_0, self_1):tuple:bound,bound'
            elif rep == 'tokself':
                lparams.append(('self', 'tokself')); env['self.inner'] = 'alias:self:tok'
            elif rep == 'docself':
                # `&mut self` of a document: the mutable variable `self_doc`; every exit returns it with the result
                lparams.append(('self_doc', 'val')); env['self_doc'] = 'val'; env['self'] = 'alias:self_doc:docref'
            elif rep.startswith('iterself:'):
                for fd in rep.split(':', 1)[1].split(','):
                    fn_, ft_ = fd.split('=')
                    lparams.append((f"self_{fn_}", ft_)); env[f"self_{fn_}"] = ft_; env[f"self.{fn_}"] = f"alias:self_{fn_}:{ft_}"
            elif rep.startswith('errself:'):
                lparams.append(('self', rep.split(':')[1])); env['self'] = rep.split(':')[1]
            elif rep in ('vrefmut', 'arefmut', 'orefmut'):
                # a `&mut` into the document: (location, node); the document itself is the hidden first parameter `self_doc`
                if 'self_doc' not in env:
                    lparams.insert(0, ('self_doc', 'val')); env['self_doc'] = 'val'
                lparams.append((pname, rep[:-3])); env[pname] = rep[:-3]
            elif rep == 'bufself':
                # `&mut self` of a PointerBuf: its text is the mutable variable `self_0`; every exit returns it
                lparams.append(('self_0', 'bytes')); env['self_0'] = 'bytes'; env['self'] = 'alias:self_0:ptrself'
            else:
                ln = pname + '_' if pname in LEANKW else pname
                lparams.append((ln, rep)); env[ln] = rep
        if len(rnames) != len(spec['params']): raise Unsupported(f"parameter list changed: {rnames}")
        ctx = Ctx(lambda t: t)
        if self.retkind == 'mutdoc':
            ctx = Ctx(lambda t: f"(self_doc, {t})", raw=lambda r: r)
            code = self.S(self.norm_stmt_block(self.to_return(self.block)), env, ctx, lambda env2: self.bad("function body falls off its end"))
            ps = ''.join(f" ({n} : {LEANTY[t]})" for n, t in lparams)
            return '\n\n'.join(self.loops + [f"def {spec['lean']}{ps} : {self.rtype} :=\n{ind(code)}"])
        if self.retkind == 'mutiter':
            names = [n for n, _ in lparams if n.startswith('self_')]
            state = names[0] if len(names) == 1 else '(Components.mk ' + ' '.join(names) + ')'
            ctx = Ctx(lambda t: f"({t}, {state})")
            code = self.S(self.norm_stmt_block(self.to_return(self.block)), env, ctx, lambda env2: self.bad("function body falls off its end"))
            ps = ''.join(f" ({n} : {LEANTY[t]})" for n, t in lparams)
            return '\n\n'.join(self.loops + [f"def {spec['lean']}{ps} : {self.rtype} :=\n{ind(code)}"])
        if self.retkind == 'mutself':
            pair = '×' in self.rtype
            ctx = Ctx((lambda t: f"(self_0, {t})") if pair else (lambda t: "self_0"))
            blk = self.block
            if blk[2] is None:        # a `()` function: falls off its end
                code = self.S(self.norm_stmt_block(blk), env, ctx, lambda env2: ctx.ret('()'))
            else:
                code = self.S(self.norm_stmt_block(self.to_return(blk)), env, ctx, lambda env2: self.bad("function body falls off its end"))
            ps = ''.join(f" ({n} : {LEANTY[t]})" for n, t in lparams)
            return '\n\n'.join(self.loops + [f"def {spec['lean']}{ps} : {self.rtype} :=\n{ind(code)}"])
        body = self.to_return(self.block)
        code = self.S(self.norm_stmt_block(body), env, ctx, lambda env2: self.bad("function body falls off its end"))
        ps = ''.join(f" ({n} : {LEANTY[t]})" for n, t in lparams)
        main = f"def {spec['lean']}{ps} : {self.rtype} :=\n{ind(code)}"
        return '\n\n'.join(self.loops + [main])

# 'alias:(a, b):tuple:nat,nat' needs splitting on the first two colons only
def _alias_parts(ty):
    _, term, rest = ty.split(':', 2)
    return term, rest
_old_E = Fn.E
def _E(self, e, env, ctx, k):
    if e[0] == 'path' and len(e[1]) == 1 and e[1][0] in env and env[e[1][0]].startswith('alias:'):
        term, ty = _alias_parts(env[e[1][0]]); return k(term, ty)
    if e[0] == 'field' and e[1][0] == 'path' and e[1][1] == ['self'] and ('self.' + e[2]) in env:
        term, ty = _alias_parts(env['self.' + e[2]]); return k(term, ty)
    return _old_E(self, e, env, ctx, k)
Fn.E = _E

HEADER = """/-
  GENERATED by tools/rs2lean.py from {file} — do not edit.  Regenerated from the working tree on every run.
  Rust item: {item}
  sha256 of the translated source text: {sha}
-/
import Jp.Gen.Prelude
{imports}set_option linter.unusedVariables false
namespace Jp.Gen
open Jp

"""

def run(repo, outdir, only=None):
    os.makedirs(outdir, exist_ok=True)
    status = {}
    srcs = {}
    for spec in FUNCS:
        if only and spec['id'] not in only: continue
        path = os.path.join(repo, spec['file'])
        item = f"fn {spec['fn']}" + (f" in `{spec['impl']}`" if spec['impl'] else '')
        out = os.path.join(outdir, spec['id'] + '.lean')
        imports = ''.join(f"import Jp.Gen.Rs.{i}\n" for i in spec.get('imports', []))
        try:
            src = srcs.get(path) or open(path).read(); srcs[path] = src
            fn = Fn(spec, src, consts(src))
            code = fn.translate()
            sha = hashlib.sha256((fn.text + repr(sorted(fn.cst.items()))).encode()).hexdigest()[:16]
            text = HEADER.format(file=spec['file'], item=item, sha=sha, imports=imports) + code + "\n\nend Jp.Gen\n"
            status[spec['id']] = dict(status='translated', lean=spec['lean'], file=spec['file'], sha=sha)
        except (Unsupported, OSError, RecursionError, KeyError, IndexError, ValueError, TypeError, AttributeError) as ex:
            why = f"{type(ex).__name__}: {ex}" if not isinstance(ex, Unsupported) else str(ex)
            text = (HEADER.format(file=spec['file'], item=item, sha='-', imports='') +
                    f"-- UNTRANSLATABLE: {why}\n\nend Jp.Gen\n")
            status[spec['id']] = dict(status='untranslatable', why=why, lean=spec['lean'], file=spec['file'])
        old = open(out).read() if os.path.exists(out) else None
        if old != text:
            with open(out, 'w') as f: f.write(text)
    return status

if __name__ == '__main__':
    ap = argparse.ArgumentParser()
    ap.add_argument('--repo', default='/repo'); ap.add_argument('--out', default=os.path.join(os.path.dirname(os.path.dirname(os.path.abspath(__file__))), 'lean/Jp/Gen/Rs'))
    ap.add_argument('--only'); ap.add_argument('--json')
    a = ap.parse_args()
    st = run(a.repo, a.out, set(a.only.split(',')) if a.only else None)
    if a.json: json.dump(st, open(a.json, 'w'), indent=1)
    for k, v in st.items(): print(k, v['status'], v.get('why', ''))
