#!/usr/bin/env python3
"""tools/store_seeded.py Cxx X — keep a confirmed sub-agent change as /verif/seeded/Cxx-X/ (patch.diff, demo, meta.json),
from /tmp/wt-Cxx/MUTANTS and the confirmation + detection log work/mutlog/Cxx_X.txt."""
import sys, os, re, json, shutil
VERIF = os.path.dirname(os.path.dirname(os.path.abspath(__file__)))
pid, X = sys.argv[1], sys.argv[2]
src = f"/tmp/wt-{pid}/" + (sys.argv[3] if len(sys.argv) > 3 else "MUTANTS")
log = open(os.path.join(VERIF, "work", "mutlog", f"{pid}_{X}.txt")).read()
suite = re.search(r"suite-with-change:\s*(.*)", log).group(1).strip()
dwith = re.search(r"demo-with-change:\s*(.*)", log).group(1).strip()
dwo = re.search(r"demo-without:\s*(.*)", log).group(1).strip()
confirmed = ("92 passed; 0 failed" in suite) and ("FAILED" in dwith or "failed" in dwith or "panicked" in dwith) and (" 0 failed" in dwo and "ok" in dwo)
det = {}
for m in re.finditer(r"^(C\d\d) rc=(\d+) (.*)$", log, re.M):
    det[m.group(1)] = dict(rc=int(m.group(2)), report=m.group(3)[:300])
caught_by = sorted(k for k, v in det.items() if v["rc"] == 1)
d = os.path.join(VERIF, "seeded", f"{pid}-{X}")
os.makedirs(d, exist_ok=True)
shutil.copy(os.path.join(src, f"{X}.diff"), os.path.join(d, "patch.diff"))
for ext in ("rs", "sh"):
    f = os.path.join(src, f"demo_{X}.{ext}")
    if os.path.exists(f): shutil.copy(f, os.path.join(d, f"demo.{ext}"))
desc = open(os.path.join(src, f"{X}.txt")).read() if os.path.exists(os.path.join(src, f"{X}.txt")) else ""
meta = dict(
    id=f"{pid}-{X}", breaks_property=pid, author="independent sub-agent given only the property text and a scratch worktree",
    description=desc.strip(),
    confirmed=confirmed,
    what_i_ran=[
        f"tools/confirm_mutant.sh /tmp/wt-{pid} {X}   (scratch worktree: git apply, cargo build --features toml,miette, cargo test --workspace --no-fail-fast --offline, demo as integration test with and without the change)",
        f"tools/selftest.py <patch> C01..C19   (git -C /repo apply, ./check Cxx for each, git -C /repo checkout -- .)",
    ],
    suite_with_change=suite, demo_with_change=dwith, demo_without_change=dwo,
    detection=det, caught_by=caught_by, target_property_caught=pid in caught_by,
)
json.dump(meta, open(os.path.join(d, "meta.json"), "w"), indent=1)
print(f"{pid}-{X}: confirmed={confirmed} caught_by={caught_by}")
