#!/bin/sh
# tools/process_mutants.sh Cxx [Cyy ...] — for the sub-agent changes in /tmp/wt-Cxx/MUTANTS/{A,B}: confirm in the
# scratch worktree, then run the quick checks of C01..C19 with the change applied to /repo (always reverted).
cd /verif
mkdir -p work/mutlog
MD="${MUTDIR:-MUTANTS}"; LETTERS="${LETTERS:-A B}"
for P in "$@"; do
  for X in $LETTERS; do
    [ -f /tmp/wt-$P/$MD/$X.diff ] || continue
    LOG=work/mutlog/${P}_$X.txt
    { tools/confirm_mutant.sh /tmp/wt-$P $X $MD
      python3 tools/selftest.py /tmp/wt-$P/$MD/$X.diff C01 C02 C03 C04 C05 C06 C07 C08 C09 C10 C11 C12 C13 C14 C15 C16 C17 C18 C19
    } > $LOG 2>&1
    echo "done $P $X"
  done
done
