#!/usr/bin/env python3
"""Regenerates /verif/MANIFEST.json from the property table (run by hand after editing it)."""
import json, os, sys
sys.path.insert(0, os.path.dirname(os.path.abspath(__file__)))
from proptable import PROPS
VERIF = os.path.dirname(os.path.dirname(os.path.abspath(__file__)))

TEXT = {
 "C01": "Lean theorems Jp.C01.*: validPtr/validTok is established by every constructor/door and preserved by every accessor, splitter, slicer, prefix/suffix operation and by every finite history of the seven mutators (induction over the history); re-parse laws. Tied to the code by running every such operation of the real crate and of the model on the same lines (result texts compared; an independent recogniser re-checks every value the real API returned).",
 "C02": "Lean theorems: the validate_bytes scanner (state i/ptr_offset/tok_offset) accepts exactly the grammar (validate_ok_iff), its verdict and error equal the declarative parseSpec (parse_eq_spec), all eight doors agree (doors_agree). Correspondence: all eight real doors on every string of the exhaustive scope and the random stream.",
 "C03": "Lean theorems: Token::new = enc, decoded∘new = id, dec∘enc = id, enc∘dec = id on valid tokens (bijection), from_encoded accepts exactly validTok, verbatim, truthful errors. Correspondence on an exhaustive small alphabet scope + long random strings; independent escape/unescape oracles on the real crate.",
 "C04": "Lean theorems: tokens(from_tokens L) decoded = L, count, text = concat('/'+enc l), from_tokens(tokens p) = p, injectivity both ways, every accessor and builder equals the list operation. Correspondence: all accessor fields of the real crate vs model on generated lists and pointer texts; Vec<String> reference oracle.",
 "C05": "Lean theorems: the resolve loop = RFC 6901 walk over the token list (success, location, first failing step and kind), result is the node at the returned location, every node is addressable by its spelled path and only by it, no panic. Correspondence: location computed from the real reference's address, error kind, on tiny-grammar exhaustive + generated documents; independent walker oracle.",
 "C06": "`Assign::assign` → `assign_value` → `assign_array` / `assign_object` / `assign_scalar` → `expand` (all of src/assign.rs's walk, both backends; `&mut` references as document locations), Index::from_str, Index::for_len_incl, `Token::to_index` and `Display for Token` (what `token.to_string()` means)",
 "C07": "`Assign::assign` → `assign_value` → `assign_array` / `assign_object` / `assign_scalar` → `expand` (all of src/assign.rs's walk, both backends; `&mut` references as document locations), Index::from_str, Index::for_len_incl, `Token::to_index` and `Display for Token` (what `token.to_string()` means)",
 "C08": "Lean theorems: delete = deleteSpec (walk + removeAt), Some iff resolves, None ⇒ unchanged, never panics (Vec::remove guarded by for_len), root. Correspondence on documents/pointers aimed at index = len, len+1, '-', empty arrays; laws on the real crate.",
 "C09": "the four `resolve`/`resolve_mut` walks, both `delete` impls and `Assign::assign` → `assign_value` → `assign_array` / `assign_object` / `assign_scalar` → `expand` (all of src/assign.rs's walk, both backends; `&mut` references as document locations), `parse_index`, `Index::from_str`, `Index::for_len`",
 "C10": "every call a history can make: `Assign::assign` → `assign_value` → `assign_array` / `assign_object` / `assign_scalar` → `expand` (all of src/assign.rs's walk, both backends; `&mut` references as document locations), `delete` (both backends), the `resolve`/`resolve_mut` walks, `Index::from_str`, `Index::for_len` — `Jp.Tie.genStep` is one step made of regenerated functions only",
 "C11": "Lean theorems: one commuting square per mutator between the byte-level PointerBuf operation and the deque operation, lifted to every finite history (history_refines, history_text, history_decoded), out-of-range replace, append with root neutral. Correspondence: lock-step histories incl. exhaustive length ≤ 3.",
 "C12": "Lean theorems: each of the eight PointerIndex loops returns exactly the span of the token range the range table denotes (for every bound value, unbounded Nat: no overflow, Excluded(usize::MAX) ⇒ None), spans are the sub-list's text, split_at succeeds iff byte k is '/', pieces re-concatenate, no panic. Correspondence: Option + (offset,len) from address arithmetic.",
 "C13": "Lean theorems: starts_with/strip_prefix/ends_with/strip_suffix ⇔ list prefix/suffix on token lists (with the documented root exception), intersection = longest common prefix (symmetric, idempotent, root), concat = append (associative, root neutral), '/foo' is not a prefix of '/foobar'. Correspondence on adversarial pairs/triples.",
 "C14": "Lean theorems: NoLeadingSlash iff non-empty and not starting with '/', otherwise complete/pointer/source offsets are the first bad '~', the nearest '/' at or before it and their difference; the report keeps error and input; the label lies inside the string and starts at the '~'. Correspondence: offsets, report parts, label (exhaustive rejected strings ≤ 6/7).",
 "C15": "the four `resolve`/`resolve_mut` walks (json and toml), `Assign::assign` → `assign_value` → `assign_array` / `assign_object` / `assign_scalar` → `expand` (all of src/assign.rs's walk, both backends; `&mut` references as document locations) with its position/offset bookkeeping, the errors' `position()` / `offset()` accessors and `Diagnostic::labels` (resolve::Error and assign::Error; the label's text is not modelled), `parse_index`, `Index::from_str`, `Index::for_len`",
 "C16": "Lean theorems: Index::from_str = the declarative index grammar incl. error classification, Display round trips both ways, truthful errors, exact for_len/for_len_incl/for_len_unchecked. Correspondence: exhaustive small alphabet ≤ 5 + numbers around 2^64 + bound grid.",
 "C17": "Lean theorems (shallow by nature): each modelled PartialEq/PartialOrd impl = text equality / lexCmp; lexCmp is a total order consistent with ==; equal hash inputs. The deciding part is the per-impl differential on ordered pairs (20 eq + 20 ord forms), plus hash/map laws on the real crate.",
 "C18": "Lean theorems: serialize = text, deserialize∘serialize = ok, invalid refused, conversions are the identity on the text, Token::from(int) is canonical decimal. Correspondence: serde round trips, every conversion incl. Box with several capacities, 12 integer types.",
 "C19": "Lean theorems: every listed operation yields a view/pass-through of its argument (spans, Cow::borrowed, input itself); Token::new / decoded build a buffer iff a special byte / escape is present. Correspondence: a counting global allocator around each real call, zero/non-zero vs the model's annotation, plus controls that must allocate.",
 "C20": "Lean theorem all_subsets_build by `decide +kernel` over a feature-gate table regenerated from Cargo.toml and src/**/*.rs by a translator on every run; correspondence: real `cargo check` of all 2^n subsets of the features Cargo.toml declares (256 on the pinned tree) vs the model verdict, and the core operations under no-default-features vs default vs model.",
}
NOTE = ("Trusted: Lean 4.33.0 kernel; axioms ⊆ {propext, Classical.choice, Quot.sound} (audited per theorem on every run with #print axioms; no sorry/native_decide/bv_decide/axiom); "
        "the hand-written Lean model of the Rust code, tied to /repo only by the differential correspondence run (jpserve vs jpdriver on generated, bounded-exhaustive and corpus lines); "
        "the Rust harness, its law oracles and /verif/check; std/serde_json/toml semantics as listed in DESIGN.md §6; usize = 64 bit. ")
TIE = {
 "C01": "validate_bytes, Token::{from_encoded,new,decoded}, the seven range `get` impls, 13 `Pointer` methods, `from_tokens` and the seven `PointerBuf` mutators",
 "C02": "validate_bytes, `validate` and the doors `Pointer::parse`, `PointerBuf::parse`, `TryFrom<&str>`, `TryFrom<String>`, `FromStr for PointerBuf`, `Deserialize for PointerBuf` and the visitor of `Deserialize for &Pointer` (`from_static` is not translated)", "C14": "validate_bytes, the `ParseError` accessors `offset` / `pointer_offset` / `source_offset` / `complete_offset` / `invalid_encoding_len` and `<ParseError as Diagnostic>::labels`", "C03": "Token::from_encoded, Token::new, Token::decoded",
 "C04": "Pointer::{is_root,count,back,front,first,last,with_trailing_token,with_leading_token,concat}, `get(usize)`, PointerBuf::{from_tokens,push_back,push_front,append}, `Pointer::tokens` with `Tokens::next`, `Components::from` with `Components::next`", "C12": "the seven `PointerIndex::get` impls, split_front, split_at, split_back, parent",
 "C13": "Pointer::{starts_with,strip_prefix,ends_with,strip_suffix,intersection,is_root,split_at} and PointerBuf::append",
 "C16": "Index::from_str, Index::{for_len,for_len_incl,for_len_unchecked}, `Token::to_index` and both `TryFrom<Token>` impls",
 "C11": "PointerBuf::{push_front,push_back,pop_front,pop_back,append,replace,clear,from_tokens}",
 "C05": "the four `resolve`/`resolve_mut` walks (json and toml), `parse_index`, `Index::from_str`, `Index::for_len`",
 "C09": "the four `resolve`/`resolve_mut` walks and both `delete` impls (json and toml), `parse_index`, `Index::from_str`, `Index::for_len`",
 "C15": "the four `resolve`/`resolve_mut` walks (json and toml), `parse_index`, `Index::from_str`, `Index::for_len` (assign's own walk is not translated)",
 "C08": "`Delete::delete` for serde_json::Value and toml::Value, the `resolve_mut` walks it is built on, `split_back`, `Index::from_str`, `Index::for_len`",
 "C10": "`delete` (both backends), the `resolve`/`resolve_mut` walks, `Index::from_str`, `Index::for_len` (`assign` is not translated)",
 "C06": "the `expand` helper of `assign` (both backends), Index::from_str and Index::for_len_incl (`assign_value` itself is not translated)",
 "C07": "the `expand` helper of `assign` (both backends), Index::from_str and Index::for_len_incl (`assign_value` itself is not translated)",
 "C17": "the 17 hand-written `PartialEq` impls and the 15 `PartialOrd` impls between Pointer, &Pointer, PointerBuf, str, &str and String (one function per impl block)",
 "C18": "the `Display` impls of Token (decoded text), Pointer, PointerBuf (the text unchanged) and Index — `fmt` as the text written to the formatter; `Serialize` for Pointer and PointerBuf (the string handed to the serializer), `Deserialize for PointerBuf` and the visitor of `Deserialize for &Pointer` (from a carrier holding one string); the `From`/`Into` conversions are not translated",
 "C19": "the token, range-slicing, splitting and prefix/suffix functions listed for C03, C12, C13, C04",
}
def tie_text(pid):
    if pid not in TIE: return ""
    return (" Second tie (DESIGN §16): on every run tools/rs2lean.py regenerates Lean definitions of " + TIE[pid] +
            " from the current Rust source, and the theorems Jp.Tie.* (kernel-checked in the same run) prove them equal to the model for all inputs, "
            "so the property theorems also hold of the extracted definitions (Jp.Tie.Transport*).")
def tie_note(pid):
    if pid not in TIE: return ""
    return ("For the functions named in level_claimed the translator tools/rs2lean.py (Rust-subset parser, emission rules, std/crate API table) is additionally trusted; "
            "when a function leaves the translatable subset or its tie theorem no longer checks, the run falls back to the hand model + correspondence alone, says so in evidence.coverage.source_tie, and raises its budget. ")
checks = []
for pid in sorted(PROPS):
    p = PROPS[pid]
    checks.append(dict(
        property_id=pid,
        quick_cmd=f"./check {pid} --tier quick",
        thorough_cmd=f"./check {pid} --tier thorough",
        evidence_file=f"/verif/evidence/{pid}.json",
        replay_cmd_template=f"./check {pid} --replay {{path}}",
        engine="lean-proof+correspondence",
        level_claimed=dict(category="proof", text=TEXT[pid] + tie_text(pid), design_ref="DESIGN.md §8 " + pid + (", §16" if pid in TIE else "")),
        level_note=NOTE + tie_note(pid) + (("Partial: " + p["partial"]) if p.get("partial") else ""),
        technique=("Lean 4 machine-checked proof over a hand-written model + differential correspondence check (Rust harness vs compiled Lean driver)" +
                   ("; the functions the property is anchored in are regenerated from the Rust source by a translator (tools/rs2lean.py) and proved equal to the model on every run" if pid in TIE else ""))
                  if pid != "C20" else "Lean 4 `decide +kernel` over a table regenerated by a translator + exhaustive cargo check sweep",
    ))
man = dict(
    version=1,
    setup_cmd="cd /verif && ./setup.sh",
    hooks=dict(guard="jsonptr_verif", enable="no source hook is needed: every observable is reachable through the public API (RUSTFLAGS='--cfg jsonptr_verif' is reserved and unused)",
               baseline_off_cmd="cd /repo && cargo test --workspace --no-fail-fast --offline", source_commits=[], add_only=True),
    engines=[dict(name="lean-proof+correspondence", path="/verif/check", serves_properties=sorted(PROPS),
                  kind_free_text="Lean 4 proofs (lake project /verif/lean) + Rust differential harness (/verif/harness, /verif/harness-core) + Python orchestrator")],
    checks=checks,
    notes="Seven genuine defects were found and repaired by unguarded `fix:` commits in /repo (see known_findings.txt, DESIGN.md §7). Mutant self-validation: /verif/mutants (reverse fixes), /verif/seeded (sub-agent changes).",
    not_applicable=[],
)
json.dump(man, open(os.path.join(VERIF, "MANIFEST.json"), "w"), indent=1, ensure_ascii=False)
print("MANIFEST.json written with", len(checks), "checks")
