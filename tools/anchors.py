#!/usr/bin/env python3
"""tools/anchors.py record — rewrite lean/anchors.json: sha256 of every /repo source file a property is
anchored in (properties.jsonl `anchors.files`, plus the files its operations reach), taken at the state
the model was last validated against. Run by hand after the model has been re-validated on a new tree."""
import json, os, hashlib, sys
VERIF = os.path.dirname(os.path.dirname(os.path.abspath(__file__)))
EXTRA = {  # files reached by the property's operations beyond its declared anchors
 "C05": ["src/pointer.rs", "src/token.rs", "src/index.rs"], "C06": ["src/pointer.rs", "src/token.rs", "src/index.rs"],
 "C07": ["src/pointer.rs", "src/token.rs", "src/index.rs"], "C08": ["src/pointer.rs", "src/token.rs"],
 "C09": ["src/pointer.rs", "src/token.rs", "src/index.rs"], "C10": ["src/pointer.rs", "src/token.rs", "src/index.rs"],
 "C11": ["src/token.rs"], "C12": ["src/token.rs"], "C13": ["src/token.rs"], "C15": ["src/pointer.rs", "src/token.rs", "src/diagnostic.rs", "src/pointer/slice.rs"],
 "C14": ["src/token.rs"], "C17": [], "C18": ["src/index.rs"], "C02": ["src/token.rs", "src/diagnostic.rs"],
}
props, files = {}, {}
for l in open(os.path.join(VERIF, "properties.jsonl")):
    p = json.loads(l)
    fs = sorted(set(p["anchors"]["files"]) | set(EXTRA.get(p["id"], [])))
    props[p["id"]] = fs
    for f in fs:
        files[f] = hashlib.sha256(open(os.path.join("/repo", f), "rb").read()).hexdigest()
head = os.popen("git -C /repo rev-parse HEAD").read().strip()
json.dump(dict(repo_head=head, properties=props, files=files), open(os.path.join(VERIF, "lean", "anchors.json"), "w"), indent=1)
print("anchors recorded for", len(files), "files at", head[:8])
