#!/usr/bin/env python3
"""
tools/featgen.py — the C20 translator. Regenerates /verif/lean/Jp/Gen/Features.lean from the working
tree on every run: the direct feature edges of Cargo.toml under Cargo's real rules (implicit feature for
an optional dependency never named `dep:x`; a non-weak "pkg/feat" entry enables the dependency *and* the
feature of that name; "pkg?/feat" does neither), and one row per reference found in src/**/*.rs to an
optional crate (`std`, `serde`, `serde_json`, `toml`, `miette`), to a gated module of the crate or to a
gated inherent method, together with the conjunction of the `#[cfg(..)]` gates enclosing it (module-level
gates from lib.rs included; `cfg(test)` regions are dead). The Lean file computes the closure itself and
the theorem `Jp.C20.all_subsets_build` re-checks "every enabled reference is available" for all `2^nFeat`
subsets (256 on the pinned tree; the feature universe is read from Cargo.toml) with `decide +kernel`. This is an abstraction of rustc's name resolution; the exhaustive
`cargo check` sweep (tools/c20.py) is its correspondence check.

  featgen.py [--repo DIR] [--out FILE] [--json]     (--json: print the table and the model verdict per subset)
"""
import re, sys, os, itertools, json
try:
    import tomllib
except ImportError:
    tomllib = None

ROOT = "/repo"
KNOWN_FEATS = ["std", "serde", "json", "toml", "assign", "resolve", "delete", "miette"]
# The feature universe is read from Cargo.toml on every run (build_table): the eight features of the pinned tree
# keep their bit positions, features a later tree adds follow in alphabetical order, removed ones disappear.
FEATS = list(KNOWN_FEATS)
KNOWN_DEPS = ["crate:std", "dep:serde", "dep:serde_json", "dep:toml", "dep:miette"]
OPT_CRATES = {"serde_json": "dep:serde_json", "toml": "dep:toml", "miette": "dep:miette", "serde": "dep:serde", "std": "crate:std"}

def strip(src):
    """blank out comments, string and char literals, keeping offsets/newlines"""
    out = list(src); i = 0; n = len(src)
    def blank(a, b):
        for k in range(a, b):
            if out[k] != '\n': out[k] = ' '
    while i < n:
        c = src[i]
        if src.startswith("//", i):
            j = src.find("\n", i); j = n if j < 0 else j; blank(i, j); i = j
        elif src.startswith("/*", i):
            depth = 1; j = i + 2
            while j < n and depth:
                if src.startswith("/*", j): depth += 1; j += 2
                elif src.startswith("*/", j): depth -= 1; j += 2
                else: j += 1
            blank(i, j); i = j
        elif c == '"':
            j = i + 1
            while j < n and src[j] != '"':
                j += 2 if src[j] == '\\' else 1
            blank(i + 1, j); i = j + 1
        elif c == 'r' and re.match(r'r#*"', src[i:]):
            m = re.match(r'r(#*)"', src[i:]); close = '"' + m.group(1)
            j = src.find(close, i + len(m.group(0))); blank(i, j + len(close)); i = j + len(close)
        elif c == "'" and re.match(r"'(\\.|[^\\'])'", src[i:]):
            m = re.match(r"'(\\.|[^\\'])'", src[i:]); blank(i + 1, i + len(m.group(0)) - 1); i += len(m.group(0))
        else:
            i += 1
    return "".join(out)

def parse_cfg(s):
    """cfg expression -> nested tuple"""
    s = s.strip()
    m = re.match(r'^(all|any|not)\s*\((.*)\)$', s, re.S)
    if m:
        parts, depth, cur = [], 0, ""
        for ch in m.group(2):
            if ch == '(': depth += 1
            if ch == ')': depth -= 1
            if ch == ',' and depth == 0: parts.append(cur); cur = ""
            else: cur += ch
        if cur.strip(): parts.append(cur)
        return (m.group(1),) + tuple(parse_cfg(p) for p in parts)
    m = re.match(r'^feature\s*=\s*"?\s*([a-z_]*)\s*"?$', s)
    if m: return ("feat", m.group(1))
    return ("atom", s)

def ev(e, S, atoms):
    k = e[0]
    if k == "feat": return e[1] in S
    if k == "atom": return atoms.get(e[1], False)
    if k == "all": return all(ev(x, S, atoms) for x in e[1:])
    if k == "any": return any(ev(x, S, atoms) for x in e[1:])
    if k == "not": return not ev(e[1], S, atoms)

def item_extent(txt, pos):
    """extent of the item starting at pos (after attributes): up to matching '}' or ';' at depth 0"""
    depth = 0; i = pos; n = len(txt)
    while i < n:
        c = txt[i]
        if c in "({[": depth += 1
        elif c in ")}]":
            depth -= 1
            if depth == 0 and c == '}': return i + 1
        elif c == ';' and depth == 0: return i + 1
        i += 1
    return n

def regions(raw, txt_nocomment, src_with_strings):
    """yield (gate_expr, start, end) for every #[cfg(...)] attribute; cfg strings are read from a comment-stripped
    but string-preserving copy"""
    out = []
    for m in re.finditer(r'#\s*\[\s*cfg\s*\(', txt_nocomment):
        # find matching ')' then ']'
        i = m.end(); depth = 1
        while depth: 
            depth += {'(': 1, ')': -1}.get(txt_nocomment[i], 0); i += 1
        expr = src_with_strings[m.end():i - 1]
        j = txt_nocomment.index(']', i) + 1
        # skip further attributes
        while True:
            mm = re.match(r'\s*#\s*\[', txt_nocomment[j:])
            if not mm: break
            k = j + mm.end(); d = 1
            while d: d += {'[': 1, ']': -1}.get(txt_nocomment[k], 0); k += 1
            j = k
        end = item_extent(txt_nocomment, j)
        out.append((parse_cfg(expr), m.start(), end, txt_nocomment[j:end].lstrip()[:60].split('\n')[0]))
    return out

def strip_comments_only(src):
    s = strip(src)
    # restore string literal contents (need them for cfg(feature = "x")): do a comment-only strip
    out = list(src); i = 0; n = len(src)
    while i < n:
        if src[i] == '"':
            j = i + 1
            while j < n and src[j] != '"': j += 2 if src[j] == '\\' else 1
            i = j + 1
        elif src.startswith("//", i):
            j = src.find("\n", i); j = n if j < 0 else j
            for k in range(i, j): out[k] = ' '
            i = j
        elif src.startswith("/*", i):
            j = src.find("*/", i) + 2
            for k in range(i, j):
                if out[k] != '\n': out[k] = ' '
            i = j
        else: i += 1
    return "".join(out)


MODS = ["assign", "delete", "resolve"]
DEPS = list(KNOWN_DEPS)
ATOMS = ["test", "doc", "docsrs"]

def build_table(root):
    global ROOT, FEATS, DEPS, OPT_CRATES
    ROOT = root
    cargo = open(os.path.join(ROOT, "Cargo.toml")).read()
    ct = tomllib.loads(cargo)
    feats = {k: list(v) for k, v in ct.get("features", {}).items()}
    deps = ct.get("dependencies", {})
    optional = {k for k, v in deps.items() if isinstance(v, dict) and v.get("optional")}
    used_dep = {imp[4:] for v in feats.values() for imp in v if imp.startswith("dep:")}
    for d in optional:
        if d not in used_dep and d not in feats: feats[d] = ["dep:" + d]
    # the feature universe of THIS tree (`default` is a set of features, not a feature of its own for our purpose:
    # every subset is swept with --no-default-features)
    names = [f for f in feats if f != "default"]
    FEATS[:] = [f for f in KNOWN_FEATS if f in names] + sorted(f for f in names if f not in KNOWN_FEATS)
    # optional crates of THIS tree (+ std, which the `std` feature switches on through cfg_attr(no_std))
    DEPS[:] = [d for d in KNOWN_DEPS if d == "crate:std" or d[4:] in optional] + sorted("dep:" + d for d in optional if "dep:" + d not in KNOWN_DEPS)
    OPT_CRATES.clear()
    OPT_CRATES.update({d[4:].replace("-", "_"): d for d in DEPS if d.startswith("dep:")})
    OPT_CRATES["std"] = "crate:std"
    # direct edges
    fedges, dedges = [], []          # (f -> g) feature edges, (f -> dep) availability edges
    for f, imps in feats.items():
        for imp in imps:
            if imp.startswith("dep:"):
                dedges.append((f, imp))
            elif "/" in imp:
                pkg, _ = imp.split("/", 1)
                weak = pkg.endswith("?"); pkg = pkg.rstrip("?")
                if not weak and pkg in optional:
                    dedges.append((f, "dep:" + pkg))
                    if pkg in feats: fedges.append((f, pkg))
            else:
                fedges.append((f, imp))
    dedges.append(("std", "crate:std"))
    always = ["dep:" + d for d in deps if d not in optional]
    files = []
    for dp, _, fs in os.walk(os.path.join(ROOT, "src")):
        for f in sorted(fs):
            if f.endswith(".rs"): files.append(os.path.join(dp, f))
    files.sort()
    table, modgate, gated_items, parsed = [], {}, {}, {}
    for path in files:
        raw = open(path).read(); nc = strip(raw); cs = strip_comments_only(raw)
        regs = regions(raw, nc, cs)
        parsed[path] = (raw, nc, regs)
        if path.endswith("lib.rs"):
            for g, a, b, snip in regs:
                m = re.match(r'(pub\s+)?mod\s+(\w+)\s*;', snip)
                if m: modgate[m.group(2)] = g
            # no_std switch: #![cfg_attr(not(feature = "std"), no_std)] is what makes `std::` need the feature
    def gates_at(path, pos):
        raw, nc, regs = parsed[path]
        mod = os.path.basename(path)[:-3]
        gates = [modgate[mod]] if mod in modgate else []
        for g, a, b, snip in regs:
            if a <= pos < b: gates.append(g)
        return gates
    for path in files:
        raw, nc, regs = parsed[path]
        rel = os.path.relpath(path, ROOT)
        crate_alt = "|".join(sorted((re.escape(c) for c in OPT_CRATES), key=len, reverse=True))
        for m in re.finditer(r'(?<![\w:])(::)?(' + crate_alt + r')\s*::', nc):
            table.append((rel, gates_at(path, m.start()), OPT_CRATES[m.group(2)], nc.count('\n', 0, m.start()) + 1))
        for m in re.finditer(r'crate::(assign|delete|resolve|Assign|Delete|Resolve|ResolveMut)\b', nc):
            name = m.group(1)
            modname = {"Assign": "assign", "Delete": "delete", "Resolve": "resolve", "ResolveMut": "resolve"}.get(name, name)
            table.append((rel, gates_at(path, m.start()), "mod:" + modname, nc.count('\n', 0, m.start()) + 1))
        for m in re.finditer(r'\.\s*(resolve_mut|resolve|assign|delete|to_json_value)\s*\(', nc):
            need = {"resolve": "mod:resolve", "resolve_mut": "mod:resolve", "assign": "mod:assign",
                    "delete": "mod:delete", "to_json_value": "feat:json"}[m.group(1)]
            table.append((rel, gates_at(path, m.start()), need, nc.count('\n', 0, m.start()) + 1))
    for mname in MODS:
        modgate.setdefault(mname, ("all",))      # ungated module = always there
    # regions whose gate mentions the `std` feature (second half of C20: the core must not behave
    # differently without std): every such region must be an `impl std::error::Error for …` block
    def mentions(e, feat):
        if e[0] == "feat": return e[1] == feat
        if e[0] == "atom": return False
        return any(mentions(x, feat) for x in e[1:])
    def is_test(e):
        if e[0] == "atom": return e[1] == "test"
        if e[0] == "not": return False
        if e[0] == "feat": return False
        return any(is_test(x) for x in e[1:])
    stdgated = []
    for path in files:
        raw, nc, regs = parsed[path]
        rel = os.path.relpath(path, ROOT)
        for g, a, b, snip in regs:
            if not mentions(g, "std"): continue
            if any(is_test(g2) for g2, a2, b2, _ in regs if a2 <= a < b2 and (a2, b2) != (a, b)): continue
            kind = 0 if re.match(r'impl\s*(<[^>]*>)?\s*std::error::Error\s+for\b', snip) else 1
            stdgated.append((rel, nc.count('\n', 0, a) + 1, kind, snip[:50]))
    # cfg_attr(not(feature = "std"), …) attributes: only `no_std` and `macro_use` are behaviour-neutral
    for path in files:
        raw, nc, regs = parsed[path]
        rel = os.path.relpath(path, ROOT)
        cs = strip_comments_only(raw)
        for m in re.finditer(r'#!?\s*\[\s*cfg_attr\s*\(([^\]]*)\]', cs):
            body = m.group(1)
            if "std" not in body: continue
            kind = 0 if re.search(r',\s*(no_std|macro_use)\s*\)\s*$', body.strip()) else 1
            stdgated.append((rel, cs.count('\n', 0, m.start()) + 1, kind, "cfg_attr(" + body.strip()[:40]))
    return dict(feats=feats, fedges=fedges, dedges=dedges, always=always, table=table, modgate=modgate, stdgated=stdgated,
                featnames=list(FEATS), depnames=list(DEPS))

def closure(T, S0):
    S = set(S0)
    changed = True
    while changed:
        changed = False
        for f, g in T["fedges"]:
            if f in S and g not in S: S.add(g); changed = True
    avail = set(T["always"])
    for f, d in T["dedges"]:
        if f in S: avail.add(d)
    return S, avail

def verdict(T, mask):
    S0 = [f for i, f in enumerate(FEATS) if mask >> i & 1]
    S, avail = closure(T, S0)
    atoms = {a: False for a in ATOMS}
    bad = []
    for (f, gates, need, line) in T["table"]:
        if all(ev(g, S, atoms) for g in gates):
            if need.startswith("dep:") or need.startswith("crate:"): ok = need in avail
            elif need.startswith("mod:"): ok = ev(T["modgate"][need[4:]], S, atoms)
            else: ok = need[5:] in S
            if not ok: bad.append((f, line, need))
    return S0, bad

def lean_cfg(e):
    k = e[0]
    if k == "feat":
        return f".feat {FEATS.index(e[1])}" if e[1] in FEATS else ".ff"
    if k == "atom":
        return f".atom {ATOMS.index(e[1])}" if e[1] in ATOMS else ".ff"
    if k == "not": return f".not ({lean_cfg(e[1])})"
    if k in ("all", "any"):
        unit = ".tt" if k == "all" else ".ff"
        con = ".and" if k == "all" else ".or"
        parts = [lean_cfg(x) for x in e[1:]]
        if not parts: return unit
        out = parts[-1]
        for p in reversed(parts[:-1]): out = f"{con} ({p}) ({out})"
        return out
    raise ValueError(e)

def lean_need(need):
    if need.startswith("dep:") or need.startswith("crate:"): return f".dep {DEPS.index(need)}"
    if need.startswith("mod:"): return f".modl {MODS.index(need[4:])}"
    return f".feat {FEATS.index(need[5:])}"

def emit_lean(T, out):
    L = []
    L.append("/-  GENERATED by /verif/tools/featgen.py from /repo's Cargo.toml and src/**/*.rs — do not edit.")
    L.append("    Regenerated on every run of `./check C20`. -/")
    L.append("import Jp.Spec.Features")
    L.append("namespace Jp.Gen")
    L.append("open Jp.Spec.Features")
    L.append("")
    L.append(f"/-- number of features declared by Cargo.toml (implicit optional-dependency features included, `default` excluded) -/")
    L.append(f"def nFeat : Nat := {len(FEATS)}")
    L.append("")
    L.append("/-- direct feature edges `f ⇒ g` of Cargo.toml (feature indices: " + ", ".join(f"{i}={f}" for i, f in enumerate(FEATS)) + ") -/")
    fe = [(FEATS.index(f), FEATS.index(g)) for f, g in T["fedges"] if f in FEATS and g in FEATS]
    L.append("def featEdges : List (Nat × Nat) := [" + ", ".join(f"({a}, {b})" for a, b in fe) + "]")
    L.append("")
    L.append("/-- feature `f` makes optional crate `d` available (crate indices: " + ", ".join(f"{i}={d}" for i, d in enumerate(DEPS)) + ") -/")
    de = [(FEATS.index(f), DEPS.index(d)) for f, d in T["dedges"] if f in FEATS and d in DEPS]
    L.append("def depEdges : List (Nat × Nat) := [" + ", ".join(f"({a}, {b})" for a, b in de) + "]")
    L.append("")
    L.append("/-- gates of the crate's own gated modules (module indices: " + ", ".join(f"{i}={m}" for i, m in enumerate(MODS)) + ") -/")
    L.append("def modGates : List Cfg := [" + ", ".join(lean_cfg(T["modgate"][m]) for m in MODS) + "]")
    L.append("")
    L.append("/-- one row per reference: (enclosing gates, what it needs); source positions in the comments -/")
    L.append("def rows : List Row := [")
    rows = []
    for (f, gates, need, line) in T["table"]:
        g = "[" + ", ".join(lean_cfg(x) for x in gates) + "]"
        rows.append(f"  ⟨{g}, {lean_need(need)}⟩  -- {f}:{line} {need}")
    # commas: put them before the comment
    for i, r in enumerate(rows):
        code, com = r.split("  -- ", 1)
        L.append(code + ("," if i + 1 < len(rows) else "") + "  -- " + com)
    L.append("]")
    L.append("")
    L.append("def table : Table := ⟨nFeat, featEdges, depEdges, modGates, rows⟩")
    L.append("")
    L.append("/-- every region / attribute whose gate mentions the `std` feature, outside `cfg(test)`: kind 0 = an")
    L.append("    `impl std::error::Error for …` block or a `no_std` / `macro_use` attribute (no behaviour), kind 1 = anything else -/")
    L.append("def stdGated : List Nat := [")
    sg = T["stdgated"]
    for i, (f, line, kind, snip) in enumerate(sg):
        L.append(f"  {kind}" + ("," if i + 1 < len(sg) else "") + f"  -- {f}:{line} {snip}")
    L.append("]")
    L.append("")
    L.append("end Jp.Gen")
    os.makedirs(os.path.dirname(out), exist_ok=True)
    text = "\n".join(L) + "\n"
    if not os.path.exists(out) or open(out).read() != text:
        open(out, "w").write(text)

def main():
    import argparse
    ap = argparse.ArgumentParser()
    ap.add_argument("--repo", default="/repo")
    ap.add_argument("--out")
    ap.add_argument("--json", action="store_true")
    a = ap.parse_args()
    T = build_table(a.repo)
    if a.out: emit_lean(T, a.out)
    if a.json:
        res = {}
        for mask in range(2 ** len(FEATS)):
            S0, bad = verdict(T, mask)
            res[mask] = dict(features=S0, unsatisfied=[list(b) for b in bad])
        print(json.dumps(dict(rows=len(T["table"]), fedges=T["fedges"], dedges=T["dedges"], verdicts=res)))
    else:
        nbad = sum(1 for m in range(2 ** len(FEATS)) if verdict(T, m)[1])
        print("std-gated regions:", len(T["stdgated"]), "behavioural:", [x for x in T["stdgated"] if x[2]])
        print(f"featgen: {len(T['table'])} rows, {len(T['fedges'])} feature edges, {len(T['dedges'])} crate edges, subsets with an unsatisfied need: {nbad}")

if __name__ == "__main__":
    main()
