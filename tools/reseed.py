#!/usr/bin/env python3
"""tools/reseed.py [ids...] — re-run the quick checks C01..C19 (C20 for C20-*) against every stored seeded change
and refresh `detection`, `caught_by`, `target_property_caught` in its meta.json."""
import sys, os, re, json, glob, subprocess
VERIF = os.path.dirname(os.path.dirname(os.path.abspath(__file__)))
ids = sys.argv[1:]
for d in sorted(glob.glob(os.path.join(VERIF, "seeded", "*"))):
    sid = os.path.basename(d)
    if ids and sid not in ids: continue
    meta = json.load(open(os.path.join(d, "meta.json")))
    props = [f"C{i:02d}" for i in range(1, 20)]
    if sid.startswith("C20"): props = ["C20", "C02", "C03", "C04", "C12", "C13"]
    out = subprocess.run([sys.executable, os.path.join(VERIF, "tools", "selftest.py"), os.path.join(d, "patch.diff")] + props,
                         capture_output=True, text=True).stdout
    det = {}
    for m in re.finditer(r"^(C\d\d) rc=(\d+) (.*)$", out, re.M):
        det[m.group(1)] = dict(rc=int(m.group(2)), report=m.group(3)[:300])
    meta["detection"] = det
    meta["caught_by"] = sorted(k for k, v in det.items() if v["rc"] == 1)
    meta["undecided"] = sorted(k for k, v in det.items() if v["rc"] == 2)
    meta["target_property_caught"] = meta["breaks_property"] in meta["caught_by"]
    json.dump(meta, open(os.path.join(d, "meta.json"), "w"), indent=1)
    print(sid, "caught_by", meta["caught_by"], "undecided", meta["undecided"], flush=True)
