#!/usr/bin/env python3
"""
tools/mine.py — literal mining (DESIGN §16): numbers and byte/char/string literals that occur in source lines
which differ from the snapshot the model was validated against (lean/anchors_src/). A threshold or special value that
a change introduces (`if len >= 64`, `b'.'`, `"$ref"`, `chunks_exact(32)`) is thereby tried by the generators even
when no built-in stream would reach it.  Pure text processing; never an alarm by itself.
  mine(repo, verif) -> dict(nums=[...], strs=[bytes, ...], files=[...])
"""
import os, re, difflib

NUM = re.compile(r"(?<![\w.])(0x[0-9a-fA-F_]+|\d[\d_]*)(?:usize|u8|u16|u32|u64|i32|i64|isize)?(?![\w.]*\w)")
BYTE = re.compile(r"b'((?:[^'\\]|\\.|\\x[0-9a-fA-F]{2}))'")
CHAR = re.compile(r"(?<!b)'((?:[^'\\]|\\.|\\x[0-9a-fA-F]{2}|\\u\{[0-9a-fA-F]+\}))'")
STR = re.compile(r'b?"((?:[^"\\]|\\.)*)"')

def _unesc(s):
    try:
        return s.encode('utf-8').decode('unicode_escape').encode('latin-1', 'ignore') if '\\' in s else s.encode('utf-8')
    except Exception:
        return s.encode('utf-8', 'ignore')

def strip_tests(src):
    i = src.find("#[cfg(test)]\nmod tests")
    return src if i < 0 else src[:i]

def mine(repo, verif, max_items=40):
    snap = os.path.join(verif, "lean", "anchors_src")
    nums, strs, files = [], [], []
    for root, _, fs in os.walk(os.path.join(repo, "src")):
        for f in fs:
            if not f.endswith(".rs"): continue
            cur_p = os.path.join(root, f)
            rel = os.path.relpath(cur_p, repo)
            try: cur = strip_tests(open(cur_p, encoding="utf-8", errors="replace").read())
            except OSError: continue
            old_p = os.path.join(snap, rel)
            old = strip_tests(open(old_p, encoding="utf-8", errors="replace").read()) if os.path.exists(old_p) else ""
            if cur == old: continue
            files.append(rel)
            added = [l[1:] for l in difflib.unified_diff(old.split("\n"), cur.split("\n"), lineterm="", n=0)
                     if l.startswith("+") and not l.startswith("+++")]
            for line in added:
                code = re.sub(r"//.*$", "", line)
                for m in NUM.finditer(code):
                    t = m.group(1).replace("_", "")
                    try: v = int(t, 16) if t.lower().startswith("0x") else int(t)
                    except ValueError: continue
                    if v.bit_length() > 64: continue
                    if t.lower().startswith("0x") and v > 0xFFFF:
                        # a wide mask such as 0x2F2F2F2F2F2F2F2F / 0x8080…: its distinct bytes are what matters
                        for b in set(v.to_bytes(8, "little")):
                            if 0 < b < 0x80 and bytes([b]) not in strs: strs.append(bytes([b]))
                        continue
                    if v not in nums: nums.append(v)
                for rx in (BYTE, CHAR):
                    for m in rx.finditer(code):
                        b = _unesc(m.group(1))
                        if b and b not in strs: strs.append(b)
                for m in STR.finditer(code):
                    b = _unesc(m.group(1))
                    if 0 < len(b) <= 40 and b not in strs: strs.append(b)
    return dict(nums=nums[:max_items], strs=strs[:max_items], files=files)

if __name__ == "__main__":
    import sys
    V = os.path.dirname(os.path.dirname(os.path.abspath(__file__)))
    print(mine(sys.argv[1] if len(sys.argv) > 1 else "/repo", V))
