#!/usr/bin/env python3
"""
tools/selftest.py PATCH PROP [PROP ...]   — apply PATCH to /repo, run the quick checks of the given
properties, undo the patch straight afterwards (always), and print one line per property:
  <prop> rc=<exit code> <first VIOLATION line or 'silent'>
`--all` runs all 20. Evidence files are restored afterwards (they must come from the unchanged tree).
"""
import sys, os, subprocess, shutil, tempfile
VERIF = os.path.dirname(os.path.dirname(os.path.abspath(__file__)))
REPO = os.environ.get("VERIF_REPO", "/repo")
def main():
    patch = os.path.abspath(sys.argv[1]); props = sys.argv[2:]
    if props == ["--all"]: props = [f"C{i:02d}" for i in range(1, 21)]
    st = subprocess.run(["git", "-C", REPO, "status", "--porcelain", "--untracked-files=no"], capture_output=True, text=True).stdout
    if st.strip():
        print("refusing: /repo has uncommitted changes"); return 2
    keep = tempfile.mkdtemp(prefix="ev-keep-")
    ev = os.path.join(VERIF, "evidence")
    if os.path.isdir(ev): shutil.copytree(ev, os.path.join(keep, "evidence"))
    r = subprocess.run(["git", "-C", REPO, "apply", patch], capture_output=True, text=True)
    if r.returncode != 0:
        print("patch does not apply:", r.stderr.strip()); return 2
    try:
        for p in props:
            out = subprocess.run([os.path.join(VERIF, "check"), p], cwd=VERIF, capture_output=True, text=True)
            vio = [l for l in out.stdout.splitlines() if l.startswith("VIOLATION")]
            tail = vio[0] if vio else ("silent" if out.returncode == 0 else out.stdout.strip().splitlines()[-1][:200])
            detail = ""
            if vio:
                import json, re
                m = re.search(r"replay=(\S+)", vio[0])
                try:
                    j = json.load(open(m.group(1)))
                    detail = f" | {j.get('kind')} field={j.get('field')} line={str(j.get('line'))[:100]}"
                except Exception: pass
            print(f"{p} rc={out.returncode} {tail}{detail}", flush=True)
    finally:
        subprocess.run(["git", "-C", REPO, "checkout", "--", "."])
        if os.path.isdir(os.path.join(keep, "evidence")):
            shutil.rmtree(ev, ignore_errors=True); shutil.copytree(os.path.join(keep, "evidence"), ev)
        shutil.rmtree(keep, ignore_errors=True)
    return 0
if __name__ == "__main__":
    sys.exit(main())
