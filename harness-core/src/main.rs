//! jpcore — the core operations of the line protocol (PROTOCOL.md) against `jsonptr` built with
//! `default-features = false` (no_std + alloc). Prints the same value fields as jpserve for the
//! operations it knows; no law fields. Used by `./check C20` (second half).
use jsonptr::{index::Index, Pointer, PointerBuf, Token};
use std::io::{BufRead, Write};
use std::ops::Bound;
use std::str::FromStr;

fn unhex(s: &str) -> Option<String> {
    let s = s.strip_prefix('x')?;
    if s.len() % 2 != 0 { return None; }
    let mut v = Vec::with_capacity(s.len() / 2);
    let b = s.as_bytes();
    for i in (0..b.len()).step_by(2) {
        let h = (b[i] as char).to_digit(16)?; let l = (b[i + 1] as char).to_digit(16)?;
        if (b[i] as char).is_ascii_uppercase() || (b[i + 1] as char).is_ascii_uppercase() { return None; }
        v.push((h * 16 + l) as u8);
    }
    String::from_utf8(v).ok()
}
fn hex(s: &str) -> String {
    let mut o = String::with_capacity(1 + 2 * s.len()); o.push('x');
    for b in s.bytes() { o.push_str(&format!("{:02x}", b)); }
    o
}
fn opt(o: Option<String>) -> String { o.unwrap_or_else(|| "none".into()) }
fn list(v: Vec<String>) -> String { format!("[{}]", v.join(",")) }
fn view(base: &str, part: &str) -> String {
    if part.is_empty() { return "view(_,0)".into(); }
    let b = base.as_ptr() as usize; let p = part.as_ptr() as usize;
    if p < b || p + part.len() > b + base.len() { return format!("view(!,{})", part.len()); }
    format!("view({},{})", p - b, part.len())
}
fn num(s: &str) -> Option<usize> { if s.is_empty() || !s.bytes().all(|b| b.is_ascii_digit()) { None } else { s.parse().ok() } }

fn accessors(p: &Pointer) -> String {
    let toks: Vec<Token> = p.tokens().collect();
    format!("text={} toks={} encs={} count={} first={} last={} is_root={} len={}",
        hex(p.as_str()),
        list(toks.iter().map(|t| hex(&t.decoded())).collect()),
        list(toks.iter().map(|t| hex(t.encoded())).collect()),
        p.count(),
        opt(p.first().map(|t| hex(&t.decoded()))),
        opt(p.last().map(|t| hex(&t.decoded()))),
        p.is_root() as u8, p.len())
}

fn bound(s: &str) -> Option<Bound<usize>> {
    if s == "un" { return Some(Bound::Unbounded); }
    let (k, n) = s.split_once(':')?;
    let n = num(n)?;
    match k { "in" => Some(Bound::Included(n)), "ex" => Some(Bound::Excluded(n)), _ => None }
}

fn step(line: &str) -> Option<String> {
    let f: Vec<&str> = line.split(' ').collect();
    let vw = |p: &Pointer, r: Option<&Pointer>| match r { None => "r=none".to_string(), Some(x) => format!("r=some({})", view(p.as_str(), x.as_str())) };
    Some(match f.as_slice() {
        ["parse", s] => {
            let s = unhex(s)?;
            match Pointer::parse(&s) {
                Ok(p) => format!("d1=ok({}) co=none src=none", hex(p.as_str())),
                Err(e) => {
                    let d1 = if e.is_no_leading_slash() { "err(nls)".to_string() } else { format!("err(enc,{},{})", e.pointer_offset(), e.source_offset()) };
                    let src = match &e { jsonptr::ParseError::InvalidEncoding { source, .. } => match source.source { jsonptr::InvalidEncoding::Tilde => "tilde", jsonptr::InvalidEncoding::Slash => "slash" }, _ => "none" };
                    format!("d1={} co={} src={}", d1, e.complete_offset(), src)
                }
            }
        }
        ["tok_int", ty, dec] => {
            macro_rules! mk { ($t:ty) => {{ let v: $t = dec.parse::<$t>().ok()?; Token::from(v).encoded().to_string() }}; }
            let enc = match *ty {
                "u8" => mk!(u8), "u16" => mk!(u16), "u32" => mk!(u32), "u64" => mk!(u64), "u128" => mk!(u128), "usize" => mk!(usize),
                "i8" => mk!(i8), "i16" => mk!(i16), "i32" => mk!(i32), "i64" => mk!(i64), "i128" => mk!(i128), "isize" => mk!(isize),
                _ => return None,
            };
            format!("enc={}", hex(&enc))
        }
        ["tok_new", s] => { let s = unhex(s)?; let t = Token::new(s.as_str()); format!("enc={} dec={}", hex(t.encoded()), hex(&t.decoded())) }
        ["from_encoded", s] => {
            let s = unhex(s)?;
            match Token::from_encoded(&s) {
                Ok(t) => { let d = t.decoded().into_owned(); format!("r=ok({},{},{})", hex(t.encoded()), hex(&d), hex(Token::new(d.as_str()).encoded())) }
                Err(e) => format!("r=err({},{})", match e.source { jsonptr::InvalidEncoding::Tilde => "tilde", jsonptr::InvalidEncoding::Slash => "slash" }, e.offset),
            }
        }
        ["index_str", s] => {
            let s = unhex(s)?;
            match Index::from_str(&s) {
                Ok(Index::Num(n)) => format!("r=ok(num,{}) disp={}", n, hex(&Index::Num(n).to_string())),
                Ok(Index::Next) => format!("r=ok(next) disp={}", hex("-")),
                Err(e) => {
                    use jsonptr::index::ParseIndexError as E;
                    let r = match &e {
                        E::LeadingZeros => "err(lz)".to_string(),
                        E::InvalidCharacter(c) => format!("err(ic,{})", c.offset()),
                        E::InvalidInteger(pe) => match pe.kind() { core::num::IntErrorKind::Empty => "err(ii,empty)".into(), core::num::IntErrorKind::PosOverflow => "err(ii,overflow)".into(), _ => "err(ii,other)".into() },
                    };
                    format!("r={} disp=none", r)
                }
            }
        }
        ["from_tokens", rest @ ..] => {
            let ts: Option<Vec<String>> = rest.iter().map(|t| unhex(t)).collect();
            let ts = ts?;
            let buf = PointerBuf::from_tokens(ts.iter().map(|s| s.as_str()));
            accessors(&buf)
        }
        ["ptr_view", p] => {
            let s = unhex(p)?; let p = Pointer::parse(&s).ok()?;
            format!("{} rt={}", accessors(p), hex(PointerBuf::from_tokens(p.tokens()).as_str()))
        }
        ["with", p, which, t] => {
            let s = unhex(p)?; let p = Pointer::parse(&s).ok()?; let t = unhex(t)?;
            match *which { "lead" => format!("text={}", hex(p.with_leading_token(t.as_str()).as_str())), "trail" => format!("text={}", hex(p.with_trailing_token(t.as_str()).as_str())), _ => return None }
        }
        ["concat", p, q] => { let a = unhex(p)?; let b = unhex(q)?; let p = Pointer::parse(&a).ok()?; let q = Pointer::parse(&b).ok()?; format!("text={}", hex(p.concat(q).as_str())) }
        ["split_front", p] => { let s = unhex(p)?; let p = Pointer::parse(&s).ok()?; match p.split_front() { None => "r=none".into(), Some((t, r)) => format!("r=some({},{})", hex(t.encoded()), view(p.as_str(), r.as_str())) } }
        ["split_back", p] => { let s = unhex(p)?; let p = Pointer::parse(&s).ok()?; match p.split_back() { None => "r=none".into(), Some((r, t)) => format!("r=some({},{})", view(p.as_str(), r.as_str()), hex(t.encoded())) } }
        ["parent", p] => { let s = unhex(p)?; let p = Pointer::parse(&s).ok()?; vw(p, p.parent()) }
        ["split_at", p, n] => { let s = unhex(p)?; let p = Pointer::parse(&s).ok()?; let n = num(n)?; match p.split_at(n) { None => "r=none".into(), Some((a, b)) => format!("r=some({},{})", view(p.as_str(), a.as_str()), view(p.as_str(), b.as_str())) } }
        ["get", p, r] => {
            let s = unhex(p)?; let p = Pointer::parse(&s).ok()?;
            let parts: Vec<&str> = r.split('@').collect();
            match parts.as_slice() {
                ["tok", i] => { let i = num(i)?; match p.get(i) { None => "r=none".into(), Some(t) => format!("r=some({})", hex(t.encoded())) } }
                ["r", a, b] => vw(p, p.get(num(a)?..num(b)?)),
                ["rf", a] => vw(p, p.get(num(a)?..)),
                ["rt", b] => vw(p, p.get(..num(b)?)),
                ["ri", a, b] => vw(p, p.get(num(a)?..=num(b)?)),
                ["rti", b] => vw(p, p.get(..=num(b)?)),
                ["full"] => vw(p, p.get(..)),
                ["bb", lo, hi] => vw(p, p.get((bound(lo)?, bound(hi)?))),
                _ => return None,
            }
        }
        ["rel", p, q] => {
            let a = unhex(p)?; let b = unhex(q)?; let p = Pointer::parse(&a).ok()?; let q = Pointer::parse(&b).ok()?;
            let so = |o: Option<&Pointer>| match o { None => "none".to_string(), Some(x) => format!("some({})", hex(x.as_str())) };
            format!("sw={} ew={} sp={} ss={} ix={} ixr={} cc={}", p.starts_with(q) as u8, p.ends_with(q) as u8, so(p.strip_prefix(q)), so(p.strip_suffix(q)),
                hex(p.intersection(q).as_str()), hex(q.intersection(p).as_str()), hex(p.concat(q).as_str()))
        }
        _ => return None,
    })
}

fn main() {
    std::panic::set_hook(Box::new(|_| {}));
    let stdin = std::io::stdin();
    let out = std::io::stdout();
    let mut out = std::io::BufWriter::new(out.lock());
    for line in stdin.lock().lines() {
        let line = match line { Ok(l) => l, Err(_) => break };
        let res = std::panic::catch_unwind(|| step(&line));
        let s = match res { Ok(Some(s)) => s, Ok(None) => "bad_op=1".to_string(), Err(_) => "r=panic".to_string() };
        let _ = writeln!(out, "{}", s);
    }
    let _ = out.flush();
}
