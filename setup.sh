#!/bin/sh
# Build the framework from files on disk only (offline). Run once after a fresh restore.
set -e
cd "$(dirname "$0")"
export CARGO_NET_OFFLINE=true
( cd lean && lake build Jp jpdriver )
( cd harness && cargo build --profile checked --offline )
if [ -d harness-core ]; then ( cd harness-core && cargo build --profile checked --offline ); fi
echo setup-ok
