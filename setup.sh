#!/bin/sh
# Build the framework from files on disk only (offline). Run once after a fresh restore.
set -e
cd "$(dirname "$0")"
export CARGO_NET_OFFLINE=true
( cd lean && lake build Jp jpdriver )
# the translator tie (DESIGN §16): regenerate the definitions from /repo and pre-build the tie modules; best effort — a
# source that has left the translated subset is handled by ./check, not here
python3 tools/rs2lean.py > /dev/null 2>&1 || true
( cd lean && lake build Jp.Tie.TransportValidate Jp.Tie.TransportToken Jp.Tie.TransportSlice Jp.Tie.TransportIndex Jp.Tie.TransportPointer Jp.Tie.TransportResolve Jp.Tie.TransportBuf Jp.Tie.TransportDelete Jp.Tie.TransportExpand Jp.Tie.TransportAssign Jp.Tie.TransportLabels Jp.Tie.TransportParseErr Jp.Tie.TransportBuild Jp.Tie.TransportCmp Jp.Tie.TransportDoors Jp.Tie.TransportIter Jp.Tie.TransportSerde Jp.Props.Depth > /dev/null 2>&1 || true )
( cd harness && cargo build --profile checked --offline )
if [ -d harness-core ]; then ( cd harness-core && cargo build --profile checked --offline ); fi
echo setup-ok
