//! Static runtime of the API probe (tools/apiprobe.py generates `main.rs`). Every value a probed function returns is
//! walked by the `Probe` trait; pointers and tokens found in it are checked with an RFC 6901 recogniser written from the
//! grammar, independent of the crate.
use jsonptr::{Pointer, PointerBuf, Token};
use std::borrow::Cow;

pub fn valid_pointer(s: &str) -> bool {
    (s.is_empty() || s.starts_with('/')) && tildes_ok(s)
}
pub fn valid_token(s: &str) -> bool {
    !s.contains('/') && tildes_ok(s)
}
fn tildes_ok(s: &str) -> bool {
    let b = s.as_bytes();
    let mut i = 0;
    while i < b.len() {
        if b[i] == b'~' {
            if i + 1 >= b.len() || (b[i + 1] != b'0' && b[i + 1] != b'1') {
                return false;
            }
            i += 1;
        }
        i += 1;
    }
    true
}
fn hex(b: &[u8]) -> String {
    b.iter().map(|x| format!("{x:02x}")).collect()
}
fn viol(out: &mut Vec<String>, label: &str, input: &str, what: &str, text: &str) {
    if out.len() < 50 {
        out.push(format!("VIOL\t{label}\t{}\t{what} {}", hex(input.as_bytes()), hex(text.as_bytes())));
    }
}

pub trait Probe {
    fn probe(&self, label: &str, input: &str, out: &mut Vec<String>);
}
impl Probe for Pointer {
    fn probe(&self, label: &str, input: &str, out: &mut Vec<String>) {
        if !valid_pointer(self.as_str()) {
            viol(out, label, input, "invalid-pointer-text", self.as_str());
        }
        for t in self.tokens() {
            if !valid_token(t.encoded()) {
                viol(out, label, input, "invalid-token-from-pointer", t.encoded());
            }
        }
    }
}
impl Probe for PointerBuf {
    fn probe(&self, label: &str, input: &str, out: &mut Vec<String>) {
        let p: &Pointer = self;
        p.probe(label, input, out)
    }
}
impl Probe for Token<'_> {
    fn probe(&self, label: &str, input: &str, out: &mut Vec<String>) {
        if !valid_token(self.encoded()) {
            viol(out, label, input, "invalid-token-text", self.encoded());
        }
    }
}
impl<T: Probe + ?Sized> Probe for &T {
    fn probe(&self, label: &str, input: &str, out: &mut Vec<String>) {
        (**self).probe(label, input, out)
    }
}
impl<T: Probe + ?Sized> Probe for &mut T {
    fn probe(&self, label: &str, input: &str, out: &mut Vec<String>) {
        (**self).probe(label, input, out)
    }
}
impl<T: Probe + ?Sized> Probe for Box<T> {
    fn probe(&self, label: &str, input: &str, out: &mut Vec<String>) {
        (**self).probe(label, input, out)
    }
}
impl Probe for Cow<'_, Pointer> {
    fn probe(&self, label: &str, input: &str, out: &mut Vec<String>) {
        let p: &Pointer = self;
        p.probe(label, input, out)
    }
}
impl<T: Probe> Probe for Option<T> {
    fn probe(&self, label: &str, input: &str, out: &mut Vec<String>) {
        if let Some(x) = self {
            x.probe(label, input, out)
        }
    }
}
impl<T: Probe, E> Probe for Result<T, E> {
    fn probe(&self, label: &str, input: &str, out: &mut Vec<String>) {
        if let Ok(x) = self {
            x.probe(label, input, out)
        }
    }
}
impl<A: Probe, B: Probe> Probe for (A, B) {
    fn probe(&self, label: &str, input: &str, out: &mut Vec<String>) {
        self.0.probe(label, input, out);
        self.1.probe(label, input, out);
    }
}
impl<T: Probe> Probe for Vec<T> {
    fn probe(&self, label: &str, input: &str, out: &mut Vec<String>) {
        for x in self {
            x.probe(label, input, out)
        }
    }
}
macro_rules! inert {
    ($($t:ty),*) => { $(impl Probe for $t { fn probe(&self, _: &str, _: &str, _: &mut Vec<String>) {} })* };
}
inert!((), bool, usize, u64, i64, String, str, char, Cow<'_, str>, jsonptr::index::Index);

pub fn drive(probes: &[fn(&str, &mut Vec<String>)]) {
    use std::io::BufRead;
    std::panic::set_hook(Box::new(|_| {}));
    let stdin = std::io::stdin();
    let mut total = 0usize;
    for line in stdin.lock().lines() {
        let Ok(line) = line else { break };
        let bytes: Vec<u8> = (0..line.len() / 2).filter_map(|i| u8::from_str_radix(&line[2 * i..2 * i + 2], 16).ok()).collect();
        let Ok(s) = String::from_utf8(bytes) else { continue };
        for (k, p) in probes.iter().enumerate() {
            let mut out = Vec::new();
            let r = std::panic::catch_unwind(std::panic::AssertUnwindSafe(|| p(&s, &mut out)));
            if r.is_err() {
                println!("PANIC\tprobe_{k}\t{}", hex(s.as_bytes()));
                total += 1;
            }
            for l in out {
                println!("{l}");
                total += 1;
            }
        }
        if total > 200 {
            break;
        }
    }
}

/// parse errors to pair with an arbitrary subject: what `Pointer::parse` returns on a few inputs, and hand-made ones (the error
/// types have public fields) with small offsets
pub fn sample_parse_errors() -> Vec<jsonptr::ParseError> {
    use jsonptr::{ParseError, Pointer};
    let mut v: Vec<ParseError> = Vec::new();
    for t in ["a", "/~", "/ab/~", "/abc/d~", "/a/b~2", "/~/~", "/é~"] {
        if let Err(e) = Pointer::parse(t) { v.push(e); }
    }
    for off in 0..5usize {
        for so in 0..3usize {
            v.push(ParseError::InvalidEncoding {
                offset: off,
                source: jsonptr::EncodingError { offset: so, source: jsonptr::InvalidEncoding::Tilde },
            });
        }
    }
    v
}
