import Jp.Model.Iter
import Jp.Lemmas.Text
/-
  Jp.Lemmas.Iter — the `Split` / `Tokens` / `Components` state machines of `Jp.Model.Iter` against the
  list functions `splitOn`, `tokens`, `components`.
-/
namespace Jp
open Jp.Spec

/-! ### `find` and `splitOn` -/

theorem find_lt (c : Nat) (s : Bytes) (i : Nat) (h : find c s = some i) : i < s.length := by
  induction s generalizing i with
  | nil => simp [find] at h
  | cons b r ih =>
    unfold find at h
    by_cases hb : b = c
    · simp [hb] at h; subst h; simp
    · simp only [if_neg hb] at h
      cases hr : find c r with
      | none => simp [hr] at h
      | some j =>
        simp [hr] at h; subst h
        have := ih j hr
        simp; omega

/-- one step of `split`: the first piece and the list of the remaining pieces -/
theorem splitOn_find (s : Bytes) :
    splitOn 47 s = match find 47 s with
      | some i => s.take i :: splitOn 47 (s.drop (i + 1))
      | none => [s] := by
  induction s with
  | nil => simp [splitOn, find]
  | cons b r ih =>
    by_cases hb : b = 47
    · subst hb; simp [splitOn, find]
    · cases hr : find 47 r with
      | none =>
        rw [hr] at ih
        simp [splitOn, find, hb, hr, ih]
      | some j =>
        rw [hr] at ih
        simp [splitOn, find, hb, hr, ih]

/-! ### `Split` -/

theorem Split.next_none : Split.next ⟨none⟩ = (none, ⟨none⟩) := rfl

/-- only the finished iterator returns `None` -/
theorem Split.next_eq_none {s : Split} (h : (Split.next s).1 = none) : s = ⟨none⟩ := by
  obtain ⟨_ | r⟩ := s
  · rfl
  · exfalso
    cases hf : find 47 r <;> simp [Split.next, hf] at h

theorem drain_split_none (n : Nat) : drain Split.next n ⟨none⟩ = [] := by
  cases n <;> simp [drain, Split.next]

/-- draining `split('/')` of `s` with enough fuel yields `splitOn 47 s` -/
theorem drain_split (n : Nat) (s : Bytes) (h : s.length < n) :
    drain Split.next n ⟨some s⟩ = splitOn 47 s := by
  induction n generalizing s with
  | zero => omega
  | succ n ih =>
    rw [splitOn_find]
    cases hf : find 47 s with
    | none => simp [drain, Split.next, hf, drain_split_none]
    | some i =>
      have hi := find_lt 47 s i hf
      have hl : (s.drop (i + 1)).length < n := by simp; omega
      simp [drain, Split.next, hf, ih _ hl]

/-- `Pointer::tokens` consumed the first piece -/
theorem drain_tokens_new (n : Nat) (p : Bytes) (h : p.length < n + 1) :
    drain Tokens.next n (Tokens.new p) = (splitOn 47 p).tail := by
  have hd := drain_split (n + 1) p h
  rw [← hd]
  unfold Tokens.new Tokens.next
  cases hf : find 47 p with
  | none => simp [drain, Split.next, hf]
  | some i => simp [drain, Split.next, hf]

/-! ### `advance` -/

theorem advance_add {σ α : Type} (next : σ → Option α × σ) (n m : Nat) (s : σ) :
    advance next (n + m) s = advance next m (advance next n s) := by
  induction n generalizing s with
  | zero => simp [advance]
  | succ n ih =>
    have e : n + 1 + m = (n + m) + 1 := by omega
    rw [e]
    simp only [advance]
    exact ih _

theorem advance_split_none (m : Nat) : advance Split.next m ⟨none⟩ = ⟨none⟩ := by
  induction m with
  | zero => rfl
  | succ m ih => simp only [advance, Split.next_none]; exact ih

/-! ### `Components` -/

theorem drain_components_sent (n : Nat) (s : Split) :
    drain Components.next n ⟨true, s⟩ = (drain Tokens.next n s).map .token := by
  induction n generalizing s with
  | zero => simp [drain]
  | succ n ih =>
    simp only [drain, Components.next, Bool.not_true, Bool.false_eq_true, if_false]
    rcases hn : Tokens.next s with ⟨_ | a, s'⟩
    · simp
    · simp [ih s']

theorem drain_components_new (n : Nat) (p : Bytes) :
    drain Components.next (n + 1) (Components.new p) =
      .root :: (drain Tokens.next n (Tokens.new p)).map .token := by
  simp [drain, Components.new, Components.next, drain_components_sent]

end Jp
