import Jp.Props.C05
import Jp.Props.C06
import Jp.Props.C08
import Jp.Props.C09
/-
  Helper lemmas for Jp/Props/C10.lean (same namespace `Jp.C10`).
  Everything here is auxiliary: the property theorems themselves (the `-- OBLIGATIONS` list) are
  stated and proved in Jp/Props/C10.lean, which imports this module. Definitions that both a helper
  and a property statement need live here and are referred to by a comment in the Props file.
-/
namespace Jp.C10
open Jp Jp.Spec

inductive Op where
  | assign (p : Bytes) (v : Val)
  | delete (p : Bytes)
  | resolve (p : Bytes)
  | write (p : Bytes) (v : Val)

/-- what a call returns, as far as a caller can observe it at the level of the reference store -/
inductive Ret where
  | assigned (r : Res WalkKind (Option Val))
  | deleted (r : Option Val)
  | resolved (r : Res (Nat × WalkKind) (Loc × Val))
  | written (ok : Bool)
  | panicked

def Op.ptr : Op → Bytes
  | .assign p _ | .delete p | .resolve p | .write p _ => p

/-- the same call on the reference tree store -/
def specStep (b : Backend) (D : Val) : Op → Val × Ret
  | .assign p v =>
    match assignSpec D (tokens p) v with
    | .ok (D', r) => (D', .assigned (.ok r))
    | .err k => (D, .assigned (.err k))
    | .panic _ => (D, .panicked)
  | .delete p => let (D', r) := deleteSpec b D (tokens p); (D', .deleted r)
  | .resolve p => (D, .resolved (walk D (tokens p)))
  | .write p v => let (D', ok) := writeSpec D (tokens p) v; (D', .written ok)

def run (step : Val → Op → Val × Ret) (D : Val) : List Op → List (Val × Ret)
  | [] => []
  | op :: ops => let (D', r) := step D op; (D', r) :: run step D' ops

/-! ### helper lemmas: well-formedness is preserved by the reference-store operations -/

theorem WF_scalar (a : Bytes) : WF (.scalar a) = true := by simp [WF]
theorem WF_arr (xs : List Val) : WF (.arr xs) = WFList xs := by simp [WF]
theorem WF_obj (kvs : List (Bytes × Val)) : WF (.obj kvs) = WFKvs kvs := by simp [WF]
theorem WFList_nil : WFList [] = true := by simp [WFList]
theorem WFList_cons (v : Val) (vs : List Val) : WFList (v :: vs) = (WF v && WFList vs) := by
  simp [WFList]
theorem WFKvs_nil : WFKvs [] = true := by simp [WFKvs]
theorem WFKvs_cons (k : Bytes) (v : Val) (r : List (Bytes × Val)) :
    WFKvs ((k, v) :: r) = ((lookup k r).isNone && WF v && WFKvs r) := by
  simp [WFKvs]

attribute [local simp] WF_scalar WF_arr WF_obj WFList_nil WFList_cons WFKvs_nil WFKvs_cons

theorem WFList_iff (xs : List Val) : WFList xs = true ↔ ∀ c ∈ xs, WF c = true := by
  induction xs with
  | nil => simp
  | cons x xs ih => simp [ih]

theorem WFList_set (xs : List Val) (i : Nat) (c : Val) (h : WFList xs = true) (hc : WF c = true) :
    WFList (xs.set i c) = true := by
  rw [WFList_iff] at *
  intro d hd
  rcases List.mem_or_eq_of_mem_set hd with h1 | h1
  · exact h d h1
  · exact h1 ▸ hc

theorem WFList_append (xs : List Val) (c : Val) (h : WFList xs = true) (hc : WF c = true) :
    WFList (xs ++ [c]) = true := by
  rw [WFList_iff] at *
  intro d hd
  simp at hd
  rcases hd with h1 | h1
  · exact h d h1
  · exact h1 ▸ hc

theorem WFList_eraseIdx (xs : List Val) (i : Nat) (h : WFList xs = true) :
    WFList (xs.eraseIdx i) = true := by
  rw [WFList_iff] at *
  intro d hd
  exact h d (List.mem_of_mem_eraseIdx hd)

theorem WFList_get (xs : List Val) (i : Nat) (c : Val) (h : WFList xs = true) (hc : xs[i]? = some c) :
    WF c = true := by
  rw [WFList_iff] at h
  exact h c (List.mem_of_getElem? hc)

theorem lookup_replaceKey_isNone (k k' : Bytes) (c : Val) (kvs : List (Bytes × Val)) :
    (lookup k' (replaceKey k c kvs)).isNone = (lookup k' kvs).isNone := by
  induction kvs with
  | nil => simp [replaceKey]
  | cons kv r ih =>
    obtain ⟨k2, v2⟩ := kv
    simp only [replaceKey]
    split
    · simp only [lookup]; split <;> simp
    · simp only [lookup]; split <;> simp [ih]

theorem WFKvs_replaceKey (k : Bytes) (c : Val) (kvs : List (Bytes × Val)) (h : WFKvs kvs = true)
    (hc : WF c = true) : WFKvs (replaceKey k c kvs) = true := by
  induction kvs with
  | nil => simp [replaceKey]
  | cons kv r ih =>
    obtain ⟨k2, v2⟩ := kv
    simp only [WFKvs_cons, Bool.and_eq_true] at h
    simp only [replaceKey]
    split
    · simp [h, hc]
    · simp [lookup_replaceKey_isNone, h, ih h.2]

theorem lookup_append_isNone (k k' : Bytes) (c : Val) (kvs : List (Bytes × Val)) :
    (lookup k' (kvs ++ [(k, c)])).isNone = ((lookup k' kvs).isNone && decide (k' ≠ k)) := by
  induction kvs with
  | nil => simp [lookup]; split <;> simp_all
  | cons kv r ih =>
    obtain ⟨k2, v2⟩ := kv
    simp only [List.cons_append, lookup]
    split <;> simp [ih]

theorem WFKvs_append (k : Bytes) (c : Val) (kvs : List (Bytes × Val)) (h : WFKvs kvs = true)
    (hk : lookup k kvs = none) (hc : WF c = true) : WFKvs (kvs ++ [(k, c)]) = true := by
  induction kvs with
  | nil => simp [hc, lookup]
  | cons kv r ih =>
    obtain ⟨k2, v2⟩ := kv
    simp only [WFKvs_cons, Bool.and_eq_true] at h
    simp only [lookup] at hk
    split at hk
    · simp at hk
    · rename_i hne
      simp only [List.cons_append, WFKvs_cons, lookup_append_isNone, Bool.and_eq_true]
      refine ⟨⟨⟨h.1.1, ?_⟩, h.1.2⟩, ih h.2 hk⟩
      simp; intro e; exact hne e.symm

theorem lookup_eraseKey_isNone (k k' : Bytes) (kvs : List (Bytes × Val))
    (h : (lookup k' kvs).isNone = true) : (lookup k' (eraseKey k kvs)).isNone = true := by
  induction kvs with
  | nil => simp [eraseKey, lookup]
  | cons kv r ih =>
    obtain ⟨k2, v2⟩ := kv
    simp only [lookup] at h
    split at h
    · simp at h
    · simp only [eraseKey]
      split
      · exact h
      · simp only [lookup]; split
        · contradiction
        · exact ih h

theorem WFKvs_eraseKey (k : Bytes) (kvs : List (Bytes × Val)) (h : WFKvs kvs = true) :
    WFKvs (eraseKey k kvs) = true := by
  induction kvs with
  | nil => simp [eraseKey]
  | cons kv r ih =>
    obtain ⟨k2, v2⟩ := kv
    simp only [WFKvs_cons, Bool.and_eq_true] at h
    simp only [eraseKey]
    split
    · exact h.2
    · simp [lookup_eraseKey_isNone, h, ih h.2]

theorem WFKvs_get (k : Bytes) (c : Val) (kvs : List (Bytes × Val)) (h : WFKvs kvs = true)
    (hc : lookup k kvs = some c) : WF c = true := by
  induction kvs with
  | nil => simp [lookup] at hc
  | cons kv r ih =>
    obtain ⟨k2, v2⟩ := kv
    simp only [WFKvs_cons, Bool.and_eq_true] at h
    simp only [lookup] at hc
    split at hc
    · simp at hc; exact hc ▸ h.1.2
    · exact ih h.2 hc

theorem WF_expandSpec (ts : List Bytes) (v : Val) (h : WF v = true) : WF (expandSpec ts v) = true := by
  induction ts with
  | nil => simpa [expandSpec]
  | cons t ts ih =>
    simp only [expandSpec]
    split <;> simp [ih, lookup]

theorem WF_assignSpec (D : Val) (ts : List Bytes) (v D' : Val) (r : Option Val) (hD : WF D = true)
    (hv : WF v = true) (h : assignSpec D ts v = .ok (D', r)) : WF D' = true := by
  fun_induction assignSpec D ts v generalizing D' r <;> simp_all
  all_goals grind [WFList_set, WFList_append, WFList_eraseIdx, WFList_get, WFKvs_replaceKey, WFKvs_append, WFKvs_eraseKey, WFKvs_get, WF_expandSpec, WF_arr, WF_obj]

theorem WF_removeAt (D : Val) (l : Loc) (hD : WF D = true) : WF (removeAt D l) = true := by
  fun_induction removeAt D l <;> simp_all
  all_goals grind [WFList_set, WFList_append, WFList_eraseIdx, WFList_get, WFKvs_replaceKey, WFKvs_append, WFKvs_eraseKey, WFKvs_get, WF_expandSpec, WF_arr, WF_obj]

theorem WF_setAt (D : Val) (l : Loc) (x : Val) (hD : WF D = true) (hx : WF x = true) :
    WF (D.setAt l x) = true := by
  fun_induction Val.setAt D l x <;> simp_all
  all_goals grind [WFList_set, WFList_append, WFList_eraseIdx, WFList_get, WFKvs_replaceKey, WFKvs_append, WFKvs_eraseKey, WFKvs_get, WF_expandSpec, WF_arr, WF_obj]

theorem run_congr (f g : Val → Op → Val × Ret) (P : Op → Prop) (hfg : ∀ D op, P op → f D op = g D op)
    (D : Val) (ops : List Op) (hops : ∀ op ∈ ops, P op) : run f D ops = run g D ops := by
  induction ops generalizing D with
  | nil => rfl
  | cons op ops ih =>
    simp only [run, hfg D op (hops op (by simp))]
    rw [ih _ (fun o ho => hops o (by simp [ho]))]

theorem specStep_ne_panicked (b : Backend) (D : Val) (op : Op) (hp : validPtr op.ptr = true) :
    (specStep b D op).2 ≠ Ret.panicked := by
  cases op with
  | assign p v =>
    have h := C06.assign_eq_spec D v p hp
    simp only [specStep]
    cases hs : assignSpec D (tokens p) v with
    | ok x => simp
    | err k => simp
    | panic m => simp [hs] at h
  | delete p => simp [specStep]
  | resolve p => simp [specStep]
  | write p v => simp [specStep]

theorem wf_specStep (b : Backend) (D : Val) (op : Op) (hD : WF D = true)
    (hv : ∀ p v, (op = .assign p v ∨ op = .write p v) → WF v = true) :
    WF (specStep b D op).1 = true := by
  cases op with
  | assign p v =>
    have hv' := hv p v (Or.inl rfl)
    simp only [specStep]
    cases hs : assignSpec D (tokens p) v with
    | ok x => obtain ⟨D', r⟩ := x; exact WF_assignSpec D _ v D' r hD hv' hs
    | err k => exact hD
    | panic m => exact hD
  | delete p =>
    simp only [specStep, deleteSpec]
    split
    · cases b <;> simp [rootRepl]
    · split
      · exact WF_removeAt D _ hD
      · exact hD
  | resolve p => exact hD
  | write p v =>
    have hv' := hv p v (Or.inr rfl)
    simp only [specStep, writeSpec]
    split
    · exact WF_setAt D _ v hD hv'
    · exact hD

end Jp.C10
