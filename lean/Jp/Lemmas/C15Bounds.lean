import Jp.Lemmas.C15Helpers
import Jp.Lemmas.Bounds
/-
  Jp.Lemmas.C15Bounds — the `usize` accumulators of the resolve / assign walks (`position += 1`,
  `offset += 1 + token.encoded().len()`) as reported in an error lie inside the pointer text.
-/
namespace Jp.C15
open Jp Jp.Spec

/-- what `Locates` says about the size of `position` and `offset` (the `usize` accumulators
    `position += 1`, `offset += 1 + token.encoded().len()` of the walks) -/
theorem locates_bounded (p : Bytes) (position offset : Nat) (label : Option (Nat × Nat))
    (hp : validPtr p = true) (h : Locates p position offset label) :
    offset < p.length ∧ position < count p := by
  obtain ⟨tok, ht, ho, _⟩ := h
  obtain ⟨ts, hpe, htk, _, _⟩ := valid_decomp hp
  rw [htk] at ht ho
  have hle := off_step_le ts position tok ht
  rw [← hpe] at hle
  have hlt := (List.getElem?_eq_some_iff.mp ht).1
  unfold count
  rw [htk]
  omega

end Jp.C15
