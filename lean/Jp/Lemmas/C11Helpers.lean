import Jp.Lemmas.Valid
import Jp.Props.C03
/-
  Helper lemmas for Jp/Props/C11.lean (same namespace `Jp.C11`).
  Everything here is auxiliary: the property theorems themselves (the `-- OBLIGATIONS` list) are
  stated and proved in Jp/Props/C11.lean, which imports this module. Definitions that both a helper
  and a property statement need live here and are referred to by a comment in the Props file.
-/
namespace Jp.C11
open Jp Jp.Spec

/-- arguments a caller can supply through the safe API: valid tokens / valid pointers -/
def OpOK : BufOp → Prop
  | .pushFront t => validTok t = true
  | .pushBack t => validTok t = true
  | .append o => validPtr o = true
  | .replace _ t => validTok t = true
  | _ => True

def runBuf (s : Bytes) : List BufOp → Bytes × List BufRet
  | [] => (s, [])
  | op :: ops =>
    let (s', r) := bufStep s op
    let (s'', rs) := runBuf s' ops
    (s'', r :: rs)

def runDeque (ts : List Bytes) : List BufOp → List Bytes × List BufRet
  | [] => (ts, [])
  | op :: ops =>
    let (ts', r) := dequeStep ts op
    let (ts'', rs) := runDeque ts' ops
    (ts'', r :: rs)

/-! ### helpers -/

theorem dequeStep_valid (ts : List Bytes) (op : BufOp) (hv : ∀ t ∈ ts, validTok t = true)
    (hop : OpOK op) : ∀ t ∈ (dequeStep ts op).1, validTok t = true := by
  cases op with
  | pushFront t =>
    intro u hu
    simp only [dequeStep, List.mem_cons] at hu
    rcases hu with rfl | hu
    · exact hop
    · exact hv u hu
  | pushBack t =>
    intro u hu
    simp only [dequeStep, List.mem_append, List.mem_singleton] at hu
    rcases hu with hu | rfl
    · exact hv u hu
    · exact hop
  | popFront =>
    intro u hu
    exact hv u (List.mem_of_mem_tail hu)
  | popBack =>
    intro u hu
    exact hv u (List.dropLast_subset ts hu)
  | append o =>
    intro u hu
    simp only [dequeStep, List.mem_append] at hu
    rcases hu with hu | hu
    · exact hv u hu
    · exact tokens_valid hop u hu
  | replace i t =>
    intro u hu
    simp only [dequeStep] at hu
    split at hu
    · rcases List.mem_or_eq_of_mem_set hu with h | rfl
      · exact hv u h
      · exact hop
    · exact hv u hu
  | clear =>
    intro u hu
    simp [dequeStep] at hu

theorem popFront_ofToks (ts : List Bytes) (hns : ∀ t ∈ ts, noSlash t) :
    popFront (ofToks ts) = (ofToks ts.tail, ts.head?) := by
  cases ts with
  | nil => simp [ofToks, popFront]
  | cons t ts =>
    have ht : noSlash t := hns t (by simp)
    cases ts with
    | nil =>
      simp [ofToks, popFront, find_noSlash t ht]
    | cons u us =>
      rw [ofToks_cons, ofToks_cons]
      simp only [popFront, find_append_slash t _ ht, List.tail_cons, List.head?_cons]
      rw [ofToks_cons]
      simp

theorem popBack_ofToks (ts : List Bytes) (hns : ∀ t ∈ ts, noSlash t) :
    popBack (ofToks ts) = (ofToks ts.dropLast, ts.getLast?) := by
  rcases List.eq_nil_or_concat ts with rfl | ⟨a, t, rfl⟩
  · simp [ofToks, popBack, rfind]
  · rw [List.concat_eq_append] at hns ⊢
    have ht : noSlash t := hns t (by simp)
    rw [ofToks_snoc]
    simp only [popBack, rfind_append_slash _ _ ht]
    have h1 : List.take ((ofToks a).length + 1) (ofToks a ++ 47 :: t) = ofToks a ++ [47] := by
      simp [List.take_append]
      exact List.take_of_length_le (by omega)
    have h2 : List.drop ((ofToks a).length + 1) (ofToks a ++ 47 :: t) = t := by
      simp [List.drop_append]
    rw [h1, h2]
    simp

theorem append_ofToks (ts : List Bytes) (o : Bytes) (ho : validPtr o = true) :
    Jp.append (ofToks ts) o = ofToks (ts ++ tokens o) := by
  rw [ofToks_append, ofToks_tokens o (validPtr_shape ho)]
  cases ts with
  | nil => simp [ofToks, Jp.append, isRoot]
  | cons t ts =>
    cases o with
    | nil => simp [ofToks_cons, Jp.append, isRoot]
    | cons b r => simp [ofToks_cons, Jp.append, isRoot]

theorem replace_ofToks (ts : List Bytes) (hns : ∀ t ∈ ts, noSlash t) (i : Nat) (t : Bytes) :
    Jp.replace (ofToks ts) i t =
      if i < ts.length then (ofToks (ts.set i t), .ok ts[i]?) else (ofToks ts, .err ⟨i, ts.length⟩) := by
  cases ts with
  | nil => simp [ofToks, Jp.replace, isRoot, count, tokens, splitOn]
  | cons u us =>
    have htok := tokens_ofToks (u :: us) hns
    have hroot : isRoot (ofToks (u :: us)) = false := by simp [ofToks_cons, isRoot]
    simp only [Jp.replace, hroot, htok, fromTokens_eq_ofToks]
    by_cases h : i < (u :: us).length
    · have h' : ¬ (i ≥ (u :: us).length) := by omega
      simp only [h, h', if_true, if_false]
      simp
    · have h' : i ≥ (u :: us).length := by omega
      simp only [h, h', if_true, if_false]
      simp

/-- every mutator acts on the text of a token list exactly as the deque operation does -/
theorem bufStep_ofToks (ts : List Bytes) (hns : ∀ t ∈ ts, noSlash t) (op : BufOp) (hop : OpOK op) :
    bufStep (ofToks ts) op = (ofToks (dequeStep ts op).1, (dequeStep ts op).2) := by
  cases op with
  | pushFront t => simp [bufStep, dequeStep, pushFront, ofToks_cons]
  | pushBack t => simp [bufStep, dequeStep, pushBack, ofToks_snoc]
  | popFront => simp [bufStep, dequeStep, popFront_ofToks ts hns]
  | popBack => simp [bufStep, dequeStep, popBack_ofToks ts hns]
  | append o => simp [bufStep, dequeStep, append_ofToks ts o hop]
  | replace i t =>
    simp only [bufStep, dequeStep, replace_ofToks ts hns i t]
    split <;> simp
  | clear => simp [bufStep, dequeStep, clear, ofToks]

theorem noSlash_of_valid {ts : List Bytes} (hv : ∀ t ∈ ts, validTok t = true) :
    ∀ t ∈ ts, noSlash t := fun t ht => validTok_noSlash (hv t ht)

/-- the whole history on the text of a valid token list -/
theorem run_ofToks (ts : List Bytes) (ops : List BufOp) (hv : ∀ t ∈ ts, validTok t = true)
    (hops : ∀ op ∈ ops, OpOK op) :
    runBuf (ofToks ts) ops = (ofToks (runDeque ts ops).1, (runDeque ts ops).2) ∧
    ∀ t ∈ (runDeque ts ops).1, validTok t = true := by
  induction ops generalizing ts with
  | nil => exact ⟨by simp [runBuf, runDeque], hv⟩
  | cons op ops ih =>
    have hop : OpOK op := hops op (by simp)
    have hops' : ∀ o ∈ ops, OpOK o := fun o ho => hops o (by simp [ho])
    have hstep := bufStep_ofToks ts (noSlash_of_valid hv) op hop
    have hv' := dequeStep_valid ts op hv hop
    obtain ⟨ih1, ih2⟩ := ih (dequeStep ts op).1 hv' hops'
    refine ⟨?_, ?_⟩
    · simp only [runBuf, runDeque, hstep, ih1]
    · simpa only [runDeque] using ih2

theorem recode_valid (ts : List Bytes) (hv : ∀ t ∈ ts, validTok t = true) :
    ((ts.map fun t => (Token.decoded t).bytes).map fun d => (Token.new d).bytes) = ts := by
  induction ts with
  | nil => rfl
  | cons t ts ih =>
    have ht : validTok t = true := hv t (by simp)
    have hts : ∀ u ∈ ts, validTok u = true := fun u hu => hv u (by simp [hu])
    simp only [List.map_cons, ih hts]
    rw [Jp.C03.new_encoded, Jp.C03.decoded_eq_dec t ht, Jp.C03.enc_dec t ht]

end Jp.C11
