import Jp.Spec.Tree
/-
  Jp.Lemmas.Text — pointer text ⟷ token list: `splitOn`, `tokens`, `ofToks`, `fromTokens`,
  `rsplitOnce`, `find`, `rfind`, offsets.
-/
namespace Jp
open Jp.Spec

def noSlash (t : Bytes) : Prop := 47 ∉ t

theorem noSlash_nil : noSlash [] := by simp [noSlash]

theorem noSlash_cons {b : Nat} {t : Bytes} : noSlash (b :: t) ↔ b ≠ 47 ∧ noSlash t := by
  simp only [noSlash, List.mem_cons, not_or]
  exact ⟨fun ⟨h1, h2⟩ => ⟨fun e => h1 e.symm, h2⟩, fun ⟨h1, h2⟩ => ⟨fun e => h1 e.symm, h2⟩⟩

theorem splitOn_ne_nil (sep : Nat) (s : Bytes) : splitOn sep s ≠ [] := by
  induction s with
  | nil => simp [splitOn]
  | cons b r ih =>
    unfold splitOn
    split
    · simp
    · split <;> simp

theorem fromTokens_eq_ofToks (ts : List Bytes) : fromTokens ts = ofToks ts := by
  induction ts with
  | nil => simp [fromTokens, ofToks]
  | cons t ts ih => simp [fromTokens, ofToks, ih]

theorem ofToks_nil : ofToks [] = [] := by simp [ofToks]

theorem ofToks_cons (t : Bytes) (ts : List Bytes) : ofToks (t :: ts) = 47 :: (t ++ ofToks ts) := by
  simp [ofToks]

theorem ofToks_append (ts us : List Bytes) : ofToks (ts ++ us) = ofToks ts ++ ofToks us := by
  simp [ofToks]

theorem ofToks_snoc (ts : List Bytes) (t : Bytes) : ofToks (ts ++ [t]) = ofToks ts ++ 47 :: t := by
  simp [ofToks]

theorem splitOn_noSlash (t : Bytes) (h : noSlash t) : splitOn 47 t = [t] := by
  induction t with
  | nil => simp [splitOn]
  | cons b r ih =>
    obtain ⟨hb, hr⟩ := noSlash_cons.mp h
    simp [splitOn, hb, ih hr]

theorem splitOn_append_slash (t r : Bytes) (h : noSlash t) :
    splitOn 47 (t ++ 47 :: r) = t :: splitOn 47 r := by
  induction t with
  | nil => simp [splitOn]
  | cons b t ih =>
    obtain ⟨hb, ht⟩ := noSlash_cons.mp h
    simp [splitOn, hb, ih ht]

theorem splitOn_slash_cons (r : Bytes) : splitOn 47 (47 :: r) = [] :: splitOn 47 r := by
  simp [splitOn]

theorem splitOn_ofToks (ts : List Bytes) (h : ∀ t ∈ ts, noSlash t) :
    splitOn 47 (ofToks ts) = [] :: ts := by
  induction ts with
  | nil => simp [ofToks, splitOn]
  | cons t ts ih =>
    have ht : noSlash t := h t (by simp)
    have hts : ∀ t' ∈ ts, noSlash t' := fun t' ht' => h t' (by simp [ht'])
    have ih' := ih hts
    rw [ofToks_cons, splitOn_slash_cons]
    cases ts with
    | nil => simp [ofToks, splitOn_noSlash t ht]
    | cons t2 ts2 =>
      rw [ofToks_cons, splitOn_append_slash t _ ht]
      rw [ofToks_cons, splitOn_slash_cons] at ih'
      simp at ih'
      simp [ih']

theorem tokens_ofToks (ts : List Bytes) (h : ∀ t ∈ ts, noSlash t) : tokens (ofToks ts) = ts := by
  simp [tokens, splitOn_ofToks ts h]

theorem splitOn_all_noSlash (s : Bytes) : ∀ t ∈ splitOn 47 s, noSlash t := by
  induction s with
  | nil => simp [splitOn, noSlash]
  | cons b r ih =>
    unfold splitOn
    split
    · intro t ht
      simp at ht
      rcases ht with rfl | ht
      · simp [noSlash]
      · exact ih t ht
    · rename_i hb
      split
      · rename_i h' t' heq
        intro t ht
        simp at ht
        rcases ht with rfl | ht
        · have : noSlash h' := ih h' (by rw [heq]; simp)
          exact noSlash_cons.mpr ⟨hb, this⟩
        · exact ih t (by rw [heq]; simp [ht])
      · intro t ht; simp at ht; subst ht
        exact noSlash_cons.mpr ⟨hb, noSlash_nil⟩

theorem tokens_all_noSlash (p : Bytes) : ∀ t ∈ tokens p, noSlash t := by
  intro t ht
  exact splitOn_all_noSlash p t (List.mem_of_mem_tail ht)

theorem ofToks_splitOn (r : Bytes) : ofToks (splitOn 47 r) = 47 :: r := by
  induction r with
  | nil => simp [splitOn, ofToks]
  | cons c r ih =>
    unfold splitOn
    split
    · rename_i hc; subst hc; simp [ofToks] at ih ⊢; exact ih
    · split
      · rename_i h' t' heq
        rw [heq] at ih
        simp [ofToks] at ih ⊢
        exact ih
      · rename_i heq; exact absurd heq (splitOn_ne_nil 47 r)

/-- a pointer text that is empty or starts with `/` is the text of its token list -/
theorem ofToks_tokens (p : Bytes) (h : p = [] ∨ p.head? = some 47) : ofToks (tokens p) = p := by
  rcases h with rfl | h
  · simp [tokens, splitOn, ofToks]
  · cases p with
    | nil => simp at h
    | cons b r =>
      simp at h; subst h
      simp only [tokens, splitOn, if_true, List.tail_cons]
      exact ofToks_splitOn r

theorem ofToks_eq_nil {ts : List Bytes} : ofToks ts = [] ↔ ts = [] := by
  cases ts <;> simp [ofToks]

theorem ofToks_head (ts : List Bytes) (h : ts ≠ []) : (ofToks ts).head? = some 47 := by
  cases ts with
  | nil => contradiction
  | cons t ts => simp [ofToks]

theorem ofToks_length (ts : List Bytes) : (ofToks ts).length = off ts ts.length := by
  induction ts with
  | nil => simp [ofToks, off]
  | cons t ts ih => simp [ofToks_cons, off, ih] at *; omega

theorem off_zero (ts : List Bytes) : off ts 0 = 0 := by simp [off]

theorem off_succ (t : Bytes) (ts : List Bytes) (k : Nat) :
    off (t :: ts) (k + 1) = 1 + t.length + off ts k := by simp [off]

theorem off_le (ts : List Bytes) (k : Nat) : off ts k ≤ (ofToks ts).length := by
  induction ts generalizing k with
  | nil => simp [off, ofToks]
  | cons t ts ih =>
    cases k with
    | zero => simp [off]
    | succ k => rw [off_succ, ofToks_cons]; have := ih k; simp; omega

theorem off_mono (ts : List Bytes) {a b : Nat} (h : a ≤ b) : off ts a ≤ off ts b := by
  induction ts generalizing a b with
  | nil => simp [off]
  | cons t ts ih =>
    cases a with
    | zero => simp [off]
    | succ a =>
      cases b with
      | zero => omega
      | succ b => rw [off_succ, off_succ]; have := ih (a := a) (b := b) (by omega); omega

/-- cutting the text at the offset of token `k` -/
theorem take_off (ts : List Bytes) (k : Nat) : (ofToks ts).take (off ts k) = ofToks (ts.take k) := by
  induction ts generalizing k with
  | nil => simp [ofToks, off]
  | cons t rest ih =>
    cases k with
    | zero => simp [off, ofToks]
    | succ k =>
      rw [off_succ, ofToks_cons, List.take_succ_cons, ofToks_cons]
      have e : 1 + t.length + off rest k = (off rest k + t.length) + 1 := by omega
      rw [e, List.take_succ_cons, List.take_append]
      simp [ih k]
      rw [List.take_of_length_le (by omega)]

theorem drop_off (ts : List Bytes) (k : Nat) : (ofToks ts).drop (off ts k) = ofToks (ts.drop k) := by
  induction ts generalizing k with
  | nil => simp [ofToks, off]
  | cons t rest ih =>
    cases k with
    | zero => simp [off]
    | succ k =>
      rw [off_succ, ofToks_cons]
      have e : 1 + t.length + off rest k = (off rest k + t.length) + 1 := by omega
      rw [e, List.drop_succ_cons, List.drop_append]
      simp [ih k]

/-! ### `find`, `rfind`, `splitOnce`, `rsplitOnce` on token texts -/

theorem find_noSlash (t : Bytes) (h : noSlash t) : find 47 t = none := by
  induction t with
  | nil => rfl
  | cons b r ih =>
    obtain ⟨hb, hr⟩ := noSlash_cons.mp h
    simp [find, hb, ih hr]

theorem find_append_slash (t r : Bytes) (h : noSlash t) : find 47 (t ++ 47 :: r) = some t.length := by
  induction t with
  | nil => simp [find]
  | cons b t ih =>
    obtain ⟨hb, ht⟩ := noSlash_cons.mp h
    simp [find, hb, ih ht]

theorem rfind_noSlash (t : Bytes) (h : noSlash t) : rfind 47 t = none := by
  induction t with
  | nil => rfl
  | cons b r ih =>
    obtain ⟨hb, hr⟩ := noSlash_cons.mp h
    simp [rfind, ih hr, hb]

theorem rfind_append_slash (a t : Bytes) (h : noSlash t) : rfind 47 (a ++ 47 :: t) = some a.length := by
  induction a with
  | nil => simp [rfind, rfind_noSlash t h]
  | cons b a ih => simp [rfind, ih]

theorem splitOnce_noSlash (t : Bytes) (h : noSlash t) : splitOnce 47 t = none := by
  induction t with
  | nil => rfl
  | cons b r ih =>
    obtain ⟨hb, hr⟩ := noSlash_cons.mp h
    simp [splitOnce, hb, ih hr]

theorem splitOnce_append_slash (t r : Bytes) (h : noSlash t) :
    splitOnce 47 (t ++ 47 :: r) = some (t, r) := by
  induction t with
  | nil => simp [splitOnce]
  | cons b t ih =>
    obtain ⟨hb, ht⟩ := noSlash_cons.mp h
    simp [splitOnce, hb, ih ht]

theorem rsplitOnce_noSlash (t : Bytes) (h : noSlash t) : rsplitOnce 47 t = none := by
  induction t with
  | nil => rfl
  | cons b r ih =>
    obtain ⟨hb, hr⟩ := noSlash_cons.mp h
    simp [rsplitOnce, hb, ih hr]

theorem rsplitOnce_append_slash (a t : Bytes) (h : noSlash t) :
    rsplitOnce 47 (a ++ 47 :: t) = some (a, t) := by
  induction a with
  | nil => simp [rsplitOnce, rsplitOnce_noSlash t h]
  | cons b a ih => simp [rsplitOnce, ih]

/-- `split_back` on the text of a non-empty token list -/
theorem splitBack_ofToks_snoc (ts : List Bytes) (t : Bytes) (h : noSlash t) :
    splitBack (ofToks (ts ++ [t])) = some (ofToks ts, t) := by
  rw [ofToks_snoc]; exact rsplitOnce_append_slash _ _ h

theorem splitBack_nil : splitBack [] = none := rfl

/-- `split_front` on the text of a non-empty token list -/
theorem splitFront_ofToks_cons (t : Bytes) (ts : List Bytes) (h : noSlash t) :
    splitFront (ofToks (t :: ts)) = some (t, ofToks ts) := by
  rw [ofToks_cons]
  cases ts with
  | nil => simp [splitFront, ofToks, find_noSlash t h]
  | cons u us =>
    rw [ofToks_cons]
    simp only [splitFront, find_append_slash t _ h]
    simp

theorem splitFront_nil : splitFront [] = none := rfl

/-- every valid pointer text is the text of a slash-free token list -/
theorem exists_toks_of_valid (p : Bytes) (h : p = [] ∨ p.head? = some 47) :
    ∃ ts, p = ofToks ts ∧ (∀ t ∈ ts, noSlash t) ∧ tokens p = ts :=
  ⟨tokens p, (ofToks_tokens p h).symm, tokens_all_noSlash p, rfl⟩

end Jp
