import Jp.Lemmas.Utf8
/-
  Jp.Lemmas.Utf8Cuts — where a well-formed UTF-8 byte string may be cut.

  `Pointer::split_at`, `split_front`, `split_back`, `parent` and the `PointerIndex::get` range impls
  build `&Pointer` views with `from_utf8_unchecked` / `new_unchecked`; their SAFETY comments say the
  cut offsets are token boundaries (the position of a `/`, or the end). Here: concatenating well-formed
  strings gives a well-formed string, and a position that holds an ASCII byte (or is the end) is a
  char boundary: cutting there gives two well-formed strings.
-/
namespace Jp.Spec.Utf8
open Jp

/-! ### inversion of `chars_cons` -/

theorem chars_cons_inv {b : Nat} {r : Bytes} {cs : List Bytes} (h : chars (b :: r) = some cs) :
    1 ≤ seqLen b ∧ seqLen b - 1 ≤ r.length ∧ (r.take (seqLen b - 1)).all isCont = true ∧
    ∃ cs', chars (r.drop (seqLen b - 1)) = some cs' ∧ cs = (b :: r.take (seqLen b - 1)) :: cs' := by
  rw [chars_cons] at h
  split at h
  · rename_i hc
    obtain ⟨h1, h2, h3⟩ := hc
    simp only [Option.map_eq_some_iff] at h
    obtain ⟨cs', hcs', rfl⟩ := h
    exact ⟨h1, h2, h3, cs', hcs', rfl⟩
  · simp at h

theorem chars_cons_intro {b : Nat} {r : Bytes} {cs' : List Bytes} (h1 : 1 ≤ seqLen b)
    (h2 : seqLen b - 1 ≤ r.length) (h3 : (r.take (seqLen b - 1)).all isCont = true)
    (h4 : chars (r.drop (seqLen b - 1)) = some cs') :
    chars (b :: r) = some ((b :: r.take (seqLen b - 1)) :: cs') := by
  rw [chars_cons, if_pos ⟨h1, h2, h3⟩, h4]
  rfl

/-- a continuation byte is not ASCII -/
theorem isCont_ge {b : Nat} (h : isCont b = true) : 128 ≤ b := by
  simp only [isCont, Bool.and_eq_true, decide_eq_true_eq] at h
  exact h.1

/-- an ASCII byte is a whole 1-byte sequence -/
theorem seqLen_ascii {b : Nat} (h : b < 128) : seqLen b = 1 := by
  simp [seqLen, h]

/-! ### concatenation -/

theorem chars_append_aux (n : Nat) : ∀ (a b : Bytes) (ca cb : List Bytes), a.length ≤ n →
    chars a = some ca → chars b = some cb → chars (a ++ b) = some (ca ++ cb) := by
  induction n with
  | zero =>
    intro a b ca cb hn ha hb
    cases a with
    | nil =>
      rw [chars_nil] at ha
      simp only [Option.some.injEq] at ha
      subst ha
      simpa using hb
    | cons x r => simp at hn
  | succ n ih =>
    intro a b ca cb hn ha hb
    cases a with
    | nil =>
      rw [chars_nil] at ha
      simp only [Option.some.injEq] at ha
      subst ha
      simpa using hb
    | cons x r =>
      obtain ⟨h1, h2, h3, cs', hcs', rfl⟩ := chars_cons_inv ha
      have hrec := ih (r.drop (seqLen x - 1)) b cs' cb
        (by simp only [List.length_cons, List.length_drop] at hn ⊢; omega) hcs' hb
      have ht : (r ++ b).take (seqLen x - 1) = r.take (seqLen x - 1) :=
        List.take_append_of_le_length h2
      have hd : (r ++ b).drop (seqLen x - 1) = r.drop (seqLen x - 1) ++ b :=
        List.drop_append_of_le_length h2
      have := chars_cons_intro (b := x) (r := r ++ b) (cs' := cs' ++ cb) h1
        (by simp only [List.length_append]; omega) (by rw [ht]; exact h3) (by rw [hd]; exact hrec)
      rw [ht] at this
      simpa using this

/-- concatenation of well-formed strings is well-formed (and its chars are the concatenation) -/
theorem chars_append (a b : Bytes) (ca cb : List Bytes) (ha : chars a = some ca)
    (hb : chars b = some cb) : chars (a ++ b) = some (ca ++ cb) :=
  chars_append_aux a.length a b ca cb (Nat.le_refl _) ha hb

/-! ### cutting at an ASCII byte -/

theorem chars_split_at_ascii_aux (n : Nat) : ∀ (s : Bytes) (k : Nat) (cs : List Bytes),
    s.length ≤ n → chars s = some cs → k ≤ s.length →
    (k = s.length ∨ ∃ b, s[k]? = some b ∧ b < 128) →
    (∃ c1, chars (s.take k) = some c1) ∧ (∃ c2, chars (s.drop k) = some c2) := by
  induction n with
  | zero =>
    intro s k cs hn h hk hb
    cases s with
    | nil => exact ⟨⟨[], by simp [chars_nil]⟩, ⟨[], by simp [chars_nil]⟩⟩
    | cons x r => simp at hn
  | succ n ih =>
    intro s k cs hn h hk hb
    cases s with
    | nil => exact ⟨⟨[], by simp [chars_nil]⟩, ⟨[], by simp [chars_nil]⟩⟩
    | cons x r =>
      cases k with
      | zero => exact ⟨⟨[], by simp [chars_nil]⟩, ⟨cs, by simpa using h⟩⟩
      | succ k =>
        obtain ⟨h1, h2, h3, cs', hcs', rfl⟩ := chars_cons_inv h
        simp only [List.length_cons, Nat.add_le_add_iff_right] at hk hn
        simp only [List.length_cons, Nat.add_right_cancel_iff, List.getElem?_cons_succ] at hb
        by_cases hlt : k < seqLen x - 1
        · -- the cut falls inside the first sequence: byte `k` of `r` is a continuation byte
          exfalso
          rcases hb with rfl | ⟨b, hbk, hb128⟩
          · omega
          · have hmem : b ∈ r.take (seqLen x - 1) := by
              rw [List.mem_iff_getElem?]
              exact ⟨k, by rw [List.getElem?_take, if_pos hlt]; exact hbk⟩
            have := isCont_ge (List.all_eq_true.mp h3 b hmem)
            omega
        · have hge : seqLen x - 1 ≤ k := by omega
          have hrec := ih (r.drop (seqLen x - 1)) (k - (seqLen x - 1)) cs'
            (by simp only [List.length_drop]; omega) hcs'
            (by simp only [List.length_drop]; omega)
            (by
              rcases hb with rfl | ⟨b, hbk, hb128⟩
              · left; simp only [List.length_drop]
              · right
                refine ⟨b, ?_, hb128⟩
                rw [List.getElem?_drop]
                have e : seqLen x - 1 + (k - (seqLen x - 1)) = k := by omega
                rw [e]; exact hbk)
          obtain ⟨⟨c1, hc1⟩, ⟨c2, hc2⟩⟩ := hrec
          refine ⟨?_, ?_⟩
          · have ht : (r.take k).take (seqLen x - 1) = r.take (seqLen x - 1) := by
              rw [List.take_take, Nat.min_eq_left hge]
            have hd : (r.take k).drop (seqLen x - 1) =
                (r.drop (seqLen x - 1)).take (k - (seqLen x - 1)) := by
              rw [List.drop_take]
            rw [List.take_succ_cons]
            refine ⟨(x :: (r.take k).take (seqLen x - 1)) :: c1, ?_⟩
            exact chars_cons_intro (b := x) (r := r.take k) (cs' := c1) h1
              (by simp only [List.length_take]; omega) (by rw [ht]; exact h3) (by rw [hd]; exact hc1)
          · refine ⟨c2, ?_⟩
            rw [List.drop_succ_cons]
            rw [List.drop_drop] at hc2
            have e : seqLen x - 1 + (k - (seqLen x - 1)) = k := by omega
            rw [e] at hc2
            exact hc2

/-- a position holding an ASCII byte (or the end) is a char boundary of a well-formed string:
    both pieces of the cut are well-formed -/
theorem chars_split_at_ascii (s : Bytes) (k : Nat) (cs : List Bytes) (h : chars s = some cs)
    (hk : k ≤ s.length) (hb : k = s.length ∨ ∃ b, s[k]? = some b ∧ b < 128) :
    (∃ c1, chars (s.take k) = some c1) ∧ (∃ c2, chars (s.drop k) = some c2) :=
  chars_split_at_ascii_aux s.length s k cs (Nat.le_refl _) h hk hb

/-- a slice whose two ends each hold an ASCII byte (or are the end) is well-formed -/
theorem chars_slice_ascii (s : Bytes) (i j : Nat) (cs : List Bytes) (h : chars s = some cs)
    (hij : i ≤ j) (hj : j ≤ s.length) (hi : i = s.length ∨ ∃ b, s[i]? = some b ∧ b < 128)
    (hjb : j = s.length ∨ ∃ b, s[j]? = some b ∧ b < 128) :
    ∃ c, chars ((s.drop i).take (j - i)) = some c := by
  obtain ⟨_, ⟨c2, hc2⟩⟩ := chars_split_at_ascii s i cs h (by omega) hi
  have hcut := chars_split_at_ascii (s.drop i) (j - i) c2 hc2
    (by simp only [List.length_drop]; omega)
    (by
      rcases hjb with rfl | ⟨b, hbj, hb128⟩
      · left; simp only [List.length_drop]
      · right
        refine ⟨b, ?_, hb128⟩
        rw [List.getElem?_drop]
        have e : i + (j - i) = j := by omega
        rw [e]; exact hbj)
  exact hcut.1

/-! ### non-vacuity: "/é/b" cut at the second `/`, and a cut inside `é` that is rejected -/

example : chars [47, 195, 169, 47, 98] = some [[47], [195, 169], [47], [98]] := by decide
example : chars ([47, 195, 169, 47, 98].take 3) = some [[47], [195, 169]] ∧
    chars ([47, 195, 169, 47, 98].drop 3) = some [[47], [98]] := by decide
-- byte 2 is a continuation byte (169 ≥ 128): the hypothesis of `chars_split_at_ascii` fails there,
-- and indeed neither piece is well-formed
example : chars ([47, 195, 169, 47, 98].take 2) = none ∧
    chars ([47, 195, 169, 47, 98].drop 2) = none := by decide
example : (∃ c1, chars ([47, 195, 169, 47, 98].take 3) = some c1) ∧
    (∃ c2, chars ([47, 195, 169, 47, 98].drop 3) = some c2) :=
  chars_split_at_ascii [47, 195, 169, 47, 98] 3 [[47], [195, 169], [47], [98]] (by decide) (by decide)
    (Or.inr ⟨47, by decide, by decide⟩)

end Jp.Spec.Utf8
