import Jp.Model.Toml
import Jp.Lemmas.Bridge
/-
  Jp.Lemmas.Toml — the separately written toml copies (`Jp.Model.Toml`) compute the same function as
  the json copies (`Jp.Model.Resolve` / `Assign` / `Delete`), for every input: no validity hypothesis
  on the pointer text or the document. Each proof unfolds both sides one `split_front` / `split_back`
  step and uses the induction hypothesis on the shorter remaining text.
-/
namespace Jp

/-! ### one-step unfoldings of the toml walks -/

theorem Toml.resolveLoop_none {ptr : Bytes} (h : splitFront ptr = none) (value : Val)
    (offset position : Nat) (loc : Loc) :
    Toml.resolveLoop ptr value offset position loc = .ok (loc, value) := by
  rw [Toml.resolveLoop]
  split
  · rfl
  · rename_i h'; rw [h] at h'; cases h'

theorem Toml.resolveLoop_some {ptr token rem : Bytes} (h : splitFront ptr = some (token, rem))
    (value : Val) (offset position : Nat) (loc : Loc) :
    Toml.resolveLoop ptr value offset position loc =
    match value with
    | .arr v =>
      match Token.toIndex token with
      | .err source => .err (.failedToParseIndex position offset source)
      | .panic m => .panic m
      | .ok index =>
        match index.forLen v.length with
        | .err source => .err (.outOfBounds position offset source)
        | .panic m => .panic m
        | .ok idx =>
          match v[idx]? with
          | some c =>
            Toml.resolveLoop rem c (offset + (1 + token.length)) (position + 1) (loc ++ [.idx idx])
          | none => .panic "index out of bounds: v[idx]"
    | .obj v =>
      match lookup (Token.decoded token).bytes v with
      | some c =>
        Toml.resolveLoop rem c (offset + (1 + token.length)) (position + 1)
          (loc ++ [.key (Token.decoded token).bytes])
      | none => .err (.notFound position offset)
    | .scalar _ => .err (.unreachable position offset) := by
  rw [Toml.resolveLoop]
  split
  · rename_i h'; rw [h] at h'; cases h'
  · rename_i t r h'
    rw [h] at h'
    cases h'
    rfl

theorem Toml.resolveMutLoop_none {ptr : Bytes} (h : splitFront ptr = none) (value : Val)
    (offset position : Nat) (loc : Loc) :
    Toml.resolveMutLoop ptr value offset position loc = .ok (loc, value) := by
  rw [Toml.resolveMutLoop]
  split
  · rfl
  · rename_i h'; rw [h] at h'; cases h'

theorem Toml.resolveMutLoop_some {ptr token rem : Bytes} (h : splitFront ptr = some (token, rem))
    (value : Val) (offset position : Nat) (loc : Loc) :
    Toml.resolveMutLoop ptr value offset position loc =
    match value with
    | .arr array =>
      match Token.toIndex token with
      | .err source => .err (.failedToParseIndex position offset source)
      | .panic m => .panic m
      | .ok index =>
        match index.forLen array.length with
        | .err source => .err (.outOfBounds position offset source)
        | .panic m => .panic m
        | .ok idx =>
          match array[idx]? with
          | some c =>
            Toml.resolveMutLoop rem c (offset + (1 + token.length)) (position + 1) (loc ++ [.idx idx])
          | none => .panic "index out of bounds: array[idx]"
    | .obj v =>
      match lookup (Token.decoded token).bytes v with
      | some c =>
        Toml.resolveMutLoop rem c (offset + (1 + token.length)) (position + 1)
          (loc ++ [.key (Token.decoded token).bytes])
      | none => .err (.notFound position offset)
    | .scalar _ => .err (.unreachable position offset) := by
  rw [Toml.resolveMutLoop]
  split
  · rename_i h'; rw [h] at h'; cases h'
  · rename_i t r h'
    rw [h] at h'
    cases h'
    rfl

theorem Toml.expand_none {r : Bytes} (h : splitBack r = none) (v : Val) : Toml.expand r v = v := by
  rw [Toml.expand]
  split
  · rfl
  · rename_i h'; rw [h] at h'; cases h'

theorem Toml.expand_some {r ptr tok : Bytes} (h : splitBack r = some (ptr, tok)) (v : Val) :
    Toml.expand r v = if tok = [48] ∨ tok = [45] then Toml.expand ptr (.arr [v])
      else Toml.expand ptr (.obj [(Token.toString tok, v)]) := by
  rw [Toml.expand]
  split
  · rename_i h'; rw [h] at h'; cases h'
  · rename_i p t h'
    rw [h] at h'
    cases h'
    rfl

theorem Toml.assignValue_none {ptr : Bytes} (h : splitFront ptr = none) (dest value : Val)
    (offset position : Nat) :
    Toml.assignValue ptr dest value offset position = (value, .ok (some dest)) := by
  rw [Toml.assignValue]
  split
  · rfl
  · rename_i h'; rw [h] at h'; cases h'

theorem Toml.assignValue_some {ptr token tail : Bytes} (h : splitFront ptr = some (token, tail))
    (dest value : Val) (offset position : Nat) :
    Toml.assignValue ptr dest value offset position =
    match dest with
    | .arr array =>
      match Token.toIndex token with
      | .err source => (dest, .err (.failedToParseIndex position offset source))
      | .panic m => (dest, .panic m)
      | .ok index =>
        match index.forLenIncl array.length with
        | .err source => (dest, .err (.outOfBounds position offset source))
        | .panic m => (dest, .panic m)
        | .ok idx =>
          match array[idx]? with
          | some elem =>
            if isRoot tail then (.arr (array.set idx value), .ok (some elem))
            else
              match Toml.assignValue tail elem value (offset + (1 + token.length)) (position + 1) with
              | (elem', r) => (.arr (array.set idx elem'), r)
          | none =>
            (.arr (array ++ [Toml.expand tail value]), .ok none)
    | .obj tbl =>
      let key := Token.toString token
      match lookup key tbl with
      | some entry =>
        if isRoot tail then (.obj (replaceKey key value tbl), .ok (some entry))
        else
          match Toml.assignValue tail entry value (offset + (1 + token.length)) (position + 1) with
          | (entry', r) => (.obj (replaceKey key entry' tbl), r)
      | none => (.obj (tbl ++ [(key, Toml.expand tail value)]), .ok none)
    | .scalar _ =>
      (Toml.expand ptr value, .ok (some dest)) := by
  rw [Toml.assignValue]
  split
  · rename_i h'; rw [h] at h'; cases h'
  · rename_i t r h'
    rw [h] at h'
    cases h'
    rfl

/-! ### toml = json -/

/-- the toml `Resolve::resolve` loop is the json one -/
theorem toml_resolveLoop_eq (p : Bytes) (v : Val) (offset position : Nat) (loc : Loc) :
    Toml.resolveLoop p v offset position loc = resolveLoop p v offset position loc := by
  generalize hn : p.length = n
  induction n using Nat.strongRecOn generalizing p v offset position loc with
  | ind n ih =>
    cases h : splitFront p with
    | none => rw [resolveLoop_none h, Toml.resolveLoop_none h]
    | some tr =>
      obtain ⟨tok, rem⟩ := tr
      have hlt := splitFront_length h
      have ih' := fun v o q l => ih rem.length (by omega) rem v o q l rfl
      rw [resolveLoop_some h, Toml.resolveLoop_some h]
      simp only [ih']
      rfl

/-- the toml `ResolveMut::resolve_mut` loop (inline chain) is the json `resolve` loop … -/
theorem toml_resolveMutLoop_eq_resolveLoop (p : Bytes) (v : Val) (offset position : Nat) (loc : Loc) :
    Toml.resolveMutLoop p v offset position loc = resolveLoop p v offset position loc := by
  generalize hn : p.length = n
  induction n using Nat.strongRecOn generalizing p v offset position loc with
  | ind n ih =>
    cases h : splitFront p with
    | none => rw [resolveLoop_none h, Toml.resolveMutLoop_none h]
    | some tr =>
      obtain ⟨tok, rem⟩ := tr
      have hlt := splitFront_length h
      have ih' := fun v o q l => ih rem.length (by omega) rem v o q l rfl
      rw [resolveLoop_some h, Toml.resolveMutLoop_some h]
      cases v with
      | scalar s => rfl
      | obj kvs => simp only [ih']; rfl
      | arr xs =>
        simp only [ih']
        cases Token.toIndex tok with
        | err e => rfl
        | panic m => rfl
        | ok i =>
          simp only []
          cases hf : i.forLen xs.length with
          | err e => rfl
          | panic m => rfl
          | ok idx =>
            simp only []
            -- the two copies differ only in the message of the (unreachable) indexing panic
            have hlt' : idx < xs.length := by
              cases i with
              | next => simp [Index.forLen] at hf
              | num k =>
                simp only [Index.forLen] at hf
                split at hf
                · cases hf; assumption
                · cases hf
            rw [List.getElem?_eq_getElem hlt']

/-- … hence the json `resolve_mut` loop (through `parse_index`) -/
theorem toml_resolveMutLoop_eq (p : Bytes) (v : Val) (offset position : Nat) (loc : Loc) :
    Toml.resolveMutLoop p v offset position loc = resolveMutLoop p v offset position loc := by
  rw [toml_resolveMutLoop_eq_resolveLoop, resolveMutLoop_eq_resolveLoop]

/-- the toml `expand` is the json one -/
theorem toml_expand_eq (r : Bytes) (v : Val) : Toml.expand r v = expand r v := by
  generalize hn : r.length = n
  induction n using Nat.strongRecOn generalizing r v with
  | ind n ih =>
    cases h : splitBack r with
    | none => rw [expand_none h, Toml.expand_none h]
    | some pt =>
      obtain ⟨ptr, tok⟩ := pt
      have hlt := rsplitOnce_length h
      have ih' := fun v => ih ptr.length (by omega) ptr v rfl
      rw [expand_some h, Toml.expand_some h]
      simp only [ih']

/-- the toml `assign_value` is the json one: same document afterwards, same result -/
theorem toml_assignValue_eq (p : Bytes) (d v : Val) (offset position : Nat) :
    Toml.assignValue p d v offset position = assignValue p d v offset position := by
  generalize hn : p.length = n
  induction n using Nat.strongRecOn generalizing p d v offset position with
  | ind n ih =>
    cases h : splitFront p with
    | none => rw [assignValue_none h, Toml.assignValue_none h]
    | some tt =>
      obtain ⟨tok, tail⟩ := tt
      have hlt := splitFront_length h
      have ih' := fun d v o q => ih tail.length (by omega) tail d v o q rfl
      rw [assignValue_some h, Toml.assignValue_some h]
      simp only [ih', toml_expand_eq]
      rfl

theorem toml_resolveMut_eq_aux (D : Val) (p : Bytes) : Toml.resolveMut D p = resolveMut D p :=
  toml_resolveMutLoop_eq p D 0 0 []

/-- the toml `Delete::delete` is the model's `delete` at the toml backend -/
theorem toml_delete_eq_aux (doc : Val) (p : Bytes) : Toml.delete doc p = delete .toml doc p := by
  unfold Toml.delete delete
  simp only [toml_resolveMut_eq_aux]
  rfl

end Jp
