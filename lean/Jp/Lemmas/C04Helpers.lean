import Jp.Lemmas.Valid
import Jp.Props.C03
/-
  Helper lemmas for Jp/Props/C04.lean (same namespace `Jp.C04`).
  Everything here is auxiliary: the property theorems themselves (the `-- OBLIGATIONS` list) are
  stated and proved in Jp/Props/C04.lean, which imports this module. Definitions that both a helper
  and a property statement need live here and are referred to by a comment in the Props file.
-/
namespace Jp.C04
open Jp Jp.Spec

def newB (s : Bytes) : Bytes := (Token.new s).bytes
def decB (t : Bytes) : Bytes := (Token.decoded t).bytes

/-! ### helpers -/

theorem map_newB (L : List Bytes) : L.map newB = L.map enc := by
  apply List.map_congr_left
  intro l _
  exact C03.new_encoded l

theorem enc_noSlash (l : Bytes) : noSlash (enc l) := validTok_noSlash (C03.enc_valid l)

theorem mapEnc_noSlash (L : List Bytes) : ∀ t ∈ L.map enc, noSlash t := by
  intro t ht
  obtain ⟨l, _, rfl⟩ := List.mem_map.mp ht
  exact enc_noSlash l

theorem mapEnc_valid (L : List Bytes) : ∀ t ∈ L.map enc, validTok t = true := by
  intro t ht
  obtain ⟨l, _, rfl⟩ := List.mem_map.mp ht
  exact C03.enc_valid l

theorem decB_enc (l : Bytes) : decB (enc l) = l := by
  unfold decB
  rw [C03.decoded_eq_dec _ (C03.enc_valid l), C03.dec_enc]

theorem map_decB_enc (L : List Bytes) : (L.map enc).map decB = L := by
  induction L with
  | nil => rfl
  | cons l L ih => simp only [List.map_cons, decB_enc, ih]

theorem enc_decB (t : Bytes) (h : validTok t = true) : enc (decB t) = t := by
  unfold decB
  rw [C03.decoded_eq_dec _ h, C03.enc_dec _ h]

theorem map_enc_decB (ts : List Bytes) (h : ∀ t ∈ ts, validTok t = true) :
    (ts.map decB).map enc = ts := by
  induction ts with
  | nil => rfl
  | cons t ts ih =>
    simp only [List.map_cons]
    rw [enc_decB t (h t (by simp)), ih (fun u hu => h u (by simp [hu]))]

theorem map_enc_injective (L M : List Bytes) (h : L.map enc = M.map enc) : L = M := by
  have := congrArg (List.map decB) h
  rwa [map_decB_enc, map_decB_enc] at this

theorem decimal_digits (n : Nat) : ∀ b ∈ decimal n, 48 ≤ b ∧ b ≤ 57 := by
  induction n using Nat.strongRecOn with
  | _ n ih =>
    intro b hb
    rw [decimal.eq_1] at hb
    split at hb
    · simp at hb; omega
    · rename_i hn
      rcases List.mem_append.mp hb with hb | hb
      · exact ih (n / 10) (by omega) b hb
      · simp at hb; omega

theorem tildesOk_of_no_tilde (t : Bytes) (h : 126 ∉ t) : tildesOk t = true := by
  induction t with
  | nil => exact tildesOk_nil
  | cons b r ih =>
    simp only [List.mem_cons, not_or] at h
    rw [tildesOk_cons_ne (fun e => h.1 e.symm)]
    exact ih h.2

theorem dec_of_no_tilde (t : Bytes) (h : 126 ∉ t) : dec t = t := by
  induction t with
  | nil => simp [dec]
  | cons b r ih =>
    simp only [List.mem_cons, not_or] at h
    have hb : b ≠ 126 := fun e => h.1 e.symm
    cases r with
    | nil => simp [dec]
    | cons c r' =>
      have := ih h.2
      simp [dec, hb, this]

end Jp.C04
