import Jp.Lemmas.Bridge
import Jp.Lemmas.Toml
/-
  Helper lemmas for Jp/Props/C09.lean (same namespace `Jp.C09`).
  Everything here is auxiliary: the property theorems themselves (the `-- OBLIGATIONS` list) are
  stated and proved in Jp/Props/C09.lean, which imports this module. Definitions that both a helper
  and a property statement need live here and are referred to by a comment in the Props file.
-/
namespace Jp.C09
open Jp Jp.Spec

/-! ### helper lemmas -/

theorem lookup_replaceKey_self {k : Bytes} {y c : Val} {kvs : List (Bytes × Val)}
    (h : lookup k kvs = some c) : lookup k (replaceKey k y kvs) = some y := by
  induction kvs with
  | nil => simp [lookup] at h
  | cons kv r ih =>
    obtain ⟨k', v⟩ := kv
    by_cases hk : k = k' <;> simp_all [replaceKey, lookup]

theorem lookup_replaceKey_ne {k k2 : Bytes} (y : Val) (kvs : List (Bytes × Val)) (hne : k2 ≠ k) :
    lookup k2 (replaceKey k y kvs) = lookup k2 kvs := by
  induction kvs with
  | nil => simp [replaceKey]
  | cons kv r ih =>
    obtain ⟨k', v⟩ := kv
    by_cases hk : k = k'
    · subst hk; simp [replaceKey, lookup, hne]
    · simp [replaceKey, lookup, hk, ih]

theorem replaceKey_keys (k : Bytes) (y : Val) (kvs : List (Bytes × Val)) :
    (replaceKey k y kvs).map (·.1) = kvs.map (·.1) := by
  induction kvs with
  | nil => simp [replaceKey]
  | cons kv r ih =>
    obtain ⟨k', v⟩ := kv
    by_cases hk : k = k' <;> simp [replaceKey, hk, ih]

theorem forLen_ok_lt {i : Index} {len idx : Nat} (h : i.forLen len = .ok idx) : idx < len := by
  cases i with
  | next => simp [Index.forLen] at h
  | num k =>
    simp only [Index.forLen] at h
    split at h
    · cases h; assumption
    · cases h

/-- the walk invariant: the returned location extends the accumulator by a path `l'` that `Val.at`
    follows to the returned node, and the walk over the document written at `l'` ends at the same
    location on the written value -/
theorem resolveT_inv (ts : List Bytes) (v : Val) (o pos : Nat) (loc l : Loc) (n : Val)
    (h : resolveT ts v o pos loc = .ok (l, n)) :
    ∃ l', l = loc ++ l' ∧ v.at l' = some n ∧
      ∀ x, resolveT ts (v.setAt l' x) o pos loc = .ok (loc ++ l', x) := by
  induction ts generalizing v o pos loc with
  | nil =>
    simp only [resolveT, Res.ok.injEq, Prod.mk.injEq] at h
    obtain ⟨rfl, rfl⟩ := h
    exact ⟨[], by simp, by simp [Val.at], fun x => by simp [Val.setAt, resolveT]⟩
  | cons t ts ih =>
    cases v with
    | scalar s => simp [resolveT] at h
    | obj kvs =>
      simp only [resolveT] at h
      cases hk : lookup (Token.decoded t).bytes kvs with
      | none => simp [hk] at h
      | some c =>
        simp only [hk] at h
        obtain ⟨l', rfl, hat, hset⟩ := ih _ _ _ _ h
        refine ⟨.key (Token.decoded t).bytes :: l', by simp, by simp [Val.at, hk, hat], fun x => ?_⟩
        simp only [Val.setAt, hk, resolveT, lookup_replaceKey_self hk]
        rw [hset x]; simp
    | arr xs =>
      simp only [resolveT] at h
      cases hti : Token.toIndex t with
      | err e => simp [hti] at h
      | panic m => simp [hti] at h
      | ok i =>
        simp only [hti] at h
        cases hf : i.forLen xs.length with
        | err e => simp [hf] at h
        | panic m => simp [hf] at h
        | ok idx =>
          simp only [hf] at h
          have hlt := forLen_ok_lt hf
          cases hx : xs[idx]? with
          | none => simp [hx] at h
          | some c =>
            simp only [hx] at h
            obtain ⟨l', rfl, hat, hset⟩ := ih _ _ _ _ h
            refine ⟨.idx idx :: l', by simp, by simp [Val.at, hx, hat], fun x => ?_⟩
            simp only [Val.setAt, hx, resolveT, hti, List.length_set, hf]
            rw [List.getElem?_set_self hlt]
            simp only []
            rw [hset x]; simp

theorem rsplitOnce_slash_cons (r : Bytes) : rsplitOnce 47 (47 :: r) ≠ none := by
  simp only [rsplitOnce]
  cases rsplitOnce 47 r with
  | none => simp
  | some fk => simp

def SameShape : Val → Val → Prop
  | .arr xs, .arr ys => xs.length = ys.length
  | .obj kvs, .obj kvs' => kvs.map (·.1) = kvs'.map (·.1)
  | _, _ => False

theorem ancestors_keep_shape_aux (D x : Val) (l m : Loc) (n w : Val) (hl : D.at l = some n)
    (hm : D.at m = some w) (hpre : m <+: l) (hne : m ≠ l) :
    ∃ w', (D.setAt l x).at m = some w' ∧ SameShape w w' := by
  induction m generalizing D l with
  | nil =>
    cases l with
    | nil => exact absurd rfl hne
    | cons s l' =>
      simp only [Val.at, Option.some.injEq] at hm
      subst hm
      cases D with
      | scalar a => simp [Val.at] at hl
      | arr xs =>
        cases s with
        | key k => simp [Val.at] at hl
        | idx i =>
          simp only [Val.at] at hl
          cases hx : xs[i]? with
          | none => simp [hx] at hl
          | some c => exact ⟨.arr (xs.set i (c.setAt l' x)), by simp [Val.at, Val.setAt, hx], by simp [SameShape]⟩
      | obj kvs =>
        cases s with
        | idx i => simp [Val.at] at hl
        | key k =>
          simp only [Val.at] at hl
          cases hx : lookup k kvs with
          | none => simp [hx] at hl
          | some c => exact ⟨.obj (replaceKey k (c.setAt l' x) kvs), by simp [Val.at, Val.setAt, hx],
            by simp [SameShape, replaceKey_keys]⟩
  | cons s m' ih =>
    cases l with
    | nil => simp at hpre
    | cons s2 l' =>
      have hss : s = s2 ∧ m' <+: l' := by simpa using hpre
      obtain ⟨rfl, hpre'⟩ := hss
      have hne' : m' ≠ l' := fun e => hne (by rw [e])
      cases D with
      | scalar a => simp [Val.at] at hl
      | arr xs =>
        cases s with
        | key k => simp [Val.at] at hl
        | idx i =>
          simp only [Val.at] at hl hm
          cases hx : xs[i]? with
          | none => simp [hx] at hl
          | some c =>
            simp only [hx] at hl hm
            have hlt : i < xs.length := (List.getElem?_eq_some_iff.mp hx).1
            simp only [Val.setAt, hx, Val.at, List.getElem?_set_self hlt]
            exact ih c l' hl hm hpre' hne'
      | obj kvs =>
        cases s with
        | idx i => simp [Val.at] at hl
        | key k =>
          simp only [Val.at] at hl hm
          cases hx : lookup k kvs with
          | none => simp [hx] at hl
          | some c =>
            simp only [hx] at hl hm
            simp only [Val.setAt, hx, Val.at, lookup_replaceKey_self hx]
            exact ih c l' hl hm hpre' hne'

end Jp.C09
