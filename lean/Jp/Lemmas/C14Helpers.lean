import Jp.Props.C02
/-
  Helper lemmas for Jp/Props/C14.lean (same namespace `Jp.C14`).
  Everything here is auxiliary: the property theorems themselves (the `-- OBLIGATIONS` list) are
  stated and proved in Jp/Props/C14.lean, which imports this module. Definitions that both a helper
  and a property statement need live here and are referred to by a comment in the Props file.
-/
namespace Jp.C14
open Jp Jp.Spec

/-! ### helper lemmas -/

theorem rfind_lt (c : Nat) (s : Bytes) (i : Nat) (h : rfind c s = some i) : i < s.length := by
  induction s generalizing i with
  | nil => simp [rfind] at h
  | cons b r ih =>
    simp only [rfind] at h
    cases h2 : rfind c r with
    | some j =>
      rw [h2] at h; simp at h; subst h
      have := ih j h2; simp; omega
    | none =>
      rw [h2] at h; simp at h
      obtain ⟨rfl, rfl⟩ := h; simp

theorem rfind_get (c : Nat) (s : Bytes) (i : Nat) (h : rfind c s = some i) : s[i]? = some c := by
  induction s generalizing i with
  | nil => simp [rfind] at h
  | cons b r ih =>
    simp only [rfind] at h
    cases h2 : rfind c r with
    | some j =>
      rw [h2] at h; simp at h; subst h
      simpa using ih j h2
    | none =>
      rw [h2] at h; simp at h
      obtain ⟨rfl, rfl⟩ := h; simp

theorem rfind_cons_self_ne_none (c : Nat) (r : Bytes) : rfind c (c :: r) ≠ none := by
  simp only [rfind]
  cases rfind c r <;> simp

theorem fbt_get (s : Bytes) (c : Nat) (h : firstBadTilde s = some c) : s[c]? = some 126 := by
  fun_induction firstBadTilde s generalizing c <;> simp_all
  all_goals
    obtain ⟨a, ha, rfl⟩ := h
    simp_all

/-- what an error of `validate` looks like -/
theorem validate_err (s : Bytes) (e : ParseError) (h : validate s = .err e) :
    (e = .noLeadingSlash ∧ s ≠ [] ∧ s.head? ≠ some 47) ∨
    (∃ c po, s.head? = some 47 ∧ firstBadTilde s = some c ∧ lastSlashAtOrBefore s c = some po ∧
      e = .invalidEncoding po (c - po) .tilde) := by
  rw [C02.validate_eq_spec] at h
  cases s with
  | nil => simp [parseSpec] at h
  | cons b r =>
    by_cases hb : b = 47
    · subst hb
      right
      cases hc : firstBadTilde (47 :: r) with
      | none => simp [parseSpec, hc] at h
      | some c =>
        cases hp : lastSlashAtOrBefore (47 :: r) c with
        | none =>
          exact absurd hp (by
            simp only [lastSlashAtOrBefore, List.take_succ_cons]
            exact rfind_cons_self_ne_none 47 _)
        | some po =>
          simp [parseSpec, hc, hp] at h
          exact ⟨c, po, by simp, rfl, hp, h.symm⟩
    · left
      simp [parseSpec, hb] at h
      simp [← h, hb]

end Jp.C14
