import Jp.Lemmas.Bridge
/-
  Helper lemmas for Jp/Props/C15.lean (same namespace `Jp.C15`).
  Everything here is auxiliary: the property theorems themselves (the `-- OBLIGATIONS` list) are
  stated and proved in Jp/Props/C15.lean, which imports this module. Definitions that both a helper
  and a property statement need live here and are referred to by a comment in the Props file.
-/
namespace Jp.C15
open Jp Jp.Spec

/-- what C15 demands of `(position, offset, label)` for a failed walk on pointer text `p` -/
def Locates (p : Bytes) (position offset : Nat) (label : Option (Nat × Nat)) : Prop :=
  ∃ tok, (tokens p)[position]? = some tok ∧
    offset = off (tokens p) position ∧
    getToken p position = some tok ∧
    splitAt p offset = some (ofToks ((tokens p).take position), ofToks ((tokens p).drop position)) ∧
    ∃ o l, label = some (o, l) ∧ l = tok.length ∧ o + l ≤ p.length ∧
      (0 < l → o = offset + 1) ∧ (l = 0 → o = offset ∨ o = offset + 1)

/-! ### helper lemmas -/

theorem off_step (ts : List Bytes) (k : Nat) (tok : Bytes) (h : ts[k]? = some tok) :
    off ts (k + 1) = off ts k + 1 + tok.length := by
  induction ts generalizing k with
  | nil => simp at h
  | cons t ts ih =>
    cases k with
    | zero => simp at h; subst h; simp [off]
    | succ k =>
      simp at h
      rw [off_succ, off_succ, ih k h]; omega

theorem drop_of_get (ts : List Bytes) (k : Nat) (tok : Bytes) (h : ts[k]? = some tok) :
    ts.drop k = tok :: ts.drop (k + 1) := by
  obtain ⟨hk, rfl⟩ := List.getElem?_eq_some_iff.mp h
  exact List.drop_eq_getElem_cons hk

theorem off_step_le (ts : List Bytes) (k : Nat) (tok : Bytes) (h : ts[k]? = some tok) :
    off ts k + 1 + tok.length ≤ (ofToks ts).length := by
  rw [← off_step ts k tok h]; exact off_le ts (k + 1)

theorem splitAt_off (ts : List Bytes) (k : Nat) (tok : Bytes) (h : ts[k]? = some tok) :
    splitAt (ofToks ts) (off ts k) = some (ofToks (ts.take k), ofToks (ts.drop k)) := by
  have hb : (ofToks ts)[off ts k]? = some 47 := by
    rw [← List.head?_drop, drop_off, drop_of_get ts k tok h, ofToks_cons]; rfl
  simp [splitAt, hb, take_off, drop_off]

theorem locates_of (p : Bytes) (ts : List Bytes) (hp : p = ofToks ts) (htk : tokens p = ts)
    (k : Nat) (tok : Bytes) (h : ts[k]? = some tok) :
    Locates p k (off ts k) (walkLabel p k (off ts k)) := by
  have hle := off_step_le ts k tok h
  rw [← hp] at hle
  refine ⟨tok, by rw [htk]; exact h, by rw [htk], by simp only [getToken, htk]; exact h, ?_, ?_⟩
  · rw [htk, hp]; exact splitAt_off ts k tok h
  · have hg : getToken p k = some tok := by simp only [getToken, htk]; exact h
    simp only [walkLabel, hg]
    refine ⟨_, _, rfl, rfl, ?_, ?_, ?_⟩
    · split <;> omega
    · intro hl; split <;> omega
    · intro hl; split <;> simp

/-- the error `e` is what one step of `resolve` on node `n` with token `tok` reports -/
def RFail (n : Val) (tok : Bytes) (pos o : Nat) (e : ResolveErr) : Prop :=
  (∃ s, n = .scalar s ∧ e = .unreachable pos o) ∨
  (∃ kvs, n = .obj kvs ∧ e = .notFound pos o) ∨
  (∃ xs src, n = .arr xs ∧ Index.fromStr tok = .err src ∧ e = .failedToParseIndex pos o src) ∨
  (∃ xs idx, n = .arr xs ∧ e = .outOfBounds pos o ⟨xs.length, idx⟩ ∧
    ((tok = [45] ∧ idx = xs.length) ∨ (pidx tok = .num idx ∧ xs.length ≤ idx)))

theorem forLen_err {i : Index} {len : Nat} {s : OobErr} (h : i.forLen len = .err s) :
    (i = .next ∧ s = ⟨len, len⟩) ∨ (∃ n, i = .num n ∧ s = ⟨len, n⟩ ∧ len ≤ n) := by
  cases i with
  | next => simp [Index.forLen] at h; exact Or.inl ⟨rfl, h.symm⟩
  | num n =>
    simp only [Index.forLen] at h
    split at h
    · cases h
    · cases h; exact Or.inr ⟨n, rfl, rfl, by omega⟩

theorem forLen_ok {i : Index} {len idx : Nat} (h : i.forLen len = .ok idx) : i = .num idx := by
  cases i with
  | next => simp [Index.forLen] at h
  | num n =>
    simp only [Index.forLen] at h
    split at h
    · cases h; rfl
    · cases h

theorem toIndex_ok_num {t : Bytes} {n : Nat} (h : Token.toIndex t = .ok (.num n)) : pidx t = .num n := by
  have := toIndex_pidx t; rw [h] at this; exact this

theorem toIndex_ok_next {t : Bytes} (h : Token.toIndex t = .ok .next) : t = [45] := by
  have := toIndex_pidx t; rw [h] at this; exact (pidx_next_iff t).mp this

theorem resolveT_err (ts : List Bytes) (hv : ∀ t ∈ ts, validTok t = true) (v : Val) (o pos : Nat)
    (loc : Loc) (e : ResolveErr) (h : resolveT ts v o pos loc = .err e) :
    ∃ k tok l n, ts[k]? = some tok ∧ walk v (ts.take k) = .ok (l, n) ∧
      RFail n tok (pos + k) (o + off ts k) e := by
  induction ts generalizing v o pos loc with
  | nil => simp [resolveT] at h
  | cons t rest ih =>
    have ht := hv t (by simp)
    have ih' := ih (fun u hu => hv u (by simp [hu]))
    have step : ∀ (c : Val) (st : Step) (loc' : Loc),
        resolveT rest c (o + (1 + t.length)) (pos + 1) loc' = .err e →
        (∀ k l n, walk c (rest.take k) = .ok (l, n) → walk v (t :: rest.take k) = .ok (st :: l, n)) →
        ∃ k tok l n, (t :: rest)[k]? = some tok ∧ walk v ((t :: rest).take k) = .ok (l, n) ∧
          RFail n tok (pos + k) (o + off (t :: rest) k) e := by
      intro c st loc' hr hw
      obtain ⟨k, tok, l, n, h1, h2, h3⟩ := ih' _ _ _ _ hr
      have e1 : pos + (k + 1) = pos + 1 + k := by omega
      have e2 : o + off (t :: rest) (k + 1) = o + (1 + t.length) + off rest k := by
        rw [off_succ]; omega
      refine ⟨k + 1, tok, st :: l, n, by simpa using h1, by simpa using hw k l n h2, ?_⟩
      rw [e1, e2]; exact h3
    have here : ∀ n, v = n → RFail n t pos o e →
        ∃ k tok l n, (t :: rest)[k]? = some tok ∧ walk v ((t :: rest).take k) = .ok (l, n) ∧
          RFail n tok (pos + k) (o + off (t :: rest) k) e := by
      intro n hn hf
      subst hn
      exact ⟨0, t, [], v, by simp, by cases v <;> simp [walk], by simpa [off_zero] using hf⟩
    cases v with
    | scalar s =>
      simp only [resolveT] at h
      cases h
      exact here _ rfl (Or.inl ⟨s, rfl, rfl⟩)
    | obj kvs =>
      simp only [resolveT] at h
      have hd : (Token.decoded t).bytes = dec t := toString_eq_dec t ht
      cases hl : lookup (Token.decoded t).bytes kvs with
      | none =>
        rw [hl] at h; cases h
        exact here _ rfl (Or.inr (Or.inl ⟨kvs, rfl, rfl⟩))
      | some c =>
        rw [hl] at h
        refine step c (.key (dec t)) _ h ?_
        intro k l n hw
        rw [hd] at hl
        simp [walk, hl, hw]
    | arr xs =>
      simp only [resolveT] at h
      cases hti : Token.toIndex t with
      | err src =>
        rw [hti] at h; cases h
        exact here _ rfl (Or.inr (Or.inr (Or.inl ⟨xs, src, rfl, hti, rfl⟩)))
      | panic m => rw [hti] at h; cases h
      | ok index =>
        rw [hti] at h
        simp only [] at h
        cases hf : index.forLen xs.length with
        | err s =>
          rw [hf] at h; cases h
          refine here _ rfl (Or.inr (Or.inr (Or.inr ?_)))
          rcases forLen_err hf with ⟨rfl, rfl⟩ | ⟨n, rfl, rfl, hle⟩
          · exact ⟨xs, xs.length, rfl, rfl, Or.inl ⟨toIndex_ok_next hti, rfl⟩⟩
          · exact ⟨xs, n, rfl, rfl, Or.inr ⟨toIndex_ok_num hti, hle⟩⟩
        | panic m => rw [hf] at h; cases h
        | ok idx =>
          rw [hf] at h
          simp only [] at h
          have := forLen_ok hf
          subst this
          have hp := toIndex_ok_num hti
          cases hx : xs[idx]? with
          | none => rw [hx] at h; cases h
          | some c =>
            rw [hx] at h
            refine step c (.idx idx) _ h ?_
            intro k l n hw
            simp [walk, hp, hx, hw]

/-- the error `e` is what one step of `assign` on node `n` with token `tok` reports -/
def AFail (n : Val) (tok : Bytes) (pos o : Nat) (e : AssignErr) : Prop :=
  (∃ xs src, n = .arr xs ∧ Index.fromStr tok = .err src ∧ e = .failedToParseIndex pos o src) ∨
  (∃ xs idx, n = .arr xs ∧ e = .outOfBounds pos o ⟨xs.length, idx⟩ ∧ pidx tok = .num idx ∧
    xs.length < idx)

theorem forLenIncl_err {i : Index} {len : Nat} {s : OobErr} (h : i.forLenIncl len = .err s) :
    ∃ n, i = .num n ∧ s = ⟨len, n⟩ ∧ len < n := by
  cases i with
  | next => simp [Index.forLenIncl] at h
  | num n =>
    simp only [Index.forLenIncl] at h
    split at h
    · cases h
    · cases h; exact ⟨n, rfl, rfl, by omega⟩

theorem forLenIncl_ok {i : Index} {len idx : Nat} (h : i.forLenIncl len = .ok idx) :
    i = .num idx ∨ idx = len := by
  cases i with
  | next => simp [Index.forLenIncl] at h; exact Or.inr h.symm
  | num n =>
    simp only [Index.forLenIncl] at h
    split at h
    · cases h; exact Or.inl rfl
    · cases h

theorem assignT_err (ts : List Bytes) (hv : ∀ t ∈ ts, validTok t = true) (d x : Val) (o pos : Nat)
    (e : AssignErr) (h : (assignT ts d x o pos).2 = .err e) :
    ∃ k tok l n, ts[k]? = some tok ∧ walk d (ts.take k) = .ok (l, n) ∧
      AFail n tok (pos + k) (o + off ts k) e := by
  induction ts generalizing d o pos with
  | nil => simp [assignT] at h
  | cons t rest ih =>
    have ht := hv t (by simp)
    have ih' := ih (fun u hu => hv u (by simp [hu]))
    have step : ∀ (c : Val) (st : Step),
        (assignT rest c x (o + (1 + t.length)) (pos + 1)).2 = .err e →
        (∀ k l n, walk c (rest.take k) = .ok (l, n) → walk d (t :: rest.take k) = .ok (st :: l, n)) →
        ∃ k tok l n, (t :: rest)[k]? = some tok ∧ walk d ((t :: rest).take k) = .ok (l, n) ∧
          AFail n tok (pos + k) (o + off (t :: rest) k) e := by
      intro c st hr hw
      obtain ⟨k, tok, l, n, h1, h2, h3⟩ := ih' _ _ _ hr
      have e1 : pos + (k + 1) = pos + 1 + k := by omega
      have e2 : o + off (t :: rest) (k + 1) = o + (1 + t.length) + off rest k := by
        rw [off_succ]; omega
      refine ⟨k + 1, tok, st :: l, n, by simpa using h1, by simpa using hw k l n h2, ?_⟩
      rw [e1, e2]; exact h3
    have here : ∀ n, d = n → AFail n t pos o e →
        ∃ k tok l n, (t :: rest)[k]? = some tok ∧ walk d ((t :: rest).take k) = .ok (l, n) ∧
          AFail n tok (pos + k) (o + off (t :: rest) k) e := by
      intro n hn hf
      subst hn
      exact ⟨0, t, [], d, by simp, by cases d <;> simp [walk], by simpa [off_zero] using hf⟩
    cases d with
    | scalar s => simp [assignT] at h
    | obj kvs =>
      simp only [assignT] at h
      have hd : Token.toString t = dec t := toString_eq_dec t ht
      cases hl : lookup (Token.toString t) kvs with
      | none => rw [hl] at h; cases h
      | some c =>
        rw [hl] at h
        simp only [] at h
        split at h
        · cases h
        · refine step c (.key (dec t)) h ?_
          intro k l n hw
          rw [hd] at hl
          simp [walk, hl, hw]
    | arr xs =>
      simp only [assignT] at h
      cases hti : Token.toIndex t with
      | err src =>
        rw [hti] at h; cases h
        exact here _ rfl (Or.inl ⟨xs, src, rfl, hti, rfl⟩)
      | panic m => rw [hti] at h; cases h
      | ok index =>
        rw [hti] at h
        simp only [] at h
        cases hf : index.forLenIncl xs.length with
        | err s =>
          rw [hf] at h; cases h
          obtain ⟨n, rfl, rfl, hlt⟩ := forLenIncl_err hf
          exact here _ rfl (Or.inr ⟨xs, n, rfl, rfl, toIndex_ok_num hti, hlt⟩)
        | panic m => rw [hf] at h; cases h
        | ok idx =>
          rw [hf] at h
          simp only [] at h
          cases hx : xs[idx]? with
          | none => rw [hx] at h; cases h
          | some c =>
            rw [hx] at h
            simp only [] at h
            have hp : pidx t = .num idx := by
              rcases forLenIncl_ok hf with rfl | rfl
              · exact toIndex_ok_num hti
              · simp at hx
            split at h
            · cases h
            · refine step c (.idx idx) h ?_
              intro k l n hw
              simp [walk, hp, hx, hw]

theorem RFail_pos {n : Val} {tok : Bytes} {pos o : Nat} {e : ResolveErr} (h : RFail n tok pos o e) :
    e.position = pos ∧ e.offset = o := by
  rcases h with ⟨_, _, rfl⟩ | ⟨_, _, rfl⟩ | ⟨_, _, _, _, rfl⟩ | ⟨_, _, _, rfl, _⟩ <;>
    exact ⟨rfl, rfl⟩

theorem AFail_pos {n : Val} {tok : Bytes} {pos o : Nat} {e : AssignErr} (h : AFail n tok pos o e) :
    e.position = pos ∧ e.offset = o := by
  rcases h with ⟨_, _, _, _, rfl⟩ | ⟨_, _, _, rfl, _⟩ <;> exact ⟨rfl, rfl⟩

theorem resolveT_core (D : Val) (p : Bytes) (e : ResolveErr) (hp : validPtr p = true)
    (h : ∀ ts, p = ofToks ts → (∀ t ∈ ts, noSlash t) → resolveT ts D 0 0 [] = .err e) :
    ∃ k tok l n, (tokens p)[k]? = some tok ∧ walk D ((tokens p).take k) = .ok (l, n) ∧
      RFail n tok k (off (tokens p) k) e ∧ Locates p k (off (tokens p) k) (walkLabel p k (off (tokens p) k)) := by
  obtain ⟨ts, hpe, htk, hns, hv⟩ := valid_decomp hp
  obtain ⟨k, tok, l, n, h1, h2, h3⟩ := resolveT_err ts hv D 0 0 [] e (h ts hpe hns)
  rw [htk]
  simp only [Nat.zero_add] at h3
  exact ⟨k, tok, l, n, h1, h2, h3, locates_of p ts hpe htk k tok h1⟩

theorem resolve_core (D : Val) (p : Bytes) (e : ResolveErr) (hp : validPtr p = true)
    (h : resolve D p = .err e) :
    ∃ k tok l n, (tokens p)[k]? = some tok ∧ walk D ((tokens p).take k) = .ok (l, n) ∧
      RFail n tok k (off (tokens p) k) e ∧ Locates p k (off (tokens p) k) (walkLabel p k (off (tokens p) k)) := by
  refine resolveT_core D p e hp ?_
  intro ts hpe hns
  rw [← resolveLoop_ofToks ts hns, ← hpe]; exact h

theorem resolveMut_core (D : Val) (p : Bytes) (e : ResolveErr) (hp : validPtr p = true)
    (h : resolveMut D p = .err e) :
    ∃ k tok l n, (tokens p)[k]? = some tok ∧ walk D ((tokens p).take k) = .ok (l, n) ∧
      RFail n tok k (off (tokens p) k) e ∧ Locates p k (off (tokens p) k) (walkLabel p k (off (tokens p) k)) := by
  refine resolveT_core D p e hp ?_
  intro ts hpe hns
  rw [← resolveMutLoop_ofToks ts hns, ← hpe]; exact h

theorem assign_core (D v : Val) (p : Bytes) (e : AssignErr) (hp : validPtr p = true)
    (h : (assign D p v).2 = .err e) :
    ∃ k tok l n, (tokens p)[k]? = some tok ∧ walk D ((tokens p).take k) = .ok (l, n) ∧
      AFail n tok k (off (tokens p) k) e ∧ Locates p k (off (tokens p) k) (walkLabel p k (off (tokens p) k)) := by
  obtain ⟨ts, hpe, htk, hns, hv⟩ := valid_decomp hp
  have hdec : ∀ t ∈ ts, Token.toString t = dec t := fun t ht => toString_eq_dec t (hv t ht)
  have h' : (assignT ts D v 0 0).2 = .err e := by
    rw [← assignValue_ofToks ts hns hdec, ← hpe]; exact h
  obtain ⟨k, tok, l, n, h1, h2, h3⟩ := assignT_err ts hv D v 0 0 e h'
  rw [htk]
  simp only [Nat.zero_add] at h3
  exact ⟨k, tok, l, n, h1, h2, h3, locates_of p ts hpe htk k tok h1⟩

end Jp.C15
