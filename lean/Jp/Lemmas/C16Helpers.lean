import Jp.Lemmas.Text
import Jp.Lemmas.Utf8
/-
  Helper lemmas for Jp/Props/C16.lean (same namespace `Jp.C16`).
  Everything here is auxiliary: the property theorems themselves (the `-- OBLIGATIONS` list) are
  stated and proved in Jp/Props/C16.lean, which imports this module. Definitions that both a helper
  and a property statement need live here and are referred to by a comment in the Props file.
-/
namespace Jp.C16
open Jp Jp.Spec

/-! ### helper lemmas -/

theorem position_none_iff (p : Nat → Bool) (s : Bytes) :
    position p s = none ↔ ∀ b ∈ s, p b = false := by
  induction s with
  | nil => simp [position]
  | cons b r ih =>
    simp only [position]
    by_cases hb : p b = true
    · simp [hb]
    · simp [hb, ih]

theorem position_some (p : Nat → Bool) (s : Bytes) (o : Nat) (h : position p s = some o) :
    (∃ b, s[o]? = some b ∧ p b = true) ∧ (∀ j, j < o → ∃ b, s[j]? = some b ∧ p b = false) := by
  induction s generalizing o with
  | nil => simp [position] at h
  | cons b r ih =>
    simp only [position] at h
    by_cases hb : p b = true
    · simp [hb] at h; subst h; simp [hb]
    · simp [hb] at h
      obtain ⟨o', ho', rfl⟩ := h
      obtain ⟨h1, h2⟩ := ih o' ho'
      refine ⟨by simpa using h1, ?_⟩
      intro j hj
      cases j with
      | zero => simp; simpa using hb
      | succ j => simpa using h2 j (by omega)

theorem head_len (s : Bytes) : (s.head? = some 48 ∧ s ≠ [48]) ↔ (s.length > 1 ∧ s.head? = some 48) := by
  cases s with
  | nil => simp
  | cons a r =>
    cases r with
    | nil => simp
    | cons c r' => simp

theorem head?_append_of_ne_nil (l m : Bytes) (h : l ≠ []) : (l ++ m).head? = l.head? := by
  cases l with
  | nil => contradiction
  | cons a r => simp

theorem parseNat_snoc (s : Bytes) (d : Nat) : parseNat (s ++ [d]) = parseNat s * 10 + (d - 48) := by
  simp [parseNat, List.foldl_append]

theorem decimal_ne_nil (n : Nat) : decimal n ≠ [] := by
  rw [decimal]; split <;> simp

theorem decimal_all_digit (n : Nat) : ∀ b ∈ decimal n, isDigit b = true := by
  induction n using Nat.strongRecOn with
  | ind n ih =>
    rw [decimal]
    split
    · intro b hb; simp at hb; subst hb; simp [isDigit]; omega
    · intro b hb
      simp only [List.mem_append, List.mem_singleton] at hb
      rcases hb with hb | rfl
      · exact ih (n / 10) (by omega) b hb
      · simp [isDigit]; omega

theorem decimal_head (n : Nat) (hn : 1 ≤ n) : (decimal n).head? ≠ some 48 := by
  induction n using Nat.strongRecOn with
  | ind n ih =>
    rw [decimal]
    split
    · simp; omega
    · rw [head?_append_of_ne_nil _ _ (decimal_ne_nil _)]
      exact ih (n / 10) (by omega) (by omega)

theorem decimal_zero : decimal 0 = [48] := by rw [decimal]; simp

theorem decimal_parseNat_aux (k : Nat) : ∀ s : Bytes, s.length = k → s ≠ [] →
    (∀ b ∈ s, isDigit b = true) → s.head? ≠ some 48 → decimal (parseNat s) = s := by
  induction k with
  | zero => intro s hl hne; cases s <;> simp_all
  | succ k ih =>
    intro s hl hne hd hz
    rcases List.eq_nil_or_concat s with rfl | ⟨s', d, rfl⟩
    · contradiction
    · rw [List.concat_eq_append] at *
      have hdd : isDigit d = true := hd d (by simp)
      simp only [isDigit, Bool.and_eq_true, decide_eq_true_eq] at hdd
      by_cases hs' : s' = []
      · subst hs'
        simp only [List.nil_append]
        rw [decimal]
        have e1 : d - 48 < 10 := by omega
        have e2 : 48 + (d - 48) = d := by omega
        simp [parseNat, e1, e2]
      · have hl' : s'.length = k := by simp at hl; omega
        have hz' : s'.head? ≠ some 48 := by
          rw [head?_append_of_ne_nil _ _ hs'] at hz; exact hz
        have ih' := ih s' hl' hs' (fun b hb => hd b (by simp [hb])) hz'
        have hpos : 1 ≤ parseNat s' := by
          rcases Nat.eq_zero_or_pos (parseNat s') with h0 | h0
          · rw [h0, decimal_zero] at ih'
            rw [← ih'] at hz'; simp at hz'
          · exact h0
        rw [parseNat_snoc, decimal]
        have e1 : (parseNat s' * 10 + (d - 48)) / 10 = parseNat s' := by omega
        have e2 : 48 + (parseNat s' * 10 + (d - 48)) % 10 = d := by omega
        have e3 : ¬ (parseNat s' * 10 + (d - 48) < 10) := by omega
        simp only [e3, dite_false, e1, e2, ih']

theorem decimal_parseNat (s : Bytes) (hne : s ≠ []) (hd : ∀ b ∈ s, isDigit b = true)
    (hz : s.head? ≠ some 48) : decimal (parseNat s) = s :=
  decimal_parseNat_aux s.length s rfl hne hd hz

theorem all_digit_of_position (s : Bytes) (h : position (fun b => !isDigit b) s = none) :
    ∀ b ∈ s, isDigit b = true := by
  intro b hb
  have := (position_none_iff _ s).mp h b hb
  simpa using this

theorem position_of_all_digit (s : Bytes) (h : ∀ b ∈ s, isDigit b = true) :
    position (fun b => !isDigit b) s = none := by
  apply (position_none_iff _ s).mpr
  intro b hb; simp [h b hb]

/-- the shape of a successful numeric parse -/
theorem spec_ok_num (s : Bytes) (n : Nat) (h : indexSpec s = .ok (.num n)) :
    s ≠ [] ∧ (∀ b ∈ s, isDigit b = true) ∧ (s = [48] ∨ s.head? ≠ some 48) ∧
      parseNat s ≤ usizeMax ∧ n = parseNat s := by
  unfold indexSpec at h
  split at h
  · simp at h
  · split at h
    · simp at h
    · rename_i h1 h2
      split at h
      · simp at h
      · rename_i hp
        split at h
        · simp at h
        · split at h
          · simp at h
          · rename_i h3 h4
            simp at h
            refine ⟨h3, all_digit_of_position s hp, ?_, by omega, h.symm⟩
            cases s with
            | nil => contradiction
            | cons a r =>
              cases r with
              | nil => by_cases ha : a = 48 <;> simp [ha]
              | cons c r' => simp at h2 ⊢; exact h2

theorem spec_ok_next (s : Bytes) (h : indexSpec s = .ok .next) : s = [45] := by
  unfold indexSpec at h
  split at h
  · assumption
  · split at h
    · simp at h
    · split at h
      · simp at h
      · split at h
        · simp at h
        · split at h <;> simp at h

theorem spec_of_valid (s : Bytes) (hne : s ≠ []) (hd : ∀ b ∈ s, isDigit b = true)
    (hz : s = [48] ∨ s.head? ≠ some 48) (hm : parseNat s ≤ usizeMax) :
    indexSpec s = .ok (.num (parseNat s)) := by
  unfold indexSpec
  have h1 : s ≠ [45] := by
    intro e; subst e; have := hd 45 (by simp); simp [isDigit] at this
  have h2 : ¬ (s.length > 1 ∧ s.head? = some 48) := by
    rcases hz with rfl | hz
    · simp
    · simp [hz]
  have h4 : ¬ parseNat s > usizeMax := by omega
  simp [h1, h2, position_of_all_digit s hd, hne, h4]

end Jp.C16
