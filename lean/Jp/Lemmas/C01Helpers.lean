import Jp.Props.C02
import Jp.Props.C04
import Jp.Props.C11
import Jp.Props.C12
import Jp.Props.C13
/-
  Helper lemmas for Jp/Props/C01.lean (same namespace `Jp.C01`).
  Everything here is auxiliary: the property theorems themselves (the `-- OBLIGATIONS` list) are
  stated and proved in Jp/Props/C01.lean, which imports this module. Definitions that both a helper
  and a property statement need live here and are referred to by a comment in the Props file.
-/
namespace Jp.C01
open Jp Jp.Spec

/-- the bytes of a span of `p` -/
def slice (p : Bytes) (sp : Span) : Bytes := (p.drop sp.1).take (sp.2 - sp.1)

/-- the tokens a mutator call hands back -/
def retTokens : BufRet → List Bytes
  | .unit => []
  | .popped (some t) => [t]
  | .popped none => []
  | .replaced (.ok (some t)) => [t]
  | .replaced _ => []

/-! ### helpers -/

theorem span_valid (p : Bytes) (r : Option (Nat × Nat)) (sp : Span) (h : validPtr p = true)
    (hr : ∀ a b, r = some (a, b) → a ≤ b ∧ b ≤ count p)
    (hg : C12.spanOf p r = .ok (some sp)) : validPtr (slice p sp) = true := by
  unfold C12.spanOf at hg
  cases r with
  | none => simp at hg
  | some ab =>
    obtain ⟨a, b⟩ := ab
    obtain ⟨hab, hb⟩ := hr a b rfl
    simp only [Option.map_some, Res.ok.injEq, Option.some.injEq] at hg
    subst hg
    unfold slice
    simp only []
    rw [C12.span_is_sublist p a b h hab hb]
    apply validPtr_ofToks
    intro t ht
    exact tokens_valid h t (List.mem_of_mem_drop (List.mem_of_mem_take ht))

theorem rangeSpec_bd (n a b x y : Nat) (h : rangeSpec n a b = some (x, y)) : x ≤ y ∧ y ≤ n := by
  unfold rangeSpec at h; split at h <;> simp at h; omega

theorem rangeFromSpec_bd (n a x y : Nat) (h : rangeFromSpec n a = some (x, y)) : x ≤ y ∧ y ≤ n := by
  unfold rangeFromSpec at h; split at h <;> simp at h; omega

theorem rangeToSpec_bd (n b x y : Nat) (h : rangeToSpec n b = some (x, y)) : x ≤ y ∧ y ≤ n := by
  unfold rangeToSpec at h; split at h <;> simp at h; omega

theorem rangeInclSpec_bd (n a b x y : Nat) (h : rangeInclSpec n a b = some (x, y)) : x ≤ y ∧ y ≤ n := by
  unfold rangeInclSpec at h; split at h <;> simp at h; omega

theorem rangeToInclSpec_bd (n b x y : Nat) (h : rangeToInclSpec n b = some (x, y)) : x ≤ y ∧ y ≤ n := by
  unfold rangeToInclSpec at h; split at h <;> simp at h; omega

theorem rangeFullSpec_bd (n x y : Nat) (h : rangeFullSpec n = some (x, y)) : x ≤ y ∧ y ≤ n := by
  unfold rangeFullSpec at h; simp at h; omega

theorem boundsSpec_bd (n : Nat) (lo hi : Bound) (x y : Nat) (h : boundsSpec n lo hi = some (x, y)) :
    x ≤ y ∧ y ≤ n := by
  cases lo with
  | included s =>
    cases hi with
    | included e => exact rangeInclSpec_bd _ _ _ _ _ h
    | excluded e => exact rangeSpec_bd _ _ _ _ _ h
    | unbounded => exact rangeFromSpec_bd _ _ _ _ h
  | excluded s =>
    cases hi with
    | included e =>
      simp only [boundsSpec] at h; split at h
      · exact rangeInclSpec_bd _ _ _ _ _ h
      · simp at h
    | excluded e =>
      simp only [boundsSpec] at h; split at h
      · exact rangeSpec_bd _ _ _ _ _ h
      · simp at h
    | unbounded =>
      simp only [boundsSpec] at h; split at h
      · exact rangeFromSpec_bd _ _ _ _ h
      · simp at h
  | unbounded =>
    cases hi with
    | included e => exact rangeToInclSpec_bd _ _ _ _ h
    | excluded e => exact rangeToSpec_bd _ _ _ _ h
    | unbounded => exact rangeFullSpec_bd _ _ _ h

theorem retTokens_deque_valid (ts : List Bytes) (op : BufOp) (hv : ∀ t ∈ ts, validTok t = true) :
    ∀ t ∈ retTokens (dequeStep ts op).2, validTok t = true := by
  intro t ht
  cases op with
  | pushFront u => simp [dequeStep, retTokens] at ht
  | pushBack u => simp [dequeStep, retTokens] at ht
  | popFront =>
    simp only [dequeStep] at ht
    cases hh : ts.head? with
    | none => simp [hh, retTokens] at ht
    | some u =>
      simp only [hh, retTokens, List.mem_singleton] at ht
      subst ht
      exact hv _ (List.mem_of_mem_head? (by simp [hh]))
  | popBack =>
    simp only [dequeStep] at ht
    cases hh : ts.getLast? with
    | none => simp [hh, retTokens] at ht
    | some u =>
      simp only [hh, retTokens, List.mem_singleton] at ht
      subst ht
      exact hv _ (List.mem_of_getLast? hh)
  | append o => simp [dequeStep, retTokens] at ht
  | replace i u =>
    simp only [dequeStep] at ht
    split at ht
    · cases hh : ts[i]? with
      | none => simp [hh, retTokens] at ht
      | some w =>
        simp only [hh, retTokens, List.mem_singleton] at ht
        subst ht
        exact hv _ (List.mem_of_getElem? hh)
    · simp [retTokens] at ht
  | clear => simp [dequeStep, retTokens] at ht

end Jp.C01
