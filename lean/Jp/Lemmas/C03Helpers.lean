import Jp.Lemmas.Text
/-
  Helper lemmas for Jp/Props/C03.lean (same namespace `Jp.C03`).
  Everything here is auxiliary: the property theorems themselves (the `-- OBLIGATIONS` list) are
  stated and proved in Jp/Props/C03.lean, which imports this module. Definitions that both a helper
  and a property statement need live here and are referred to by a comment in the Props file.
-/
namespace Jp.C03
open Jp Jp.Spec

/-- a `~` at index `i` that is not followed by `0` or `1` -/
def badTildeAt (e : Bytes) (i : Nat) : Prop :=
  e[i]? = some 126 ∧ e[i + 1]? ≠ some 48 ∧ e[i + 1]? ≠ some 49

/-! ### helpers -/

theorem position_none_iff (p : Nat → Bool) (s : Bytes) :
    position p s = none ↔ ∀ b ∈ s, p b = false := by
  induction s with
  | nil => simp [position]
  | cons b r ih =>
    by_cases hb : p b = true
    · simp [position, hb]
    · simp [position, hb, ih]

theorem position_isSome_iff (p : Nat → Bool) (s : Bytes) :
    (∃ i, position p s = some i) ↔ ∃ b ∈ s, p b = true := by
  constructor
  · intro ⟨i, hi⟩
    by_cases h : ∃ b ∈ s, p b = true
    · exact h
    · have : position p s = none := (position_none_iff p s).mpr (by
        intro b hb
        cases hp : p b with
        | false => rfl
        | true => exact absurd ⟨b, hb, hp⟩ h)
      simp [this] at hi
  · intro ⟨b, hb, hp⟩
    cases h : position p s with
    | some i => exact ⟨i, rfl⟩
    | none =>
      have := (position_none_iff p s).mp h b hb
      simp [this] at hp

theorem encodeFrom_eq_enc (s : Bytes) : encodeFrom s = enc s := by
  induction s with
  | nil => simp [encodeFrom, enc]
  | cons b r ih =>
    by_cases h1 : b = 47
    · subst h1; simp [encodeFrom, enc, ih]
    · by_cases h2 : b = 126
      · subst h2; simp [encodeFrom, enc, ih]
      · simp [encodeFrom, enc, ih, h1, h2]

theorem enc_of_position_none (s : Bytes)
    (h : position (fun b => b == 47 || b == 126) s = none) : enc s = s := by
  induction s with
  | nil => simp [enc]
  | cons b r ih =>
    simp only [position] at h
    split at h
    · simp at h
    · rename_i hb
      simp at h hb
      simp [enc, hb, ih h]

theorem take_enc_of_position_some (s : Bytes) (i : Nat)
    (h : position (fun b => b == 47 || b == 126) s = some i) :
    s.take i ++ enc (s.drop i) = enc s := by
  induction s generalizing i with
  | nil => simp [position] at h
  | cons b r ih =>
    simp only [position] at h
    split at h
    · simp at h; subst h; simp
    · rename_i hb
      simp at hb
      simp only [Option.map_eq_some_iff] at h
      obtain ⟨j, hj, rfl⟩ := h
      simp [enc, hb, ih j hj]

theorem dec_cons_ne (b : Nat) (l : Bytes) (h : b ≠ 126) : dec (b :: l) = b :: dec l := by
  cases l with
  | nil => simp [dec]
  | cons c r => simp [dec, h]

theorem enc_noSlash (s : Bytes) : 47 ∉ enc s := by
  induction s with
  | nil => simp [enc]
  | cons b r ih =>
    by_cases h2 : b = 126
    · subst h2; simp [enc, ih]
    · by_cases h1 : b = 47
      · subst h1; simp [enc, ih]
      · simp [enc, h1, h2, ih]; omega

theorem tildesOk_cons_ne (b : Nat) (r : Bytes) (hb : b ≠ 126) : tildesOk (b :: r) = tildesOk r := by
  cases r <;> simp [tildesOk, hb]

theorem tildesOk_tilde_cons (c : Nat) (r : Bytes) :
    tildesOk (126 :: c :: r) = ((c == 48 || c == 49) && tildesOk r) := by
  rw [tildesOk]; simp

theorem enc_tildesOk (s : Bytes) : tildesOk (enc s) = true := by
  induction s with
  | nil => simp [enc, tildesOk]
  | cons b r ih =>
    by_cases h2 : b = 126
    · subst h2; simp [enc, tildesOk, ih]
    · by_cases h1 : b = 47
      · subst h1; simp [enc, tildesOk, ih]
      · simp [enc, tildesOk_cons_ne, h1, h2, ih]

theorem validTok_iff (t : Bytes) : validTok t = true ↔ 47 ∉ t ∧ tildesOk t = true := by
  simp [validTok]

theorem enc_dec_aux (e : Bytes) (h1 : 47 ∉ e) (h2 : tildesOk e = true) : enc (dec e) = e := by
  fun_induction tildesOk e with
  | case1 => simp [dec, enc]
  | case2 c r' ih =>
    simp at h2 h1
    obtain ⟨hc, hr⟩ := h2
    rcases hc with rfl | rfl
    · simp [dec, enc, ih h1.2 hr]
    · simp [dec, enc, ih h1.2 hr]
  | case3 => simp at h2
  | case4 b r hb ih =>
    simp at h1
    rw [dec_cons_ne b r hb]
    have : b ≠ 47 := fun h => h1.1 h.symm
    simp [enc, hb, this, ih h1.2 h2]

theorem decodeLoop_dec (r : Bytes) :
    (tildesOk r = true → decodeLoop r false = dec r) ∧
    (tildesOk (126 :: r) = true → decodeLoop r true = dec (126 :: r)) := by
  induction r with
  | nil => simp [tildesOk, decodeLoop, dec]
  | cons c r ih =>
    constructor
    · intro h
      by_cases hc : c = 126
      · subst hc
        simp only [decodeLoop, if_true]
        exact ih.2 h
      · have h' : tildesOk r = true := by rw [tildesOk_cons_ne c r hc] at h; exact h
        rw [dec_cons_ne c r hc]
        simp [decodeLoop, hc, ih.1 h']
    · intro h
      simp [tildesOk] at h
      obtain ⟨hc, hr⟩ := h
      rcases hc with rfl | rfl
      · simp [decodeLoop, dec, ih.1 hr]
      · simp [decodeLoop, dec, ih.1 hr]

theorem dec_of_position_none (e : Bytes) (h : position (fun b => b == 126) e = none) :
    dec e = e := by
  induction e with
  | nil => simp [dec]
  | cons b r ih =>
    simp only [position] at h
    split at h
    · simp at h
    · rename_i hb
      simp at h hb
      rw [dec_cons_ne b r hb, ih h]

theorem decoded_aux (e : Bytes) (i : Nat) (h : position (fun b => b == 126) e = some i)
    (ht : tildesOk e = true) :
    e.take i ++ decodeLoop (e.drop (i + 1)) true = dec e := by
  induction e generalizing i with
  | nil => simp [position] at h
  | cons b r ih =>
    simp only [position] at h
    split at h
    · rename_i hb
      simp at h hb; subst h; subst hb
      simpa using (decodeLoop_dec r).2 ht
    · rename_i hb
      simp at hb
      simp only [Option.map_eq_some_iff] at h
      obtain ⟨j, hj, rfl⟩ := h
      have ht' : tildesOk r = true := by rw [tildesOk_cons_ne b r hb] at ht; exact ht
      rw [dec_cons_ne b r hb]
      simp [ih j hj ht']

theorem loop_no_panic (r : Bytes) (o : Nat) (esc : Bool) (m : String) :
    fromEncodedLoop r o esc ≠ .panic m := by
  induction r generalizing o esc with
  | nil => simp [fromEncodedLoop]
  | cons b r ih =>
    unfold fromEncodedLoop
    split
    · simp
    · split
      · split
        · simp
        · exact ih _ _
      · split
        · exact ih _ _
        · split
          · simp
          · exact ih _ _

theorem loop_tilde_ok (c : Nat) (r : Bytes) (o : Nat) (hc : c = 48 ∨ c = 49) :
    fromEncodedLoop (126 :: c :: r) o false = fromEncodedLoop r (o + 2) false := by
  rcases hc with rfl | rfl <;> simp [fromEncodedLoop]

theorem loop_tilde_bad (c : Nat) (r : Bytes) (o : Nat) (h1 : c ≠ 48) (h2 : c ≠ 49) :
    fromEncodedLoop (126 :: c :: r) o false =
      .err ⟨o + 1, if c = 47 then .slash else .tilde⟩ := by
  by_cases h47 : c = 47
  · subst h47; simp [fromEncodedLoop]
  · by_cases h126 : c = 126
    · subst h126; simp [fromEncodedLoop]
    · simp [fromEncodedLoop, h47, h126, h1, h2]

theorem loop_other (b : Nat) (r : Bytes) (o : Nat) (h1 : b ≠ 47) (h2 : b ≠ 126) :
    fromEncodedLoop (b :: r) o false = fromEncodedLoop r (o + 1) false := by
  simp [fromEncodedLoop, h1, h2]

theorem firstBad_none_iff (r : Bytes) : firstBad r = none ↔ validTok r = true := by
  rw [validTok_iff]
  fun_induction firstBad r with
  | case1 => simp [tildesOk]
  | case2 r => simp
  | case3 c r' hc _ ih =>
    rw [tildesOk_tilde_cons]
    rcases hc with rfl | rfl <;> simp [ih]
  | case4 c r' hc _ =>
    rw [tildesOk_tilde_cons]
    simp at hc
    simp [hc]
  | case5 => simp [tildesOk]
  | case6 b r h1 h2 ih =>
    rw [tildesOk_cons_ne b r h2]
    have : ¬ 47 = b := fun h => h1 h.symm
    simp [ih, this]

theorem badTildeAt_cons (b : Nat) (r : Bytes) (j : Nat) (h : badTildeAt r j) :
    badTildeAt (b :: r) (j + 1) := by
  simpa [badTildeAt] using h

/-- what `fromEncodedLoop` reports, relative to the remaining suffix -/
theorem loop_spec (r : Bytes) (o : Nat) :
    (fromEncodedLoop r o false = .ok false → firstBad r = none) ∧
    (fromEncodedLoop r o false = .ok true →
      ∃ f, firstBad r = some f ∧ f + 1 = r.length ∧ r[f]? = some 126) ∧
    (∀ k kind, fromEncodedLoop r o false = .err ⟨k, kind⟩ →
      ∃ j f, k = o + j ∧ firstBad r = some f ∧ (f = j ∨ f + 1 = j) ∧
        (kind = .slash → r[j]? = some 47) ∧
        (kind = .tilde → badTildeAt r j ∨ (1 ≤ j ∧ badTildeAt r (j - 1)))) := by
  fun_induction firstBad r generalizing o with
  | case1 => simp [fromEncodedLoop]
  | case2 r =>
    simp only [fromEncodedLoop, if_true]
    refine ⟨by simp, by simp, ?_⟩
    intro k kind h
    simp at h
    obtain ⟨rfl, rfl⟩ := h
    exact ⟨0, 0, by simp⟩
  | case3 c r' hc _ ih =>
    rw [loop_tilde_ok c r' o hc]
    obtain ⟨ih1, ih2, ih3⟩ := ih (o + 2)
    refine ⟨fun h => by simp [ih1 h], fun h => ?_, fun k kind h => ?_⟩
    · obtain ⟨f, hf, hl, hg⟩ := ih2 h
      exact ⟨f + 2, by simp [hf], by simp; omega, by simpa using hg⟩
    · obtain ⟨j, f, hk, hf, hfj, hs, ht⟩ := ih3 k kind h
      refine ⟨j + 2, f + 2, by omega, by simp [hf], by omega, ?_, ?_⟩
      · intro hk; simpa using hs hk
      · intro hk
        rcases ht hk with ht | ⟨hj, ht⟩
        · left; exact badTildeAt_cons _ _ _ (badTildeAt_cons _ _ _ ht)
        · right
          refine ⟨by omega, ?_⟩
          have : j + 2 - 1 = (j - 1) + 1 + 1 := by omega
          rw [this]
          exact badTildeAt_cons _ _ _ (badTildeAt_cons _ _ _ ht)
  | case4 c r' hc _ =>
    simp at hc
    rw [loop_tilde_bad c r' o hc.1 hc.2]
    refine ⟨by simp, by simp, ?_⟩
    intro k kind h
    simp at h
    obtain ⟨rfl, rfl⟩ := h
    refine ⟨1, 0, rfl, rfl, by simp, ?_, ?_⟩
    · intro hk
      by_cases h47 : c = 47
      · simp [h47]
      · simp [h47] at hk
    · intro _
      right
      simp [badTildeAt, hc]
  | case5 =>
    simp only [fromEncodedLoop]
    simp
  | case6 b r h1 h2 ih =>
    rw [loop_other b r o h1 h2]
    obtain ⟨ih1, ih2, ih3⟩ := ih (o + 1)
    refine ⟨fun h => by simp [ih1 h], fun h => ?_, fun k kind h => ?_⟩
    · obtain ⟨f, hf, hl, hg⟩ := ih2 h
      exact ⟨f + 1, by simp [hf], by simp; omega, by simpa using hg⟩
    · obtain ⟨j, f, hk, hf, hfj, hs, ht⟩ := ih3 k kind h
      refine ⟨j + 1, f + 1, by omega, by simp [hf], by omega, ?_, ?_⟩
      · intro hk; simpa using hs hk
      · intro hk
        rcases ht hk with ht | ⟨hj, ht⟩
        · left; exact badTildeAt_cons _ _ _ ht
        · right
          refine ⟨by omega, ?_⟩
          have : j + 1 - 1 = (j - 1) + 1 := by omega
          rw [this]
          exact badTildeAt_cons _ _ _ ht

end Jp.C03
