import Jp.Lemmas.Valid
/-
  Jp.Lemmas.C12 — helper lemmas for C12: closed forms of the five range loops of
  `src/pointer/slice.rs`, offsets of sub-lists, and splitting a text at an arbitrary separator.
-/
namespace Jp.C12
open Jp Jp.Spec

/-! ### closed forms of the range loops (accumulators generalised) -/

theorem rangeFromLoop_eq (start : Nat) (ts : List Bytes) (idx offset : Nat) (h : idx ≤ start) :
    rangeFromLoop start ts idx offset =
      if start - idx < ts.length then some (offset + off ts (start - idx)) else none := by
  induction ts generalizing idx offset with
  | nil => simp [rangeFromLoop]
  | cons t ts ih =>
    unfold rangeFromLoop
    by_cases he : idx = start
    · subst he; simp [off_zero]
    · rw [if_neg he, ih (idx + 1) _ (by omega)]
      have e : start - idx = (start - (idx + 1)) + 1 := by omega
      rw [e, off_succ]
      simp only [List.length_cons, Nat.add_lt_add_iff_right]
      split <;> simp <;> omega

theorem rangeToInclLoop_eq (stop : Nat) (ts : List Bytes) (idx offset : Nat) (h : idx ≤ stop) :
    rangeToInclLoop stop ts idx offset =
      if stop - idx < ts.length then some (offset + off ts (stop - idx + 1)) else none := by
  induction ts generalizing idx offset with
  | nil => simp [rangeToInclLoop]
  | cons t ts ih =>
    unfold rangeToInclLoop
    by_cases he : idx = stop
    · subst he; simp [off_succ, off_zero]; omega
    · simp only [if_neg he]
      rw [ih (idx + 1) _ (by omega)]
      have e : stop - idx = (stop - (idx + 1)) + 1 := by omega
      rw [e, off_succ]
      simp only [List.length_cons, Nat.add_lt_add_iff_right]
      split <;> simp <;> omega

theorem rangeToLoop_eq (stop : Nat) (ts : List Bytes) (idx offset : Nat) (h : idx ≤ stop) :
    rangeToLoop stop ts idx offset =
      if stop - idx < ts.length then
        (stop, offset + off ts (stop - idx), some (offset + off ts (stop - idx)))
      else (idx + ts.length, offset + off ts ts.length, none) := by
  induction ts generalizing idx offset with
  | nil => simp [rangeToLoop, off]
  | cons t ts ih =>
    unfold rangeToLoop
    by_cases he : idx = stop
    · subst he; simp [off_zero]
    · rw [if_neg he, ih (idx + 1) _ (by omega)]
      have e : stop - idx = (stop - (idx + 1)) + 1 := by omega
      rw [e, List.length_cons, off_succ, off_succ]
      simp only [Nat.add_lt_add_iff_right]
      split <;> simp <;> omega

theorem rangeInclLoop_snd (start stop : Nat) (ts : List Bytes) (idx offset : Nat) (so : Option Nat)
    (h : idx ≤ stop) :
    (rangeInclLoop start stop ts idx offset so).2 =
      if stop - idx < ts.length then some (offset + off ts (stop - idx + 1)) else none := by
  induction ts generalizing idx offset so with
  | nil => simp [rangeInclLoop]
  | cons t ts ih =>
    unfold rangeInclLoop
    by_cases he : idx = stop
    · subst he; simp [off_succ, off_zero]; omega
    · simp only [if_neg he]
      rw [ih (idx + 1) _ _ (by omega)]
      have e : stop - idx = (stop - (idx + 1)) + 1 := by omega
      rw [e, off_succ]
      simp only [List.length_cons, Nat.add_lt_add_iff_right]
      split <;> simp <;> omega

theorem rangeInclLoop_fst (start stop : Nat) (ts : List Bytes) (idx offset : Nat) (so : Option Nat)
    (h : idx ≤ stop) (hss : start ≤ stop) :
    (rangeInclLoop start stop ts idx offset so).1 =
      if idx ≤ start ∧ start - idx < ts.length then some (offset + off ts (start - idx)) else so := by
  induction ts generalizing idx offset so with
  | nil => simp [rangeInclLoop]
  | cons t ts ih =>
    unfold rangeInclLoop
    by_cases he : idx = stop
    · subst he
      by_cases hs : idx = start
      · subst hs; simp [off_zero]
      · have : ¬ idx ≤ start := by omega
        simp [hs, this]
    · simp only [if_neg he]
      rw [ih (idx + 1) _ _ (by omega)]
      by_cases hs : idx = start
      · subst hs
        have h1 : ¬ idx + 1 ≤ idx := by omega
        simp [off_zero, h1]
      · simp only [if_neg hs]
        by_cases hlt : idx ≤ start
        · have e : start - idx = (start - (idx + 1)) + 1 := by omega
          rw [e, off_succ]
          simp only [List.length_cons, Nat.add_lt_add_iff_right]
          have h1 : idx + 1 ≤ start := by omega
          simp only [h1, hlt, true_and]
          split <;> simp <;> omega
        · have h1 : ¬ idx + 1 ≤ start := by omega
          simp [h1, hlt]

theorem rangeLoop_so (start stop : Nat) (ts : List Bytes) (idx offset : Nat) (so : Option Nat)
    (h : idx ≤ stop) (hss : start ≤ stop) :
    (rangeLoop start stop ts idx offset so).2.2.1 =
      if idx ≤ start ∧ start - idx < ts.length then some (offset + off ts (start - idx)) else so := by
  induction ts generalizing idx offset so with
  | nil => simp [rangeLoop]
  | cons t ts ih =>
    unfold rangeLoop
    by_cases he : idx = stop
    · subst he
      by_cases hs : idx = start
      · subst hs; simp [off_zero]
      · have : ¬ idx ≤ start := by omega
        simp [hs, this]
    · simp only [if_neg he]
      rw [ih (idx + 1) _ _ (by omega)]
      by_cases hs : idx = start
      · subst hs
        have h1 : ¬ idx + 1 ≤ idx := by omega
        simp [off_zero, h1]
      · simp only [if_neg hs]
        by_cases hlt : idx ≤ start
        · have e : start - idx = (start - (idx + 1)) + 1 := by omega
          rw [e, off_succ]
          simp only [List.length_cons, Nat.add_lt_add_iff_right]
          have h1 : idx + 1 ≤ start := by omega
          simp only [h1, hlt, true_and]
          split <;> simp <;> omega
        · have h1 : ¬ idx + 1 ≤ start := by omega
          simp [h1, hlt]

theorem rangeLoop_rest (start stop : Nat) (ts : List Bytes) (idx offset : Nat) (so : Option Nat)
    (h : idx ≤ stop) :
    ((rangeLoop start stop ts idx offset so).1, (rangeLoop start stop ts idx offset so).2.1,
      (rangeLoop start stop ts idx offset so).2.2.2) =
      if stop - idx < ts.length then
        (stop, offset + off ts (stop - idx), some (offset + off ts (stop - idx)))
      else (idx + ts.length, offset + off ts ts.length, none) := by
  induction ts generalizing idx offset so with
  | nil => simp [rangeLoop, off]
  | cons t ts ih =>
    unfold rangeLoop
    by_cases he : idx = stop
    · subst he; simp [off_zero]
    · simp only [if_neg he]
      rw [ih (idx + 1) _ _ (by omega)]
      have e : stop - idx = (stop - (idx + 1)) + 1 := by omega
      rw [e, List.length_cons, off_succ, off_succ]
      simp only [Nat.add_lt_add_iff_right]
      split <;> simp <;> omega

theorem sliceChecked_off (ts : List Bytes) (a b : Nat) (hab : a ≤ b) :
    sliceChecked (ofToks ts) (off ts a) (off ts b) = .ok (some (off ts a, off ts b)) := by
  unfold sliceChecked
  rw [if_pos ⟨off_mono ts hab, off_le ts b⟩]

/-! ### offsets of a dropped list, cutting a text at a separator, `rfind` vs `rsplitOnce` -/

theorem off_add_drop (ts : List Bytes) (a k : Nat) : off ts (a + k) = off ts a + off (ts.drop a) k := by
  induction ts generalizing a with
  | nil => simp [off]
  | cons t ts ih =>
    cases a with
    | zero => simp [off_zero]
    | succ a =>
      have e : a + 1 + k = (a + k) + 1 := by omega
      rw [e, off_succ, off_succ, ih a, List.drop_succ_cons]; omega

/-- tilde check across a separator, without any assumption on the left part -/
theorem tildesOk_append_slash' (a b : Bytes) :
    tildesOk (a ++ 47 :: b) = (tildesOk a && tildesOk b) := by
  induction a using tildesOk.induct with
  | case1 => simp [tildesOk_nil, tildesOk_cons_ne]
  | case2 c r' ih => simp [tildesOk_tilde_cons, ih, Bool.and_assoc]
  | case3 => simp [tildesOk_tilde_nil, tildesOk_tilde_cons]
  | case4 b' r' hb ih => simp [tildesOk_cons_ne hb, ih]

theorem splitOn_append_slash' (a b : Bytes) :
    splitOn 47 (a ++ 47 :: b) = splitOn 47 a ++ splitOn 47 b := by
  induction a with
  | nil => simp [splitOn]
  | cons c r ih =>
    by_cases hc : c = 47
    · subst hc; simp [splitOn, ih]
    · have hne := splitOn_ne_nil 47 r
      cases hr : splitOn 47 r with
      | nil => exact absurd hr hne
      | cons x xs =>
        rw [hr] at ih
        simp [splitOn, hc, ih, hr]

theorem take_append_drop_of_getElem? (p : Bytes) (k : Nat) (c : Nat) (h : p[k]? = some c) :
    p.drop k = c :: p.drop (k + 1) := by
  obtain ⟨hk, he⟩ := List.getElem?_eq_some_iff.mp h
  rw [List.drop_eq_getElem_cons hk, he]

theorem rfind_none_rsplitOnce (c : Nat) (p : Bytes) (h : rfind c p = none) : rsplitOnce c p = none := by
  induction p with
  | nil => rfl
  | cons b r ih =>
    unfold rfind at h
    cases hr : rfind c r with
    | some i => simp [hr] at h
    | none =>
      simp only [hr] at h
      have hb : ¬ b = c := by intro hb; simp [hb] at h
      simp [rsplitOnce, ih hr, hb]

theorem rfind_some_rsplitOnce (c : Nat) (p : Bytes) (idx : Nat) (h : rfind c p = some idx) :
    rsplitOnce c p = some (p.take idx, p.drop (idx + 1)) := by
  induction p generalizing idx with
  | nil => simp [rfind] at h
  | cons b r ih =>
    unfold rfind at h
    cases hr : rfind c r with
    | some i =>
      simp only [hr, Option.some.injEq] at h
      subst h
      simp [rsplitOnce, ih i hr]
    | none =>
      simp only [hr] at h
      by_cases hb : b = c
      · simp only [hb, if_true, Option.some.injEq] at h
        subst h
        simp [rsplitOnce, rfind_none_rsplitOnce c r hr, hb]
      · simp [hb] at h

end Jp.C12
