import Jp.Lemmas.Valid
/-
  Helper lemmas for Jp/Props/C13.lean (same namespace `Jp.C13`).
  Everything here is auxiliary: the property theorems themselves (the `-- OBLIGATIONS` list) are
  stated and proved in Jp/Props/C13.lean, which imports this module. Definitions that both a helper
  and a property statement need live here and are referred to by a comment in the Props file.
-/
namespace Jp.C13
open Jp Jp.Spec

/-! ## helper lemmas -/

theorem stripPrefix_eq_some (s p r : Bytes) : stripPrefix s p = some r ↔ s = p ++ r := by
  induction p generalizing s with
  | nil => cases s <;> simp [stripPrefix, eq_comm]
  | cons c p ih =>
    cases s with
    | nil => simp [stripPrefix]
    | cons b s =>
      simp only [stripPrefix]
      split
      · rename_i h; subst h; simp [ih]
      · rename_i h; simp [h]

theorem stripSuffix_eq_some (s p r : Bytes) : stripSuffix s p = some r ↔ s = r ++ p := by
  simp only [stripSuffix, Option.map_eq_some_iff, stripPrefix_eq_some]
  constructor
  · rintro ⟨a, ha, rfl⟩
    have := congrArg List.reverse ha
    simpa using this
  · intro h
    exact ⟨r.reverse, by simp [h], by simp⟩

theorem startsWith_iff_ex (s p : Bytes) : startsWith s p = true ↔ ∃ r, s = p ++ r := by
  simp only [startsWith, Option.isSome_iff_exists, stripPrefix_eq_some]

theorem endsWith_iff_ex (s p : Bytes) : endsWith s p = true ↔ ∃ r, s = r ++ p := by
  simp only [endsWith, Option.isSome_iff_exists, stripSuffix_eq_some]

theorem tokens_nil : tokens [] = [] := by simp [tokens, splitOn]

/-- key (1) -/
theorem tokens_append_right (q r : Bytes) (hq : q = [] ∨ q.head? = some 47)
    (hr : r = [] ∨ r.head? = some 47) : tokens (q ++ r) = tokens q ++ tokens r := by
  have e : q ++ r = ofToks (tokens q ++ tokens r) := by
    rw [ofToks_append, ofToks_tokens q hq, ofToks_tokens r hr]
  rw [e, tokens_ofToks]
  intro t ht
  rcases List.mem_append.mp ht with h | h
  · exact tokens_all_noSlash q t h
  · exact tokens_all_noSlash r t h

theorem shape_of_append_left (x q p : Bytes) (h : p = x ++ q) (hp : p = [] ∨ p.head? = some 47) :
    x = [] ∨ x.head? = some 47 := by
  cases x with
  | nil => simp
  | cons b x => subst h; simpa using hp

/-- a shaped text whose tokens are all valid is a valid pointer -/
theorem validPtr_of_tokens (r : Bytes) (hr : r = [] ∨ r.head? = some 47)
    (h : ∀ t ∈ tokens r, validTok t = true) : validPtr r = true := by
  rw [← ofToks_tokens r hr]; exact validPtr_ofToks _ h

theorem eq_of_tokens (p q r : Bytes) (hp : validPtr p = true) (hq : validPtr q = true)
    (hr : validPtr r = true) (h : tokens p = tokens q ++ tokens r) : p = q ++ r := by
  rw [← ofToks_tokens p (validPtr_shape hp), h, ofToks_append,
    ofToks_tokens q (validPtr_shape hq), ofToks_tokens r (validPtr_shape hr)]

theorem shape_iff (r : Bytes) : (r.isEmpty || r.head? == some 47) = true ↔ (r = [] ∨ r.head? = some 47) := by
  cases r <;> simp

theorem ptrStripPrefix_eq_some (p q r : Bytes) :
    ptrStripPrefix p q = some r ↔ (p = q ++ r ∧ (r = [] ∨ r.head? = some 47)) := by
  unfold ptrStripPrefix
  split
  · rename_i s hs
    rw [stripPrefix_eq_some] at hs
    subst hs
    split
    · rename_i h
      rw [shape_iff] at h
      constructor
      · intro e; simp at e; subst e; exact ⟨rfl, h⟩
      · rintro ⟨e, _⟩; simp at e; simp [e]
    · rename_i h
      rw [shape_iff] at h
      constructor
      · intro e; simp at e
      · rintro ⟨e, h'⟩; simp at e; subst e; exact absurd h' h
  · rename_i hs
    constructor
    · intro e; simp at e
    · rintro ⟨e, _⟩
      rw [(stripPrefix_eq_some p q r).mpr e] at hs; simp at hs

/-! ### intersection -/

theorem lcp_nil_right (ps : List Bytes) : lcp ps [] = [] := by cases ps <;> simp [lcp]

theorem lcp_nil_left (qs : List Bytes) : lcp [] qs = [] := by simp [lcp]

theorem lcp_eq_take (ps qs : List Bytes) : lcp ps qs = ps.take (lcp ps qs).length := by
  induction ps generalizing qs with
  | nil => simp [lcp]
  | cons a as ih =>
    cases qs with
    | nil => simp [lcp]
    | cons b bs =>
      simp only [lcp]
      split
      · simp only [List.length_cons, List.take_succ_cons]; rw [← ih bs]
      · simp

theorem lcp_prefix_left (ps qs : List Bytes) : lcp ps qs <+: ps := by
  rw [lcp_eq_take]; exact List.take_prefix _ _

theorem lcp_comm (ps qs : List Bytes) : lcp ps qs = lcp qs ps := by
  induction ps generalizing qs with
  | nil => simp [lcp_nil_right, lcp_nil_left]
  | cons a as ih =>
    cases qs with
    | nil => simp [lcp]
    | cons b bs =>
      simp only [lcp]
      by_cases h : a = b
      · subst h; simp [ih bs]
      · have h' : ¬ b = a := fun e => h e.symm
        simp [h, h']

theorem lcp_self (ps : List Bytes) : lcp ps ps = ps := by
  induction ps with
  | nil => simp [lcp]
  | cons a as ih => simp [lcp, ih]

theorem lcp_length_le (ps qs : List Bytes) : (lcp ps qs).length ≤ ps.length :=
  (lcp_prefix_left ps qs).length_le

theorem intersectionLoop_eq (ps qs : List Bytes) (idx : Nat) :
    intersectionLoop ps qs idx = idx + off ps (lcp ps qs).length := by
  induction ps generalizing qs idx with
  | nil => simp [intersectionLoop, lcp, off]
  | cons a as ih =>
    cases qs with
    | nil => simp [intersectionLoop, lcp, off]
    | cons b bs =>
      simp only [intersectionLoop, lcp]
      by_cases h : a = b
      · subst h
        simp only [ne_eq, not_true_eq_false, if_false, if_true, List.length_cons, off_succ]
        rw [ih]; omega
      · simp [h, off]

theorem splitAt_off (ps : List Bytes) (k : Nat) (hk : k ≤ ps.length) :
    (∃ tl, splitAt (ofToks ps) (off ps k) = some (ofToks (ps.take k), tl)) ∨
    (splitAt (ofToks ps) (off ps k) = none ∧ ofToks ps = ofToks (ps.take k)) := by
  rcases Nat.lt_or_ge k ps.length with hlt | hge
  · left
    have hb : (ofToks ps)[off ps k]? = some 47 := by
      have : (ofToks ps)[off ps k]? = ((ofToks ps).drop (off ps k))[0]? := by simp
      rw [this, drop_off]
      have : ps.drop k ≠ [] := by
        intro e; have := congrArg List.length e; simp at this; omega
      have := ofToks_head _ this
      simpa [List.head?_eq_getElem?] using this
    refine ⟨(ofToks ps).drop (off ps k), ?_⟩
    simp only [splitAt, hb, ne_eq, not_true_eq_false, if_false]
    rw [take_off ps k]
  · right
    have hk' : k = ps.length := by omega
    subst hk'
    have hb : (ofToks ps)[off ps ps.length]? = none := by
      rw [← ofToks_length]; simp
    simp [splitAt, hb]

end Jp.C13
