import Jp.Lemmas.Bridge
import Jp.Props.C03
import Jp.Props.C04
/-
  Helper lemmas for Jp/Props/C05.lean (same namespace `Jp.C05`).
  Everything here is auxiliary: the property theorems themselves (the `-- OBLIGATIONS` list) are
  stated and proved in Jp/Props/C05.lean, which imports this module. Definitions that both a helper
  and a property statement need live here and are referred to by a comment in the Props file.
-/
namespace Jp.C05
open Jp Jp.Spec

def kindOf : ResolveErr → WalkKind
  | .failedToParseIndex .. => .parse
  | .outOfBounds .. => .oob
  | .notFound .. => .notFound
  | .unreachable .. => .unreachable

/-- the token spelling of a location step: a key through `Token::new`, an index in decimal -/
def spell : Step → Bytes
  | .key k => (Token.new k).bytes
  | .idx i => decimal i

def PathFits (l : Loc) : Prop := ∀ i, Step.idx i ∈ l → i ≤ usizeMax

/-! ### helper lemmas -/

theorem forLen_ok {i : Index} {len idx : Nat} (h : i.forLen len = .ok idx) :
    i = .num idx ∧ idx < len := by
  cases i with
  | next => simp [Index.forLen] at h
  | num k =>
    simp only [Index.forLen] at h
    split at h
    · cases h; exact ⟨rfl, by assumption⟩
    · cases h

theorem resolveT_walk (ts : List Bytes) (hv : ∀ t ∈ ts, validTok t = true) (v : Val)
    (o pos : Nat) (loc : Loc) :
    match walk v ts with
    | .ok (l, n) => resolveT ts v o pos loc = .ok (loc ++ l, n)
    | .err (k, kind) =>
        ∃ e, resolveT ts v o pos loc = .err e ∧ e.position = pos + k ∧ kindOf e = kind
    | .panic _ => False := by
  induction ts generalizing v o pos loc with
  | nil => simp [walk, resolveT]
  | cons t ts ih =>
    have ht : validTok t = true := hv t (by simp)
    have ih' := ih (fun u hu => hv u (by simp [hu]))
    have hd : (Token.decoded t).bytes = dec t := toString_eq_dec t ht
    cases v with
    | scalar a => simp [walk, resolveT, ResolveErr.position, kindOf]
    | obj kvs =>
      simp only [walk, resolveT, hd]
      cases hl : lookup (dec t) kvs with
      | none => simp [ResolveErr.position, kindOf]
      | some c =>
        simp only []
        have := ih' c (o + (1 + t.length)) (pos + 1) (loc ++ [.key (dec t)])
        cases hw : walk c ts with
        | ok r =>
          obtain ⟨l, n⟩ := r
          simp only [hw] at this ⊢
          simpa using this
        | err r =>
          obtain ⟨k, kind⟩ := r
          simp only [hw] at this ⊢
          obtain ⟨e, h1, h2, h3⟩ := this
          exact ⟨e, h1, by omega, h3⟩
        | panic m => simp [hw] at this
    | arr xs =>
      simp only [walk, resolveT]
      have hp := toIndex_pidx t
      cases hi : Token.toIndex t with
      | err e => 
        simp only [hi] at hp
        simp [hp, ResolveErr.position, kindOf]
      | panic m => simp [hi] at hp
      | ok i =>
        cases i with
        | next =>
          simp only [hi] at hp
          simp [hp, Index.forLen, ResolveErr.position, kindOf]
        | num k =>
          simp only [hi] at hp
          simp only [hp, Index.forLen]
          by_cases hk : k < xs.length
          · simp only [hk, if_true, List.getElem?_eq_getElem hk]
            have := ih' xs[k] (o + (1 + t.length)) (pos + 1) (loc ++ [.idx k])
            cases hw : walk xs[k] ts with
            | ok r =>
              obtain ⟨l, n⟩ := r
              simp only [hw] at this ⊢
              simpa using this
            | err r =>
              obtain ⟨k', kind⟩ := r
              simp only [hw] at this ⊢
              obtain ⟨e, h1, h2, h3⟩ := this
              exact ⟨e, h1, by omega, h3⟩
            | panic m => simp [hw] at this
          · simp [hk, ResolveErr.position, kindOf]

theorem resolve_eq_resolveT {p : Bytes} (hp : validPtr p = true) (D : Val) :
    ∃ ts, tokens p = ts ∧ (∀ t ∈ ts, validTok t = true) ∧ resolve D p = resolveT ts D 0 0 [] := by
  obtain ⟨ts, rfl, htok, hns, hv⟩ := valid_decomp hp
  exact ⟨ts, htok, hv, by unfold resolve; exact resolveLoop_ofToks ts hns D 0 0 []⟩

theorem resolveT_ok_walk {ts : List Bytes} (hv : ∀ t ∈ ts, validTok t = true) {D : Val}
    {l : Loc} {n : Val} (h : resolveT ts D 0 0 [] = .ok (l, n)) : walk D ts = .ok (l, n) := by
  have := resolveT_walk ts hv D 0 0 []
  cases hw : walk D ts with
  | ok r =>
    obtain ⟨l', n'⟩ := r
    simp only [hw] at this
    rw [h] at this
    simpa using this.symm
  | err r =>
    obtain ⟨k, kind⟩ := r
    simp only [hw] at this
    obtain ⟨e, h1, _⟩ := this
    rw [h] at h1; cases h1
  | panic m => simp [hw] at this

theorem pidx_num_le {t : Bytes} {i : Nat} (h : pidx t = .num i) : i ≤ usizeMax := by
  unfold pidx at h
  split at h
  · cases h
  · split at h
    · rename_i hv
      simp at h
      subst h
      simp only [validNum, Bool.or_eq_true, beq_iff_eq, Bool.and_eq_true, decide_eq_true_eq] at hv
      rcases hv with rfl | ⟨_, hm⟩
      · decide
      · exact hm
    · cases h

theorem spell_valid (s : Step) : validTok (spell s) = true := by
  cases s with
  | key k => simp only [spell, Jp.C03.new_encoded]; exact Jp.C03.enc_valid k
  | idx i => exact (Jp.C04.decimal_validTok i).1

theorem walk_spell (D : Val) (path : Loc) (n : Val) (hfit : PathFits path)
    (h : D.at path = some n) : walk D (path.map spell) = .ok (path, n) := by
  induction path generalizing D with
  | nil => simp [Val.at] at h; simp [walk, h]
  | cons s path ih =>
    have hfit' : PathFits path := fun i hi => hfit i (by simp [hi])
    cases s with
    | key k =>
      cases D with
      | scalar a => simp [Val.at] at h
      | arr xs => simp [Val.at] at h
      | obj kvs =>
        simp only [Val.at] at h
        cases hl : lookup k kvs with
        | none => simp [hl] at h
        | some c =>
          simp only [hl] at h
          have := ih c hfit' h
          simp [walk, spell, Jp.C03.new_encoded, Jp.C03.dec_enc, hl, this]
    | idx i =>
      have hi : i ≤ usizeMax := hfit i (by simp)
      cases D with
      | scalar a => simp [Val.at] at h
      | obj kvs => simp [Val.at] at h
      | arr xs =>
        simp only [Val.at] at h
        cases hl : xs[i]? with
        | none => simp [hl] at h
        | some c =>
          simp only [hl] at h
          have := ih c hfit' h
          simp [walk, spell, pidx_decimal i hi, hl, this]

theorem walk_unique (D : Val) (ts : List Bytes) (hv : ∀ t ∈ ts, validTok t = true) (l : Loc) (n : Val)
    (h : walk D ts = .ok (l, n)) : ts = l.map spell := by
  induction ts generalizing D l with
  | nil => simp [walk] at h; simp [← h.1]
  | cons t ts ih =>
    have ht : validTok t = true := hv t (by simp)
    have ih' := fun D' => ih D' (fun u hu => hv u (by simp [hu]))
    cases D with
    | scalar a => simp [walk] at h
    | obj kvs =>
      simp only [walk] at h
      cases hl : lookup (dec t) kvs with
      | none => simp [hl] at h
      | some c =>
        simp only [hl] at h
        cases hw : walk c ts with
        | ok r =>
          obtain ⟨l', n'⟩ := r
          simp only [hw, Res.ok.injEq, Prod.mk.injEq] at h
          obtain ⟨rfl, rfl⟩ := h
          simp [spell, Jp.C03.new_encoded, Jp.C03.enc_dec t ht, ← ih' c l' hw]
        | err r => obtain ⟨k, e⟩ := r; simp [hw] at h
        | panic m => simp [hw] at h
    | arr xs =>
      simp only [walk] at h
      cases hp : pidx t with
      | bad => simp [hp] at h
      | next => simp [hp] at h
      | num i =>
        simp only [hp] at h
        cases hl : xs[i]? with
        | none => simp [hl] at h
        | some c =>
          simp only [hl] at h
          cases hw : walk c ts with
          | ok r =>
            obtain ⟨l', n'⟩ := r
            simp only [hw, Res.ok.injEq, Prod.mk.injEq] at h
            obtain ⟨rfl, rfl⟩ := h
            have : t = decimal i := pidx_num_inj t (decimal i) i hp (pidx_decimal i (pidx_num_le hp))
            simp [spell, ← this, ← ih' c l' hw]
          | err r => obtain ⟨k, e⟩ := r; simp [hw] at h
          | panic m => simp [hw] at h

theorem walk_append (D : Val) (ts us : List Bytes) (l : Loc) (n : Val)
    (h : walk D ts = .ok (l, n)) :
    walk D (ts ++ us) = match walk n us with
      | .ok (l', n') => .ok (l ++ l', n')
      | .err (k, e) => .err (ts.length + k, e)
      | .panic m => .panic m := by
  induction ts generalizing D l with
  | nil =>
    simp [walk] at h
    obtain ⟨rfl, rfl⟩ := h
    cases hw : walk D us with
    | ok r => obtain ⟨l', n'⟩ := r; simp [hw]
    | err r => obtain ⟨k, e⟩ := r; simp [hw]
    | panic m => simp [hw]
  | cons t ts ih =>
    cases D with
    | scalar a => simp [walk] at h
    | obj kvs =>
      simp only [walk] at h
      cases hl : lookup (dec t) kvs with
      | none => simp [hl] at h
      | some c =>
        simp only [hl] at h
        cases hw : walk c ts with
        | ok r =>
          obtain ⟨l', n'⟩ := r
          simp only [hw, Res.ok.injEq, Prod.mk.injEq] at h
          obtain ⟨rfl, rfl⟩ := h
          have := ih c l' hw
          simp only [List.cons_append, walk, hl, this]
          cases hw2 : walk n' us with
          | ok r => obtain ⟨l2, n2⟩ := r; simp
          | err r => obtain ⟨k, e⟩ := r; simp; omega
          | panic m => simp
        | err r => obtain ⟨k, e⟩ := r; simp [hw] at h
        | panic m => simp [hw] at h
    | arr xs =>
      simp only [walk] at h
      cases hp : pidx t with
      | bad => simp [hp] at h
      | next => simp [hp] at h
      | num i =>
        simp only [hp] at h
        cases hl : xs[i]? with
        | none => simp [hl] at h
        | some c =>
          simp only [hl] at h
          cases hw : walk c ts with
          | ok r =>
            obtain ⟨l', n'⟩ := r
            simp only [hw, Res.ok.injEq, Prod.mk.injEq] at h
            obtain ⟨rfl, rfl⟩ := h
            have := ih c l' hw
            simp only [List.cons_append, walk, hp, hl, this]
            cases hw2 : walk n' us with
            | ok r => obtain ⟨l2, n2⟩ := r; simp
            | err r => obtain ⟨k, e⟩ := r; simp; omega
            | panic m => simp
          | err r => obtain ⟨k, e⟩ := r; simp [hw] at h
          | panic m => simp [hw] at h

theorem walk_at (D : Val) (ts : List Bytes) (l : Loc) (n : Val)
    (h : walk D ts = .ok (l, n)) : D.at l = some n := by
  induction ts generalizing D l with
  | nil => simp [walk] at h; obtain ⟨rfl, rfl⟩ := h; simp [Val.at]
  | cons t ts ih =>
    cases D with
    | scalar a => simp [walk] at h
    | obj kvs =>
      simp only [walk] at h
      cases hl : lookup (dec t) kvs with
      | none => simp [hl] at h
      | some c =>
        simp only [hl] at h
        cases hw : walk c ts with
        | ok r =>
          obtain ⟨l', n'⟩ := r
          simp only [hw, Res.ok.injEq, Prod.mk.injEq] at h
          obtain ⟨rfl, rfl⟩ := h
          simp [Val.at, hl, ih c l' hw]
        | err r => obtain ⟨k, e⟩ := r; simp [hw] at h
        | panic m => simp [hw] at h
    | arr xs =>
      simp only [walk] at h
      cases hp : pidx t with
      | bad => simp [hp] at h
      | next => simp [hp] at h
      | num i =>
        simp only [hp] at h
        cases hl : xs[i]? with
        | none => simp [hl] at h
        | some c =>
          simp only [hl] at h
          cases hw : walk c ts with
          | ok r =>
            obtain ⟨l', n'⟩ := r
            simp only [hw, Res.ok.injEq, Prod.mk.injEq] at h
            obtain ⟨rfl, rfl⟩ := h
            simp [Val.at, hl, ih c l' hw]
          | err r => obtain ⟨k, e⟩ := r; simp [hw] at h
          | panic m => simp [hw] at h

end Jp.C05
