import Jp.Lemmas.Bridge
/-
  Helper lemmas for Jp/Props/C06.lean (same namespace `Jp.C06`).
  Everything here is auxiliary: the property theorems themselves (the `-- OBLIGATIONS` list) are
  stated and proved in Jp/Props/C06.lean, which imports this module. Definitions that both a helper
  and a property statement need live here and are referred to by a comment in the Props file.
-/
namespace Jp.C06
open Jp Jp.Spec

def kindOfA : AssignErr → WalkKind
  | .failedToParseIndex .. => .parse
  | .outOfBounds .. => .oob

/-! ### helpers -/

theorem set_self {α : Type} (xs : List α) (i : Nat) (c : α) (h : xs[i]? = some c) : xs.set i c = xs := by
  induction xs generalizing i with
  | nil => simp
  | cons x xs ih =>
    cases i with
    | zero => simp at h; simp [h]
    | succ i => simp at h; simp [ih i h]

theorem replaceKey_self (k : Bytes) (c : Val) (kvs : List (Bytes × Val)) (h : lookup k kvs = some c) :
    replaceKey k c kvs = kvs := by
  induction kvs with
  | nil => simp [lookup] at h
  | cons kv kvs ih =>
    obtain ⟨k', v'⟩ := kv
    simp only [lookup] at h
    simp only [replaceKey]
    split at h
    · rename_i hk; simp at h; simp [h, hk]
    · rename_i hk; simp [ih h, hk]

/-- the structural `assignT` against the declarative `assignSpec` -/
theorem assignT_spec (ts : List Bytes) (hdec : ∀ t ∈ ts, Token.toString t = dec t) (d v : Val)
    (o pos : Nat) :
    (match assignSpec d ts v with
     | .ok (D', r) => assignT ts d v o pos = (D', .ok r)
     | .err k => ∃ e, assignT ts d v o pos = (d, .err e) ∧ kindOfA e = k
     | .panic _ => False) := by
  induction ts generalizing d o pos with
  | nil => simp [assignSpec, assignT]
  | cons t ts ih =>
    have hd : Token.toString t = dec t := hdec t (by simp)
    have ih' := ih (fun u hu => hdec u (by simp [hu]))
    cases d with
    | scalar a => simp [assignSpec, assignT]
    | obj kvs =>
      simp only [assignSpec, assignT, hd]
      cases hl : lookup (dec t) kvs with
      | none => simp
      | some c =>
        simp only []
        cases ts with
        | nil => simp [assignSpec]
        | cons u us =>
          simp only [List.isEmpty_cons, Bool.false_eq_true, if_false]
          have := ih' c (o + (1 + t.length)) (pos + 1)
          cases hs : assignSpec c (u :: us) v with
          | ok dr =>
            obtain ⟨c', r⟩ := dr
            rw [hs] at this
            simp only [] at this
            simp [this]
          | err k =>
            rw [hs] at this
            obtain ⟨e, he, hk⟩ := this
            simp [he, hk, replaceKey_self _ _ _ hl]
          | panic m => rw [hs] at this; exact this.elim
    | arr xs =>
      have hp := toIndex_pidx t
      simp only [assignSpec, assignT]
      cases hi : Token.toIndex t with
      | panic m => rw [hi] at hp; exact hp.elim
      | err e =>
        rw [hi] at hp; simp only [] at hp
        simp [hp, kindOfA]
      | ok i =>
        rw [hi] at hp
        cases i with
        | next =>
          simp only [] at hp
          simp [hp, Index.forLenIncl]
        | num n =>
          simp only [] at hp
          simp only [hp, Index.forLenIncl]
          by_cases hn : n ≤ xs.length
          · simp only [hn, if_true]
            cases hx : xs[n]? with
            | none =>
              have : n = xs.length := by
                have := List.getElem?_eq_none_iff.mp hx; omega
              simp [this]
            | some c =>
              simp only []
              cases ts with
              | nil => simp [assignSpec]
              | cons u us =>
                simp only [List.isEmpty_cons, Bool.false_eq_true, if_false]
                have := ih' c (o + (1 + t.length)) (pos + 1)
                cases hs : assignSpec c (u :: us) v with
                | ok dr =>
                  obtain ⟨c', r⟩ := dr
                  rw [hs] at this
                  simp only [] at this
                  simp [this]
                | err k =>
                  rw [hs] at this
                  obtain ⟨e, he, hk⟩ := this
                  simp [he, hk, set_self _ _ _ hx]
                | panic m => rw [hs] at this; exact this.elim
          · have hx : xs[n]? = none := List.getElem?_eq_none_iff.mpr (by omega)
            have hne : n ≠ xs.length := by omega
            simp [hn, hx, hne, kindOfA]

/-- whole path exists: replaced in place, old node returned -/
theorem assignSpec_of_walk (v : Val) (ts : List Bytes) (D : Val) (l : Loc) (w : Val)
    (h : walk D ts = .ok (l, w)) : assignSpec D ts v = .ok (D.setAt l v, some w) := by
  induction ts generalizing D l with
  | nil =>
    simp only [walk, Res.ok.injEq, Prod.mk.injEq] at h
    obtain ⟨rfl, rfl⟩ := h
    simp [assignSpec, Val.setAt]
  | cons t ts ih =>
    cases D with
    | scalar a => simp [walk] at h
    | obj kvs =>
      simp only [walk] at h
      cases hl : lookup (dec t) kvs with
      | none => simp [hl] at h
      | some c =>
        simp only [hl] at h
        cases hw : walk c ts with
        | ok ln =>
          obtain ⟨l1, n⟩ := ln
          simp only [hw, Res.ok.injEq, Prod.mk.injEq] at h
          obtain ⟨rfl, rfl⟩ := h
          simp [assignSpec, hl, ih c l1 hw, Val.setAt]
        | err e => obtain ⟨k, e⟩ := e; simp [hw] at h
        | panic m => simp [hw] at h
    | arr xs =>
      simp only [walk] at h
      cases hpi : pidx t with
      | bad => simp [hpi] at h
      | next => simp [hpi] at h
      | num i =>
        simp only [hpi] at h
        cases hx : xs[i]? with
        | none => simp [hx] at h
        | some c =>
          simp only [hx] at h
          cases hw : walk c ts with
          | ok ln =>
            obtain ⟨l1, n⟩ := ln
            simp only [hw, Res.ok.injEq, Prod.mk.injEq] at h
            obtain ⟨rfl, rfl⟩ := h
            simp [assignSpec, hpi, hx, ih c l1 hw, Val.setAt]
          | err e => obtain ⟨k, e⟩ := e; simp [hw] at h
          | panic m => simp [hw] at h

/-- assigning below a resolvable prefix is assigning at the node it reaches -/
theorem assignSpec_prefix (v : Val) (ts pre : List Bytes) (D : Val) (l : Loc) (n : Val)
    (h : walk D pre = .ok (l, n)) :
    assignSpec D (pre ++ ts) v =
      (match assignSpec n ts v with
       | .ok (n', r) => .ok (D.setAt l n', r)
       | .err e => .err e
       | .panic m => .panic m) := by
  induction pre generalizing D l with
  | nil =>
    simp only [walk, Res.ok.injEq, Prod.mk.injEq] at h
    obtain ⟨rfl, rfl⟩ := h
    simp only [List.nil_append, Val.setAt]
    cases assignSpec D ts v with
    | ok dr => rfl
    | err e => rfl
    | panic m => rfl
  | cons t pre ih =>
    cases D with
    | scalar a => simp [walk] at h
    | obj kvs =>
      simp only [walk] at h
      cases hl : lookup (dec t) kvs with
      | none => simp [hl] at h
      | some c =>
        simp only [hl] at h
        cases hw : walk c pre with
        | ok ln =>
          obtain ⟨l1, n1⟩ := ln
          simp only [hw, Res.ok.injEq, Prod.mk.injEq] at h
          obtain ⟨rfl, rfl⟩ := h
          simp only [List.cons_append, assignSpec, hl, ih c l1 hw, Val.setAt]
          cases assignSpec n1 ts v with
          | ok dr => rfl
          | err e => rfl
          | panic m => rfl
        | err e => obtain ⟨k, e⟩ := e; simp [hw] at h
        | panic m => simp [hw] at h
    | arr xs =>
      simp only [walk] at h
      cases hpi : pidx t with
      | bad => simp [hpi] at h
      | next => simp [hpi] at h
      | num i =>
        simp only [hpi] at h
        cases hx : xs[i]? with
        | none => simp [hx] at h
        | some c =>
          simp only [hx] at h
          cases hw : walk c pre with
          | ok ln =>
            obtain ⟨l1, n1⟩ := ln
            simp only [hw, Res.ok.injEq, Prod.mk.injEq] at h
            obtain ⟨rfl, rfl⟩ := h
            simp only [List.cons_append, assignSpec, hpi, hx, ih c l1 hw, Val.setAt]
            cases assignSpec n1 ts v with
            | ok dr => rfl
            | err e => rfl
            | panic m => rfl
          | err e => obtain ⟨k, e⟩ := e; simp [hw] at h
          | panic m => simp [hw] at h

end Jp.C06
