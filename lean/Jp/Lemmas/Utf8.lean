import Jp.Spec.Utf8
/-
  Jp.Lemmas.Utf8 — the char index computed by Rust (`s.chars().position(|c| !c.is_ascii_digit())`)
  equals the byte index computed by the model (`position (fun b => !isDigit b) s`), and
  `s.chars().nth(offset)` exists and is the char starting at byte `offset`.
-/
namespace Jp.Spec.Utf8
open Jp

/-! ### `chars`: the fuel is adequate, so `chars` satisfies its defining equations -/

theorem charsFuel_mono (f : Nat) : ∀ (g : Nat) (s : Bytes), s.length ≤ f → s.length ≤ g →
    charsFuel f s = charsFuel g s := by
  induction f with
  | zero =>
    intro g s hf hg
    cases s with
    | nil => cases g <;> simp [charsFuel]
    | cons b r => simp at hf
  | succ f ih =>
    intro g s hf hg
    cases s with
    | nil => cases g <;> simp [charsFuel]
    | cons b r =>
      cases g with
      | zero => simp at hg
      | succ g =>
        simp only [charsFuel]
        split
        · rw [ih g (r.drop (seqLen b - 1)) (by simp at hf ⊢; omega) (by simp at hg ⊢; omega)]
        · rfl

theorem chars_nil : chars [] = some [] := rfl

theorem chars_cons (b : Nat) (r : Bytes) :
    chars (b :: r) =
      if 1 ≤ seqLen b ∧ seqLen b - 1 ≤ r.length ∧ (r.take (seqLen b - 1)).all isCont = true then
        (chars (r.drop (seqLen b - 1))).map ((b :: r.take (seqLen b - 1)) :: ·)
      else none := by
  simp only [chars, List.length_cons, charsFuel]
  split
  · rw [charsFuel_mono r.length (r.drop (seqLen b - 1)).length (r.drop (seqLen b - 1))
      (by simp) (Nat.le_refl _)]
  · rfl

/-! ### lead bytes -/

theorem seqLen_of_isDigit (b : Nat) (h : isDigit b = true) : seqLen b = 1 := by
  simp only [isDigit, Bool.and_eq_true, decide_eq_true_eq] at h
  have : b < 128 := by omega
  simp [seqLen, this]

theorem not_isDigit_of_seqLen (b : Nat) (h : 2 ≤ seqLen b) : isDigit b = false := by
  cases hd : isDigit b with
  | false => rfl
  | true => rw [seqLen_of_isDigit b hd] at h; omega

/-- a multi-byte char is not an ASCII digit -/
theorem isAsciiDigitChar_long (b : Nat) (t : Bytes) (h : 1 ≤ t.length) :
    isAsciiDigitChar (b :: t) = false := by
  cases t with
  | nil => simp at h
  | cons c t' => rfl

/-- the first char of a well-formed string is an ASCII digit iff its first byte is a digit byte -/
theorem isAsciiDigitChar_first (b : Nat) (r : Bytes) (h1 : 1 ≤ seqLen b)
    (h2 : seqLen b - 1 ≤ r.length) :
    isAsciiDigitChar (b :: r.take (seqLen b - 1)) = isDigit b := by
  by_cases hn : seqLen b = 1
  · simp [hn, isAsciiDigitChar]
  · have h2' : 2 ≤ seqLen b := by omega
    rw [not_isDigit_of_seqLen b h2']
    apply isAsciiDigitChar_long
    simp only [List.length_take]
    omega

/-! ### the two theorems -/

theorem charPosition_eq_bytePosition_aux (k : Nat) : ∀ (s : Bytes) (cs : List Bytes),
    s.length ≤ k → chars s = some cs →
    charPosition (fun c => !isAsciiDigitChar c) cs = position (fun b => !isDigit b) s := by
  induction k with
  | zero =>
    intro s cs hk h
    cases s with
    | nil => simp [chars_nil] at h; subst h; rfl
    | cons b r => simp at hk
  | succ k ih =>
    intro s cs hk h
    cases s with
    | nil => simp [chars_nil] at h; subst h; rfl
    | cons b r =>
      rw [chars_cons] at h
      split at h
      · rename_i hc
        obtain ⟨h1, h2, _⟩ := hc
        simp only [Option.map_eq_some_iff] at h
        obtain ⟨cs', hcs', rfl⟩ := h
        simp only [charPosition, position, isAsciiDigitChar_first b r h1 h2]
        by_cases hd : isDigit b = true
        · have hn : seqLen b = 1 := seqLen_of_isDigit b hd
          simp only [hn, Nat.sub_self, List.drop_zero] at hcs'
          rw [ih r cs' (by simp at hk; omega) hcs']
        · simp [hd]
      · simp at h

/-- the char index computed by Rust equals the byte index computed by the model -/
theorem charPosition_eq_bytePosition (s : Bytes) (cs : List Bytes) (h : chars s = some cs) :
    charPosition (fun c => !isAsciiDigitChar c) cs = position (fun b => !isDigit b) s :=
  charPosition_eq_bytePosition_aux s.length s cs (Nat.le_refl _) h

theorem nth_char_exists_aux (k : Nat) : ∀ (s : Bytes) (cs : List Bytes) (o : Nat),
    s.length ≤ k → chars s = some cs → position (fun b => !isDigit b) s = some o →
    ∃ c, cs[o]? = some c ∧ isAsciiDigitChar c = false ∧ c.head? = s[o]? := by
  induction k with
  | zero =>
    intro s cs o hk h ho
    cases s with
    | nil => simp [position] at ho
    | cons b r => simp at hk
  | succ k ih =>
    intro s cs o hk h ho
    cases s with
    | nil => simp [position] at ho
    | cons b r =>
      rw [chars_cons] at h
      split at h
      · rename_i hc
        obtain ⟨h1, h2, _⟩ := hc
        simp only [Option.map_eq_some_iff] at h
        obtain ⟨cs', hcs', rfl⟩ := h
        simp only [position] at ho
        by_cases hd : isDigit b = true
        · have hn : seqLen b = 1 := seqLen_of_isDigit b hd
          simp only [hn, Nat.sub_self, List.drop_zero] at hcs'
          simp [hd] at ho
          obtain ⟨o', ho', rfl⟩ := ho
          obtain ⟨c, hc1, hc2, hc3⟩ := ih r cs' o' (by simp at hk; omega) hcs' ho'
          exact ⟨c, by simpa using hc1, hc2, by simpa using hc3⟩
        · simp [hd] at ho
          subst ho
          refine ⟨b :: r.take (seqLen b - 1), by simp, ?_, by simp⟩
          rw [isAsciiDigitChar_first b r h1 h2]
          simpa using hd
      · simp at h

/-- `chars().nth(offset)` is `Some` (so the `.expect` in `InvalidCharacterError::char()` does not
    panic), it is not an ASCII digit, and it is the char that starts at byte `offset` -/
theorem nth_char_exists (s : Bytes) (cs : List Bytes) (o : Nat) (h : chars s = some cs)
    (ho : position (fun b => !isDigit b) s = some o) :
    ∃ c, cs[o]? = some c ∧ isAsciiDigitChar c = false ∧ c.head? = s[o]? :=
  nth_char_exists_aux s.length s cs o (Nat.le_refl _) h ho

/-! ### non-vacuity: "1٣2" (ARABIC-INDIC DIGIT THREE is U+0663 = D9 A3) -/

example : chars [49, 217, 163, 50] = some [[49], [217, 163], [50]] := by decide
example : charPosition (fun c => !isAsciiDigitChar c) [[49], [217, 163], [50]] = some 1 := by decide
example : position (fun b => !isDigit b) [49, 217, 163, 50] = some 1 := by decide
-- malformed input is rejected: lone continuation byte, truncated sequence, bad continuation
example : chars [49, 163] = none := by decide
example : chars [49, 217] = none := by decide
example : chars [217, 50] = none := by decide
-- a 4-byte char (U+1F600) before which the indices agree and after which they would not
example : chars [49, 240, 159, 152, 128, 43] = some [[49], [240, 159, 152, 128], [43]] := by decide

end Jp.Spec.Utf8
