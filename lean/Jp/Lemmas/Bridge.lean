import Jp.Lemmas.Valid
import Jp.Props.C03
import Jp.Props.C16
/-
  Jp.Lemmas.Bridge — the text-level walks of the model (`resolveLoop`, `resolveMutLoop`, `expand`,
  `assignValue`, all driven by `split_front` / `split_back` on the pointer *text*) restated as
  structural recursions over the token list. The three `_ofToks` theorems are the refinement steps;
  everything in the tree-layer property files is then an induction over token lists.
-/
namespace Jp
open Jp.Spec

/-- `resolveLoop` over a token list: same state `(value, offset, position, loc)` -/
def resolveT : List Bytes → Val → Nat → Nat → Loc → Res ResolveErr (Loc × Val)
  | [], value, _, _, loc => .ok (loc, value)
  | token :: rest, value, offset, position, loc =>
    match value with
    | .arr v =>
      match Token.toIndex token with
      | .err source => .err (.failedToParseIndex position offset source)
      | .panic m => .panic m
      | .ok index =>
        match index.forLen v.length with
        | .err source => .err (.outOfBounds position offset source)
        | .panic m => .panic m
        | .ok idx =>
          match v[idx]? with
          | some c => resolveT rest c (offset + (1 + token.length)) (position + 1) (loc ++ [.idx idx])
          | none => .panic "index out of bounds: v[idx]"
    | .obj v =>
      match lookup (Token.decoded token).bytes v with
      | some c =>
        resolveT rest c (offset + (1 + token.length)) (position + 1)
          (loc ++ [.key (Token.decoded token).bytes])
      | none => .err (.notFound position offset)
    | .scalar _ => .err (.unreachable position offset)

theorem resolveLoop_none {ptr : Bytes} (h : splitFront ptr = none) (value : Val)
    (offset position : Nat) (loc : Loc) :
    resolveLoop ptr value offset position loc = .ok (loc, value) := by
  rw [resolveLoop]
  split
  · rfl
  · rename_i h'; rw [h] at h'; cases h'

theorem resolveLoop_some {ptr token rem : Bytes} (h : splitFront ptr = some (token, rem)) (value : Val)
    (offset position : Nat) (loc : Loc) :
    resolveLoop ptr value offset position loc =
    match value with
    | .arr v =>
      match Token.toIndex token with
      | .err source => .err (.failedToParseIndex position offset source)
      | .panic m => .panic m
      | .ok index =>
        match index.forLen v.length with
        | .err source => .err (.outOfBounds position offset source)
        | .panic m => .panic m
        | .ok idx =>
          match v[idx]? with
          | some c => resolveLoop rem c (offset + (1 + token.length)) (position + 1) (loc ++ [.idx idx])
          | none => .panic "index out of bounds: v[idx]"
    | .obj v =>
      match lookup (Token.decoded token).bytes v with
      | some c =>
        resolveLoop rem c (offset + (1 + token.length)) (position + 1)
          (loc ++ [.key (Token.decoded token).bytes])
      | none => .err (.notFound position offset)
    | .scalar _ => .err (.unreachable position offset) := by
  rw [resolveLoop]
  split
  · rename_i h'; rw [h] at h'; cases h'
  · rename_i t r h'
    rw [h] at h'
    cases h'
    rfl

theorem resolveMutLoop_none {ptr : Bytes} (h : splitFront ptr = none) (value : Val)
    (offset position : Nat) (loc : Loc) :
    resolveMutLoop ptr value offset position loc = .ok (loc, value) := by
  rw [resolveMutLoop]
  split
  · rfl
  · rename_i h'; rw [h] at h'; cases h'

theorem resolveMutLoop_some {ptr token rem : Bytes} (h : splitFront ptr = some (token, rem))
    (value : Val) (offset position : Nat) (loc : Loc) :
    resolveMutLoop ptr value offset position loc =
    match value with
    | .arr array =>
      match parseIndex token array.length position offset with
      | .err e => .err e
      | .panic m => .panic m
      | .ok idx =>
        match array[idx]? with
        | some c => resolveMutLoop rem c (offset + (1 + token.length)) (position + 1) (loc ++ [.idx idx])
        | none => .panic "index out of bounds: array[idx]"
    | .obj v =>
      match lookup (Token.decoded token).bytes v with
      | some c =>
        resolveMutLoop rem c (offset + (1 + token.length)) (position + 1)
          (loc ++ [.key (Token.decoded token).bytes])
      | none => .err (.notFound position offset)
    | .scalar _ => .err (.unreachable position offset) := by
  rw [resolveMutLoop]
  split
  · rename_i h'; rw [h] at h'; cases h'
  · rename_i t r h'
    rw [h] at h'
    cases h'
    rfl
theorem resolveLoop_ofToks (ts : List Bytes) (hns : ∀ t ∈ ts, noSlash t) (v : Val)
    (offset position : Nat) (loc : Loc) :
    resolveLoop (ofToks ts) v offset position loc = resolveT ts v offset position loc := by
  induction ts generalizing v offset position loc with
  | nil => rw [ofToks_nil, resolveLoop_none splitFront_nil]; rfl
  | cons t ts ih =>
    have ht : noSlash t := hns t (by simp)
    have ih' := ih (fun u hu => hns u (by simp [hu]))
    rw [resolveLoop_some (splitFront_ofToks_cons t ts ht)]
    simp only [resolveT, ih']

theorem resolveMutLoop_eq_resolveLoop_aux (p : Bytes) (v : Val) (offset position : Nat) (loc : Loc) :
    resolveMutLoop p v offset position loc = resolveLoop p v offset position loc := by
  generalize hn : p.length = n
  induction n using Nat.strongRecOn generalizing p v offset position loc with
  | ind n ih =>
    cases h : splitFront p with
    | none => rw [resolveLoop_none h, resolveMutLoop_none h]
    | some tr =>
      obtain ⟨tok, rem⟩ := tr
      have hlt := splitFront_length h
      have ih' := fun v o q l => ih rem.length (by omega) rem v o q l rfl
      rw [resolveLoop_some h, resolveMutLoop_some h]
      cases v with
      | scalar s => rfl
      | obj kvs => simp only [ih']
      | arr xs =>
        simp only [parseIndex, ih']
        cases Token.toIndex tok with
        | err e => rfl
        | panic m => rfl
        | ok i =>
          simp only []
          cases hf : i.forLen xs.length with
          | err e => rfl
          | panic m => rfl
          | ok idx =>
            simp only []
            have hlt' : idx < xs.length := by
              cases i with
              | next => simp [Index.forLen] at hf
              | num k =>
                simp only [Index.forLen] at hf
                split at hf
                · cases hf; assumption
                · cases hf
            rw [List.getElem?_eq_getElem hlt']

theorem expand_none {r : Bytes} (h : splitBack r = none) (v : Val) : expand r v = v := by
  rw [expand]
  split
  · rfl
  · rename_i h'; rw [h] at h'; cases h'

theorem expand_some {r ptr tok : Bytes} (h : splitBack r = some (ptr, tok)) (v : Val) :
    expand r v = if tok = [48] ∨ tok = [45] then expand ptr (.arr [v])
      else expand ptr (.obj [(Token.toString tok, v)]) := by
  rw [expand]
  split
  · rename_i h'; rw [h] at h'; cases h'
  · rename_i p t h'
    rw [h] at h'
    cases h'
    rfl

theorem expandSpec_snoc (ts : List Bytes) (t : Bytes) (v : Val) :
    expandSpec (ts ++ [t]) v =
      expandSpec ts (if t = [48] ∨ t = [45] then .arr [v] else .obj [(dec t, v)]) := by
  induction ts with
  | nil => simp only [List.nil_append, expandSpec]
  | cons u us ih => simp only [List.cons_append, expandSpec, ih]

theorem expand_ofToks_aux (n : Nat) : ∀ (ts : List Bytes), ts.length = n → (∀ t ∈ ts, noSlash t) →
    (∀ t ∈ ts, Token.toString t = dec t) → ∀ v : Val, expand (ofToks ts) v = expandSpec ts v := by
  induction n with
  | zero =>
    intro ts hl _ _ v
    have : ts = [] := List.length_eq_zero_iff.mp hl
    subst this
    rw [ofToks_nil, expand_none splitBack_nil]; rfl
  | succ n ih =>
    intro ts hl hns hdec v
    rcases List.eq_nil_or_concat ts with rfl | ⟨us, t, rfl⟩
    · simp at hl
    · rw [List.concat_eq_append] at *
      have hl' : us.length = n := by simp at hl; omega
      have ht : noSlash t := hns t (by simp)
      have hd : Token.toString t = dec t := hdec t (by simp)
      have ih' := ih us hl' (fun u hu => hns u (by simp [hu])) (fun u hu => hdec u (by simp [hu]))
      rw [expand_some (splitBack_ofToks_snoc us t ht), expandSpec_snoc, hd]
      split
      · exact ih' _
      · exact ih' _

theorem resolveMutLoop_ofToks (ts : List Bytes) (hns : ∀ t ∈ ts, noSlash t) (v : Val)
    (offset position : Nat) (loc : Loc) :
    resolveMutLoop (ofToks ts) v offset position loc = resolveT ts v offset position loc := by
  rw [resolveMutLoop_eq_resolveLoop_aux, resolveLoop_ofToks ts hns]

/-- `resolve_mut` reaches the same node as `resolve`, for every pointer text (C09) -/
theorem resolveMutLoop_eq_resolveLoop (p : Bytes) (v : Val) (offset position : Nat) (loc : Loc) :
    resolveMutLoop p v offset position loc = resolveLoop p v offset position loc :=
  resolveMutLoop_eq_resolveLoop_aux p v offset position loc

/-- the model's `expand` (folding from the back with `split_back`) is the front-to-back `expandSpec`,
    provided the object keys agree: `Token.toString t = dec t` on the tokens involved -/
theorem expand_ofToks (ts : List Bytes) (hns : ∀ t ∈ ts, noSlash t)
    (hdec : ∀ t ∈ ts, Token.toString t = dec t) (v : Val) :
    expand (ofToks ts) v = expandSpec ts v :=
  expand_ofToks_aux ts.length ts rfl hns hdec v

/-- `assignValue` over a token list, with `expand` on the remaining *text* replaced by `expandSpec`
    on the remaining tokens and the key `Token.toString token` kept as in the model -/
def assignT : List Bytes → Val → Val → Nat → Nat → Val × Res AssignErr (Option Val)
  | [], dest, value, _, _ => (value, .ok (some dest))
  | token :: tail, dest, value, offset, position =>
    match dest with
    | .arr array =>
      match Token.toIndex token with
      | .err source => (dest, .err (.failedToParseIndex position offset source))
      | .panic m => (dest, .panic m)
      | .ok index =>
        match index.forLenIncl array.length with
        | .err source => (dest, .err (.outOfBounds position offset source))
        | .panic m => (dest, .panic m)
        | .ok idx =>
          match array[idx]? with
          | some elem =>
            if tail.isEmpty then (.arr (array.set idx value), .ok (some elem))
            else
              match assignT tail elem value (offset + (1 + token.length)) (position + 1) with
              | (elem', r) => (.arr (array.set idx elem'), r)
          | none => (.arr (array ++ [expandSpec tail value]), .ok none)
    | .obj obj =>
      let key := Token.toString token
      match lookup key obj with
      | some entry =>
        if tail.isEmpty then (.obj (replaceKey key value obj), .ok (some entry))
        else
          match assignT tail entry value (offset + (1 + token.length)) (position + 1) with
          | (entry', r) => (.obj (replaceKey key entry' obj), r)
      | none => (.obj (obj ++ [(key, expandSpec tail value)]), .ok none)
    | .scalar _ => (expandSpec (token :: tail) value, .ok (some dest))

theorem assignValue_none {ptr : Bytes} (h : splitFront ptr = none) (dest value : Val)
    (offset position : Nat) :
    assignValue ptr dest value offset position = (value, .ok (some dest)) := by
  rw [assignValue]
  split
  · rfl
  · rename_i h'; rw [h] at h'; cases h'

theorem assignValue_some {ptr token tail : Bytes} (h : splitFront ptr = some (token, tail))
    (dest value : Val) (offset position : Nat) :
    assignValue ptr dest value offset position =
    match dest with
    | .arr array =>
      match Token.toIndex token with
      | .err source => (dest, .err (.failedToParseIndex position offset source))
      | .panic m => (dest, .panic m)
      | .ok index =>
        match index.forLenIncl array.length with
        | .err source => (dest, .err (.outOfBounds position offset source))
        | .panic m => (dest, .panic m)
        | .ok idx =>
          match array[idx]? with
          | some elem =>
            if isRoot tail then (.arr (array.set idx value), .ok (some elem))
            else
              match assignValue tail elem value (offset + (1 + token.length)) (position + 1) with
              | (elem', r) => (.arr (array.set idx elem'), r)
          | none =>
            (.arr (array ++ [expand tail value]), .ok none)
    | .obj obj =>
      let key := Token.toString token
      match lookup key obj with
      | some entry =>
        if isRoot tail then (.obj (replaceKey key value obj), .ok (some entry))
        else
          match assignValue tail entry value (offset + (1 + token.length)) (position + 1) with
          | (entry', r) => (.obj (replaceKey key entry' obj), r)
      | none => (.obj (obj ++ [(key, expand tail value)]), .ok none)
    | .scalar _ =>
      (expand ptr value, .ok (some dest)) := by
  rw [assignValue]
  split
  · rename_i h'; rw [h] at h'; cases h'
  · rename_i t r h'
    rw [h] at h'
    cases h'
    rfl

theorem isRoot_ofToks (ts : List Bytes) : isRoot (ofToks ts) = ts.isEmpty := by
  cases ts <;> simp [isRoot, ofToks]
theorem assignValue_ofToks (ts : List Bytes) (hns : ∀ t ∈ ts, noSlash t)
    (hdec : ∀ t ∈ ts, Token.toString t = dec t) (dest value : Val) (offset position : Nat) :
    assignValue (ofToks ts) dest value offset position = assignT ts dest value offset position := by
  induction ts generalizing dest value offset position with
  | nil => rw [ofToks_nil, assignValue_none splitFront_nil]; rfl
  | cons t ts ih =>
    have ht : noSlash t := hns t (by simp)
    have hns' : ∀ u ∈ ts, noSlash u := fun u hu => hns u (by simp [hu])
    have hdec' : ∀ u ∈ ts, Token.toString u = dec u := fun u hu => hdec u (by simp [hu])
    have ih' := ih hns' hdec'
    rw [assignValue_some (splitFront_ofToks_cons t ts ht)]
    simp only [assignT, ih', isRoot_ofToks, expand_ofToks ts hns' hdec',
      expand_ofToks (t :: ts) hns hdec]

/-- on valid tokens the model's key (`Display`/`decoded`) is the spec's `dec` (restated from C03 so
    that the bridge does not depend on the C03 file) -/
theorem toString_eq_dec (t : Bytes) (h : validTok t = true) : Token.toString t = dec t := by
  unfold Token.toString; exact Jp.C03.decoded_eq_dec t h

theorem validNum_shape {t : Bytes} (h : validNum t = true) :
    t ≠ [] ∧ (∀ b ∈ t, isDigit b = true) ∧ (t = [48] ∨ t.head? ≠ some 48) ∧ parseNat t ≤ usizeMax := by
  simp only [validNum, Bool.or_eq_true, beq_iff_eq, Bool.and_eq_true,
      Bool.not_eq_true', List.all_eq_true, bne_iff_ne, decide_eq_true_eq] at h
  rcases h with rfl | ⟨⟨⟨hne, hd⟩, hz⟩, hm⟩
  · refine ⟨by simp, by simp [isDigit], Or.inl rfl, by decide⟩
  · exact ⟨by simpa using hne, hd, Or.inr hz, hm⟩

theorem validNum_ne_dash {t : Bytes} (h : validNum t = true) : t ≠ [45] := by
  rintro rfl
  have := (validNum_shape h).2.1 45 (by simp)
  simp [isDigit] at this

theorem validNum_decimal_parseNat {t : Bytes} (h : validNum t = true) : decimal (parseNat t) = t := by
  obtain ⟨hne, hd, hz, _⟩ := validNum_shape h
  rcases hz with rfl | hz
  · simp [parseNat, Jp.C16.decimal_zero]
  · exact Jp.C16.decimal_parseNat t hne hd hz

theorem pidx_num {t : Bytes} {n : Nat} (h : pidx t = .num n) : validNum t = true ∧ parseNat t = n := by
  unfold pidx at h
  split at h
  · cases h
  · split at h
    · rename_i hv; simp at h; exact ⟨hv, h⟩
    · cases h
/-- how the model reads a token as an index coincides with the spec's `pidx` -/
theorem toIndex_pidx (t : Bytes) :
    (match Token.toIndex t with
     | .ok .next => pidx t = .next
     | .ok (.num n) => pidx t = .num n
     | .err _ => pidx t = .bad
     | .panic _ => False) := by
  have e : Token.toIndex t = indexSpec t := Jp.C16.fromStr_eq_spec t
  have hiff := Jp.C16.fromStr_ok_iff t
  have hnp := Jp.C16.fromStr_no_panic t
  rw [← Jp.C16.toIndex_eq] at hiff hnp
  generalize hr : Token.toIndex t = r at *
  cases r with
  | ok i =>
    cases i with
    | next =>
      have := Jp.C16.spec_ok_next t e.symm
      subst this; simp [pidx]
    | num n =>
      obtain ⟨hne, hd, hz, hm, rfl⟩ := Jp.C16.spec_ok_num t n e.symm
      have hv : validIndexStr t = true := hiff.mp ⟨_, rfl⟩
      have h45 : t ≠ [45] := by
        rintro rfl
        have := hd 45 (by simp); simp [isDigit] at this
      have hv' : validNum t = true := by
        simpa [validIndexStr, h45] using hv
      simp [pidx, h45, hv']
  | err e' =>
    have hv : ¬ validIndexStr t = true := by
      intro hv; obtain ⟨i, hi⟩ := hiff.mpr hv; cases hi
    simp only [validIndexStr, Bool.or_eq_true, beq_iff_eq, not_or] at hv
    simp [pidx, hv.1, hv.2]
  | panic m => exact hnp m rfl

/-- canonical indices: two tokens that read as the same number are equal -/
theorem pidx_num_inj (t u : Bytes) (n : Nat) (ht : pidx t = .num n) (hu : pidx u = .num n) : t = u := by
  obtain ⟨h1, h2⟩ := pidx_num ht
  obtain ⟨h3, h4⟩ := pidx_num hu
  rw [← validNum_decimal_parseNat h1, ← validNum_decimal_parseNat h3, h2, h4]

theorem pidx_decimal (n : Nat) (h : n ≤ usizeMax) : pidx (decimal n) = .num n := by
  have hv : validNum (decimal n) = true := by
    rcases Nat.eq_zero_or_pos n with rfl | hn
    · rw [Jp.C16.decimal_zero]; decide
    · have h1 := Jp.C16.decimal_ne_nil n
      have h2 := Jp.C16.decimal_all_digit n
      have h3 := Jp.C16.decimal_head n hn
      simp only [validNum, Bool.or_eq_true, beq_iff_eq, Bool.and_eq_true,
        Bool.not_eq_true', List.all_eq_true, bne_iff_ne, decide_eq_true_eq]
      right
      refine ⟨⟨⟨by simpa using h1, h2⟩, h3⟩, by rw [Jp.C16.parseNat_decimal]; exact h⟩
  have h45 := validNum_ne_dash hv
  simp [pidx, h45, hv, Jp.C16.parseNat_decimal]

theorem pidx_next_iff (t : Bytes) : pidx t = .next ↔ t = [45] := by
  unfold pidx
  split
  · simp_all
  · split <;> simp_all

/-- `dec` is injective on valid tokens -/
theorem dec_inj_valid (t u : Bytes) (ht : validTok t = true) (hu : validTok u = true)
    (h : dec t = dec u) : t = u := by
  have := congrArg enc h
  rwa [Jp.C03.enc_dec t ht, Jp.C03.enc_dec u hu] at this

end Jp
