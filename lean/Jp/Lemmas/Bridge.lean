import Jp.Lemmas.Valid
/-
  Jp.Lemmas.Bridge — the text-level walks of the model (`resolveLoop`, `resolveMutLoop`, `expand`,
  `assignValue`, all driven by `split_front` / `split_back` on the pointer *text*) restated as
  structural recursions over the token list. The three `_ofToks` theorems are the refinement steps;
  everything in the tree-layer property files is then an induction over token lists.
-/
namespace Jp
open Jp.Spec

/-- `resolveLoop` over a token list: same state `(value, offset, position, loc)` -/
def resolveT : List Bytes → Val → Nat → Nat → Loc → Res ResolveErr (Loc × Val)
  | [], value, _, _, loc => .ok (loc, value)
  | token :: rest, value, offset, position, loc =>
    match value with
    | .arr v =>
      match Token.toIndex token with
      | .err source => .err (.failedToParseIndex position offset source)
      | .panic m => .panic m
      | .ok index =>
        match index.forLen v.length with
        | .err source => .err (.outOfBounds position offset source)
        | .panic m => .panic m
        | .ok idx =>
          match v[idx]? with
          | some c => resolveT rest c (offset + (1 + token.length)) (position + 1) (loc ++ [.idx idx])
          | none => .panic "index out of bounds: v[idx]"
    | .obj v =>
      match lookup (Token.decoded token).bytes v with
      | some c =>
        resolveT rest c (offset + (1 + token.length)) (position + 1)
          (loc ++ [.key (Token.decoded token).bytes])
      | none => .err (.notFound position offset)
    | .scalar _ => .err (.unreachable position offset)

theorem resolveLoop_ofToks (ts : List Bytes) (hns : ∀ t ∈ ts, noSlash t) (v : Val)
    (offset position : Nat) (loc : Loc) :
    resolveLoop (ofToks ts) v offset position loc = resolveT ts v offset position loc := by
  sorry

theorem resolveMutLoop_ofToks (ts : List Bytes) (hns : ∀ t ∈ ts, noSlash t) (v : Val)
    (offset position : Nat) (loc : Loc) :
    resolveMutLoop (ofToks ts) v offset position loc = resolveT ts v offset position loc := by
  sorry

/-- `resolve_mut` reaches the same node as `resolve`, for every pointer text (C09) -/
theorem resolveMutLoop_eq_resolveLoop (p : Bytes) (v : Val) (offset position : Nat) (loc : Loc) :
    resolveMutLoop p v offset position loc = resolveLoop p v offset position loc := by
  sorry

/-- the model's `expand` (folding from the back with `split_back`) is the front-to-back `expandSpec`,
    provided the object keys agree: `Token.toString t = dec t` on the tokens involved -/
theorem expand_ofToks (ts : List Bytes) (hns : ∀ t ∈ ts, noSlash t)
    (hdec : ∀ t ∈ ts, Token.toString t = dec t) (v : Val) :
    expand (ofToks ts) v = expandSpec ts v := by
  sorry

/-- `assignValue` over a token list, with `expand` on the remaining *text* replaced by `expandSpec`
    on the remaining tokens and the key `Token.toString token` kept as in the model -/
def assignT : List Bytes → Val → Val → Nat → Nat → Val × Res AssignErr (Option Val)
  | [], dest, value, _, _ => (value, .ok (some dest))
  | token :: tail, dest, value, offset, position =>
    match dest with
    | .arr array =>
      match Token.toIndex token with
      | .err source => (dest, .err (.failedToParseIndex position offset source))
      | .panic m => (dest, .panic m)
      | .ok index =>
        match index.forLenIncl array.length with
        | .err source => (dest, .err (.outOfBounds position offset source))
        | .panic m => (dest, .panic m)
        | .ok idx =>
          match array[idx]? with
          | some elem =>
            if tail.isEmpty then (.arr (array.set idx value), .ok (some elem))
            else
              match assignT tail elem value (offset + (1 + token.length)) (position + 1) with
              | (elem', r) => (.arr (array.set idx elem'), r)
          | none => (.arr (array ++ [expandSpec tail value]), .ok none)
    | .obj obj =>
      let key := Token.toString token
      match lookup key obj with
      | some entry =>
        if tail.isEmpty then (.obj (replaceKey key value obj), .ok (some entry))
        else
          match assignT tail entry value (offset + (1 + token.length)) (position + 1) with
          | (entry', r) => (.obj (replaceKey key entry' obj), r)
      | none => (.obj (obj ++ [(key, expandSpec tail value)]), .ok none)
    | .scalar _ => (expandSpec (token :: tail) value, .ok (some dest))

theorem assignValue_ofToks (ts : List Bytes) (hns : ∀ t ∈ ts, noSlash t)
    (hdec : ∀ t ∈ ts, Token.toString t = dec t) (dest value : Val) (offset position : Nat) :
    assignValue (ofToks ts) dest value offset position = assignT ts dest value offset position := by
  sorry

/-- on valid tokens the model's key (`Display`/`decoded`) is the spec's `dec` (restated from C03 so
    that the bridge does not depend on the C03 file) -/
theorem toString_eq_dec (t : Bytes) (h : validTok t = true) : Token.toString t = dec t := by
  sorry

/-- how the model reads a token as an index coincides with the spec's `pidx` -/
theorem toIndex_pidx (t : Bytes) :
    (match Token.toIndex t with
     | .ok .next => pidx t = .next
     | .ok (.num n) => pidx t = .num n
     | .err _ => pidx t = .bad
     | .panic _ => False) := by
  sorry

/-- canonical indices: two tokens that read as the same number are equal -/
theorem pidx_num_inj (t u : Bytes) (n : Nat) (ht : pidx t = .num n) (hu : pidx u = .num n) : t = u := by
  sorry

theorem pidx_decimal (n : Nat) (h : n ≤ usizeMax) : pidx (decimal n) = .num n := by
  sorry

theorem pidx_next_iff (t : Bytes) : pidx t = .next ↔ t = [45] := by
  sorry

/-- `dec` is injective on valid tokens -/
theorem dec_inj_valid (t u : Bytes) (ht : validTok t = true) (hu : validTok u = true)
    (h : dec t = dec u) : t = u := by
  sorry

end Jp
