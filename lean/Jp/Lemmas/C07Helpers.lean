import Jp.Lemmas.Bridge
/-
  Helper lemmas for Jp/Props/C07.lean (same namespace `Jp.C07`).
  Everything here is auxiliary: the property theorems themselves (the `-- OBLIGATIONS` list) are
  stated and proved in Jp/Props/C07.lean, which imports this module. Definitions that both a helper
  and a property statement need live here and are referred to by a comment in the Props file.
-/
namespace Jp.C07
open Jp Jp.Spec

/-- "nothing that existed was overwritten": every location of `D` still exists in `D'`, scalars are
    unchanged, containers keep their kind (arrays may only grow) -/
def Preserved (D D' : Val) : Prop :=
  ∀ l n, D.at l = some n → ∃ n', D'.at l = some n' ∧
    (match n with
     | .scalar a => n' = .scalar a
     | .arr xs => ∃ ys, n' = .arr ys ∧ xs.length ≤ ys.length
     | .obj _ => ∃ kvs', n' = .obj kvs')

/-! ### list / association-list facts -/

theorem set_self {α : Type} (xs : List α) (i : Nat) (c : α) (h : xs[i]? = some c) : xs.set i c = xs := by
  induction xs generalizing i with
  | nil => simp
  | cons x xs ih =>
    cases i with
    | zero => simp at h; simp [h]
    | succ i => simp at h; simp [ih i h]

theorem replaceKey_self (k : Bytes) (c : Val) (kvs : List (Bytes × Val)) (h : lookup k kvs = some c) :
    replaceKey k c kvs = kvs := by
  induction kvs with
  | nil => simp [lookup] at h
  | cons kv kvs ih =>
    obtain ⟨k', v'⟩ := kv
    simp only [lookup] at h
    simp only [replaceKey]
    split at h
    · rename_i hk; simp at h; simp [hk, h]
    · rename_i hk; simp [hk, ih h]

theorem lookup_replaceKey_self (k : Bytes) (x c : Val) (kvs : List (Bytes × Val))
    (h : lookup k kvs = some c) : lookup k (replaceKey k x kvs) = some x := by
  induction kvs with
  | nil => simp [lookup] at h
  | cons kv kvs ih =>
    obtain ⟨k', v'⟩ := kv
    simp only [lookup] at h
    simp only [replaceKey]
    split at h
    · rename_i hk; simp [hk, lookup]
    · rename_i hk; simp [hk, lookup, ih h]

theorem lookup_replaceKey_ne (k k2 : Bytes) (x : Val) (kvs : List (Bytes × Val)) (hne : k2 ≠ k) :
    lookup k2 (replaceKey k x kvs) = lookup k2 kvs := by
  induction kvs with
  | nil => simp [replaceKey]
  | cons kv kvs ih =>
    obtain ⟨k', v'⟩ := kv
    simp only [replaceKey]
    split
    · rename_i hk; subst hk; simp [lookup, hne]
    · simp [lookup, ih]

theorem replaceKey_replaceKey (k : Bytes) (x y : Val) (kvs : List (Bytes × Val)) :
    replaceKey k x (replaceKey k y kvs) = replaceKey k x kvs := by
  induction kvs with
  | nil => simp [replaceKey]
  | cons kv kvs ih =>
    obtain ⟨k', v'⟩ := kv
    simp only [replaceKey]
    split
    · rename_i hk; simp [replaceKey, hk]
    · rename_i hk; simp [replaceKey, hk, ih]

theorem lookup_append_some (k : Bytes) (c : Val) (kvs r : List (Bytes × Val))
    (h : lookup k kvs = some c) : lookup k (kvs ++ r) = some c := by
  induction kvs with
  | nil => simp [lookup] at h
  | cons kv kvs ih =>
    obtain ⟨k', v'⟩ := kv
    simp only [lookup, List.cons_append] at h ⊢
    split
    · rename_i hk; simpa [hk] using h
    · rename_i hk; simp only [hk, if_false] at h; exact ih h

theorem lookup_append_none (k : Bytes) (kvs r : List (Bytes × Val))
    (h : lookup k kvs = none) : lookup k (kvs ++ r) = lookup k r := by
  induction kvs with
  | nil => simp
  | cons kv kvs ih =>
    obtain ⟨k', v'⟩ := kv
    simp only [lookup, List.cons_append] at h ⊢
    split
    · rename_i hk; simp [hk] at h
    · rename_i hk; simp only [hk, if_false] at h; exact ih h

theorem lookup_snoc_self (k : Bytes) (x : Val) (kvs : List (Bytes × Val)) (h : lookup k kvs = none) :
    lookup k (kvs ++ [(k, x)]) = some x := by
  rw [lookup_append_none k kvs _ h]; simp [lookup]

/-! ### the structural walks against the declarative ones -/

theorem assignT_isEmpty (ts : List Bytes) (c v : Val) (o pos : Nat) (f : Val → Val) :
    (if ts.isEmpty = true then (f v, (Res.ok (some c) : Res AssignErr (Option Val)))
      else match assignT ts c v o pos with | (c', r) => (f c', r))
    = (f (assignT ts c v o pos).1, (assignT ts c v o pos).2) := by
  cases ts with
  | nil => simp [assignT]
  | cons u us => simp

/-- the structural `assignT` against the declarative `assignSpec` -/
theorem assignT_spec (ts : List Bytes) (hdec : ∀ t ∈ ts, Token.toString t = dec t) (d v : Val)
    (o pos : Nat) :
    (match assignSpec d ts v with
     | .ok (D', r) => assignT ts d v o pos = (D', .ok r)
     | .err _ => ∃ e, assignT ts d v o pos = (d, .err e)
     | .panic _ => False) := by
  induction ts generalizing d o pos with
  | nil => simp [assignSpec, assignT]
  | cons t ts ih =>
    have hd : Token.toString t = dec t := hdec t (by simp)
    have ih' := ih (fun u hu => hdec u (by simp [hu]))
    cases d with
    | scalar a => simp [assignSpec, assignT]
    | obj kvs =>
      simp only [assignSpec, assignT, hd]
      cases hl : lookup (dec t) kvs with
      | none => simp
      | some c =>
        simp only []
        rw [assignT_isEmpty ts c v _ _ (fun c' => Val.obj (replaceKey (dec t) c' kvs))]
        have := ih' c (o + (1 + t.length)) (pos + 1)
        cases hs : assignSpec c ts v with
        | ok dr =>
          obtain ⟨c', r⟩ := dr
          rw [hs] at this
          simp only [] at this
          simp [this]
        | err k =>
          rw [hs] at this
          obtain ⟨e, he⟩ := this
          simp [he, replaceKey_self _ _ _ hl]
        | panic m => rw [hs] at this; exact this.elim
    | arr xs =>
      have hti := toIndex_pidx t
      simp only [assignSpec, assignT]
      cases hi : Token.toIndex t with
      | err e => rw [hi] at hti; simp only [] at hti; simp [hti]
      | panic m => rw [hi] at hti; exact hti.elim
      | ok i =>
        rw [hi] at hti
        cases i with
        | next => simp only [] at hti; simp [hti, Index.forLenIncl]
        | num n =>
          simp only [] at hti
          simp only [hti, Index.forLenIncl]
          by_cases hn : n ≤ xs.length
          · simp only [hn, if_true]
            cases hx : xs[n]? with
            | none =>
              have : n = xs.length := by
                have := List.getElem?_eq_none_iff.mp hx; omega
              simp [this]
            | some c =>
              simp only []
              rw [assignT_isEmpty ts c v _ _ (fun c' => Val.arr (xs.set n c'))]
              have := ih' c (o + (1 + t.length)) (pos + 1)
              cases hs : assignSpec c ts v with
              | ok dr =>
                obtain ⟨c', r⟩ := dr
                rw [hs] at this
                simp only [] at this
                simp [this]
              | err k =>
                rw [hs] at this
                obtain ⟨e, he⟩ := this
                simp [he, set_self _ _ _ hx]
              | panic m => rw [hs] at this; exact this.elim
          · have hx : xs[n]? = none := List.getElem?_eq_none_iff.mpr (by omega)
            have hne : n ≠ xs.length := by omega
            simp [hn, hx, hne]

theorem resolveT_walk (ts : List Bytes) (hdec : ∀ t ∈ ts, Token.toString t = dec t) (v : Val)
    (o pos : Nat) (loc : Loc) :
    (match walk v ts with
     | .ok (l, w) => resolveT ts v o pos loc = .ok (loc ++ l, w)
     | .err _ => ∃ e, resolveT ts v o pos loc = .err e
     | .panic _ => False) := by
  induction ts generalizing v o pos loc with
  | nil => simp [walk, resolveT]
  | cons t ts ih =>
    have hd : (Token.decoded t).bytes = dec t := hdec t (by simp)
    have ih' := ih (fun u hu => hdec u (by simp [hu]))
    cases v with
    | scalar a => simp [walk, resolveT]
    | obj kvs =>
      simp only [walk, resolveT, hd]
      cases hl : lookup (dec t) kvs with
      | none => simp
      | some c =>
        simp only []
        have := ih' c (o + (1 + t.length)) (pos + 1) (loc ++ [.key (dec t)])
        cases hs : walk c ts with
        | ok lw => obtain ⟨l, w⟩ := lw; rw [hs] at this; simp only [] at this; simp [this]
        | err ke => obtain ⟨k, e⟩ := ke; rw [hs] at this; simpa using this
        | panic m => rw [hs] at this; exact this.elim
    | arr xs =>
      have hti := toIndex_pidx t
      simp only [walk, resolveT]
      cases hi : Token.toIndex t with
      | err e => rw [hi] at hti; simp only [] at hti; simp [hti]
      | panic m => rw [hi] at hti; exact hti.elim
      | ok i =>
        rw [hi] at hti
        cases i with
        | next => simp only [] at hti; simp [hti, Index.forLen]
        | num n =>
          simp only [] at hti
          simp only [hti, Index.forLen]
          by_cases hn : n < xs.length
          · simp only [hn, if_true]
            have hx : xs[n]? = some xs[n] := List.getElem?_eq_getElem hn
            rw [hx]
            simp only []
            have := ih' xs[n] (o + (1 + t.length)) (pos + 1) (loc ++ [.idx n])
            cases hs : walk xs[n] ts with
            | ok lw => obtain ⟨l, w⟩ := lw; rw [hs] at this; simp only [] at this; simp [this]
            | err ke => obtain ⟨k, e⟩ := ke; rw [hs] at this; simpa using this
            | panic m => rw [hs] at this; exact this.elim
          · have hx : xs[n]? = none := List.getElem?_eq_none_iff.mpr (by omega)
            simp [hn]

/-! ### inversion of the declarative walks -/

theorem assignSpec_arr_inv {xs : List Val} {t : Bytes} {ts : List Bytes} {v d' : Val} {r : Option Val}
    (h : assignSpec (.arr xs) (t :: ts) v = .ok (d', r)) :
    ((pidx t = .next ∨ pidx t = .num xs.length) ∧ d' = .arr (xs ++ [expandSpec ts v]) ∧ r = none) ∨
    (∃ i c c', pidx t = .num i ∧ xs[i]? = some c ∧ assignSpec c ts v = .ok (c', r) ∧
      d' = .arr (xs.set i c')) := by
  simp only [assignSpec] at h
  cases hp : pidx t with
  | bad => rw [hp] at h; simp at h
  | next => rw [hp] at h; simp at h; left; simp [h.1, h.2]
  | num i =>
    rw [hp] at h
    simp only [] at h
    cases hx : xs[i]? with
    | none =>
      rw [hx] at h; simp only [] at h
      split at h
      · rename_i hi; subst hi; simp at h; left; simp [h.1, h.2]
      · simp at h
    | some c =>
      rw [hx] at h; simp only [] at h
      cases hs : assignSpec c ts v with
      | ok dr =>
        obtain ⟨c', r'⟩ := dr; rw [hs] at h; simp at h
        right; exact ⟨i, c, c', rfl, hx, by rw [hs, h.2], h.1.symm⟩
      | err e => rw [hs] at h; simp at h
      | panic m => rw [hs] at h; simp at h

theorem assignSpec_obj_inv {kvs : List (Bytes × Val)} {t : Bytes} {ts : List Bytes} {v d' : Val}
    {r : Option Val} (h : assignSpec (.obj kvs) (t :: ts) v = .ok (d', r)) :
    (lookup (dec t) kvs = none ∧ d' = .obj (kvs ++ [(dec t, expandSpec ts v)]) ∧ r = none) ∨
    (∃ c c', lookup (dec t) kvs = some c ∧ assignSpec c ts v = .ok (c', r) ∧
      d' = .obj (replaceKey (dec t) c' kvs)) := by
  simp only [assignSpec] at h
  cases hl : lookup (dec t) kvs with
  | none => rw [hl] at h; simp at h; left; simp [h.1, h.2]
  | some c =>
    rw [hl] at h; simp only [] at h
    cases hs : assignSpec c ts v with
    | ok dr =>
      obtain ⟨c', r'⟩ := dr; rw [hs] at h; simp at h
      right; exact ⟨c, c', rfl, by rw [hs, h.2], h.1.symm⟩
    | err e => rw [hs] at h; simp at h
    | panic m => rw [hs] at h; simp at h

theorem assignSpec_scalar_inv {a : Bytes} {t : Bytes} {ts : List Bytes} {v d' : Val} {r : Option Val}
    (h : assignSpec (.scalar a) (t :: ts) v = .ok (d', r)) :
    d' = expandSpec (t :: ts) v ∧ r = some (.scalar a) := by
  simp [assignSpec] at h; simp [h.1, h.2]

theorem assignSpec_nil_inv {d v d' : Val} {r : Option Val}
    (h : assignSpec d [] v = .ok (d', r)) : d' = v ∧ r = some d := by
  simp [assignSpec] at h; simp [h.1, h.2]

theorem assignSpec_arr_hit {xs : List Val} {t : Bytes} {ts : List Bytes} {v c c' : Val} {i : Nat}
    {r : Option Val} (hp : pidx t = .num i) (hx : xs[i]? = some c)
    (hs : assignSpec c ts v = .ok (c', r)) :
    assignSpec (.arr xs) (t :: ts) v = .ok (.arr (xs.set i c'), r) := by
  simp [assignSpec, hp, hx, hs]

theorem assignSpec_obj_hit {kvs : List (Bytes × Val)} {t : Bytes} {ts : List Bytes} {v c c' : Val}
    {r : Option Val} (hl : lookup (dec t) kvs = some c)
    (hs : assignSpec c ts v = .ok (c', r)) :
    assignSpec (.obj kvs) (t :: ts) v = .ok (.obj (replaceKey (dec t) c' kvs), r) := by
  simp [assignSpec, hl, hs]

theorem walk_arr_inv {xs : List Val} {t : Bytes} {ts : List Bytes} {l : Loc} {w : Val}
    (h : walk (.arr xs) (t :: ts) = .ok (l, w)) :
    ∃ i c l', pidx t = .num i ∧ xs[i]? = some c ∧ walk c ts = .ok (l', w) ∧ l = .idx i :: l' := by
  simp only [walk] at h
  cases hp : pidx t with
  | bad => rw [hp] at h; simp at h
  | next => rw [hp] at h; simp at h
  | num i =>
    rw [hp] at h; simp only [] at h
    cases hx : xs[i]? with
    | none => rw [hx] at h; simp at h
    | some c =>
      rw [hx] at h; simp only [] at h
      cases hs : walk c ts with
      | ok lw =>
        obtain ⟨l', w'⟩ := lw; rw [hs] at h; simp at h
        exact ⟨i, c, l', rfl, hx, by rw [hs, h.2], h.1.symm⟩
      | err ke => obtain ⟨k, e⟩ := ke; rw [hs] at h; simp at h
      | panic m => rw [hs] at h; simp at h

theorem walk_obj_inv {kvs : List (Bytes × Val)} {t : Bytes} {ts : List Bytes} {l : Loc} {w : Val}
    (h : walk (.obj kvs) (t :: ts) = .ok (l, w)) :
    ∃ c l', lookup (dec t) kvs = some c ∧ walk c ts = .ok (l', w) ∧ l = .key (dec t) :: l' := by
  simp only [walk] at h
  cases hl : lookup (dec t) kvs with
  | none => rw [hl] at h; simp at h
  | some c =>
    rw [hl] at h; simp only [] at h
    cases hs : walk c ts with
    | ok lw =>
      obtain ⟨l', w'⟩ := lw; rw [hs] at h; simp at h
      exact ⟨c, l', rfl, by rw [hs, h.2], h.1.symm⟩
    | err ke => obtain ⟨k, e⟩ := ke; rw [hs] at h; simp at h
    | panic m => rw [hs] at h; simp at h

theorem walk_arr_hit {xs : List Val} {t : Bytes} {ts : List Bytes} {l : Loc} {c w : Val} {i : Nat}
    (hp : pidx t = .num i) (hx : xs[i]? = some c) (hs : walk c ts = .ok (l, w)) :
    walk (.arr xs) (t :: ts) = .ok (.idx i :: l, w) := by
  simp [walk, hp, hx, hs]

theorem walk_obj_hit {kvs : List (Bytes × Val)} {t : Bytes} {ts : List Bytes} {l : Loc} {c w : Val}
    (hl : lookup (dec t) kvs = some c) (hs : walk c ts = .ok (l, w)) :
    walk (.obj kvs) (t :: ts) = .ok (.key (dec t) :: l, w) := by
  simp [walk, hl, hs]

/-! ### the properties on the declarative level -/

theorem pidx_zero : pidx [48] = .num 0 := by simp [pidx, validNum, parseNat]
theorem pidx_dash : pidx [45] = .next := by simp [pidx]

theorem walkDash_expandSpec (ts : List Bytes) (v : Val) : walkDash (expandSpec ts v) ts = some v := by
  induction ts with
  | nil => simp [expandSpec, walkDash]
  | cons t ts ih =>
    simp only [expandSpec]
    split
    · rename_i h
      rcases h with rfl | rfl
      · simp [walkDash, pidx_zero, ih]
      · simp [walkDash, pidx_dash, ih]
    · simp [walkDash, lookup, ih]

theorem ryw_spec (ts : List Bytes) (d v d' : Val) (r : Option Val)
    (h : assignSpec d ts v = .ok (d', r)) : walkDash d' ts = some v := by
  induction ts generalizing d d' r with
  | nil => obtain ⟨rfl, _⟩ := assignSpec_nil_inv h; simp [walkDash]
  | cons t ts ih =>
    cases d with
    | scalar a => obtain ⟨rfl, _⟩ := assignSpec_scalar_inv h; exact walkDash_expandSpec _ _
    | obj kvs =>
      rcases assignSpec_obj_inv h with ⟨hl, rfl, _⟩ | ⟨c, c', hl, hs, rfl⟩
      · simp [walkDash, lookup_snoc_self _ _ _ hl, walkDash_expandSpec]
      · simp [walkDash, lookup_replaceKey_self _ _ _ _ hl, ih _ _ _ hs]
    | arr xs =>
      rcases assignSpec_arr_inv h with ⟨hp, rfl, _⟩ | ⟨i, c, c', hp, hx, hs, rfl⟩
      · rcases hp with hp | hp
        · simp [walkDash, hp, walkDash_expandSpec]
        · simp [walkDash, hp, walkDash_expandSpec]
      · have hi : i < xs.length := (List.getElem?_eq_some_iff.mp hx).1
        simp [walkDash, hp, hi, ih _ _ _ hs]

theorem replaced_some_spec (ts : List Bytes) (d v : Val) (l : Loc) (w : Val)
    (h : walk d ts = .ok (l, w)) : ∃ d', assignSpec d ts v = .ok (d', some w) := by
  induction ts generalizing d l with
  | nil => simp [walk] at h; simp [assignSpec, h.2]
  | cons t ts ih =>
    cases d with
    | scalar a => simp [walk] at h
    | obj kvs =>
      obtain ⟨c, l', hl, hs, _⟩ := walk_obj_inv h
      obtain ⟨c', hc⟩ := ih c l' hs
      exact ⟨_, assignSpec_obj_hit hl hc⟩
    | arr xs =>
      obtain ⟨i, c, l', hp, hx, hs, _⟩ := walk_arr_inv h
      obtain ⟨c', hc⟩ := ih c l' hs
      exact ⟨_, assignSpec_arr_hit hp hx hc⟩

theorem assignSpec_expandSpec (ts : List Bytes) (v : Val) (hd : ∀ t ∈ ts, t ≠ [45]) :
    assignSpec (expandSpec ts v) ts v = .ok (expandSpec ts v, some v) := by
  induction ts with
  | nil => simp [expandSpec, assignSpec]
  | cons t ts ih =>
    have ih' := ih (fun u hu => hd u (by simp [hu]))
    have ht : t ≠ [45] := hd t (by simp)
    simp only [expandSpec]
    split
    · rename_i h
      rcases h with rfl | rfl
      · simp [assignSpec, pidx_zero, ih']
      · exact absurd rfl ht
    · simp [assignSpec, lookup, ih', replaceKey]

theorem idem_spec (ts : List Bytes) (d v d' : Val) (r : Option Val) (hd : ∀ t ∈ ts, t ≠ [45])
    (h : assignSpec d ts v = .ok (d', r)) : assignSpec d' ts v = .ok (d', some v) := by
  induction ts generalizing d d' r with
  | nil => obtain ⟨rfl, _⟩ := assignSpec_nil_inv h; simp [assignSpec]
  | cons t ts ih =>
    have hd' : ∀ u ∈ ts, u ≠ [45] := fun u hu => hd u (by simp [hu])
    have ht : t ≠ [45] := hd t (by simp)
    have hnn : pidx t ≠ .next := fun hp => ht ((pidx_next_iff t).mp hp)
    cases d with
    | scalar a => obtain ⟨rfl, _⟩ := assignSpec_scalar_inv h; exact assignSpec_expandSpec _ _ hd
    | obj kvs =>
      rcases assignSpec_obj_inv h with ⟨hl, rfl, _⟩ | ⟨c, c', hl, hs, rfl⟩
      · have hl' := lookup_snoc_self (dec t) (expandSpec ts v) kvs hl
        rw [assignSpec_obj_hit hl' (assignSpec_expandSpec ts v hd'), replaceKey_self _ _ _ hl']
      · have hl' := lookup_replaceKey_self (dec t) c' c kvs hl
        rw [assignSpec_obj_hit hl' (ih _ _ _ hd' hs), replaceKey_replaceKey]
    | arr xs =>
      rcases assignSpec_arr_inv h with ⟨hp, rfl, _⟩ | ⟨i, c, c', hp, hx, hs, rfl⟩
      · rcases hp with hp | hp
        · exact absurd hp hnn
        · have hx' : (xs ++ [expandSpec ts v])[xs.length]? = some (expandSpec ts v) := by simp
          rw [assignSpec_arr_hit hp hx' (assignSpec_expandSpec ts v hd'), set_self _ _ _ hx']
      · have hi : i < xs.length := (List.getElem?_eq_some_iff.mp hx).1
        have hx' : (xs.set i c')[i]? = some c' := by simp [hi]
        rw [assignSpec_arr_hit hp hx' (ih _ _ _ hd' hs), List.set_set]

theorem rel_refl (n : Val) :
    (match n with
     | .scalar a => n = .scalar a
     | .arr xs => ∃ ys, n = .arr ys ∧ xs.length ≤ ys.length
     | .obj _ => ∃ kvs', n = .obj kvs') := by
  cases n <;> simp

theorem replaced_none_spec (ts : List Bytes) (d v d' : Val)
    (h : assignSpec d ts v = .ok (d', none)) : Preserved d d' := by
  induction ts generalizing d d' with
  | nil => obtain ⟨_, hr⟩ := assignSpec_nil_inv h; cases hr
  | cons t ts ih =>
    cases d with
    | scalar a => obtain ⟨_, hr⟩ := assignSpec_scalar_inv h; cases hr
    | obj kvs =>
      rcases assignSpec_obj_inv h with ⟨hl, rfl, _⟩ | ⟨c, c', hl, hs, rfl⟩
      · intro l n hat
        cases l with
        | nil => simp [Val.at] at hat ⊢; subst hat; simp
        | cons s l' =>
          cases s with
          | idx j => simp [Val.at] at hat
          | key k2 =>
            simp only [Val.at] at hat ⊢
            cases hl2 : lookup k2 kvs with
            | none => rw [hl2] at hat; cases hat
            | some c2 =>
              rw [hl2] at hat
              rw [lookup_append_some _ _ _ _ hl2]
              exact ⟨n, hat, rel_refl n⟩
      · have ihc := ih c c' hs
        intro l n hat
        cases l with
        | nil => simp [Val.at] at hat ⊢; subst hat; simp
        | cons s l' =>
          cases s with
          | idx j => simp [Val.at] at hat
          | key k2 =>
            simp only [Val.at] at hat ⊢
            by_cases hk : k2 = dec t
            · subst hk
              rw [hl] at hat
              rw [lookup_replaceKey_self _ _ _ _ hl]
              exact ihc l' n hat
            · rw [lookup_replaceKey_ne _ _ _ _ hk]
              cases hl2 : lookup k2 kvs with
              | none => rw [hl2] at hat; cases hat
              | some c2 => rw [hl2] at hat; exact ⟨n, hat, rel_refl n⟩
    | arr xs =>
      rcases assignSpec_arr_inv h with ⟨_, rfl, _⟩ | ⟨i, c, c', hp, hx, hs, rfl⟩
      · intro l n hat
        cases l with
        | nil => simp [Val.at] at hat ⊢; subst hat; simp
        | cons s l' =>
          cases s with
          | key k2 => simp [Val.at] at hat
          | idx j =>
            simp only [Val.at] at hat ⊢
            cases hx2 : xs[j]? with
            | none => rw [hx2] at hat; cases hat
            | some c2 =>
              rw [hx2] at hat
              have hj : j < xs.length := (List.getElem?_eq_some_iff.mp hx2).1
              rw [List.getElem?_append_left hj, hx2]
              exact ⟨n, hat, rel_refl n⟩
      · have ihc := ih c c' hs
        have hi : i < xs.length := (List.getElem?_eq_some_iff.mp hx).1
        intro l n hat
        cases l with
        | nil => simp [Val.at] at hat ⊢; subst hat; simp
        | cons s l' =>
          cases s with
          | key k2 => simp [Val.at] at hat
          | idx j =>
            simp only [Val.at] at hat ⊢
            by_cases hj : j = i
            · subst hj
              rw [hx] at hat
              have : (xs.set j c')[j]? = some c' := by simp [hi]
              rw [this]
              exact ihc l' n hat
            · rw [List.getElem?_set_ne (Ne.symm hj)]
              cases hx2 : xs[j]? with
              | none => rw [hx2] at hat; cases hat
              | some c2 => rw [hx2] at hat; exact ⟨n, hat, rel_refl n⟩

theorem frame_spec (ps qs : List Bytes) (d v d' : Val) (r : Option Val) (l : Loc) (w : Val)
    (hvp : ∀ t ∈ ps, validTok t = true) (hvq : ∀ t ∈ qs, validTok t = true)
    (h : assignSpec d ps v = .ok (d', r))
    (hon : ¬ qs <+: ps) (hbelow : ¬ ps <+: qs)
    (hw : walk d qs = .ok (l, w)) : walk d' qs = .ok (l, w) := by
  induction ps generalizing qs d d' r l with
  | nil => exact absurd List.nil_prefix hbelow
  | cons tp ps ih =>
    cases qs with
    | nil => exact absurd List.nil_prefix hon
    | cons tq qs =>
      have hvp' : ∀ u ∈ ps, validTok u = true := fun u hu => hvp u (by simp [hu])
      have hvq' : ∀ u ∈ qs, validTok u = true := fun u hu => hvq u (by simp [hu])
      have htp : validTok tp = true := hvp tp (by simp)
      have htq : validTok tq = true := hvq tq (by simp)
      cases d with
      | scalar a => simp [walk] at hw
      | obj kvs =>
        obtain ⟨c2, l', hl2, hs2, rfl⟩ := walk_obj_inv hw
        rcases assignSpec_obj_inv h with ⟨hl, rfl, _⟩ | ⟨c, c', hl, hs, rfl⟩
        · exact walk_obj_hit (lookup_append_some _ _ _ _ hl2) hs2
        · by_cases he : tq = tp
          · subst he
            rw [hl] at hl2; cases hl2
            have hon' : ¬ qs <+: ps := fun hpre => hon (List.cons_prefix_cons.mpr ⟨rfl, hpre⟩)
            have hbelow' : ¬ ps <+: qs := fun hpre => hbelow (List.cons_prefix_cons.mpr ⟨rfl, hpre⟩)
            exact walk_obj_hit (lookup_replaceKey_self _ _ _ _ hl)
              (ih qs _ c' r l' hvp' hvq' hs hon' hbelow' hs2)
          · have hk : dec tq ≠ dec tp := fun hk => he (dec_inj_valid tq tp htq htp hk)
            exact walk_obj_hit (by rw [lookup_replaceKey_ne _ _ _ _ hk]; exact hl2) hs2
      | arr xs =>
        obtain ⟨j, c2, l', hpq, hx2, hs2, rfl⟩ := walk_arr_inv hw
        have hj : j < xs.length := (List.getElem?_eq_some_iff.mp hx2).1
        rcases assignSpec_arr_inv h with ⟨_, rfl, _⟩ | ⟨i, c, c', hp, hx, hs, rfl⟩
        · exact walk_arr_hit hpq (by rw [List.getElem?_append_left hj]; exact hx2) hs2
        · have hi : i < xs.length := (List.getElem?_eq_some_iff.mp hx).1
          by_cases he : j = i
          · subst he
            have : tq = tp := pidx_num_inj tq tp j hpq hp
            subst this
            rw [hx] at hx2; cases hx2
            have hon' : ¬ qs <+: ps := fun hpre => hon (List.cons_prefix_cons.mpr ⟨rfl, hpre⟩)
            have hbelow' : ¬ ps <+: qs := fun hpre => hbelow (List.cons_prefix_cons.mpr ⟨rfl, hpre⟩)
            exact walk_arr_hit hpq (by simp [hi])
              (ih qs _ c' r l' hvp' hvq' hs hon' hbelow' hs2)
          · exact walk_arr_hit hpq (by rw [List.getElem?_set_ne (Ne.symm he)]; exact hx2) hs2

/-! ### from the model's `assign` / `resolve` to the declarative level -/

theorem assign_spec (D v : Val) (p : Bytes) (hp : validPtr p = true) :
    (match assignSpec D (tokens p) v with
     | .ok (D', r) => assign D p v = (D', .ok r)
     | .err _ => ∃ e, assign D p v = (D, .err e)
     | .panic _ => False) := by
  obtain ⟨ts, rfl, htk, hns, hv⟩ := valid_decomp hp
  have hdec : ∀ t ∈ ts, Token.toString t = dec t := fun t ht => toString_eq_dec t (hv t ht)
  rw [htk]
  unfold assign
  rw [assignValue_ofToks ts hns hdec]
  exact assignT_spec ts hdec D v 0 0

theorem assign_ok_spec {D v D' : Val} {p : Bytes} {r : Option Val} (hp : validPtr p = true)
    (h : assign D p v = (D', .ok r)) : assignSpec D (tokens p) v = .ok (D', r) := by
  have := assign_spec D v p hp
  cases hs : assignSpec D (tokens p) v with
  | ok dr =>
    obtain ⟨d2, r2⟩ := dr
    rw [hs] at this
    simp only [] at this
    rw [this] at h
    simp at h
    simp [h.1, h.2]
  | err k => rw [hs] at this; obtain ⟨e, he⟩ := this; rw [he] at h; simp at h
  | panic m => rw [hs] at this; exact this.elim

theorem spec_ok_assign {D v D' : Val} {p : Bytes} {r : Option Val} (hp : validPtr p = true)
    (h : assignSpec D (tokens p) v = .ok (D', r)) : assign D p v = (D', .ok r) := by
  have := assign_spec D v p hp
  rw [h] at this
  exact this

theorem resolve_walk (D : Val) (p : Bytes) (hp : validPtr p = true) :
    (match walk D (tokens p) with
     | .ok (l, w) => resolve D p = .ok (l, w)
     | .err _ => ∃ e, resolve D p = .err e
     | .panic _ => False) := by
  obtain ⟨ts, rfl, htk, hns, hv⟩ := valid_decomp hp
  have hdec : ∀ t ∈ ts, Token.toString t = dec t := fun t ht => toString_eq_dec t (hv t ht)
  rw [htk]
  unfold resolve
  rw [resolveLoop_ofToks ts hns]
  have := resolveT_walk ts hdec D 0 0 []
  simpa using this

theorem resolve_ok_walk {D : Val} {p : Bytes} {lw : Loc × Val} (hp : validPtr p = true)
    (h : resolve D p = .ok lw) : walk D (tokens p) = .ok lw := by
  have := resolve_walk D p hp
  cases hs : walk D (tokens p) with
  | ok lw2 =>
    obtain ⟨l2, w2⟩ := lw2
    rw [hs] at this
    simp only [] at this
    rw [this] at h
    simp at h
    simp [h]
  | err k => rw [hs] at this; obtain ⟨e, he⟩ := this; rw [he] at h; simp at h
  | panic m => rw [hs] at this; exact this.elim

theorem walk_ok_resolve {D : Val} {p : Bytes} {lw : Loc × Val} (hp : validPtr p = true)
    (h : walk D (tokens p) = .ok lw) : resolve D p = .ok lw := by
  have := resolve_walk D p hp
  rw [h] at this
  exact this

end Jp.C07
