import Jp.Lemmas.Bridge
/-
  Helper lemmas for Jp/Props/C08.lean (same namespace `Jp.C08`).
  Everything here is auxiliary: the property theorems themselves (the `-- OBLIGATIONS` list) are
  stated and proved in Jp/Props/C08.lean, which imports this module. Definitions that both a helper
  and a property statement need live here and are referred to by a comment in the Props file.
-/
namespace Jp.C08
open Jp Jp.Spec

/-! ### tree lemmas -/

theorem at_append (D : Val) (l r : Loc) : D.at (l ++ r) = (D.at l).bind (fun n => n.at r) := by
  induction l generalizing D with
  | nil => simp [Val.at]
  | cons s l ih =>
    cases D with
    | scalar a => simp [Val.at]
    | arr xs =>
      cases s with
      | key k => simp [Val.at]
      | idx i =>
        simp only [List.cons_append, Val.at]
        cases xs[i]? with
        | none => simp
        | some c => simp [ih]
    | obj kvs =>
      cases s with
      | idx i => simp [Val.at]
      | key k =>
        simp only [List.cons_append, Val.at]
        cases lookup k kvs with
        | none => simp
        | some c => simp [ih]

theorem removeAt_snoc (D : Val) (l : Loc) (s : Step) (parent : Val) (h : D.at l = some parent) :
    removeAt D (l ++ [s]) = D.setAt l (removeAt parent [s]) := by
  induction l generalizing D with
  | nil =>
    simp only [Val.at, Option.some.injEq] at h
    subst h
    simp [Val.setAt]
  | cons s0 l ih =>
    have hne : l ++ [s] = [] → False := by simp
    cases D with
    | scalar a => simp [Val.at] at h
    | arr xs =>
      cases s0 with
      | key k => simp [Val.at] at h
      | idx i =>
        simp only [Val.at] at h
        simp only [List.cons_append, removeAt.eq_4 xs i _ hne, Val.setAt]
        cases hx : xs[i]? with
        | none => simp [hx] at h
        | some c =>
          simp only [hx] at h
          simp only [ih c h]
    | obj kvs =>
      cases s0 with
      | idx i => simp [Val.at] at h
      | key k =>
        simp only [Val.at] at h
        simp only [List.cons_append, removeAt.eq_5 kvs k _ hne, Val.setAt]
        cases hx : lookup k kvs with
        | none => simp [hx] at h
        | some c =>
          simp only [hx] at h
          simp only [ih c h]

theorem lookup_replaceKey_ne (k k' : Bytes) (x : Val) (kvs : List (Bytes × Val)) (h : k' ≠ k) :
    lookup k' (replaceKey k x kvs) = lookup k' kvs := by
  induction kvs with
  | nil => simp [replaceKey]
  | cons kv r ih =>
    obtain ⟨k0, v0⟩ := kv
    simp only [replaceKey]
    split
    · rename_i hk
      subst hk
      simp [lookup, h]
    · simp [lookup, ih]

theorem lookup_replaceKey_self (k : Bytes) (x : Val) (kvs : List (Bytes × Val)) (c : Val)
    (h : lookup k kvs = some c) : lookup k (replaceKey k x kvs) = some x := by
  induction kvs with
  | nil => simp [lookup] at h
  | cons kv r ih =>
    obtain ⟨k0, v0⟩ := kv
    simp only [replaceKey]
    split
    · rename_i hk
      subst hk
      simp [lookup]
    · rename_i hk
      simp only [lookup, hk, if_false] at h ⊢
      exact ih h

theorem setAt_frame (D : Val) (l m : Loc) (x : Val) (h1 : ¬ l <+: m) (h2 : ¬ m <+: l) :
    (D.setAt l x).at m = D.at m := by
  induction l generalizing D m with
  | nil => exact absurd List.nil_prefix h1
  | cons s0 l ih =>
    cases m with
    | nil => exact absurd List.nil_prefix h2
    | cons s1 m =>
      rw [List.cons_prefix_cons] at h1 h2
      cases D with
      | scalar a => simp [Val.setAt]
      | arr xs =>
        cases s0 with
        | key k => simp [Val.setAt]
        | idx i =>
          simp only [Val.setAt]
          cases hx : xs[i]? with
          | none => rfl
          | some c =>
            simp only []
            cases s1 with
            | key k => simp [Val.at]
            | idx j =>
              simp only [Val.at]
              by_cases hij : i = j
              · subst hij
                have hlt : i < xs.length := by
                  rcases List.getElem?_eq_some_iff.mp hx with ⟨hlt, _⟩; exact hlt
                simp only [List.getElem?_set, hlt, if_true, hx]
                exact ih c m (fun hp => h1 ⟨rfl, hp⟩) (fun hp => h2 ⟨rfl, hp⟩)
              · rw [List.getElem?_set_ne hij]
      | obj kvs =>
        cases s0 with
        | idx i => simp [Val.setAt]
        | key k =>
          simp only [Val.setAt]
          cases hx : lookup k kvs with
          | none => rfl
          | some c =>
            simp only []
            cases s1 with
            | idx j => simp [Val.at]
            | key k' =>
              simp only [Val.at]
              by_cases hij : k = k'
              · subst hij
                simp only [lookup_replaceKey_self k _ kvs c hx, hx]
                exact ih c m (fun hp => h1 ⟨rfl, hp⟩) (fun hp => h2 ⟨rfl, hp⟩)
              · rw [lookup_replaceKey_ne k k' _ kvs (fun e => hij e.symm)]

/-! ### walk lemmas -/

theorem forLen_num (i len : Nat) :
    Index.forLen (.num i) len = if i < len then .ok i else .err ⟨len, i⟩ := rfl

/-- `resolveT` on valid tokens follows `walk` -/
theorem resolveT_walk (ts : List Bytes) (hv : ∀ t ∈ ts, validTok t = true) (v : Val) (o pos : Nat)
    (loc : Loc) :
    (match walk v ts with
     | .ok (l, n) => resolveT ts v o pos loc = .ok (loc ++ l, n)
     | .err _ => ∃ e, resolveT ts v o pos loc = .err e
     | .panic _ => False) := by
  induction ts generalizing v o pos loc with
  | nil => simp [walk, resolveT]
  | cons t ts ih =>
    have ht : validTok t = true := hv t (by simp)
    have ih' := ih (fun u hu => hv u (by simp [hu]))
    have hd : (Token.decoded t).bytes = dec t := toString_eq_dec t ht
    cases v with
    | scalar a => simp [walk, resolveT]
    | obj kvs =>
      simp only [walk, resolveT, hd]
      cases lookup (dec t) kvs with
      | none => simp
      | some c =>
        simp only []
        have := ih' c (o + (1 + t.length)) (pos + 1) (loc ++ [.key (dec t)])
        cases hw : walk c ts with
        | ok ln => obtain ⟨l, n⟩ := ln; simp only [hw] at this ⊢; simpa using this
        | err x => obtain ⟨k, e⟩ := x; simp only [hw] at this ⊢; exact this
        | panic m => simp only [hw] at this
    | arr xs =>
      have hp := toIndex_pidx t
      simp only [walk, resolveT]
      cases hti : Token.toIndex t with
      | err e => simp only [hti] at hp; simp [hp]
      | panic m => simp only [hti] at hp
      | ok ix =>
        cases ix with
        | next => simp only [hti] at hp; simp [hp, Index.forLen]
        | num i =>
          simp only [hti] at hp
          simp only [hp, forLen_num]
          by_cases hlt : i < xs.length
          · simp only [hlt, if_true, List.getElem?_eq_getElem hlt]
            have := ih' xs[i] (o + (1 + t.length)) (pos + 1) (loc ++ [.idx i])
            cases hw : walk xs[i] ts with
            | ok ln => obtain ⟨l, n⟩ := ln; simp only [hw] at this ⊢; simpa using this
            | err x => obtain ⟨k, e⟩ := x; simp only [hw] at this ⊢; exact this
            | panic m => simp only [hw] at this
          · simp [hlt]

theorem walk_append (v : Val) (ts us : List Bytes) :
    walk v (ts ++ us) =
      match walk v ts with
      | .ok (l, n) =>
        (match walk n us with
         | .ok (l', n') => .ok (l ++ l', n')
         | .err (k, e) => .err (k + ts.length, e)
         | .panic m => .panic m)
      | .err x => .err x
      | .panic m => .panic m := by
  induction ts generalizing v with
  | nil =>
    simp only [List.nil_append, walk, List.length_nil, Nat.add_zero]
    cases walk v us with
    | ok ln => rfl
    | err x => rfl
    | panic m => rfl
  | cons t ts ih =>
    cases v with
    | scalar a => simp [walk]
    | obj kvs =>
      simp only [List.cons_append, walk]
      cases lookup (dec t) kvs with
      | none => rfl
      | some c =>
        simp only [ih c]
        cases walk c ts with
        | ok ln =>
          obtain ⟨l, n⟩ := ln
          simp only []
          cases walk n us with
          | ok ln' => rfl
          | err x => simp [Nat.add_assoc]
          | panic m => rfl
        | err x => rfl
        | panic m => rfl
    | arr xs =>
      simp only [List.cons_append, walk]
      cases pidx t with
      | bad => rfl
      | next => rfl
      | num i =>
        simp only []
        cases xs[i]? with
        | none => rfl
        | some c =>
          simp only [ih c]
          cases walk c ts with
          | ok ln =>
            obtain ⟨l, n⟩ := ln
            simp only []
            cases walk n us with
            | ok ln' => rfl
            | err x => simp [Nat.add_assoc]
            | panic m => rfl
          | err x => rfl
          | panic m => rfl

theorem walk_at (D : Val) (ts : List Bytes) (l : Loc) (n : Val) (h : walk D ts = .ok (l, n)) :
    D.at l = some n := by
  induction ts generalizing D l n with
  | nil => simp only [walk, Res.ok.injEq, Prod.mk.injEq] at h; obtain ⟨rfl, rfl⟩ := h; simp [Val.at]
  | cons t ts ih =>
    cases D with
    | scalar a => simp [walk] at h
    | obj kvs =>
      simp only [walk] at h
      cases hx : lookup (dec t) kvs with
      | none => simp [hx] at h
      | some c =>
        simp only [hx] at h
        cases hw : walk c ts with
        | ok ln =>
          obtain ⟨l', n'⟩ := ln
          simp only [hw, Res.ok.injEq, Prod.mk.injEq] at h
          obtain ⟨rfl, rfl⟩ := h
          simp only [Val.at, hx]
          exact ih c l' n' hw
        | err x => simp [hw] at h
        | panic m => simp [hw] at h
    | arr xs =>
      simp only [walk] at h
      cases hp : pidx t with
      | bad => simp [hp] at h
      | next => simp [hp] at h
      | num i =>
        simp only [hp] at h
        cases hx : xs[i]? with
        | none => simp [hx] at h
        | some c =>
          simp only [hx] at h
          cases hw : walk c ts with
          | ok ln =>
            obtain ⟨l', n'⟩ := ln
            simp only [hw, Res.ok.injEq, Prod.mk.injEq] at h
            obtain ⟨rfl, rfl⟩ := h
            simp only [Val.at, hx]
            exact ih c l' n' hw
          | err x => simp [hw] at h
          | panic m => simp [hw] at h

/-! ### the main theorems -/

theorem deleteSpec_ne_nil (b : Backend) (D : Val) (ts : List Bytes) (h : ts ≠ []) :
    deleteSpec b D ts = match walk D ts with
      | .ok (l, v) => (removeAt D l, some v)
      | _ => (D, none) := by
  cases ts with
  | nil => exact absurd rfl h
  | cons t ts => rfl

/-- the last step of `delete` on the parent node, against the one-token walk -/
theorem delete_last (b : Backend) (D : Val) (p pp : Bytes) (l : Loc) (n : Val) (t : Bytes)
    (ht : validTok t = true) (hs : splitBack p = some (pp, t)) (hr : resolveMut D pp = .ok (l, n))
    (hat : D.at l = some n) :
    delete b D p =
    (match walk n [t] with
      | .ok (l', v) => (removeAt D (l ++ l'), Res.ok (some v))
      | _ => (D, .ok none)) := by
  have hd : (Token.decoded t).bytes = dec t := toString_eq_dec t ht
  simp only [delete, hs, hr]
  cases n with
  | scalar a => simp [walk]
  | obj kvs =>
    simp only [walk, hd]
    cases hx : lookup (dec t) kvs with
    | none => rfl
    | some c =>
      simp only []
      rw [removeAt_snoc D l _ _ hat]
      simp [removeAt]
  | arr xs =>
    have hp := toIndex_pidx t
    simp only [walk]
    cases hti : Token.toIndex t with
    | err e => simp only [hti] at hp; simp [hp]
    | panic m => simp only [hti] at hp
    | ok ix =>
      cases ix with
      | next => simp only [hti] at hp; simp [hp, Index.forLen]
      | num i =>
        simp only [hti] at hp
        simp only [hp, forLen_num]
        by_cases hlt : i < xs.length
        · simp only [hlt, if_true, List.getElem?_eq_getElem hlt]
          rw [removeAt_snoc D l _ _ hat]
          simp [removeAt]
        · simp [hlt]

theorem delete_ofToks (b : Backend) (D : Val) (ts : List Bytes) (hns : ∀ t ∈ ts, noSlash t)
    (hv : ∀ t ∈ ts, validTok t = true) :
    delete b D (ofToks ts) = ((deleteSpec b D ts).1, .ok (deleteSpec b D ts).2) := by
  rcases List.eq_nil_or_concat ts with rfl | ⟨us, t, rfl⟩
  · simp [delete, ofToks_nil, splitBack_nil, deleteSpec]
  · rw [List.concat_eq_append] at *
    have ht : validTok t = true := hv t (by simp)
    have hvu : ∀ u ∈ us, validTok u = true := fun u hu => hv u (by simp [hu])
    have hnu : ∀ u ∈ us, noSlash u := fun u hu => hns u (by simp [hu])
    rw [deleteSpec_ne_nil b D _ (by simp), walk_append]
    have hs := splitBack_ofToks_snoc us t (hns t (by simp))
    have hr := resolveT_walk us hvu D 0 0 []
    cases hw : walk D us with
    | panic m => simp only [hw] at hr
    | err x =>
      simp only [hw] at hr
      obtain ⟨e, he⟩ := hr
      simp only [delete, hs, resolveMut, resolveMutLoop_ofToks us hnu, he]
    | ok ln =>
      obtain ⟨l, n⟩ := ln
      simp only [hw, List.nil_append] at hr
      have hat := walk_at D us l n hw
      rw [delete_last b D _ _ l n t ht hs (by rw [resolveMut, resolveMutLoop_ofToks us hnu, hr]) hat]
      simp only []
      cases walk n [t] with
      | ok ln' => rfl
      | err x => rfl
      | panic m => rfl

theorem resolve_ofToks (D : Val) (ts : List Bytes) (hns : ∀ t ∈ ts, noSlash t) :
    resolve D (ofToks ts) = resolveT ts D 0 0 [] := by
  rw [resolve, resolveLoop_ofToks ts hns]

theorem lookup_eraseKey_ne (k k' : Bytes) (kvs : List (Bytes × Val)) (h : k' ≠ k) :
    lookup k' (eraseKey k kvs) = lookup k' kvs := by
  induction kvs with
  | nil => simp [eraseKey]
  | cons kv r ih =>
    obtain ⟨k0, v0⟩ := kv
    simp only [eraseKey]
    split
    · rename_i hk
      subst hk
      simp [lookup, h]
    · simp [lookup, ih]

end Jp.C08
