import Jp.Lemmas.Valid
import Jp.Lemmas.C12
/-
  Jp.Lemmas.Bounds — the `usize` accumulators of the range loops of `src/pointer/slice.rs`
  (`idx += 1`, `offset += token.encoded().len() + 1`) never exceed the length of the pointer text.

  Invariant of every loop state `(remaining tokens ts, idx, offset)`:
      `idx + ts.length ≤ N`   and   `offset + (ofToks ts).length ≤ M`
  (`N` = number of tokens, `M` = length of the text). It holds initially (`0 + count p`, `0 + p.length`),
  is preserved by one iteration (`acc_step`), and bounds both accumulators — so every value the
  accumulators take, not only the returned ones, is at most `M`.
-/
namespace Jp.Bounds
open Jp Jp.Spec

/-! ### counting tokens against bytes -/

theorem ofToks_length_cons (t : Bytes) (ts : List Bytes) :
    (ofToks (t :: ts)).length = (t.length + 1) + (ofToks ts).length := by
  rw [ofToks_cons]; simp; omega

/-- every token costs at least its separator -/
theorem length_le_ofToks (ts : List Bytes) : ts.length ≤ (ofToks ts).length := by
  induction ts with
  | nil => simp
  | cons t ts ih => rw [ofToks_length_cons]; simp; omega

theorem le_off (ts : List Bytes) (k : Nat) (h : k ≤ ts.length) : k ≤ off ts k := by
  induction ts generalizing k with
  | nil => simp at h; subst h; simp [off]
  | cons t ts ih =>
    cases k with
    | zero => omega
    | succ k =>
      rw [off_succ]
      have := ih k (by simpa using h)
      omega

theorem count_le_length (p : Bytes) (h : validPtr p = true) : count p ≤ p.length := by
  obtain ⟨ts, rfl, hts, _, _⟩ := valid_decomp h
  unfold count
  rw [hts]
  exact length_le_ofToks ts

/-- one loop iteration preserves the invariant: the new accumulator values are still in range -/
theorem acc_step (t : Bytes) (ts : List Bytes) (idx offset N M : Nat)
    (hi : idx + (t :: ts).length ≤ N) (ho : offset + (ofToks (t :: ts)).length ≤ M) :
    (idx + 1) + ts.length ≤ N ∧ (offset + (t.length + 1)) + (ofToks ts).length ≤ M ∧
      idx + 1 ≤ N ∧ offset + (t.length + 1) ≤ M := by
  rw [ofToks_length_cons] at ho
  simp only [List.length_cons] at hi
  omega

/-! ### the invariant through each loop (arbitrary loop state) -/

theorem rangeLoop_inv (start stop : Nat) (ts : List Bytes) (idx offset : Nat) (so : Option Nat) (N M : Nat)
    (hi : idx + ts.length ≤ N) (ho : offset + (ofToks ts).length ≤ M) (hs : ∀ o, so = some o → o ≤ M) :
    (rangeLoop start stop ts idx offset so).1 ≤ N ∧
    (rangeLoop start stop ts idx offset so).2.1 ≤ M ∧
    (∀ o, (rangeLoop start stop ts idx offset so).2.2.1 = some o → o ≤ M) ∧
    (∀ o, (rangeLoop start stop ts idx offset so).2.2.2 = some o → o ≤ M) := by
  induction ts generalizing idx offset so with
  | nil =>
    simp only [rangeLoop]
    exact ⟨by simpa using hi, by simpa [ofToks_nil] using ho, hs, by simp⟩
  | cons t ts ih =>
    obtain ⟨hi', ho', _, _⟩ := acc_step t ts idx offset N M hi ho
    have hoM : offset ≤ M := by omega
    have hs' : ∀ o, (if idx = start then some offset else so) = some o → o ≤ M := by
      intro o hso
      split at hso
      · cases hso; exact hoM
      · exact hs o hso
    unfold rangeLoop
    by_cases he : idx = stop
    · simp only [if_pos he]
      refine ⟨by omega, hoM, hs', ?_⟩
      intro o h; cases h; exact hoM
    · simp only [if_neg he]
      exact ih (idx + 1) (offset + (t.length + 1)) _ hi' ho' hs'

theorem rangeFromLoop_inv (start : Nat) (ts : List Bytes) (idx offset : Nat) (M : Nat)
    (ho : offset + (ofToks ts).length ≤ M) :
    ∀ o, rangeFromLoop start ts idx offset = some o → o ≤ M := by
  induction ts generalizing idx offset with
  | nil => simp [rangeFromLoop]
  | cons t ts ih =>
    rw [ofToks_length_cons] at ho
    unfold rangeFromLoop
    by_cases he : idx = start
    · simp only [if_pos he]
      intro o h; cases h; omega
    · simp only [if_neg he]
      exact ih (idx + 1) (offset + (t.length + 1)) (by omega)

theorem rangeToLoop_inv (stop : Nat) (ts : List Bytes) (idx offset : Nat) (N M : Nat)
    (hi : idx + ts.length ≤ N) (ho : offset + (ofToks ts).length ≤ M) :
    (rangeToLoop stop ts idx offset).1 ≤ N ∧
    (rangeToLoop stop ts idx offset).2.1 ≤ M ∧
    (∀ o, (rangeToLoop stop ts idx offset).2.2 = some o → o ≤ M) := by
  induction ts generalizing idx offset with
  | nil =>
    simp only [rangeToLoop]
    exact ⟨by simpa using hi, by simpa [ofToks_nil] using ho, by simp⟩
  | cons t ts ih =>
    obtain ⟨hi', ho', _, _⟩ := acc_step t ts idx offset N M hi ho
    have hoM : offset ≤ M := by omega
    unfold rangeToLoop
    by_cases he : idx = stop
    · simp only [if_pos he]
      refine ⟨by omega, hoM, ?_⟩
      intro o h; cases h; exact hoM
    · simp only [if_neg he]
      exact ih (idx + 1) (offset + (t.length + 1)) hi' ho'

theorem rangeInclLoop_inv (start stop : Nat) (ts : List Bytes) (idx offset : Nat) (so : Option Nat) (M : Nat)
    (ho : offset + (ofToks ts).length ≤ M) (hs : ∀ o, so = some o → o ≤ M) :
    (∀ o, (rangeInclLoop start stop ts idx offset so).1 = some o → o ≤ M) ∧
    (∀ o, (rangeInclLoop start stop ts idx offset so).2 = some o → o ≤ M) := by
  induction ts generalizing idx offset so with
  | nil =>
    simp only [rangeInclLoop]
    exact ⟨hs, by simp⟩
  | cons t ts ih =>
    rw [ofToks_length_cons] at ho
    have hoM : offset ≤ M := by omega
    have hs' : ∀ o, (if idx = start then some offset else so) = some o → o ≤ M := by
      intro o hso
      split at hso
      · cases hso; exact hoM
      · exact hs o hso
    unfold rangeInclLoop
    by_cases he : idx = stop
    · simp only [if_pos he]
      refine ⟨hs', ?_⟩
      intro o h; cases h; omega
    · simp only [if_neg he]
      exact ih (idx + 1) (offset + (t.length + 1)) _ (by omega) hs'

theorem rangeToInclLoop_inv (stop : Nat) (ts : List Bytes) (idx offset : Nat) (M : Nat)
    (ho : offset + (ofToks ts).length ≤ M) :
    ∀ o, rangeToInclLoop stop ts idx offset = some o → o ≤ M := by
  induction ts generalizing idx offset with
  | nil => simp [rangeToInclLoop]
  | cons t ts ih =>
    rw [ofToks_length_cons] at ho
    unfold rangeToInclLoop
    by_cases he : idx = stop
    · simp only [if_pos he]
      intro o h; cases h; omega
    · simp only [if_neg he]
      exact ih (idx + 1) (offset + (t.length + 1)) (by omega)

/-! ### the five loops as the `get` impls start them: `idx = 0`, `offset = 0`, on `tokens p` -/

theorem rangeLoop_bounded (p : Bytes) (a b : Nat) (h : validPtr p = true) :
    (rangeLoop a b (tokens p) 0 0 none).1 ≤ count p ∧
    (rangeLoop a b (tokens p) 0 0 none).2.1 ≤ p.length ∧
    (∀ o, (rangeLoop a b (tokens p) 0 0 none).2.2.1 = some o → o ≤ p.length) ∧
    (∀ o, (rangeLoop a b (tokens p) 0 0 none).2.2.2 = some o → o ≤ p.length) := by
  obtain ⟨ts, rfl, hts, _, _⟩ := valid_decomp h
  unfold count
  rw [hts]
  exact rangeLoop_inv a b ts 0 0 none ts.length (ofToks ts).length (by omega) (by omega) (by simp)

theorem rangeFromLoop_bounded (p : Bytes) (a : Nat) (h : validPtr p = true) :
    ∀ o, rangeFromLoop a (tokens p) 0 0 = some o → o ≤ p.length := by
  obtain ⟨ts, rfl, hts, _, _⟩ := valid_decomp h
  rw [hts]
  exact rangeFromLoop_inv a ts 0 0 (ofToks ts).length (by omega)

theorem rangeToLoop_bounded (p : Bytes) (b : Nat) (h : validPtr p = true) :
    (rangeToLoop b (tokens p) 0 0).1 ≤ count p ∧
    (rangeToLoop b (tokens p) 0 0).2.1 ≤ p.length ∧
    (∀ o, (rangeToLoop b (tokens p) 0 0).2.2 = some o → o ≤ p.length) := by
  obtain ⟨ts, rfl, hts, _, _⟩ := valid_decomp h
  unfold count
  rw [hts]
  exact rangeToLoop_inv b ts 0 0 ts.length (ofToks ts).length (by omega) (by omega)

theorem rangeInclLoop_bounded (p : Bytes) (a b : Nat) (h : validPtr p = true) :
    (∀ o, (rangeInclLoop a b (tokens p) 0 0 none).1 = some o → o ≤ p.length) ∧
    (∀ o, (rangeInclLoop a b (tokens p) 0 0 none).2 = some o → o ≤ p.length) := by
  obtain ⟨ts, rfl, hts, _, _⟩ := valid_decomp h
  rw [hts]
  exact rangeInclLoop_inv a b ts 0 0 none (ofToks ts).length (by omega) (by simp)

theorem rangeToInclLoop_bounded (p : Bytes) (b : Nat) (h : validPtr p = true) :
    ∀ o, rangeToInclLoop b (tokens p) 0 0 = some o → o ≤ p.length := by
  obtain ⟨ts, rfl, hts, _, _⟩ := valid_decomp h
  rw [hts]
  exact rangeToInclLoop_inv b ts 0 0 (ofToks ts).length (by omega)

/-! ### the same bounds read off the closed forms of `Jp.Lemmas.C12`: every accumulator value is an
    `off ts k`, and `off ts k ≤ |text|` (`off_le`) -/

theorem rangeToLoop_offset_is_off (stop : Nat) (ts : List Bytes) :
    ∃ k, k ≤ ts.length ∧ (rangeToLoop stop ts 0 0).1 = k ∧ (rangeToLoop stop ts 0 0).2.1 = off ts k := by
  rw [C12.rangeToLoop_eq stop ts 0 0 (Nat.zero_le _)]
  by_cases hlt : stop < ts.length
  · exact ⟨stop, by omega, by simp [hlt], by simp [hlt]⟩
  · exact ⟨ts.length, Nat.le_refl _, by simp [hlt], by simp [hlt]⟩

theorem rangeFromLoop_is_off (start : Nat) (ts : List Bytes) (o : Nat)
    (h : rangeFromLoop start ts 0 0 = some o) : o = off ts start ∧ start < ts.length := by
  rw [C12.rangeFromLoop_eq start ts 0 0 (Nat.zero_le _)] at h
  by_cases hlt : start < ts.length
  · simp [hlt] at h; exact ⟨h.symm, hlt⟩
  · simp [hlt] at h

theorem rangeToInclLoop_is_off (stop : Nat) (ts : List Bytes) (o : Nat)
    (h : rangeToInclLoop stop ts 0 0 = some o) : o = off ts (stop + 1) ∧ stop < ts.length := by
  rw [C12.rangeToInclLoop_eq stop ts 0 0 (Nat.zero_le _)] at h
  by_cases hlt : stop < ts.length
  · simp [hlt] at h; exact ⟨h.symm, hlt⟩
  · simp [hlt] at h

end Jp.Bounds
