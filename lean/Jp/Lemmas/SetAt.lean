import Jp.Model.Val
/-
  Jp.Lemmas.SetAt — writing through a reference, one step at a time.  A `&mut` into the document is a location; the walks
  regenerated from the source (`Jp.Gen.Rs.Assign*`) write at `l ++ [s]` in the *whole* document, the hand-written model
  rebuilds the parent node and returns it upwards.  These lemmas say that the two are the same thing.
-/
namespace Jp.SetAt
open Jp

theorem set_self {α : Type} (xs : List α) (i : Nat) (c : α) (h : xs[i]? = some c) : xs.set i c = xs := by
  induction xs generalizing i with
  | nil => simp at h
  | cons x xs ih =>
    cases i with
    | zero => simp at h; simp [h]
    | succ i => simp at h; simp [ih i h]

theorem replaceKey_self (k : Bytes) (c : Val) (kvs : List (Bytes × Val)) (h : lookup k kvs = some c) :
    replaceKey k c kvs = kvs := by
  induction kvs with
  | nil => simp [lookup] at h
  | cons kv kvs ih =>
    obtain ⟨k', v'⟩ := kv
    simp only [lookup] at h
    simp only [replaceKey]
    split at h
    · rename_i hk; simp at h; simp [hk, h]
    · rename_i hk; simp [hk, ih h]

/-- writing back what is there changes nothing -/
theorem setAt_self (D : Val) (l : Loc) (x : Val) (h : D.at l = some x) : D.setAt l x = D := by
  induction l generalizing D with
  | nil => simp [Val.at] at h; simp [Val.setAt, h]
  | cons s l ih =>
    cases D with
    | scalar a => simp [Val.at] at h
    | arr xs =>
      cases s with
      | key k => simp [Val.at] at h
      | idx i =>
        simp only [Val.at] at h
        simp only [Val.setAt]
        cases hx : xs[i]? with
        | none => simp [hx] at h
        | some c =>
          simp only [hx] at h
          simp only [ih c h, set_self xs i c hx]
    | obj kvs =>
      cases s with
      | idx i => simp [Val.at] at h
      | key k =>
        simp only [Val.at] at h
        simp only [Val.setAt]
        cases hx : lookup k kvs with
        | none => simp [hx] at h
        | some c =>
          simp only [hx] at h
          simp only [ih c h, replaceKey_self k c kvs hx]

/-- writing below a node = rebuilding that node and writing it -/
theorem setAt_snoc (D : Val) (l : Loc) (s : Step) (parent x : Val) (h : D.at l = some parent) :
    D.setAt (l ++ [s]) x = D.setAt l (parent.setAt [s] x) := by
  induction l generalizing D with
  | nil => simp [Val.at] at h; simp [Val.setAt, h]
  | cons t l ih =>
    cases D with
    | scalar a => simp [Val.at] at h
    | arr xs =>
      cases t with
      | key k => simp [Val.at] at h
      | idx i =>
        simp only [Val.at] at h
        simp only [List.cons_append, Val.setAt]
        cases hx : xs[i]? with
        | none => simp [hx] at h
        | some c => simp only [hx] at h; simp only [ih c h]
    | obj kvs =>
      cases t with
      | idx i => simp [Val.at] at h
      | key k =>
        simp only [Val.at] at h
        simp only [List.cons_append, Val.setAt]
        cases hx : lookup k kvs with
        | none => simp [hx] at h
        | some c => simp only [hx] at h; simp only [ih c h]

theorem at_snoc (D : Val) (l : Loc) (s : Step) (parent : Val) (h : D.at l = some parent) :
    D.at (l ++ [s]) = parent.at [s] := by
  induction l generalizing D with
  | nil => simp [Val.at] at h; simp [h]
  | cons t l ih =>
    cases D with
    | scalar a => simp [Val.at] at h
    | arr xs =>
      cases t with
      | key k => simp [Val.at] at h
      | idx i =>
        simp only [Val.at] at h
        simp only [List.cons_append, Val.at]
        cases hx : xs[i]? with
        | none => simp [hx] at h
        | some c => simp only [hx] at h; simp only [ih c h]
    | obj kvs =>
      cases t with
      | idx i => simp [Val.at] at h
      | key k =>
        simp only [Val.at] at h
        simp only [List.cons_append, Val.at]
        cases hx : lookup k kvs with
        | none => simp [hx] at h
        | some c => simp only [hx] at h; simp only [ih c h]

/-- `&mut array[i]` -/
theorem setAt_idx (D : Val) (l : Loc) (xs : List Val) (i : Nat) (c x : Val) (h : D.at l = some (.arr xs)) (hc : xs[i]? = some c) :
    D.setAt (l ++ [Step.idx i]) x = D.setAt l (.arr (xs.set i x)) := by
  rw [setAt_snoc D l _ _ x h]; simp [Val.setAt, hc]

theorem at_idx (D : Val) (l : Loc) (xs : List Val) (i : Nat) (c : Val) (h : D.at l = some (.arr xs)) (hc : xs[i]? = some c) :
    D.at (l ++ [Step.idx i]) = some c := by
  rw [at_snoc D l _ _ h]; simp [Val.at, hc]

/-- an occupied map entry -/
theorem setAt_key (D : Val) (l : Loc) (kvs : List (Bytes × Val)) (k : Bytes) (c x : Val) (h : D.at l = some (.obj kvs))
    (hc : lookup k kvs = some c) : D.setAt (l ++ [Step.key k]) x = D.setAt l (.obj (replaceKey k x kvs)) := by
  rw [setAt_snoc D l _ _ x h]; simp [Val.setAt, hc]

theorem at_key (D : Val) (l : Loc) (kvs : List (Bytes × Val)) (k : Bytes) (c : Val) (h : D.at l = some (.obj kvs))
    (hc : lookup k kvs = some c) : D.at (l ++ [Step.key k]) = some c := by
  rw [at_snoc D l _ _ h]; simp [Val.at, hc]

end Jp.SetAt
