import Jp.Lemmas.Text
/-
  Jp.Lemmas.Valid — the validity invariant: a pointer text is valid iff it is the text of a list of
  valid tokens.
-/
namespace Jp
open Jp.Spec

theorem validPtr_shape {p : Bytes} (h : validPtr p = true) : p = [] ∨ p.head? = some 47 := by
  cases p with
  | nil => simp
  | cons b r => simp [validPtr] at h; simp [h.1]

theorem validTok_noSlash {t : Bytes} (h : validTok t = true) : noSlash t := by
  simp [validTok] at h
  intro hm; exact absurd hm (by simpa using h.1)

theorem validTok_tildesOk {t : Bytes} (h : validTok t = true) : tildesOk t = true := by
  simp [validTok] at h; exact h.2

theorem validTok_iff {t : Bytes} : validTok t = true ↔ noSlash t ∧ tildesOk t = true := by
  simp [validTok, noSlash]

theorem tildesOk_nil : tildesOk [] = true := by rw [tildesOk.eq_def]

theorem tildesOk_cons_ne {b : Nat} {r : Bytes} (h : b ≠ 126) : tildesOk (b :: r) = tildesOk r := by
  rw [tildesOk.eq_def]; simp [h]

theorem tildesOk_tilde_cons (c : Nat) (r : Bytes) :
    tildesOk (126 :: c :: r) = ((c == 48 || c == 49) && tildesOk r) := by
  rw [tildesOk.eq_def]; simp

theorem tildesOk_tilde_nil : tildesOk [126] = false := by rw [tildesOk.eq_def]; simp

/-- the tildes of a slash-terminated prefix are checked independently of what follows -/
theorem tildesOk_append_slash (t r : Bytes) (ht : noSlash t) :
    tildesOk (t ++ 47 :: r) = (tildesOk t && tildesOk r) := by
  induction t using tildesOk.induct with
  | case1 => simp [tildesOk_nil, tildesOk_cons_ne]
  | case2 c r' ih =>
    have h2 : noSlash r' := by
      have := noSlash_cons.mp ht; exact (noSlash_cons.mp this.2).2
    simp [tildesOk_tilde_cons, ih h2, Bool.and_assoc]
  | case3 => simp [tildesOk_tilde_nil, tildesOk_tilde_cons]
  | case4 b r' hb ih =>
    have h2 : noSlash r' := (noSlash_cons.mp ht).2
    simp [tildesOk_cons_ne hb, ih h2]

theorem tildesOk_slash_cons (r : Bytes) : tildesOk (47 :: r) = tildesOk r :=
  tildesOk_cons_ne (by decide)

theorem tildesOk_ofToks (ts : List Bytes) (hs : ∀ t ∈ ts, noSlash t) :
    tildesOk (ofToks ts) = ts.all tildesOk := by
  induction ts with
  | nil => simp [ofToks, tildesOk_nil]
  | cons t ts ih =>
    have ht : noSlash t := hs t (by simp)
    have hts : ∀ t' ∈ ts, noSlash t' := fun t' h' => hs t' (by simp [h'])
    rw [ofToks_cons, tildesOk_slash_cons]
    cases ts with
    | nil => simp [ofToks]
    | cons u us =>
      have ih' := ih hts
      rw [ofToks_cons] at ih' ⊢
      rw [tildesOk_append_slash t _ ht, ← tildesOk_slash_cons (u ++ ofToks us), ih']
      simp

theorem validPtr_ofToks (ts : List Bytes) (h : ∀ t ∈ ts, validTok t = true) :
    validPtr (ofToks ts) = true := by
  cases ts with
  | nil => simp [ofToks, validPtr]
  | cons t ts =>
    have hs : ∀ u ∈ t :: ts, noSlash u := fun u hu => validTok_noSlash (h u hu)
    have := tildesOk_ofToks (t :: ts) hs
    simp only [validPtr]
    rw [this]
    simp [ofToks_cons]
    exact ⟨validTok_tildesOk (h t (by simp)), fun u hu => validTok_tildesOk (h u (by simp [hu]))⟩

theorem tokens_valid {p : Bytes} (h : validPtr p = true) : ∀ t ∈ tokens p, validTok t = true := by
  intro t ht
  have hshape := validPtr_shape h
  have hp := ofToks_tokens p hshape
  have hns := tokens_all_noSlash p
  refine validTok_iff.mpr ⟨hns t ht, ?_⟩
  have hto : tildesOk p = true := by
    cases p with
    | nil => simp [tildesOk]
    | cons b r => simp [validPtr] at h; exact h.2
  rw [← hp, tildesOk_ofToks _ hns] at hto
  exact (List.all_eq_true.mp hto) t ht

/-- a text is a valid pointer iff it is the text of a list of valid tokens -/
theorem validPtr_iff (p : Bytes) :
    validPtr p = true ↔ ∃ ts, p = ofToks ts ∧ ∀ t ∈ ts, validTok t = true := by
  constructor
  · intro h
    exact ⟨tokens p, (ofToks_tokens p (validPtr_shape h)).symm, tokens_valid h⟩
  · rintro ⟨ts, rfl, h⟩
    exact validPtr_ofToks ts h

/-- canonical decomposition used by most pointer-level proofs -/
theorem valid_decomp {p : Bytes} (h : validPtr p = true) :
    ∃ ts, p = ofToks ts ∧ tokens p = ts ∧ (∀ t ∈ ts, noSlash t) ∧ (∀ t ∈ ts, validTok t = true) :=
  ⟨tokens p, (ofToks_tokens p (validPtr_shape h)).symm, rfl, tokens_all_noSlash p, tokens_valid h⟩

end Jp
