import Jp.Lemmas.Text
/-
  Helper lemmas for Jp/Props/C02.lean (same namespace `Jp.C02`).
  Everything here is auxiliary: the property theorems themselves (the `-- OBLIGATIONS` list) are
  stated and proved in Jp/Props/C02.lean, which imports this module. Definitions that both a helper
  and a property statement need live here and are referred to by a comment in the Props file.
-/
namespace Jp.C02
open Jp Jp.Spec

/-! ### helper lemmas -/

theorem fbt_ne (b : Nat) (r : Bytes) (h : b ≠ 126) :
    firstBadTilde (b :: r) = (firstBadTilde r).map (· + 1) := by
  rw [firstBadTilde.eq_def]; simp [h]

theorem fbt_good (c : Nat) (r : Bytes) (h : c = 48 ∨ c = 49) :
    firstBadTilde (126 :: c :: r) = (firstBadTilde r).map (· + 2) := by
  rw [firstBadTilde.eq_def]; simp [h]

theorem fbt_bad (c : Nat) (r : Bytes) (h : ¬ (c = 48 ∨ c = 49)) :
    firstBadTilde (126 :: c :: r) = some 0 := by
  rw [firstBadTilde.eq_def]; simp [h]

theorem fbt_end : firstBadTilde [126] = some 0 := by decide

theorem tildesOk_ne (b : Nat) (r : Bytes) (h : b ≠ 126) : tildesOk (b :: r) = tildesOk r := by
  rw [tildesOk.eq_def]; simp [h]

/-- no offending `~` iff every `~` is followed by `0`/`1` -/
theorem fbt_none_iff (r : Bytes) : firstBadTilde r = none ↔ tildesOk r = true := by
  fun_induction firstBadTilde r <;> simp_all [tildesOk, tildesOk_ne]

/-- the loop result in suffix-local quantities: the error offsets are those of the first bad `~`
    in the remaining input and of the last `/` of the remaining input at or before it (falling back
    to the incoming `ptr_offset`/`tok_offset` when there is none). -/
theorem loop_aux (r : Bytes) (i po to : Nat) :
    validateLoop r i po to =
      match firstBadTilde r with
      | none => .ok ()
      | some c =>
        match rfind 47 (r.take (c + 1)) with
        | some j => .err (.invalidEncoding (i + j) (c - j) .tilde)
        | none => .err (.invalidEncoding po (to + c) .tilde) := by
  fun_induction validateLoop r i po to
  case case1 => simp [firstBadTilde]
  case case2 r i po to ih =>
    rw [ih, fbt_ne 47 r (by decide)]
    cases h : firstBadTilde r with
    | none => simp
    | some c =>
      simp only [Option.map_some, List.take_succ_cons, rfind]
      cases h2 : rfind 47 (List.take (c + 1) r) with
      | none => simp; omega
      | some j => simp; omega
  case case3 i po to _ => simp [fbt_end, rfind]
  case case4 i po to c r' hc _ =>
    have : ¬ (c = 48 ∨ c = 49) := by omega
    simp [fbt_bad c r' this, rfind]
  case case5 i po to c r' hc _ ih =>
    have hc' : c = 48 ∨ c = 49 := by omega
    have hc47 : c ≠ 47 := by omega
    rw [ih, fbt_good c r' hc']
    cases h : firstBadTilde r' with
    | none => simp
    | some d =>
      simp only [Option.map_some, List.take_succ_cons, rfind]
      cases h2 : rfind 47 (List.take (d + 1) r') with
      | none => simp [hc47]; omega
      | some j => simp; omega
  case case6 b r i po to hb hb2 ih =>
    rw [ih, fbt_ne b r hb2]
    cases h : firstBadTilde r with
    | none => simp
    | some d =>
      simp only [Option.map_some, List.take_succ_cons, rfind]
      cases h2 : rfind 47 (List.take (d + 1) r) with
      | none => simp [hb]; omega
      | some j => simp; omega

theorem loop_no_panic (r : Bytes) (i po to : Nat) (m : String) :
    validateLoop r i po to ≠ .panic m := by
  rw [loop_aux]
  cases firstBadTilde r with
  | none => simp
  | some c => simp only []; split <;> simp

/-- `validate` against the declarative verdict (without the text) -/
theorem validate_eq_spec (s : Bytes) :
    validate s = match parseSpec s with
      | .ok _ => .ok () | .err e => .err e | .panic m => .panic m := by
  cases s with
  | nil => simp [validate, parseSpec]
  | cons b r =>
    by_cases hb : b = 47
    · subst hb
      simp only [validate, validateBytes, parseSpec, lastSlashAtOrBefore, loop_aux]
      cases firstBadTilde (47 :: r) with
      | none => simp
      | some c => simp; cases h2 : rfind 47 (47 :: List.take c r) <;> simp
    · simp [validate, validateBytes, parseSpec, hb]

theorem parseSpec_ok_text (s t : Bytes) (h : parseSpec s = .ok t) : t = s := by
  unfold parseSpec at h
  split at h
  · simp_all
  · split at h
    · simp at h
    · split at h
      · simp_all
      · split at h <;> simp at h

theorem parseSpec_no_panic (s : Bytes) (m : String) : parseSpec s ≠ .panic m := by
  unfold parseSpec
  split
  · simp
  · split
    · simp
    · split
      · simp
      · split <;> simp

theorem parseSpec_ok_iff (s : Bytes) : (∃ t, parseSpec s = .ok t) ↔ validPtr s = true := by
  cases s with
  | nil => simp [parseSpec, validPtr]
  | cons b r =>
    by_cases hb : b = 47
    · subst hb
      simp only [parseSpec, validPtr, lastSlashAtOrBefore]
      cases h : firstBadTilde (47 :: r) with
      | none => simp [(fbt_none_iff _).mp h]
      | some c =>
        have : tildesOk (47 :: r) ≠ true := fun h' => by
          rw [(fbt_none_iff _).mpr h'] at h; simp at h
        simp [this]; cases h2 : rfind 47 (47 :: List.take c r) <;> simp
    · simp [parseSpec, validPtr, hb]

end Jp.C02
