import Jp.Model.Resolve
/-
  Jp.Model.Assign — mirrors `src/assign.rs` (json and toml copies are the same code up to names):
  `expand`, `assign_value` with `assign_array`, `assign_object`, `assign_scalar`.
  `&mut` becomes "returns the new value": every function returns the (sub)document afterwards and
  the call's result, on the success *and* on the error path.
-/
namespace Jp

/-- `assign::Error` -/
inductive AssignErr where
  | failedToParseIndex (position offset : Nat) (source : ParseIndexError)
  | outOfBounds (position offset : Nat) (source : OobErr)
deriving DecidableEq, Repr

def AssignErr.position : AssignErr → Nat
  | .failedToParseIndex p _ _ | .outOfBounds p _ _ => p

def AssignErr.offset : AssignErr → Nat
  | .failedToParseIndex _ o _ | .outOfBounds _ o _ => o

def AssignErr.label (e : AssignErr) (origin : Bytes) : Option (Nat × Nat) :=
  walkLabel origin e.position e.offset

theorem rsplitOnce_length {c : Nat} {p f k : Bytes} (h : rsplitOnce c p = some (f, k)) :
    f.length < p.length := by
  induction p generalizing f k with
  | nil => simp [rsplitOnce] at h
  | cons b r ih =>
    simp only [rsplitOnce] at h
    split at h
    · rename_i f' k' heq
      simp at h; obtain ⟨rfl, _⟩ := h
      have := ih heq; simp; omega
    · split at h
      · simp at h; obtain ⟨rfl, _⟩ := h; simp
      · simp at h

/-- `expand`: the `while let Some((ptr, tok)) = remaining.split_back()` loop, folding from the back;
    `"0" | "-"` is matched on the *encoded* token, the object key is `tok.to_string()` (decoded). -/
def expand (remaining : Bytes) (value : Val) : Val :=
  match h : splitBack remaining with
  | none => value
  | some (ptr, tok) =>
    have : ptr.length < remaining.length := rsplitOnce_length h
    if tok = [48] ∨ tok = [45] then expand ptr (.arr [value])
    else expand ptr (.obj [(Token.toString tok, value)])
termination_by remaining.length

/-- `assign_value` with its three helpers inlined at the `match dest`; state
    `(ptr, dest, value, offset, position)`; returns `(dest afterwards, result)`.
    `Assigned::Continue` is the recursive call. -/
def assignValue (ptr : Bytes) (dest value : Val) (offset position : Nat) :
    Val × Res AssignErr (Option Val) :=
  match h : splitFront ptr with
  | none => (value, .ok (some dest))                       -- root: mem::replace(dest, value)
  | some (token, tail) =>
    have : tail.length < ptr.length := splitFront_length h
    match dest with
    | .arr array =>                                        -- assign_array
      match Token.toIndex token with
      | .err source => (dest, .err (.failedToParseIndex position offset source))
      | .panic m => (dest, .panic m)
      | .ok index =>
        match index.forLenIncl array.length with
        | .err source => (dest, .err (.outOfBounds position offset source))
        | .panic m => (dest, .panic m)
        | .ok idx =>
          match array[idx]? with
          | some elem =>                                   -- idx < array.len()
            if isRoot tail then (.arr (array.set idx value), .ok (some elem))
            else
              match assignValue tail elem value (offset + (1 + token.length)) (position + 1) with
              | (elem', r) => (.arr (array.set idx elem'), r)
          | none =>                                        -- push(expand(remaining, src))
            (.arr (array ++ [expand tail value]), .ok none)
    | .obj obj =>                                          -- assign_object: entry(token.to_string())
      let key := Token.toString token
      match lookup key obj with
      | some entry =>
        if isRoot tail then (.obj (replaceKey key value obj), .ok (some entry))
        else
          match assignValue tail entry value (offset + (1 + token.length)) (position + 1) with
          | (entry', r) => (.obj (replaceKey key entry' obj), r)
      | none => (.obj (obj ++ [(key, expand tail value)]), .ok none)
    | .scalar _ =>                                         -- assign_scalar: expand from `ptr`
      (expand ptr value, .ok (some dest))
termination_by ptr.length

/-- `Assign::assign` -/
def assign (doc : Val) (ptr : Bytes) (value : Val) : Val × Res AssignErr (Option Val) :=
  assignValue ptr doc value 0 0

end Jp
