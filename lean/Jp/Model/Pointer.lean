import Jp.Model.Index
/-
  Jp.Model.Pointer — mirrors `src/pointer.rs` (parsing, accessors, splitters, prefix/suffix,
  `PointerBuf` mutators, `ParseError` accessors and label) after fixes ee319eb, 9e2c90f.
  A `Pointer`/`PointerBuf` is represented by its text.
-/
namespace Jp

/-- `ParseError`; the inner `EncodingError.source` is always `Tilde` in `validate_bytes`. -/
inductive ParseError where
  | noLeadingSlash
  | invalidEncoding (offset : Nat) (srcOffset : Nat) (kind : EncKind)
deriving DecidableEq, Repr

/-- the `while i < bytes.len()` loop of `validate_bytes`; the first argument is `bytes[i..]`,
    the state is `(i, ptr_offset, tok_offset)`. -/
def validateLoop : Bytes → Nat → Nat → Nat → Res ParseError Unit
  | [], _, _, _ => .ok ()
  | b :: r, i, ptrOffset, tokOffset =>
    if b = 47 then
      -- ptr_offset = i; tok_offset = 0; then `i += 1; tok_offset += 1`
      validateLoop r (i + 1) i 1
    else if b = 126 then
      match r with
      | [] => .err (.invalidEncoding ptrOffset tokOffset .tilde)           -- i + 1 >= bytes.len()
      | c :: r' =>
        if c ≠ 48 ∧ c ≠ 49 then .err (.invalidEncoding ptrOffset tokOffset .tilde)
        else validateLoop r' (i + 2) ptrOffset (tokOffset + 2)              -- skip the checked byte
    else validateLoop r (i + 1) ptrOffset (tokOffset + 1)

/-- `validate_bytes(bytes, 0)`; `bytes[0]` is in range because `validate` tests emptiness first. -/
def validateBytes (bytes : Bytes) : Res ParseError Unit :=
  match bytes with
  | [] => .panic "index out of bounds: bytes[0]"
  | b :: _ => if b ≠ 47 then .err .noLeadingSlash else validateLoop bytes 0 0 0

/-- `validate`. -/
def validate (s : Bytes) : Res ParseError Unit :=
  if s = [] then .ok () else validateBytes s

/-! ### the eight parsing doors (C02) -/

/-- result of a door: the pointer text, a `ParseError`, a serde error, or a panic -/
inductive DoorErr where
  | parse (e : ParseError)
  | de
deriving DecidableEq, Repr

/-- `Pointer::parse`: `validate(s).map(new_unchecked)` — a view of the same bytes. -/
def Pointer.parse (s : Bytes) : Res ParseError Bytes :=
  match validate s with
  | .ok () => .ok s
  | .err e => .err e
  | .panic m => .panic m

/-- `PointerBuf::parse`: on error `err.into_report(s)`: the error and the original string. -/
def PointerBuf.parse (s : Bytes) : Res (ParseError × Bytes) Bytes :=
  match validate s with
  | .ok () => .ok s
  | .err e => .err (e, s)
  | .panic m => .panic m

/-- `TryFrom<&str> for PointerBuf`: `Pointer::parse(value).map(Pointer::to_buf)`. -/
def PointerBuf.tryFromStr (s : Bytes) : Res ParseError Bytes :=
  match Pointer.parse s with
  | .ok p => .ok p
  | .err e => .err e
  | .panic m => .panic m

/-- `FromStr for PointerBuf`: `Self::try_from(s)`. -/
def PointerBuf.fromStr (s : Bytes) : Res ParseError Bytes := PointerBuf.tryFromStr s

/-- `TryFrom<String> for PointerBuf`: `validate(&value)?; Ok(Self(value))`. -/
def PointerBuf.tryFromString (s : Bytes) : Res ParseError Bytes :=
  match validate s with
  | .ok () => .ok s
  | .err e => .err e
  | .panic m => .panic m

/-- `Deserialize for &Pointer`, `visit_borrowed_str`: `Pointer::parse(v).map_err(custom)`. -/
def Pointer.deserializeBorrowed (s : Bytes) : Res DoorErr Bytes :=
  match Pointer.parse s with
  | .ok p => .ok p
  | .err _ => .err .de
  | .panic m => .panic m

/-- `Deserialize for PointerBuf`: `String::deserialize` then `try_from(String)`. -/
def PointerBuf.deserialize (s : Bytes) : Res DoorErr Bytes :=
  match PointerBuf.tryFromString s with
  | .ok p => .ok p
  | .err _ => .err .de
  | .panic m => .panic m

/-- `Pointer::from_static`: `assert!(validate(s).is_ok())`. -/
def Pointer.fromStatic (s : Bytes) : Res ParseError Bytes :=
  match validate s with
  | .ok () => .ok s
  | _ => .panic "invalid json pointer"

/-! ### `ParseError` accessors and label (C14) -/

def ParseError.pointerOffset : ParseError → Nat
  | .noLeadingSlash => 0
  | .invalidEncoding offset _ _ => offset

def ParseError.sourceOffset : ParseError → Nat
  | .noLeadingSlash => 0
  | .invalidEncoding _ src _ => src

def ParseError.completeOffset (e : ParseError) : Nat := e.sourceOffset + e.pointerOffset

/-- `invalid_encoding_len` (fix 9e2c90f). -/
def ParseError.invalidEncodingLen (e : ParseError) (subject : Bytes) : Nat :=
  match e with
  | .noLeadingSlash => 0
  | .invalidEncoding _ _ _ => if e.completeOffset + 1 < subject.length then 2 else 1

/-- `Diagnostic::labels` for `ParseError`: one label `(offset, len)`. -/
def ParseError.label (e : ParseError) (subject : Bytes) : Nat × Nat :=
  (e.completeOffset, e.invalidEncodingLen subject)

/-! ### accessors and splitters on (valid) pointer text -/

/-- `Pointer::tokens`: `split('/')`, first piece skipped; tokens are the encoded texts. -/
def tokens (p : Bytes) : List Bytes := (splitOn 47 p).tail

/-- `Pointer::count`. -/
def count (p : Bytes) : Nat := (tokens p).length

def isRoot (p : Bytes) : Bool := p.isEmpty

/-- `Pointer::back` / `last`. -/
def back (p : Bytes) : Option Bytes := (rsplitOnce 47 p).map (·.2)

/-- `Pointer::front` / `first`. -/
def front (p : Bytes) : Option Bytes :=
  match p with
  | [] => none
  | _ :: rest =>                       -- self.0[1..]
    match splitOnce 47 rest with
    | none => some rest
    | some (f, _) => some f

/-- `Pointer::split_front`: `(token, remainder)`. -/
def splitFront (p : Bytes) : Option (Bytes × Bytes) :=
  match p with
  | [] => none
  | _ :: rest =>                       -- self.0[1..]
    match find 47 rest with
    | none => some (rest, [])
    | some idx => some (rest.take idx, rest.drop idx)

/-- `Pointer::split_at`. -/
def splitAt (p : Bytes) (offset : Nat) : Option (Bytes × Bytes) :=
  if p[offset]? ≠ some 47 then none else some (p.take offset, p.drop offset)

/-- `Pointer::split_back`: `(parent, token)`. -/
def splitBack (p : Bytes) : Option (Bytes × Bytes) := rsplitOnce 47 p

/-- `Pointer::parent`. -/
def parent (p : Bytes) : Option Bytes := (rsplitOnce 47 p).map (·.1)

/-- `Pointer::strip_suffix`. -/
def ptrStripSuffix (p suffix : Bytes) : Option Bytes := stripSuffix p suffix

/-- `Pointer::strip_prefix` (fix ee319eb: only at a token boundary). -/
def ptrStripPrefix (p pre : Bytes) : Option Bytes :=
  match stripPrefix p pre with
  | some s => if s.isEmpty || s.head? == some 47 then some s else none
  | none => none

/-- `Pointer::ends_with`. -/
def ptrEndsWith (p other : Bytes) : Bool :=
  (isRoot p && isRoot other) || (!isRoot other && endsWith p other)

/-- `Pointer::starts_with`; `as_bytes()[other.len()]` is in range when the prefix test passed and
    the lengths differ. -/
def ptrStartsWith (p other : Bytes) : Res Unit Bool :=
  if startsWith p other then
    if other.length = p.length then .ok true
    else match p[other.length]? with
      | some b => .ok (b == 47)
      | none => .panic "index out of bounds: as_bytes()[other.len()]"
  else .ok false

/-- the `for (a, b) in self.tokens().zip(other.tokens())` loop of `intersection`. -/
def intersectionLoop : List Bytes → List Bytes → Nat → Nat
  | a :: as, b :: bs, idx => if a ≠ b then idx else intersectionLoop as bs (idx + (a.length + 1))
  | _, _, idx => idx

/-- `Pointer::intersection`. -/
def intersection (p other : Bytes) : Bytes :=
  if isRoot p || isRoot other then []
  else
    let idx := intersectionLoop (tokens p) (tokens other) 0
    match splitAt p idx with
    | some (head, _) => head
    | none => p

/-! ### `PointerBuf` constructors and mutators -/

/-- `PointerBuf::from_tokens` (tokens already converted to their encoded text). -/
def fromTokens : List Bytes → Bytes
  | [] => []
  | t :: ts => 47 :: (t ++ fromTokens ts)

/-- `push_front`: `insert(0, '/')`, `insert_str(1, token.encoded())`. -/
def pushFront (s : Bytes) (tok : Bytes) : Bytes := 47 :: (tok ++ s)

/-- `push_back`. -/
def pushBack (s : Bytes) (tok : Bytes) : Bytes := s ++ 47 :: tok

/-- `pop_back`: `rfind('/')`, `split_off(idx + 1)`, `pop()`. -/
def popBack (s : Bytes) : Bytes × Option Bytes :=
  match rfind 47 s with
  | some idx => ((s.take (idx + 1)).dropLast, some (s.drop (idx + 1)))
  | none => (s, none)

/-- `pop_front`: `self.0[1..].find('/')`, `split_off(idx + 1)`, `replace`/`take`, `remove(0)`. -/
def popFront (s : Bytes) : Bytes × Option Bytes :=
  match s with
  | [] => (s, none)
  | _ :: rest =>
    match find 47 rest with
    | some idx => (s.drop (idx + 1), some ((s.take (idx + 1)).drop 1))
    | none => ([], some (s.drop 1))

/-- `append`. -/
def append (s other : Bytes) : Bytes :=
  if isRoot s then other
  else if !isRoot other then s ++ other
  else s

/-- `ReplaceError { index, count }`. -/
structure ReplaceErr where
  index : Nat
  count : Nat
deriving DecidableEq, Repr

/-- `replace`: returns the new text and `Ok(old)` / `Err`. `tokens[index]` is in range after the
    bound check. -/
def replace (s : Bytes) (index : Nat) (tok : Bytes) : Bytes × Res ReplaceErr (Option Bytes) :=
  if isRoot s then (s, .err ⟨index, count s⟩)
  else
    let toks := tokens s
    if index ≥ toks.length then (s, .err ⟨index, toks.length⟩)
    else (fromTokens (toks.set index tok), .ok toks[index]?)

/-- `clear`. -/
def clear (_ : Bytes) : Bytes := []

/-- `with_trailing_token`, `with_leading_token`, `concat`: `to_buf` + the mutator. -/
def withTrailingToken (p tok : Bytes) : Bytes := pushBack p tok
def withLeadingToken (p tok : Bytes) : Bytes := pushFront p tok
def concat (p other : Bytes) : Bytes := append p other

/-- `From<Token> for PointerBuf`, `From<usize> for PointerBuf`. -/
def ofToken (t : Bytes) : Bytes := fromTokens [t]
def ofUsize (n : Nat) : Bytes := fromTokens [Token.ofInt n]

/-- `Components`: `Root` then the tokens. -/
inductive Component where
  | root
  | token (t : Bytes)
deriving DecidableEq, Repr

def components (p : Bytes) : List Component := .root :: (tokens p).map .token

end Jp
