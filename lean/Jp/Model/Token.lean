import Jp.Model.Basic
/-
  Jp.Model.Token — mirrors `src/token.rs` (after the `fix:` commits a6b872b, 4106b2d, 4c63e90).
  A `Token` is represented by its *encoded* text (the `inner` field).
-/
namespace Jp

inductive EncKind where
  | tilde
  | slash
deriving DecidableEq, Repr

/-- `EncodingError { offset, source }`. -/
structure EncErr where
  offset : Nat
  kind : EncKind
deriving DecidableEq, Repr

/-- the `for (offset, b) in s.bytes().enumerate()` loop of `Token::from_encoded`;
    state = `(offset, escaped)`; `ok escaped` when the input is exhausted. -/
def fromEncodedLoop : Bytes → Nat → Bool → Res EncErr Bool
  | [], _, escaped => .ok escaped
  | b :: r, offset, escaped =>
    if b = 47 then .err ⟨offset, .slash⟩                         -- b'/' => Err(Slash)
    else if b = 126 then                                          -- ENC_PREFIX
      if escaped then .err ⟨offset, .tilde⟩                       --   (fix a6b872b)
      else fromEncodedLoop r (offset + 1) true
    else if (b = 48 ∨ b = 49) ∧ escaped = true then               -- TILDE_ENC | SLASH_ENC if escaped
      fromEncodedLoop r (offset + 1) false
    else if escaped then .err ⟨offset, .tilde⟩                    -- _ => if escaped { Err(Tilde) }
    else fromEncodedLoop r (offset + 1) escaped

/-- `Token::from_encoded`: borrows its input verbatim on success (no buffer is built). -/
def Token.fromEncoded (s : Bytes) : Res EncErr Bytes :=
  match fromEncodedLoop s 0 false with
  | .err e => .err e
  | .panic m => .panic m
  | .ok true => .err ⟨s.length, .tilde⟩                           -- trailing '~' (fix 4106b2d)
  | .ok false => .ok s

/-- the `for &b in &input[i..]` loop of `Token::new`. -/
def encodeFrom : Bytes → Bytes
  | [] => []
  | b :: r =>
    if b = 47 then 126 :: 49 :: encodeFrom r
    else if b = 126 then 126 :: 48 :: encodeFrom r
    else b :: encodeFrom r

/-- `Token::new`: passes the input through when it has no `/` or `~`, otherwise builds a buffer. -/
def Token.new (s : Bytes) : Cow :=
  match position (fun b => b == 47 || b == 126) s with
  | some i => .owned (s.take i ++ encodeFrom (s.drop i))
  | none => .borrowed s

/-- the `for &b in &input[i + 1..]` loop of `Token::decoded`; note that `other => push` does not
    reset `escaped` (irrelevant for valid tokens, mirrored anyway). -/
def decodeLoop : Bytes → Bool → Bytes
  | [], _ => []
  | b :: r, escaped =>
    if b = 126 then decodeLoop r true
    else if b = 48 ∧ escaped = true then 126 :: decodeLoop r false
    else if b = 49 ∧ escaped = true then 47 :: decodeLoop r false
    else b :: decodeLoop r escaped

/-- `Token::decoded` (after fix 4c63e90: borrows from `self` when there is no `~`). -/
def Token.decoded (t : Bytes) : Cow :=
  match position (fun b => b == 126) t with
  | some i => .owned (t.take i ++ decodeLoop (t.drop (i + 1)) true)
  | none => .borrowed t

/-- `impl From<{integer}> for Token`: `v.to_string()` unchecked. -/
def Token.ofInt (v : Int) : Bytes := decimalInt v

/-- `Display for Token` / `to_string()` = decoded text. -/
def Token.toString (t : Bytes) : Bytes := (Token.decoded t).bytes

end Jp
