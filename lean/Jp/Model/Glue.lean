import Jp.Model.Delete
/-
  Jp.Model.Glue — the comparison impls (C17), serialisation / conversions (C18) and the
  allocation annotation (C19) of `src/pointer.rs` / `src/token.rs`.
-/
namespace Jp

/-! ### C17: the 17 hand-written `PartialEq` and 15 `PartialOrd` impls, with the operand order of
    the code (`self` first). Every one of them compares the two inner `str`s. -/

def strEq (a b : Bytes) : Bool := a == b
def strPartialCmp (a b : Bytes) : Option Ordering := some (lexCmp a b)

def eqImpls : List (String × (Bytes → Bytes → Bool)) := [
  ("Pointer==&str",        fun self other => strEq self other),      -- &&self.0 == other
  ("&Pointer==String",     fun self other => strEq self other),      -- self.0.eq(other)
  ("Pointer==str",         fun self other => strEq self other),      -- &self.0 == other
  ("&str==Pointer",        fun self other => strEq self other),      -- *self == (&other.0)
  ("String==Pointer",      fun self other => strEq self other),      -- self == &other.0
  ("str==Pointer",         fun self other => strEq self other),
  ("Pointer==String",      fun self other => strEq self other),
  ("Pointer==PointerBuf",  fun self other => strEq self other),      -- self.0 == other.0
  ("PointerBuf==Pointer",  fun self other => strEq self other),
  ("String==PointerBuf",   fun self other => strEq self other),
  ("PointerBuf==String",   fun self other => strEq self other),
  ("str==PointerBuf",      fun self other => strEq self other),
  ("&str==PointerBuf",     fun self other => strEq self other),
  ("&Pointer==PointerBuf", fun self other => strEq self other),
  ("PointerBuf==&Pointer", fun self other => strEq self other),
  ("PointerBuf==&str",     fun self other => strEq self other),
  ("PointerBuf==str",      fun self other => strEq self other),
  ("Pointer==Pointer",     fun self other => strEq self other),      -- derived
  ("PointerBuf==PointerBuf", fun self other => strEq self other)     -- derived
]

def ordImpls : List (String × (Bytes → Bytes → Option Ordering)) := [
  ("Pointer?PointerBuf",   fun self other => strPartialCmp self other),  -- self.0.partial_cmp(other.0.as_str())
  ("PointerBuf?Pointer",   fun self other => strPartialCmp self other),
  ("PointerBuf?&Pointer",  fun self other => strPartialCmp self other),
  ("String?Pointer",       fun self other => strPartialCmp self other),
  ("&Pointer?String",      fun self other => strPartialCmp self other),
  ("String?PointerBuf",    fun self other => strPartialCmp self other),
  ("str?Pointer",          fun self other => strPartialCmp self other),
  ("str?PointerBuf",       fun self other => strPartialCmp self other),
  ("&str?PointerBuf",      fun self other => strPartialCmp self other),
  ("&str?Pointer",         fun self other => strPartialCmp self other),
  ("&Pointer?&str",        fun self other => strPartialCmp self other),
  ("Pointer?String",       fun self other => strPartialCmp self other),
  ("PointerBuf?&str",      fun self other => strPartialCmp self other),
  ("&Pointer?PointerBuf",  fun self other => strPartialCmp self other),
  ("PointerBuf?String",    fun self other => strPartialCmp self other),
  ("Pointer?Pointer",      fun self other => strPartialCmp self other),  -- derived PartialOrd/Ord
  ("PointerBuf?PointerBuf", fun self other => strPartialCmp self other)  -- derived
]

/-- what `#[derive(Hash)]` on `Pointer(str)` / `PointerBuf(String)` and `str::hash` feed the hasher:
    the bytes followed by the `0xff` terminator `str::hash` writes. -/
def hashInputPointer (p : Bytes) : Bytes := p ++ [255]
def hashInputPointerBuf (p : Bytes) : Bytes := p ++ [255]
def hashInputStr (s : Bytes) : Bytes := s ++ [255]

/-! ### C18: serialisation and conversions. A serialised value is the JSON string with that text. -/

/-- `Serialize for Pointer` / `PointerBuf`: `<str>::serialize(&self.0)` -/
def serialize (p : Bytes) : Bytes := p
def toBuf (p : Bytes) : Bytes := p                 -- `PointerBuf(self.0.to_string())`
def toOwned (p : Bytes) : Bytes := toBuf p
def intoBoxed (p : Bytes) : Bytes := p             -- `From<PointerBuf> for Box<Pointer>`
def intoBuf (b : Bytes) : Bytes := b               -- `Box<Pointer>::into_buf`
def toJsonValue (p : Bytes) : Bytes := p           -- `Value::String(self.0.to_string())`
def display (p : Bytes) : Bytes := p
def tokenIntoOwned (t : Bytes) : Bytes := t
def tokenToOwned (t : Bytes) : Bytes := t

/-- all conversions the property lists, as (name, text after) -/
def conversions (p : Bytes) : List (String × Bytes) := [
  ("to_buf", toBuf p), ("to_owned", toOwned p), ("box_round_trip", intoBuf (intoBoxed p)),
  ("to_json_value", toJsonValue p), ("display", display p), ("serialize", serialize p)]

end Jp
