import Jp.Model.Pointer
/-
  Jp.Model.Iter — the iterators of `src/token.rs` (`Tokens`, a wrapper of `str::Split<'a, char>`) and
  `src/component.rs` (`Components`, with its `sent_root` flag) as explicit state machines:
  a state and a `next` function returning the item and the successor state, exactly one call of
  `Iterator::next(&mut self)`.
-/
namespace Jp

/-- the state of `str::split('/')`: the not yet split remainder, `none` = finished. -/
structure Split where
  rest : Option Bytes
deriving DecidableEq, Repr

/-- `<Split<'a, char> as Iterator>::next`: the piece before the first `/` of the remainder; when no
    `/` is left the whole remainder is the last piece (possibly empty) and the iterator is finished;
    a finished iterator keeps returning `None`. -/
def Split.next : Split → Option Bytes × Split
  | ⟨some s⟩ =>
    match find 47 s with
    | some i => (some (s.take i), ⟨some (s.drop (i + 1))⟩)
    | none => (some s, ⟨none⟩)
  | ⟨none⟩ => (none, ⟨none⟩)

/-- `Pointer::tokens`: `let mut s = self.0.split('/'); s.next(); Tokens::new(s)`. -/
def Tokens.new (p : Bytes) : Split := (Split.next ⟨some p⟩).2

/-- `<Tokens as Iterator>::next`: `self.inner.next().map(Token::from_encoded_unchecked)`; a token is
    its encoded bytes. -/
def Tokens.next : Split → Option Bytes × Split := Split.next

/-- `struct Components { tokens, sent_root }`. -/
structure Components where
  sentRoot : Bool
  tokens : Split
deriving DecidableEq, Repr

/-- `From<&Pointer> for Components`. -/
def Components.new (p : Bytes) : Components := ⟨false, Tokens.new p⟩

/-- `<Components as Iterator>::next`. -/
def Components.next (c : Components) : Option Component × Components :=
  if !c.sentRoot then (some .root, ⟨true, c.tokens⟩)
  else
    match Tokens.next c.tokens with
    | (item, tokens) => (item.map .token, ⟨c.sentRoot, tokens⟩)

/-- `Iterator::collect::<Vec<_>>()` with fuel: call `next` until it returns `None`. -/
def drain {σ α : Type} (next : σ → Option α × σ) : Nat → σ → List α
  | 0, _ => []
  | fuel + 1, s =>
    match next s with
    | (some a, s') => a :: drain next fuel s'
    | (none, _) => []

/-- the state after `n` calls of `next` (items discarded). -/
def advance {σ α : Type} (next : σ → Option α × σ) : Nat → σ → σ
  | 0, s => s
  | n + 1, s => advance next n (next s).2

/-- `pointer.tokens().collect()`; a text of length `n` has at most `n` tokens. -/
def Tokens.collect (p : Bytes) : List Bytes := drain Tokens.next (p.length + 2) (Tokens.new p)

/-- `pointer.components().collect()`. -/
def Components.collect (p : Bytes) : List Component :=
  drain Components.next (p.length + 3) (Components.new p)

end Jp
