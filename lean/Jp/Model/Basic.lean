/-
  Jp.Model.Basic — conventions shared by the whole model (import-free, executable).

  * A Rust `str`/`String` is its UTF-8 byte list (`Bytes = List Nat`, every element < 256 in every
    run; theorems hold for all `Nat` lists).
  * `Res ε α` is the outcome of a Rust call: `ok`, a returned error `err`, or a *panic*
    (index out of range, `Vec::remove`, overflow in the checked profile, `expect`) — never a
    totalised default.
  * `Cow` distinguishes a pass-through / borrowed result from a freshly built buffer (C19).
-/
namespace Jp

abbrev Bytes := List Nat

inductive Res (ε α : Type) where
  | ok (a : α)
  | err (e : ε)
  | panic (site : String)
deriving DecidableEq, Repr

def Res.isOk {ε α} : Res ε α → Bool
  | .ok _ => true
  | _ => false

def Res.isPanic {ε α} : Res ε α → Bool
  | .panic _ => true
  | _ => false

/-- `alloc::borrow::Cow<str>` as far as C19 cares: `borrowed` = the input is passed through or
    borrowed, `owned` = a fresh heap buffer was built. -/
inductive Cow where
  | borrowed (b : Bytes)
  | owned (b : Bytes)
deriving DecidableEq, Repr

def Cow.bytes : Cow → Bytes
  | .borrowed b => b
  | .owned b => b

def Cow.fresh : Cow → Bool
  | .borrowed _ => false
  | .owned _ => true

/-- `usize::MAX` on the (64-bit) target the checks run on. -/
def usizeMax : Nat := 18446744073709551615

/-! ### `str` primitives (documented std semantics; exercised by every correspondence run) -/

/-- `s.find(c)` for an ASCII char `c`: byte index of the first occurrence. -/
def find (c : Nat) : Bytes → Option Nat
  | [] => none
  | b :: r => if b = c then some 0 else (find c r).map (· + 1)

/-- `s.rfind(c)`: byte index of the last occurrence. -/
def rfind (c : Nat) : Bytes → Option Nat
  | [] => none
  | b :: r =>
    match rfind c r with
    | some i => some (i + 1)
    | none => if b = c then some 0 else none

/-- `s.bytes().position(pred)`. -/
def position (p : Nat → Bool) : Bytes → Option Nat
  | [] => none
  | b :: r => if p b then some 0 else (position p r).map (· + 1)

/-- `s.split(c)` collected (always at least one piece). -/
def splitOn (sep : Nat) : Bytes → List Bytes
  | [] => [[]]
  | b :: r =>
    if b = sep then [] :: splitOn sep r
    else match splitOn sep r with
      | h :: t => (b :: h) :: t
      | [] => [[b]]

/-- `s.split_once(c)`. -/
def splitOnce (c : Nat) : Bytes → Option (Bytes × Bytes)
  | [] => none
  | b :: r =>
    if b = c then some ([], r)
    else match splitOnce c r with
      | some (f, k) => some (b :: f, k)
      | none => none

/-- `s.rsplit_once(c)`. -/
def rsplitOnce (c : Nat) : Bytes → Option (Bytes × Bytes)
  | [] => none
  | b :: r =>
    match rsplitOnce c r with
    | some (f, k) => some (b :: f, k)
    | none => if b = c then some ([], r) else none

/-- `s.strip_prefix(p)`. -/
def stripPrefix : Bytes → Bytes → Option Bytes
  | s, [] => some s
  | [], _ :: _ => none
  | b :: s, c :: p => if b = c then stripPrefix s p else none

/-- `s.starts_with(p)`. -/
def startsWith (s p : Bytes) : Bool := (stripPrefix s p).isSome

/-- `s.strip_suffix(p)`. -/
def stripSuffix (s p : Bytes) : Option Bytes :=
  (stripPrefix s.reverse p.reverse).map List.reverse

/-- `s.ends_with(p)`. -/
def endsWith (s p : Bytes) : Bool := (stripSuffix s p).isSome

/-- canonical decimal of an unsigned integer (`usize::to_string`, `{index}`). -/
def decimal (n : Nat) : Bytes :=
  if h : n < 10 then [48 + n] else decimal (n / 10) ++ [48 + n % 10]
termination_by n
decreasing_by omega

/-- `i128::to_string` etc.: optional `-` then the decimal magnitude. -/
def decimalInt (i : Int) : Bytes :=
  if i < 0 then 45 :: decimal i.natAbs else decimal i.natAbs

def isDigit (b : Nat) : Bool := 48 ≤ b && b ≤ 57

/-- value of an all-digit string (what `usize::from_str` computes before its overflow check). -/
def parseNat (s : Bytes) : Nat := s.foldl (fun acc b => acc * 10 + (b - 48)) 0

/-- lexicographic byte comparison = `str::cmp`. -/
def lexCmp : Bytes → Bytes → Ordering
  | [], [] => .eq
  | [], _ :: _ => .lt
  | _ :: _, [] => .gt
  | a :: as, b :: bs => if a < b then .lt else if b < a then .gt else lexCmp as bs

end Jp
