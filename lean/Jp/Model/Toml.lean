import Jp.Model.Delete
/-
  Jp.Model.Toml — mirrors the *toml* copies: `mod toml` of `src/resolve.rs` (`Resolve::resolve` and
  `ResolveMut::resolve_mut`, both with the `to_index` / `for_len` chain written inline — the toml
  `resolve_mut` does not go through the shared `parse_index` helper), `mod toml` of `src/assign.rs`
  (`expand`, `assign_value` with `assign_array`, `assign_object`, `assign_scalar`) and `mod toml` of
  `src/delete.rs`. Written out separately from the json copies in `Resolve.lean` / `Assign.lean` /
  `Delete.lean` (same types, same loop state), so that "toml = json" is a theorem
  (`Jp.Lemmas.Toml`) and not true by construction. `Value::Table` is `Val.obj`.
-/
namespace Jp.Toml
open Jp

/-- the `while let Some((token, rem)) = ptr.split_front()` loop of the toml `Resolve::resolve`;
    state `(ptr, value, offset, position)` plus the location of `value`.
    `&v[idx]` would panic when `idx >= len`. -/
def resolveLoop (ptr : Bytes) (value : Val) (offset position : Nat) (loc : Loc) :
    Res ResolveErr (Loc × Val) :=
  match h : splitFront ptr with
  | none => .ok (loc, value)
  | some (token, rem) =>
    have : rem.length < ptr.length := splitFront_length h
    match value with
    | .arr v =>
      match Token.toIndex token with
      | .err source => .err (.failedToParseIndex position offset source)
      | .panic m => .panic m
      | .ok index =>
        match index.forLen v.length with
        | .err source => .err (.outOfBounds position offset source)
        | .panic m => .panic m
        | .ok idx =>
          match v[idx]? with
          | some c => resolveLoop rem c (offset + (1 + token.length)) (position + 1) (loc ++ [.idx idx])
          | none => .panic "index out of bounds: v[idx]"
    | .obj v =>                                              -- Value::Table(v)
      match lookup (Token.decoded token).bytes v with
      | some c =>
        resolveLoop rem c (offset + (1 + token.length)) (position + 1)
          (loc ++ [.key (Token.decoded token).bytes])
      | none => .err (.notFound position offset)
    | .scalar _ => .err (.unreachable position offset)
termination_by ptr.length

/-- toml `Resolve::resolve` -/
def resolve (doc : Val) (ptr : Bytes) : Res ResolveErr (Loc × Val) := resolveLoop ptr doc 0 0 []

/-- loop of the toml `ResolveMut::resolve_mut`: the `to_index` / `for_len` chain inline (no
    `parse_index`); `&mut array[idx]` would panic when `idx >= len`. -/
def resolveMutLoop (ptr : Bytes) (value : Val) (offset position : Nat) (loc : Loc) :
    Res ResolveErr (Loc × Val) :=
  match h : splitFront ptr with
  | none => .ok (loc, value)
  | some (token, rem) =>
    have : rem.length < ptr.length := splitFront_length h
    match value with
    | .arr array =>
      match Token.toIndex token with
      | .err source => .err (.failedToParseIndex position offset source)
      | .panic m => .panic m
      | .ok index =>
        match index.forLen array.length with
        | .err source => .err (.outOfBounds position offset source)
        | .panic m => .panic m
        | .ok idx =>
          match array[idx]? with
          | some c => resolveMutLoop rem c (offset + (1 + token.length)) (position + 1) (loc ++ [.idx idx])
          | none => .panic "index out of bounds: array[idx]"
    | .obj v =>                                              -- Value::Table(v)
      match lookup (Token.decoded token).bytes v with
      | some c =>
        resolveMutLoop rem c (offset + (1 + token.length)) (position + 1)
          (loc ++ [.key (Token.decoded token).bytes])
      | none => .err (.notFound position offset)
    | .scalar _ => .err (.unreachable position offset)
termination_by ptr.length

/-- toml `ResolveMut::resolve_mut`: the location of the node a `&mut` is handed out for -/
def resolveMut (doc : Val) (ptr : Bytes) : Res ResolveErr (Loc × Val) :=
  resolveMutLoop ptr doc 0 0 []

/-- `*ptr.resolve_mut(&mut doc)? = x` on a `toml::Value` -/
def writeThrough (doc : Val) (ptr : Bytes) (x : Val) : Val × Res ResolveErr Unit :=
  match resolveMut doc ptr with
  | .ok (loc, _) => (doc.setAt loc x, .ok ())
  | .err e => (doc, .err e)
  | .panic m => (doc, .panic m)

/-- toml `expand`: the `while let Some((ptr, tok)) = remaining.split_back()` loop, folding from the
    back; `"0" | "-"` is matched on `tok.encoded()`, the table key is `tok.to_string()` (decoded). -/
def expand (remaining : Bytes) (value : Val) : Val :=
  match h : splitBack remaining with
  | none => value
  | some (ptr, tok) =>
    have : ptr.length < remaining.length := rsplitOnce_length h
    if tok = [48] ∨ tok = [45] then expand ptr (.arr [value])      -- Value::Array(vec![value])
    else expand ptr (.obj [(Token.toString tok, value)])           -- Value::Table(obj)
termination_by remaining.length

/-- toml `assign_value` with its three helpers inlined at the `match dest`; state
    `(ptr, dest, value, offset, position)`; returns `(dest afterwards, result)`.
    `Assigned::Continue` is the recursive call. -/
def assignValue (ptr : Bytes) (dest value : Val) (offset position : Nat) :
    Val × Res AssignErr (Option Val) :=
  match h : splitFront ptr with
  | none => (value, .ok (some dest))                       -- root: mem::replace(dest, value)
  | some (token, tail) =>
    have : tail.length < ptr.length := splitFront_length h
    match dest with
    | .arr array =>                                        -- assign_array
      match Token.toIndex token with
      | .err source => (dest, .err (.failedToParseIndex position offset source))
      | .panic m => (dest, .panic m)
      | .ok index =>
        match index.forLenIncl array.length with
        | .err source => (dest, .err (.outOfBounds position offset source))
        | .panic m => (dest, .panic m)
        | .ok idx =>
          match array[idx]? with
          | some elem =>                                   -- idx < array.len()
            if isRoot tail then (.arr (array.set idx value), .ok (some elem))
            else
              match assignValue tail elem value (offset + (1 + token.length)) (position + 1) with
              | (elem', r) => (.arr (array.set idx elem'), r)
          | none =>                                        -- push(expand(remaining, src))
            (.arr (array ++ [expand tail value]), .ok none)
    | .obj tbl =>                                          -- assign_object: entry(token.to_string())
      let key := Token.toString token
      match lookup key tbl with
      | some entry =>
        if isRoot tail then (.obj (replaceKey key value tbl), .ok (some entry))
        else
          match assignValue tail entry value (offset + (1 + token.length)) (position + 1) with
          | (entry', r) => (.obj (replaceKey key entry' tbl), r)
      | none => (.obj (tbl ++ [(key, expand tail value)]), .ok none)
    | .scalar _ =>                                         -- assign_scalar: expand from `ptr`
      (expand ptr value, .ok (some dest))
termination_by ptr.length

/-- toml `Assign::assign` -/
def assign (doc : Val) (ptr : Bytes) (value : Val) : Val × Res AssignErr (Option Val) :=
  assignValue ptr doc value 0 0

/-- toml `Delete::delete`: `split_back`, the toml `resolve_mut` on the parent, then `Vec::remove` /
    `Map::remove`; `(document afterwards, returned value)`; `err` is never produced.
    Deleting the root leaves `Table::default().into()`. -/
def delete (doc : Val) (ptr : Bytes) : Val × Res Unit (Option Val) :=
  match splitBack ptr with
  | none => (rootRepl .toml, .ok (some doc))               -- deleting at root
  | some (parentPtr, last) =>
    match resolveMut doc parentPtr with
    | .err _ => (doc, .ok none)                            -- .ok()?
    | .panic m => (doc, .panic m)
    | .ok (loc, parent) =>
      match parent with
      | .arr children =>
        match Token.toIndex last with
        | .err _ => (doc, .ok none)
        | .panic m => (doc, .panic m)
        | .ok index =>
          match index.forLen children.length with
          | .err _ => (doc, .ok none)
          | .panic m => (doc, .panic m)
          | .ok idx =>
            match children[idx]? with                       -- children.remove(idx)
            | some v => (doc.setAt loc (.arr (children.eraseIdx idx)), .ok (some v))
            | none => (doc, .panic "removal index (is idx) should be < len")
      | .obj children =>                                   -- Value::Table(children)
        let key := (Token.decoded last).bytes
        match lookup key children with
        | some v => (doc.setAt loc (.obj (eraseKey key children)), .ok (some v))
        | none => (doc, .ok none)
      | .scalar _ => (doc, .ok none)

end Jp.Toml
