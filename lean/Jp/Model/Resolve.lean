import Jp.Model.Val
/-
  Jp.Model.Resolve — mirrors `src/resolve.rs`: `Resolve::resolve` and `ResolveMut::resolve_mut`
  (the json copy of `resolve_mut` goes through the shared `parse_index` helper, the other three
  copies inline the chain), the error type with its accessors, and the diagnostic label.
  A returned reference is modelled by the location it points at plus the node found there.
-/
namespace Jp

/-- `resolve::Error` -/
inductive ResolveErr where
  | failedToParseIndex (position offset : Nat) (source : ParseIndexError)
  | outOfBounds (position offset : Nat) (source : OobErr)
  | notFound (position offset : Nat)
  | unreachable (position offset : Nat)
deriving DecidableEq, Repr

def ResolveErr.position : ResolveErr → Nat
  | .failedToParseIndex p _ _ | .outOfBounds p _ _ | .notFound p _ | .unreachable p _ => p

def ResolveErr.offset : ResolveErr → Nat
  | .failedToParseIndex _ o _ | .outOfBounds _ o _ | .notFound _ o | .unreachable _ o => o

theorem splitFront_length {p tok rem : Bytes} (h : splitFront p = some (tok, rem)) :
    rem.length < p.length := by
  cases p with
  | nil => simp [splitFront] at h
  | cons b rest =>
    simp only [splitFront] at h
    split at h
    · simp at h; obtain ⟨_, rfl⟩ := h; simp
    · simp at h; obtain ⟨_, rfl⟩ := h; simp; omega

/-- the `while let Some((token, rem)) = ptr.split_front()` loop of `Resolve::resolve` (json and
    toml copies are textually the same); state `(ptr, value, offset, position)` plus the location
    of `value`. `&v[idx]` would panic when `idx >= len`. -/
def resolveLoop (ptr : Bytes) (value : Val) (offset position : Nat) (loc : Loc) :
    Res ResolveErr (Loc × Val) :=
  match h : splitFront ptr with
  | none => .ok (loc, value)
  | some (token, rem) =>
    have : rem.length < ptr.length := splitFront_length h
    match value with
    | .arr v =>
      match Token.toIndex token with
      | .err source => .err (.failedToParseIndex position offset source)
      | .panic m => .panic m
      | .ok index =>
        match index.forLen v.length with
        | .err source => .err (.outOfBounds position offset source)
        | .panic m => .panic m
        | .ok idx =>
          match v[idx]? with
          | some c => resolveLoop rem c (offset + (1 + token.length)) (position + 1) (loc ++ [.idx idx])
          | none => .panic "index out of bounds: v[idx]"
    | .obj v =>
      match lookup (Token.decoded token).bytes v with
      | some c =>
        resolveLoop rem c (offset + (1 + token.length)) (position + 1)
          (loc ++ [.key (Token.decoded token).bytes])
      | none => .err (.notFound position offset)
    | .scalar _ => .err (.unreachable position offset)
termination_by ptr.length

/-- `Resolve::resolve` -/
def resolve (doc : Val) (ptr : Bytes) : Res ResolveErr (Loc × Val) := resolveLoop ptr doc 0 0 []

/-- the shared `parse_index` helper -/
def parseIndex (token : Bytes) (arrayLen position offset : Nat) : Res ResolveErr Nat :=
  match Token.toIndex token with
  | .err source => .err (.failedToParseIndex position offset source)
  | .panic m => .panic m
  | .ok index =>
    match index.forLen arrayLen with
    | .err source => .err (.outOfBounds position offset source)
    | .panic m => .panic m
    | .ok idx => .ok idx

/-- loop of the json `ResolveMut::resolve_mut` (through `parse_index`) -/
def resolveMutLoop (ptr : Bytes) (value : Val) (offset position : Nat) (loc : Loc) :
    Res ResolveErr (Loc × Val) :=
  match h : splitFront ptr with
  | none => .ok (loc, value)
  | some (token, rem) =>
    have : rem.length < ptr.length := splitFront_length h
    match value with
    | .arr array =>
      match parseIndex token array.length position offset with
      | .err e => .err e
      | .panic m => .panic m
      | .ok idx =>
        match array[idx]? with
        | some c => resolveMutLoop rem c (offset + (1 + token.length)) (position + 1) (loc ++ [.idx idx])
        | none => .panic "index out of bounds: array[idx]"
    | .obj v =>
      match lookup (Token.decoded token).bytes v with
      | some c =>
        resolveMutLoop rem c (offset + (1 + token.length)) (position + 1)
          (loc ++ [.key (Token.decoded token).bytes])
      | none => .err (.notFound position offset)
    | .scalar _ => .err (.unreachable position offset)
termination_by ptr.length

/-- `ResolveMut::resolve_mut`: the location of the node a `&mut` is handed out for -/
def resolveMut (doc : Val) (ptr : Bytes) : Res ResolveErr (Loc × Val) :=
  resolveMutLoop ptr doc 0 0 []

/-- `*ptr.resolve_mut(&mut doc)? = x` -/
def writeThrough (doc : Val) (ptr : Bytes) (x : Val) : Val × Res ResolveErr Unit :=
  match resolveMut doc ptr with
  | .ok (loc, _) => (doc.setAt loc x, .ok ())
  | .err e => (doc, .err e)
  | .panic m => (doc, .panic m)

/-- `Diagnostic::labels` shared by `resolve::Error` and `assign::Error`:
    `origin.get(position)?`, the `offset + 1 < len` adjustment, `len = token.encoded().len()`. -/
def walkLabel (origin : Bytes) (position offset : Nat) : Option (Nat × Nat) :=
  match getToken origin position with
  | none => none
  | some token =>
    let off := if offset + 1 < origin.length then offset + 1 else offset
    some (off, token.length)

def ResolveErr.label (e : ResolveErr) (origin : Bytes) : Option (Nat × Nat) :=
  walkLabel origin e.position e.offset

end Jp
