import Jp.Model.Assign
/-
  Jp.Model.Delete — mirrors `src/delete.rs` after fix 47d1325 (`for_len`): `split_back`, `resolve_mut`
  on the parent, then `Vec::remove` / `Map::remove`. `Vec::remove(idx)` panics iff `idx >= len`.
-/
namespace Jp

/-- `Delete::delete`: `(document afterwards, returned value)`; `err` is never produced. -/
def delete (backend : Backend) (doc : Val) (ptr : Bytes) : Val × Res Unit (Option Val) :=
  match splitBack ptr with
  | none => (rootRepl backend, .ok (some doc))             -- deleting at root
  | some (parentPtr, last) =>
    match resolveMut doc parentPtr with
    | .err _ => (doc, .ok none)                            -- .ok()?
    | .panic m => (doc, .panic m)
    | .ok (loc, parent) =>
      match parent with
      | .arr children =>
        match Token.toIndex last with
        | .err _ => (doc, .ok none)
        | .panic m => (doc, .panic m)
        | .ok index =>
          match index.forLen children.length with
          | .err _ => (doc, .ok none)
          | .panic m => (doc, .panic m)
          | .ok idx =>
            match children[idx]? with                       -- children.remove(idx)
            | some v => (doc.setAt loc (.arr (children.eraseIdx idx)), .ok (some v))
            | none => (doc, .panic "removal index (is idx) should be < len")
      | .obj children =>
        let key := (Token.decoded last).bytes
        match lookup key children with
        | some v => (doc.setAt loc (.obj (eraseKey key children)), .ok (some v))
        | none => (doc, .ok none)
      | .scalar _ => (doc, .ok none)

end Jp
