import Jp.Model.Pointer
/-
  Jp.Model.Slice — mirrors `src/pointer/slice.rs`: the eight `PointerIndex::get` impls with their
  loop state, after fix d6129cb (`checked_add`). A result is a byte range `(start, end)` into the
  receiver (a borrowed view: no buffer is built); the final `&bytes[s..e]` is a checked slice.
-/
namespace Jp

/-- a borrowed sub-slice `[start, end)` of the receiver's bytes -/
abbrev Span := Nat × Nat

/-- `&pointer.0.as_bytes()[s..e]`: panics when `s > e` or `e > len`. -/
def sliceChecked (p : Bytes) (s e : Nat) : Res Unit (Option Span) :=
  if s ≤ e ∧ e ≤ p.length then .ok (some (s, e)) else .panic "slice index out of range"

/-- `usize: PointerIndex`: `pointer.tokens().nth(self)`. -/
def getToken (p : Bytes) (i : Nat) : Option Bytes := (tokens p)[i]?

/-- loop of `Range<usize>::get`; state `(idx, offset, start_offset)`; returns the final
    `(idx, offset, start_offset, end_offset)`. -/
def rangeLoop (start stop : Nat) : List Bytes → Nat → Nat → Option Nat → Nat × Nat × Option Nat × Option Nat
  | [], idx, offset, so => (idx, offset, so, none)
  | t :: ts, idx, offset, so =>
    let so := if idx = start then some offset else so
    if idx = stop then (idx, offset, so, some offset)                 -- break
    else rangeLoop start stop ts (idx + 1) (offset + (t.length + 1)) so

/-- `Range<usize>` (`a..b`). -/
def getRange (p : Bytes) (start stop : Nat) : Res Unit (Option Span) :=
  if stop < start then .ok none
  else
    match rangeLoop start stop (tokens p) 0 0 none with
    | (idx, offset, so, eo) =>
      let eo := if idx = stop then some offset else eo                -- edge case after the loop
      match so, eo with
      | some s, some e => sliceChecked p s e
      | _, _ => .ok none

/-- loop of `RangeFrom<usize>::get`. -/
def rangeFromLoop (start : Nat) : List Bytes → Nat → Nat → Option Nat
  | [], _, _ => none
  | t :: ts, idx, offset =>
    if idx = start then some offset
    else rangeFromLoop start ts (idx + 1) (offset + (t.length + 1))

/-- `RangeFrom<usize>` (`a..`). -/
def getRangeFrom (p : Bytes) (start : Nat) : Res Unit (Option Span) :=
  match rangeFromLoop start (tokens p) 0 0 with
  | some s => sliceChecked p s p.length
  | none => .ok none

/-- loop of `RangeTo<usize>::get`; returns final `(idx, offset, end_offset)`. -/
def rangeToLoop (stop : Nat) : List Bytes → Nat → Nat → Nat × Nat × Option Nat
  | [], idx, offset => (idx, offset, none)
  | t :: ts, idx, offset =>
    if idx = stop then (idx, offset, some offset)
    else rangeToLoop stop ts (idx + 1) (offset + (t.length + 1))

/-- `RangeTo<usize>` (`..b`). -/
def getRangeTo (p : Bytes) (stop : Nat) : Res Unit (Option Span) :=
  match rangeToLoop stop (tokens p) 0 0 with
  | (idx, offset, eo) =>
    let eo := if idx = stop then some offset else eo
    match eo with
    | some e => sliceChecked p 0 e
    | none => .ok none

/-- `RangeFull` (`..`). -/
def getRangeFull (p : Bytes) : Res Unit (Option Span) := .ok (some (0, p.length))

/-- loop of `RangeInclusive<usize>::get`; returns `(start_offset, end_offset)`. -/
def rangeInclLoop (start stop : Nat) : List Bytes → Nat → Nat → Option Nat → Option Nat × Option Nat
  | [], _, _, so => (so, none)
  | t :: ts, idx, offset, so =>
    let so := if idx = start then some offset else so
    let offset := offset + (t.length + 1)
    if idx = stop then (so, some offset)
    else rangeInclLoop start stop ts (idx + 1) offset so

/-- `RangeInclusive<usize>` (`a..=b`). -/
def getRangeIncl (p : Bytes) (start stop : Nat) : Res Unit (Option Span) :=
  if stop < start then .ok none
  else
    match rangeInclLoop start stop (tokens p) 0 0 none with
    | (some s, some e) => sliceChecked p s e
    | _ => .ok none

/-- loop of `RangeToInclusive<usize>::get`. -/
def rangeToInclLoop (stop : Nat) : List Bytes → Nat → Nat → Option Nat
  | [], _, _ => none
  | t :: ts, idx, offset =>
    let offset := offset + (t.length + 1)
    if idx = stop then some offset
    else rangeToInclLoop stop ts (idx + 1) offset

/-- `RangeToInclusive<usize>` (`..=b`). -/
def getRangeToIncl (p : Bytes) (stop : Nat) : Res Unit (Option Span) :=
  match rangeToInclLoop stop (tokens p) 0 0 with
  | some e => sliceChecked p 0 e
  | none => .ok none

/-- `core::ops::Bound<usize>`. -/
inductive Bound where
  | included (n : Nat)
  | excluded (n : Nat)
  | unbounded
deriving DecidableEq, Repr

/-- `usize::checked_add(1)`. -/
def checkedSucc (n : Nat) : Option Nat := if n < usizeMax then some (n + 1) else none

/-- `(Bound<usize>, Bound<usize>)`. -/
def getBounds (p : Bytes) : Bound → Bound → Res Unit (Option Span)
  | .included s, .included e => getRangeIncl p s e
  | .included s, .excluded e => getRange p s e
  | .included s, .unbounded => getRangeFrom p s
  | .excluded s, .included e =>
    match checkedSucc s with | some s1 => getRangeIncl p s1 e | none => .ok none
  | .excluded s, .excluded e =>
    match checkedSucc s with | some s1 => getRange p s1 e | none => .ok none
  | .excluded s, .unbounded =>
    match checkedSucc s with | some s1 => getRangeFrom p s1 | none => .ok none
  | .unbounded, .included e => getRangeToIncl p e
  | .unbounded, .excluded e => getRangeTo p e
  | .unbounded, .unbounded => getRangeFull p

/-! ### splitters as views (C12 / C19): the remainder as a byte range of the receiver -/

/-- `split_front` as `(token, view of the remainder)`; the last remainder is `Pointer::root()`
    (a static empty string, printed as an empty view). -/
def splitFrontV (p : Bytes) : Option (Bytes × Span) :=
  match p with
  | [] => none
  | _ :: rest =>
    match find 47 rest with
    | none => some (rest, (p.length, p.length))
    | some idx => some (rest.take idx, (1 + idx, p.length))

/-- `split_back` as `(view of the parent, token)`. -/
def splitBackV (p : Bytes) : Option (Span × Bytes) :=
  match rfind 47 p with
  | some idx => some ((0, idx), p.drop (idx + 1))
  | none => none

/-- `split_at` as two views. -/
def splitAtV (p : Bytes) (offset : Nat) : Option (Span × Span) :=
  if p[offset]? ≠ some 47 then none else some ((0, offset), (offset, p.length))

end Jp
