import Jp.Model.Slice
/-
  Jp.Model.Val — documents. One nested inductive for `serde_json::Value` and `toml::Value`:
  the walks only distinguish array / object(table) / anything else. An object is an association
  list (well-formed = keys unique, which every `BTreeMap`-backed map satisfies); output is
  canonicalised by sorting keys, so the list order is unobservable.
-/
namespace Jp

inductive Val where
  | scalar (atom : Bytes)
  | arr (xs : List Val)
  | obj (kvs : List (Bytes × Val))
deriving Inhabited, Repr

/-- one step of a location: an object member or an array element -/
inductive Step where
  | key (k : Bytes)
  | idx (i : Nat)
deriving DecidableEq, Repr

/-- a location inside a document — how the model represents a Rust reference into it -/
abbrev Loc := List Step

/-- `Map::get` -/
def lookup (k : Bytes) : List (Bytes × Val) → Option Val
  | [] => none
  | (k', v) :: r => if k = k' then some v else lookup k r

/-- write through `Map::get_mut` / an occupied `Entry` -/
def replaceKey (k : Bytes) (x : Val) : List (Bytes × Val) → List (Bytes × Val)
  | [] => []
  | (k', v) :: r => if k = k' then (k', x) :: r else (k', v) :: replaceKey k x r

/-- `Map::remove` -/
def eraseKey (k : Bytes) : List (Bytes × Val) → List (Bytes × Val)
  | [] => []
  | (k', v) :: r => if k = k' then r else (k', v) :: eraseKey k r

/-- the node at a location (following serde_json's / toml's own accessors) -/
def Val.at : Val → Loc → Option Val
  | v, [] => some v
  | .arr xs, .idx i :: l => match xs[i]? with
    | some c => c.at l
    | none => none
  | .obj kvs, .key k :: l => match lookup k kvs with
    | some c => c.at l
    | none => none
  | _, _ :: _ => none

/-- the document with the node at a location replaced (writing through a `&mut`) -/
def Val.setAt : Val → Loc → Val → Val
  | _, [], x => x
  | .arr xs, .idx i :: l, x => match xs[i]? with
    | some c => .arr (xs.set i (c.setAt l x))
    | none => .arr xs
  | .obj kvs, .key k :: l, x => match lookup k kvs with
    | some c => .obj (replaceKey k (c.setAt l x) kvs)
    | none => .obj kvs
  | v, _ :: _, _ => v

/-- backends differ only in what deleting the root leaves behind -/
inductive Backend where
  | json
  | toml
deriving DecidableEq, Repr

def rootRepl : Backend → Val
  | .json => .scalar [110]      -- `Value::Null`, atom "n"
  | .toml => .obj []            -- `Table::default().into()`

end Jp
