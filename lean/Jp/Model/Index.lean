import Jp.Model.Token
/-
  Jp.Model.Index — mirrors `src/index.rs`.
-/
namespace Jp

inductive Index where
  | num (i : Nat)
  | next
deriving DecidableEq, Repr

/-- `ParseIndexError`; `InvalidInteger` carries the `IntErrorKind` the std parser can produce on a
    digits-only string (`Empty`, `PosOverflow`). -/
inductive ParseIndexError where
  | invalidIntegerEmpty
  | invalidIntegerOverflow
  | leadingZeros
  | invalidCharacter (source : Bytes) (offset : Nat)
deriving DecidableEq, Repr

/-- `OutOfBoundsError { length, index }`. -/
structure OobErr where
  length : Nat
  index : Nat
deriving DecidableEq, Repr

/-- `usize::from_str` restricted to digit-only input (the only input that reaches it). -/
def parseUsize (s : Bytes) : Res ParseIndexError Nat :=
  if s = [] then .err .invalidIntegerEmpty
  else if parseNat s > usizeMax then .err .invalidIntegerOverflow
  else .ok (parseNat s)

/-- `Index::from_str`. `s.chars().position(|c| !c.is_ascii_digit())` is a *char* index; every char
    before the first non-digit is a one-byte ASCII digit and the first byte of a non-digit char is a
    non-digit byte, so it equals the byte index computed here (lemma `Utf8` in the proofs). -/
def Index.fromStr (s : Bytes) : Res ParseIndexError Index :=
  if s = [45] then .ok .next
  else if s.head? = some 48 ∧ s ≠ [48] then .err .leadingZeros
  else match position (fun b => !isDigit b) s with
    | some offset => .err (.invalidCharacter s offset)
    | none =>
      match parseUsize s with
      | .ok n => .ok (.num n)
      | .err e => .err e
      | .panic m => .panic m

def Index.forLen : Index → Nat → Res OobErr Nat
  | .num index, length => if index < length then .ok index else .err ⟨length, index⟩
  | .next, length => .err ⟨length, length⟩

def Index.forLenIncl : Index → Nat → Res OobErr Nat
  | .num index, length => if index ≤ length then .ok index else .err ⟨length, index⟩
  | .next, length => .ok length

def Index.forLenUnchecked : Index → Nat → Nat
  | .num idx, _ => idx
  | .next, length => length

/-- `Display for Index`. -/
def Index.display : Index → Bytes
  | .num i => decimal i
  | .next => [45]

/-- `Token::to_index` = `Index::from_str(self.encoded())`. -/
def Token.toIndex (t : Bytes) : Res ParseIndexError Index := Index.fromStr t

/-- `Token::is_next`. -/
def Token.isNext (t : Bytes) : Bool :=
  match Token.toIndex t with
  | .ok .next => true
  | _ => false

/-- `InvalidCharacterError::char()`: `source.chars().nth(offset).expect(..)`; in the byte model the
    char at char-index `offset` starts at byte `offset` (all earlier chars are ASCII). -/
def invalidCharAt (source : Bytes) (offset : Nat) : Res Unit Nat :=
  match source[offset]? with
  | some b => .ok b
  | none => .panic "char was found at offset"

end Jp
