import Jp.Model.Index
/-
  Jp.Spec.Utf8 — the char structure of a UTF-8 byte string, as far as `Index::from_str` needs it.

  Rust computes `s.chars().position(|c| !c.is_ascii_digit())` (a *char* index) and later
  `source.chars().nth(offset)`; the model works on bytes. `chars` splits a byte string into its
  chars (each char is its byte sequence) using only the lead-byte length and the continuation-byte
  range. Overlong encodings, surrogates (ED A0..BF) and code points above U+10FFFF (F4 90..) are
  NOT rejected: `chars` accepts a superset of valid UTF-8, which only makes the theorems about it
  (`Jp.Lemmas.Utf8`) stronger — they hold in particular for every Rust `str`.
  Definitions only; proofs are in `Jp/Lemmas/Utf8.lean`.
-/
namespace Jp.Spec.Utf8
open Jp

/-- length of the UTF-8 sequence introduced by lead byte `b`; 0 when `b` is not a lead byte
    (continuation bytes 128–191, the invalid leads 192, 193 and 245–255) -/
def seqLen (b : Nat) : Nat :=
  if b < 128 then 1
  else if 194 ≤ b ∧ b < 224 then 2
  else if 224 ≤ b ∧ b < 240 then 3
  else if 240 ≤ b ∧ b < 245 then 4
  else 0

/-- continuation byte `10xxxxxx` -/
def isCont (b : Nat) : Bool := 128 ≤ b && b < 192

/-- `chars` with fuel (every step consumes at least one byte, so `fuel = length` suffices);
    structural, so closed instances reduce by `decide`/`rfl` -/
def charsFuel : Nat → Bytes → Option (List Bytes)
  | _, [] => some []
  | 0, _ :: _ => none
  | fuel + 1, b :: r =>
    let n := seqLen b
    if 1 ≤ n ∧ n - 1 ≤ r.length ∧ (r.take (n - 1)).all isCont = true then
      (charsFuel fuel (r.drop (n - 1))).map ((b :: r.take (n - 1)) :: ·)
    else none

/-- `s.chars()` collected, each char given as its byte sequence; `none` when `s` is malformed
    (a non-lead byte in lead position, a truncated sequence, or a non-continuation byte inside a
    sequence) -/
def chars (s : Bytes) : Option (List Bytes) := charsFuel s.length s

/-- `char::is_ascii_digit` on an encoded char -/
def isAsciiDigitChar (c : Bytes) : Bool :=
  match c with
  | [d] => isDigit d
  | _ => false

/-- `s.chars().position(pred)`: index of the first char satisfying `p` -/
def charPosition (p : Bytes → Bool) : List Bytes → Option Nat
  | [] => none
  | c :: r => if p c then some 0 else (charPosition p r).map (· + 1)

end Jp.Spec.Utf8
