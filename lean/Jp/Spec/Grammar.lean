import Jp.Model.Delete
/-
  Jp.Spec.Grammar — RFC 6901 syntax and the escape maps, stated directly (no scanner state).
-/
namespace Jp.Spec
open Jp

/-- every `~` is immediately followed by `0` or `1` -/
def tildesOk : Bytes → Bool
  | [] => true
  | b :: r =>
    if b = 126 then
      match r with
      | c :: r' => (c == 48 || c == 49) && tildesOk r'
      | [] => false
    else tildesOk r

/-- a reference token: no raw `/`, every `~` followed by `0` or `1` -/
def validTok (t : Bytes) : Bool := !t.contains 47 && tildesOk t

/-- a JSON Pointer: empty, or starts with `/` and every `~` is followed by `0` or `1` -/
def validPtr (p : Bytes) : Bool := p.isEmpty || (p.head? == some 47 && tildesOk p)

/-- escape: `~` ↦ `~0`, `/` ↦ `~1` -/
def enc : Bytes → Bytes
  | [] => []
  | b :: r =>
    if b = 126 then 126 :: 48 :: enc r
    else if b = 47 then 126 :: 49 :: enc r
    else b :: enc r

/-- unescape, left to right: `~0` ↦ `~`, `~1` ↦ `/` (a stray `~` is kept; irrelevant on valid tokens) -/
def dec : Bytes → Bytes
  | [] => []
  | [b] => [b]
  | b :: c :: r =>
    if b = 126 ∧ c = 48 then 126 :: dec r
    else if b = 126 ∧ c = 49 then 47 :: dec r
    else b :: dec (c :: r)

/-- index of the first offending byte of a token: a `/`, or a `~` not followed by `0`/`1` -/
def firstBad : Bytes → Option Nat
  | [] => none
  | b :: r =>
    if b = 47 then some 0
    else if b = 126 then
      match r with
      | c :: r' => if c = 48 ∨ c = 49 then (firstBad r').map (· + 2) else some 0
      | [] => some 0
    else (firstBad r).map (· + 1)

/-- index of the first `~` not followed by `0`/`1` in a pointer text -/
def firstBadTilde : Bytes → Option Nat
  | [] => none
  | b :: r =>
    if b = 126 then
      match r with
      | c :: r' => if c = 48 ∨ c = 49 then (firstBadTilde r').map (· + 2) else some 0
      | [] => some 0
    else (firstBadTilde r).map (· + 1)

/-- index of the last `/` at or before position `i` (searching `s[0..=i]`) -/
def lastSlashAtOrBefore (s : Bytes) (i : Nat) : Option Nat := rfind 47 (s.take (i + 1))

/-- the declarative parse verdict of C02/C14 -/
def parseSpec (s : Bytes) : Res ParseError Bytes :=
  if s = [] then .ok s
  else if s.head? ≠ some 47 then .err .noLeadingSlash
  else match firstBadTilde s with
    | none => .ok s
    | some c =>
      match lastSlashAtOrBefore s c with
      | some po => .err (.invalidEncoding po (c - po) .tilde)
      | none => .err (.invalidEncoding 0 c .tilde)        -- unreachable: s starts with '/'

/-! ### pointer text ⟷ token list -/

/-- the text of a token list: `"/" + t` for each (encoded) token -/
def ofToks (ts : List Bytes) : Bytes := ts.flatMap (fun t => 47 :: t)

/-- the text built from a list of *raw* strings -/
def ofRaw (l : List Bytes) : Bytes := ofToks (l.map enc)

/-- byte offset of token `k` in `ofToks ts`: the sum of `1 + |t|` over the preceding tokens -/
def off (ts : List Bytes) (k : Nat) : Nat := ((ts.take k).map (fun t => 1 + t.length)).sum

/-- longest common prefix of two lists -/
def lcp : List Bytes → List Bytes → List Bytes
  | a :: as, b :: bs => if a = b then a :: lcp as bs else []
  | _, _ => []

/-! ### array index grammar -/

/-- non-empty ASCII digits, no leading zero unless it is `0`, value fits in `usize` -/
def validNum (s : Bytes) : Bool :=
  s == [48] || (!s.isEmpty && s.all isDigit && s.head? != some 48 && parseNat s ≤ usizeMax)

def validIndexStr (s : Bytes) : Bool := s == [45] || validNum s

inductive PIdx where
  | bad
  | num (i : Nat)
  | next
deriving DecidableEq, Repr

/-- how a token reads as an array index -/
def pidx (t : Bytes) : PIdx :=
  if t = [45] then .next else if validNum t then .num (parseNat t) else .bad

/-- the declarative verdict of `Index::from_str` including the error classification of C16 -/
def indexSpec (s : Bytes) : Res ParseIndexError Index :=
  if s = [45] then .ok .next
  else if s.length > 1 ∧ s.head? = some 48 then .err .leadingZeros
  else match position (fun b => !isDigit b) s with
    | some o => .err (.invalidCharacter s o)
    | none =>
      if s = [] then .err .invalidIntegerEmpty
      else if parseNat s > usizeMax then .err .invalidIntegerOverflow
      else .ok (.num (parseNat s))

/-! ### the range table of C12 (`n` = token count): the half-open token range denoted, or none -/

def rangeSpec (n a b : Nat) : Option (Nat × Nat) := if a ≤ b ∧ a < n ∧ b ≤ n then some (a, b) else none
def rangeFromSpec (n a : Nat) : Option (Nat × Nat) := if a < n then some (a, n) else none
def rangeToSpec (n b : Nat) : Option (Nat × Nat) := if b ≤ n then some (0, b) else none
def rangeInclSpec (n a b : Nat) : Option (Nat × Nat) := if a ≤ b ∧ b < n then some (a, b + 1) else none
def rangeToInclSpec (n b : Nat) : Option (Nat × Nat) := if b < n then some (0, b + 1) else none
def rangeFullSpec (n : Nat) : Option (Nat × Nat) := some (0, n)

def boundsSpec (n : Nat) : Bound → Bound → Option (Nat × Nat)
  | .included s, .included e => rangeInclSpec n s e
  | .included s, .excluded e => rangeSpec n s e
  | .included s, .unbounded => rangeFromSpec n s
  | .excluded s, .included e => if s < usizeMax then rangeInclSpec n (s + 1) e else none
  | .excluded s, .excluded e => if s < usizeMax then rangeSpec n (s + 1) e else none
  | .excluded s, .unbounded => if s < usizeMax then rangeFromSpec n (s + 1) else none
  | .unbounded, .included e => rangeToInclSpec n e
  | .unbounded, .excluded e => rangeToSpec n e
  | .unbounded, .unbounded => rangeFullSpec n

end Jp.Spec
