import Jp.Spec.Grammar
/-
  Jp.Spec.Tree — the reference tree store: RFC 6901 evaluation over token lists, declarative
  assign (replace-or-expand), removal, and a plain deque for `PointerBuf`.
  Tokens are given *encoded*; object members are addressed by `dec t`, array elements by `pidx t`.
-/
namespace Jp.Spec
open Jp

inductive WalkKind where
  | unreachable
  | notFound
  | parse
  | oob
deriving DecidableEq, Repr

/-- RFC 6901 evaluation: `ok (location, node)` or the index of the first failing step and why -/
def walk : Val → List Bytes → Res (Nat × WalkKind) (Loc × Val)
  | v, [] => .ok ([], v)
  | .arr xs, t :: ts =>
    match pidx t with
    | .bad => .err (0, .parse)
    | .next => .err (0, .oob)
    | .num i =>
      match xs[i]? with
      | none => .err (0, .oob)
      | some c =>
        match walk c ts with
        | .ok (l, n) => .ok (.idx i :: l, n)
        | .err (k, e) => .err (k + 1, e)
        | .panic m => .panic m
  | .obj kvs, t :: ts =>
    match lookup (dec t) kvs with
    | none => .err (0, .notFound)
    | some c =>
      match walk c ts with
      | .ok (l, n) => .ok (.key (dec t) :: l, n)
      | .err (k, e) => .err (k + 1, e)
      | .panic m => .panic m
  | .scalar _, _ :: _ => .err (0, .unreachable)

/-- the same walk with `-` on an array read as its last index (C07 read-your-write) -/
def walkDash : Val → List Bytes → Option Val
  | v, [] => some v
  | .arr xs, t :: ts =>
    match pidx t with
    | .bad => none
    | .next => match xs.getLast? with
      | some c => walkDash c ts
      | none => none
    | .num i => match xs[i]? with
      | some c => walkDash c ts
      | none => none
  | .obj kvs, t :: ts =>
    match lookup (dec t) kvs with
    | some c => walkDash c ts
    | none => none
  | .scalar _, _ :: _ => none

/-- materialise the remaining tokens around `x`: `"0"`/`"-"` ↦ one-element array, anything else ↦
    one-member object keyed by the decoded token -/
def expandSpec : List Bytes → Val → Val
  | [], x => x
  | t :: ts, x =>
    if t = [48] ∨ t = [45] then .arr [expandSpec ts x] else .obj [(dec t, expandSpec ts x)]

/-- declarative assign: `ok (document afterwards, replaced value)`, or the failure kind
    (`parse` / `oob`) — a failure yields no document: it is atomic by construction -/
def assignSpec : Val → List Bytes → Val → Res WalkKind (Val × Option Val)
  | v, [], x => .ok (x, some v)
  | .arr xs, t :: ts, x =>
    match pidx t with
    | .bad => .err .parse
    | .next => .ok (.arr (xs ++ [expandSpec ts x]), none)
    | .num i =>
      match xs[i]? with
      | some c =>
        match assignSpec c ts x with
        | .ok (c', r) => .ok (.arr (xs.set i c'), r)
        | .err e => .err e
        | .panic m => .panic m
      | none => if i = xs.length then .ok (.arr (xs ++ [expandSpec ts x]), none) else .err .oob
  | .obj kvs, t :: ts, x =>
    match lookup (dec t) kvs with
    | some c =>
      match assignSpec c ts x with
      | .ok (c', r) => .ok (.obj (replaceKey (dec t) c' kvs), r)
      | .err e => .err e
      | .panic m => .panic m
    | none => .ok (.obj (kvs ++ [(dec t, expandSpec ts x)]), none)
  | .scalar a, t :: ts, x => .ok (expandSpec (t :: ts) x, some (.scalar a))

/-- remove the member / element at a non-root location (successors of an element shift down) -/
def removeAt : Val → Loc → Val
  | v, [] => v
  | .arr xs, [.idx i] => .arr (xs.eraseIdx i)
  | .obj kvs, [.key k] => .obj (eraseKey k kvs)
  | .arr xs, .idx i :: l => match xs[i]? with
    | some c => .arr (xs.set i (removeAt c l))
    | none => .arr xs
  | .obj kvs, .key k :: l => match lookup k kvs with
    | some c => .obj (replaceKey k (removeAt c l) kvs)
    | none => .obj kvs
  | v, _ :: _ => v

/-- declarative delete: what the call returns and the document afterwards -/
def deleteSpec (backend : Backend) (doc : Val) (ts : List Bytes) : Val × Option Val :=
  match ts with
  | [] => (rootRepl backend, some doc)
  | _ :: _ =>
    match walk doc ts with
    | .ok (l, v) => (removeAt doc l, some v)
    | _ => (doc, none)

/-- declarative write-through -/
def writeSpec (doc : Val) (ts : List Bytes) (x : Val) : Val × Bool :=
  match walk doc ts with
  | .ok (l, _) => (doc.setAt l x, true)
  | _ => (doc, false)

/-! ### well-formedness of documents -/

mutual
/-- keys unique in every object -/
def WF : Val → Bool
  | .scalar _ => true
  | .arr xs => WFList xs
  | .obj kvs => WFKvs kvs
def WFList : List Val → Bool
  | [] => true
  | v :: vs => WF v && WFList vs
def WFKvs : List (Bytes × Val) → Bool
  | [] => true
  | (k, v) :: r => (lookup k r).isNone && WF v && WFKvs r
end

/-! ### deque of decoded tokens (C11) -/

inductive BufOp where
  | pushFront (tok : Bytes)          -- encoded token
  | pushBack (tok : Bytes)
  | popFront
  | popBack
  | append (other : Bytes)           -- pointer text
  | replace (index : Nat) (tok : Bytes)
  | clear
deriving Repr

inductive BufRet where
  | unit
  | popped (t : Option Bytes)
  | replaced (r : Res ReplaceErr (Option Bytes))
deriving Repr

/-- the deque operation on a list of (encoded) tokens -/
def dequeStep (ts : List Bytes) : BufOp → List Bytes × BufRet
  | .pushFront t => (t :: ts, .unit)
  | .pushBack t => (ts ++ [t], .unit)
  | .popFront => (ts.tail, .popped ts.head?)
  | .popBack => (ts.dropLast, .popped ts.getLast?)
  | .append other => (ts ++ tokens other, .unit)
  | .replace i t =>
    if i < ts.length then (ts.set i t, .replaced (.ok ts[i]?))
    else (ts, .replaced (.err ⟨i, ts.length⟩))
  | .clear => ([], .unit)

/-- the model's mutator for the same operation on pointer text -/
def bufStep (s : Bytes) : BufOp → Bytes × BufRet
  | .pushFront t => (pushFront s t, .unit)
  | .pushBack t => (pushBack s t, .unit)
  | .popFront => let (s', r) := popFront s; (s', .popped r)
  | .popBack => let (s', r) := popBack s; (s', .popped r)
  | .append other => (Jp.append s other, .unit)
  | .replace i t => let (s', r) := Jp.replace s i t; (s', .replaced r)
  | .clear => (clear s, .unit)

end Jp.Spec
