/-
  Jp.Spec.Features — semantics of the generated feature-gate table (C20). Import-free.
  A feature subset is a bitmask over the crate's features (`Table.nFeat` of them, read from Cargo.toml by the
  translator: the eight of the pinned tree, plus whatever a later tree declares); `closure` adds the declared
  implications; a row is *live* when all its enclosing `cfg` gates hold and *satisfied* when what it
  refers to (an optional crate, a gated module of the crate, a feature-gated method) is available.
-/
namespace Jp.Spec.Features

inductive Cfg where
  | tt
  | ff
  | feat (i : Nat)
  | atom (i : Nat)          -- `test`, `doc`, `docsrs`: false in a library build
  | not (a : Cfg)
  | and (a b : Cfg)
  | or (a b : Cfg)
deriving Repr

inductive Need where
  | dep (i : Nat)           -- an optional crate (or `std`)
  | modl (i : Nat)          -- a gated module of the crate
  | feat (i : Nat)          -- an item that exists only under a feature
deriving Repr

structure Row where
  gates : List Cfg
  need : Need
deriving Repr

structure Table where
  nFeat : Nat
  featEdges : List (Nat × Nat)
  depEdges : List (Nat × Nat)
  modGates : List Cfg
  rows : List Row

def has (S : Nat) (i : Nat) : Bool := S.testBit i

/-- one round of the declared implications -/
def stepClosure (edges : List (Nat × Nat)) (S : Nat) : Nat :=
  edges.foldl (fun acc e => if has acc e.1 then acc ||| (1 <<< e.2) else acc) S

/-- the closure of a subset of `n` features (`n` rounds reach the fixed point) -/
def closure (n : Nat) (edges : List (Nat × Nat)) (S : Nat) : Nat :=
  (List.range n).foldl (fun acc _ => stepClosure edges acc) S

def Cfg.eval (S : Nat) : Cfg → Bool
  | .tt => true
  | .ff => false
  | .feat i => has S i
  | .atom _ => false
  | .not a => !(a.eval S)
  | .and a b => a.eval S && b.eval S
  | .or a b => a.eval S || b.eval S

def available (T : Table) (S : Nat) : Need → Bool
  | .dep d => T.depEdges.any fun e => e.2 == d && has S e.1
  | .modl m => match T.modGates[m]? with
    | some g => g.eval S
    | none => false
  | .feat i => has S i

/-- every live reference is satisfied -/
def builds (T : Table) (mask : Nat) : Bool :=
  let S := closure T.nFeat T.featEdges mask
  T.rows.all fun r => !(r.gates.all (·.eval S)) || available T S r.need

/-- the first unsatisfied row of a subset, for the replay -/
def firstFailing (T : Table) (mask : Nat) : Option Nat :=
  let S := closure T.nFeat T.featEdges mask
  (List.range T.rows.length).find? fun i =>
    match T.rows[i]? with
    | some r => r.gates.all (·.eval S) && !(available T S r.need)
    | none => false

end Jp.Spec.Features
