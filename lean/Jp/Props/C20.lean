import Jp.Gen.Features
/-
  C20 — Every feature combination builds (partial: rustc's name resolution is abstracted by the
  translator tools/featgen.py; the exhaustive `cargo check` sweep over the same subsets is the
  correspondence check). `Jp.Gen.table` is regenerated from /repo on every run, so this theorem is
  re-checked by the kernel against what the source says now.
-/
namespace Jp.C20
open Jp.Spec.Features

-- OBLIGATIONS
-- all_subsets_build closure_contains default_closure_example std_gates_are_behaviour_neutral

/-- for every subset of the crate's features (all `2 ^ nFeat` of them; `nFeat` is read from Cargo.toml on every
    run — 8 on the pinned tree), every reference enabled under its closure is available -/
theorem all_subsets_build : ∀ m : Fin (2 ^ Jp.Gen.nFeat), builds Jp.Gen.table m.val = true := by
  decide +kernel

/-- the closure only adds features -/
theorem closure_contains : ∀ m : Fin (2 ^ Jp.Gen.nFeat), ∀ i : Fin Jp.Gen.nFeat,
    has m.val i.val = true → has (closure Jp.Gen.nFeat Jp.Gen.table.featEdges m.val) i.val = true := by
  decide +kernel

/-- non-vacuity: every declared implication `f ⇒ g` is honoured by the closure of `{f}` alone (on the pinned tree:
    `delete` pulls in `resolve`, `std` pulls in `serde`, …), and with every feature on some rows are live -/
theorem default_closure_example :
    (Jp.Gen.table.featEdges.all fun e => has (closure Jp.Gen.nFeat Jp.Gen.table.featEdges (1 <<< e.1)) e.2) = true ∧
    (Jp.Gen.table.rows.any fun r => r.gates.all (·.eval (2 ^ Jp.Gen.nFeat - 1))) = true := by
  decide +kernel

/-- second half (the core behaves the same without std): every region or attribute of the crate whose
    gate mentions the `std` feature is an `impl std::error::Error for …` block or a `no_std` / `macro_use`
    attribute — no function, method or branch of the core is selected by `std` (regenerated table) -/
theorem std_gates_are_behaviour_neutral : Jp.Gen.stdGated.all (· == 0) = true := by
  decide +kernel

end Jp.C20
