import Jp.Lemmas.Valid
import Jp.Props.C03
import Jp.Lemmas.C04Helpers
import Jp.Model.Iter
import Jp.Lemmas.Iter
/-
  C04 — A pointer is exactly its list of decoded tokens: build/iterate round-trips.
  `newB s` = encoded text of `Token::new(s)`, `decB t` = decoded text of token `t`.
-/
namespace Jp.C04
open Jp Jp.Spec

-- def newB … : see Jp/Lemmas/C04Helpers.lean
--   def newB (s : Bytes) : Bytes := (Token.new s).bytes
-- def decB … : see Jp/Lemmas/C04Helpers.lean
--   def decB (t : Bytes) : Bytes := (Token.decoded t).bytes

-- OBLIGATIONS
-- tokens_fromRaw count_fromRaw text_fromRaw fromTokens_tokens fromRaw_injective decoded_tokens_injective
-- front_eq back_eq getToken_eq components_eq isRoot_iff withLeading_tokens withTrailing_tokens
-- concat_tokens ofToken_tokens ofUsize_tokens decimal_validTok
-- tokens_iter_eq tokens_iter_fused components_iter_eq

/-- `from_tokens(L).tokens()`, decoded, is `L` again -/
theorem tokens_fromRaw (L : List Bytes) : (tokens (fromTokens (L.map newB))).map decB = L := by
  rw [map_newB, fromTokens_eq_ofToks, tokens_ofToks _ (mapEnc_noSlash L)]
  exact map_decB_enc L

/-- `count()` is the length of `L` -/
theorem count_fromRaw (L : List Bytes) : count (fromTokens (L.map newB)) = L.length := by
  unfold count
  rw [map_newB, fromTokens_eq_ofToks, tokens_ofToks _ (mapEnc_noSlash L), List.length_map]

/-- the text is the concatenation of `"/" + escaped(l)` -/
theorem text_fromRaw (L : List Bytes) : fromTokens (L.map newB) = L.flatMap (fun l => 47 :: enc l) := by
  rw [map_newB, fromTokens_eq_ofToks]
  induction L with
  | nil => simp [ofToks]
  | cons l L ih => simp [ofToks] at ih ⊢; exact ih

/-- conversely `from_tokens(p.tokens()) == p` for every valid pointer -/
theorem fromTokens_tokens (p : Bytes) (h : validPtr p = true) : fromTokens (tokens p) = p := by
  rw [fromTokens_eq_ofToks]
  exact ofToks_tokens p (validPtr_shape h)

/-- the list determines the text and vice versa -/
theorem fromRaw_injective (L M : List Bytes) (h : fromTokens (L.map newB) = fromTokens (M.map newB)) :
    L = M := by
  rw [map_newB, map_newB, fromTokens_eq_ofToks, fromTokens_eq_ofToks] at h
  have := congrArg tokens h
  rw [tokens_ofToks _ (mapEnc_noSlash L), tokens_ofToks _ (mapEnc_noSlash M)] at this
  exact map_enc_injective L M this

theorem decoded_tokens_injective (p q : Bytes) (hp : validPtr p = true) (hq : validPtr q = true)
    (h : (tokens p).map decB = (tokens q).map decB) : p = q := by
  obtain ⟨ts, rfl, hts, _, hv⟩ := valid_decomp hp
  obtain ⟨us, rfl, hus, _, hw⟩ := valid_decomp hq
  rw [hts, hus] at h
  have := congrArg (List.map enc) h
  rw [map_enc_decB ts hv, map_enc_decB us hw] at this
  rw [this]

/-- `first`/`front` is the head of the token list -/
theorem front_eq (p : Bytes) (h : validPtr p = true) : front p = (tokens p).head? := by
  obtain ⟨ts, rfl, hts, hns, _⟩ := valid_decomp h
  rw [hts]
  cases ts with
  | nil => simp [ofToks, front]
  | cons t ts =>
    have ht : noSlash t := hns t (by simp)
    rw [ofToks_cons]
    cases ts with
    | nil => simp [front, ofToks, splitOnce_noSlash t ht]
    | cons u us =>
      rw [ofToks_cons]
      simp [front, splitOnce_append_slash t _ ht]

/-- `last`/`back` is the last element of the token list -/
theorem back_eq (p : Bytes) (h : validPtr p = true) : back p = (tokens p).getLast? := by
  obtain ⟨ts, rfl, hts, hns, _⟩ := valid_decomp h
  rw [hts]
  rcases List.eq_nil_or_concat ts with rfl | ⟨us, t, hc⟩
  · simp [ofToks, back, rsplitOnce]
  · rw [List.concat_eq_append] at hc
    subst hc
    have ht : noSlash t := hns t (by simp)
    have := splitBack_ofToks_snoc us t ht
    unfold splitBack at this
    unfold back
    rw [this]
    simp

/-- `get(i)` is the `i`-th token -/
theorem getToken_eq (p : Bytes) (i : Nat) : getToken p i = (tokens p)[i]? := rfl

/-- `components()` is `Root` followed by the tokens -/
theorem components_eq (p : Bytes) : components p = .root :: (tokens p).map .token := rfl

/-- `is_root`/`is_empty` iff the token list is empty; `len` is the text length -/
theorem isRoot_iff (p : Bytes) (h : validPtr p = true) : isRoot p = (tokens p).isEmpty := by
  obtain ⟨ts, rfl, hts, _, _⟩ := valid_decomp h
  rw [hts]
  cases ts with
  | nil => simp [ofToks, isRoot]
  | cons t ts => simp [ofToks_cons, isRoot]

theorem withLeading_tokens (p tok : Bytes) (hp : validPtr p = true) (ht : validTok tok = true) :
    tokens (withLeadingToken p tok) = tok :: tokens p ∧ validPtr (withLeadingToken p tok) = true := by
  obtain ⟨ts, rfl, hts, hns, hv⟩ := valid_decomp hp
  have e : withLeadingToken (ofToks ts) tok = ofToks (tok :: ts) := by
    rw [ofToks_cons]; rfl
  have hns' : ∀ t ∈ tok :: ts, noSlash t := by
    intro t ht
    rcases List.mem_cons.mp ht with rfl | ht
    · exact validTok_noSlash ‹_›
    · exact hns t ht
  have hv' : ∀ t ∈ tok :: ts, validTok t = true := by
    intro t ht
    rcases List.mem_cons.mp ht with rfl | ht
    · assumption
    · exact hv t ht
  rw [e, hts, tokens_ofToks _ hns']
  exact ⟨rfl, validPtr_ofToks _ hv'⟩

theorem withTrailing_tokens (p tok : Bytes) (hp : validPtr p = true) (ht : validTok tok = true) :
    tokens (withTrailingToken p tok) = tokens p ++ [tok] ∧ validPtr (withTrailingToken p tok) = true := by
  obtain ⟨ts, rfl, hts, hns, hv⟩ := valid_decomp hp
  have e : withTrailingToken (ofToks ts) tok = ofToks (ts ++ [tok]) := by
    rw [ofToks_snoc]; rfl
  have hns' : ∀ t ∈ ts ++ [tok], noSlash t := by
    intro t ht
    rcases List.mem_append.mp ht with ht | ht
    · exact hns t ht
    · simp at ht; subst ht; exact validTok_noSlash ‹_›
  have hv' : ∀ t ∈ ts ++ [tok], validTok t = true := by
    intro t ht
    rcases List.mem_append.mp ht with ht | ht
    · exact hv t ht
    · simp at ht; subst ht; assumption
  rw [e, hts, tokens_ofToks _ hns']
  exact ⟨rfl, validPtr_ofToks _ hv'⟩

/-- `concat` is list concatenation -/
theorem concat_tokens (p q : Bytes) (hp : validPtr p = true) (hq : validPtr q = true) :
    tokens (concat p q) = tokens p ++ tokens q ∧ validPtr (concat p q) = true := by
  obtain ⟨ts, rfl, hts, hns, hv⟩ := valid_decomp hp
  obtain ⟨us, rfl, hus, hns2, hv2⟩ := valid_decomp hq
  have e : concat (ofToks ts) (ofToks us) = ofToks (ts ++ us) := by
    rw [ofToks_append]
    cases ts with
    | nil => simp [concat, append, isRoot, ofToks]
    | cons t ts =>
      cases us with
      | nil => simp [concat, append, isRoot, ofToks]
      | cons u us => simp [concat, append, isRoot, ofToks_cons]
  have hns' : ∀ t ∈ ts ++ us, noSlash t := by
    intro t ht
    rcases List.mem_append.mp ht with ht | ht
    · exact hns t ht
    · exact hns2 t ht
  have hv' : ∀ t ∈ ts ++ us, validTok t = true := by
    intro t ht
    rcases List.mem_append.mp ht with ht | ht
    · exact hv t ht
    · exact hv2 t ht
  rw [e, hts, hus, tokens_ofToks _ hns']
  exact ⟨rfl, validPtr_ofToks _ hv'⟩

/-- `From<Token>` -/
theorem ofToken_tokens (t : Bytes) (ht : validTok t = true) :
    tokens (ofToken t) = [t] ∧ validPtr (ofToken t) = true := by
  unfold ofToken
  rw [fromTokens_eq_ofToks]
  have hns : ∀ u ∈ [t], noSlash u := by
    intro u hu; simp at hu; subst hu; exact validTok_noSlash ht
  have hv : ∀ u ∈ [t], validTok u = true := by
    intro u hu; simp at hu; subst hu; exact ht
  exact ⟨tokens_ofToks _ hns, validPtr_ofToks _ hv⟩

/-- the decimal text of a number is a valid token that needs no escaping -/
theorem decimal_validTok (n : Nat) : validTok (decimal n) = true ∧ decB (decimal n) = decimal n := by
  have hd := decimal_digits n
  have h47 : 47 ∉ decimal n := fun hm => by have := hd 47 hm; omega
  have h126 : 126 ∉ decimal n := fun hm => by have := hd 126 hm; omega
  have hv : validTok (decimal n) = true :=
    validTok_iff.mpr ⟨h47, tildesOk_of_no_tilde _ h126⟩
  refine ⟨hv, ?_⟩
  unfold decB
  rw [C03.decoded_eq_dec _ hv, dec_of_no_tilde _ h126]

/-- `From<usize>`: one token, the canonical decimal -/
theorem ofUsize_tokens (n : Nat) :
    tokens (ofUsize n) = [decimal n] ∧ validPtr (ofUsize n) = true := by
  have e : ofUsize n = ofToken (decimal n) := by
    have hn : ¬ ((n : Int) < 0) := by omega
    simp [ofUsize, ofToken, Token.ofInt, decimalInt, hn]
  rw [e]
  exact ofToken_tokens _ (decimal_validTok n).1

/-! ### the iterators as state machines (`Jp.Model.Iter`) -/

/-- collecting `Pointer::tokens()` by repeated `next()` yields the token list, for every byte string -/
theorem tokens_iter_eq (p : Bytes) : Tokens.collect p = tokens p := by
  unfold Tokens.collect tokens
  exact drain_tokens_new (p.length + 2) p (by omega)

/-- the token iterator is fused: the finished state is a fixed point of `next`, and once the iterator
    of `p` returned `None` at call `n + 1` it returns `None` at every later call -/
theorem tokens_iter_fused (p : Bytes) (n : Nat) :
    (Split.next ⟨none⟩) = (none, ⟨none⟩) ∧
    ((Tokens.next (advance Tokens.next n (Tokens.new p))).1 = none →
      ∀ m, (Tokens.next (advance Tokens.next (n + m) (Tokens.new p))).1 = none) := by
  refine ⟨rfl, fun h m => ?_⟩
  rw [advance_add, Split.next_eq_none h]
  unfold Tokens.next
  rw [advance_split_none]
  rfl

/-- collecting `Pointer::components()` yields `Root` followed by the tokens -/
theorem components_iter_eq (p : Bytes) : Components.collect p = components p := by
  unfold Components.collect components
  rw [drain_components_new, ← tokens_iter_eq]
  rfl

example : Tokens.collect [47, 97, 47] = [[97], []] := by decide
example : Components.collect [] = [.root] := by decide
example : Components.collect [47, 126, 49, 47] = [.root, .token [126, 49], .token []] := by decide
example : Tokens.collect [97, 47, 98] = [[98]] := by decide

example : tokens [] = [] := by decide
example : tokens [47] = [[]] := by decide
example : tokens [47, 47] = [[], []] := by decide
example : fromTokens ([[126, 49], [], [47]].map newB) = [47, 126, 48, 49, 47, 47, 126, 49] := by decide

end Jp.C04
