import Jp.Props.C02
import Jp.Props.C16
import Jp.Model.Glue
/-
  C18 — Serialisation and owned/borrowed/boxed conversions preserve the pointer exactly.
-/
namespace Jp.C18
open Jp Jp.Spec

-- OBLIGATIONS
-- serialize_text deserialize_roundtrip deserialize_refuses conversions_identity token_owned_identity
-- ofInt_nonneg ofInt_neg decimal_canonical

/-- serialising emits exactly the text, as one string -/
theorem serialize_text (p : Bytes) : serialize p = p := rfl

/-- deserialising that output (owned, or borrowed) gives back an equal pointer -/
theorem deserialize_roundtrip (p : Bytes) (h : validPtr p = true) :
    PointerBuf.deserialize (serialize p) = .ok p ∧ Pointer.deserializeBorrowed (serialize p) = .ok p := by
  have hv : validate p = .ok () := (C02.validate_ok_iff p).mpr h
  simp [serialize, PointerBuf.deserialize, PointerBuf.tryFromString, Pointer.deserializeBorrowed,
    Pointer.parse, hv]

/-- strings that are not valid pointers are refused rather than wrapped -/
theorem deserialize_refuses (s : Bytes) (h : validPtr s = false) :
    PointerBuf.deserialize s = .err .de ∧ Pointer.deserializeBorrowed s = .err .de :=
  C02.deserialize_refuses s h

/-- `to_buf`/`to_owned`, `Box<Pointer>` round trip, `to_json_value`, `Display`, `Serialize` -/
theorem conversions_identity (p : Bytes) : ∀ c ∈ conversions p, c.2 = p := by
  intro c hc
  simp only [conversions, List.mem_cons, List.not_mem_nil, or_false] at hc
  rcases hc with h | h | h | h | h | h <;> (subst h; rfl)

theorem token_owned_identity (t : Bytes) : tokenIntoOwned t = t ∧ tokenToOwned t = t := ⟨rfl, rfl⟩

/-- a token made from a non-negative integer spells it in decimal -/
theorem ofInt_nonneg (n : Nat) : Token.ofInt (n : Int) = decimal n := by
  simp [Token.ofInt, decimalInt]

/-- … a negative one as `-` followed by the decimal magnitude -/
theorem ofInt_neg (n : Nat) (h : 0 < n) : Token.ofInt (-(n : Int)) = 45 :: decimal n := by
  simp [Token.ofInt, decimalInt]
  omega

/-- `decimal` is the canonical decimal: digits only, value `n`, no leading zero unless `n = 0` -/
theorem decimal_canonical (n : Nat) :
    (decimal n).all isDigit = true ∧ parseNat (decimal n) = n ∧ (n ≠ 0 → (decimal n).head? ≠ some 48) ∧
    decimal n ≠ [] := by
  refine ⟨?_, C16.parseNat_decimal n, ?_, C16.decimal_ne_nil n⟩
  · exact List.all_eq_true.mpr (C16.decimal_all_digit n)
  · intro hn; exact C16.decimal_head n (by omega)

example : Token.ofInt (-128) = [45, 49, 50, 56] := by
  have := ofInt_neg 128 (by decide)
  simpa [decimal] using this

end Jp.C18
