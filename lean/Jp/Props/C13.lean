import Jp.Lemmas.Valid
/-
  C13 — Prefix, suffix and intersection work on whole tokens and agree with each other.
  Token lists are compared *encoded*; decoding is injective on valid tokens (C03), so every statement
  transfers to decoded lists.
-/
namespace Jp.C13
open Jp Jp.Spec

-- OBLIGATIONS
-- startsWith_iff stripPrefix_iff stripPrefix_concat endsWith_iff stripSuffix_iff stripSuffix_root
-- intersection_lcp intersection_prefix_both intersection_comm intersection_idem intersection_root
-- concat_tokens concat_assoc concat_root startsWith_no_panic foo_not_prefix_of_foobar

/-- `p.starts_with(q)` iff `q`'s token list is a leading sub-list of `p`'s -/
theorem startsWith_iff (p q : Bytes) (hp : validPtr p = true) (hq : validPtr q = true) :
    ptrStartsWith p q = .ok true ↔ tokens q <+: tokens p := by
  sorry

theorem startsWith_no_panic (p q : Bytes) (hp : validPtr p = true) (hq : validPtr q = true) :
    ∃ b, ptrStartsWith p q = .ok b := by
  sorry

/-- `strip_prefix` is `Some(r)` exactly in that case, `r` being the remaining tokens -/
theorem stripPrefix_iff (p q r : Bytes) (hp : validPtr p = true) (hq : validPtr q = true) :
    ptrStripPrefix p q = some r ↔ (validPtr r = true ∧ tokens p = tokens q ++ tokens r) := by
  sorry

/-- … so that `q.concat(r) == p` -/
theorem stripPrefix_concat (p q r : Bytes) (hp : validPtr p = true) (hq : validPtr q = true)
    (h : ptrStripPrefix p q = some r) : concat q r = p := by
  sorry

/-- `ends_with`: trailing sub-list, with the documented exception that root is a suffix of root only -/
theorem endsWith_iff (p q : Bytes) (hp : validPtr p = true) (hq : validPtr q = true) :
    ptrEndsWith p q = true ↔ ((q = [] ∧ p = []) ∨ (q ≠ [] ∧ tokens q <:+ tokens p)) := by
  sorry

theorem stripSuffix_iff (p q r : Bytes) (hp : validPtr p = true) (hq : validPtr q = true) :
    ptrStripSuffix p q = some r ↔ (validPtr r = true ∧ tokens p = tokens r ++ tokens q) := by
  sorry

theorem stripSuffix_root (p : Bytes) : ptrStripSuffix p [] = some p := by
  sorry

/-- `intersection` is the longest common leading token list -/
theorem intersection_lcp (p q : Bytes) (hp : validPtr p = true) (hq : validPtr q = true) :
    intersection p q = ofToks (lcp (tokens p) (tokens q)) := by
  sorry

theorem intersection_prefix_both (p q : Bytes) (hp : validPtr p = true) (hq : validPtr q = true) :
    tokens (intersection p q) <+: tokens p ∧ tokens (intersection p q) <+: tokens q ∧
    validPtr (intersection p q) = true := by
  sorry

theorem intersection_comm (p q : Bytes) (hp : validPtr p = true) (hq : validPtr q = true) :
    intersection p q = intersection q p := by
  sorry

theorem intersection_idem (p : Bytes) (hp : validPtr p = true) : intersection p p = p := by
  sorry

theorem intersection_root (p : Bytes) : intersection p [] = [] ∧ intersection [] p = [] := by
  sorry

/-- `concat` is list concatenation -/
theorem concat_tokens (p q : Bytes) (hp : validPtr p = true) (hq : validPtr q = true) :
    tokens (concat p q) = tokens p ++ tokens q := by
  sorry

theorem concat_assoc (p q r : Bytes) (hp : validPtr p = true) (hq : validPtr q = true)
    (hr : validPtr r = true) : concat (concat p q) r = concat p (concat q r) := by
  sorry

theorem concat_root (p : Bytes) : concat p [] = p ∧ concat [] p = p := by
  sorry

/-- none of these ever splits a token: "/foo" is not a prefix of "/foobar" -/
theorem foo_not_prefix_of_foobar :
    ptrStartsWith [47,102,111,111,98,97,114] [47,102,111,111] = .ok false ∧
    ptrStripPrefix [47,102,111,111,98,97,114] [47,102,111,111] = none ∧
    intersection [47,102,111,111,98,97,114] [47,102,111,111] = [] := by
  decide

example : ptrStripPrefix [47,97,47,98] [47,97] = some [47,98] := by decide
example : ptrEndsWith [47,97] [] = false ∧ ptrEndsWith [] [] = true := by decide

end Jp.C13
