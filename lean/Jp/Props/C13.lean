import Jp.Lemmas.Valid
import Jp.Lemmas.C13Helpers
/-
  C13 — Prefix, suffix and intersection work on whole tokens and agree with each other.
  Token lists are compared *encoded*; decoding is injective on valid tokens (C03), so every statement
  transfers to decoded lists.
-/
namespace Jp.C13
open Jp Jp.Spec

-- OBLIGATIONS
-- startsWith_iff stripPrefix_iff stripPrefix_concat endsWith_iff stripSuffix_iff stripSuffix_root
-- intersection_lcp intersection_prefix_both intersection_comm intersection_idem intersection_root
-- concat_tokens concat_assoc concat_root startsWith_no_panic foo_not_prefix_of_foobar

/-! ## the obligations -/

/-- `p.starts_with(q)` iff `q`'s token list is a leading sub-list of `p`'s -/
theorem startsWith_iff (p q : Bytes) (hp : validPtr p = true) (hq : validPtr q = true) :
    ptrStartsWith p q = .ok true ↔ tokens q <+: tokens p := by
  have sp := validPtr_shape hp
  have sq := validPtr_shape hq
  constructor
  · intro h
    unfold ptrStartsWith at h
    split at h
    · rename_i hs
      obtain ⟨r, rfl⟩ := (startsWith_iff_ex p q).mp hs
      have hr : r = [] ∨ r.head? = some 47 := by
        split at h
        · rename_i hl
          left; simpa using hl
        · cases r with
          | nil => simp
          | cons b r => simp at h; simp [h]
      rw [tokens_append_right q r sq hr]
      exact List.prefix_append _ _
    · simp at h
  · rintro ⟨rs, hrs⟩
    have hv : ∀ t ∈ rs, validTok t = true := fun t ht =>
      tokens_valid hp t (by rw [← hrs]; simp [ht])
    have hns : ∀ t ∈ rs, noSlash t := fun t ht => validTok_noSlash (hv t ht)
    have hr := validPtr_ofToks rs hv
    have e : p = q ++ ofToks rs := by
      apply eq_of_tokens p q _ hp hq hr
      rw [tokens_ofToks rs hns, hrs]
    subst e
    unfold ptrStartsWith
    rw [if_pos ((startsWith_iff_ex _ _).mpr ⟨_, rfl⟩)]
    cases rs with
    | nil => simp [ofToks]
    | cons t ts => simp [ofToks_cons]

theorem startsWith_no_panic (p q : Bytes) (hp : validPtr p = true) (hq : validPtr q = true) :
    ∃ b, ptrStartsWith p q = .ok b := by
  have _ := hp; have _ := hq
  unfold ptrStartsWith
  split
  · rename_i hs
    obtain ⟨r, rfl⟩ := (startsWith_iff_ex p q).mp hs
    split
    · exact ⟨_, rfl⟩
    · rename_i hl
      cases r with
      | nil => simp at hl
      | cons b r => simp
  · exact ⟨_, rfl⟩

/-- `strip_prefix` is `Some(r)` exactly in that case, `r` being the remaining tokens -/
theorem stripPrefix_iff (p q r : Bytes) (hp : validPtr p = true) (hq : validPtr q = true) :
    ptrStripPrefix p q = some r ↔ (validPtr r = true ∧ tokens p = tokens q ++ tokens r) := by
  rw [ptrStripPrefix_eq_some]
  constructor
  · rintro ⟨rfl, hr⟩
    have ht := tokens_append_right q r (validPtr_shape hq) hr
    refine ⟨validPtr_of_tokens r hr (fun t h => tokens_valid hp t ?_), ht⟩
    rw [ht]; simp [h]
  · rintro ⟨hr, ht⟩
    exact ⟨eq_of_tokens p q r hp hq hr ht, validPtr_shape hr⟩

/-- … so that `q.concat(r) == p` -/
theorem stripPrefix_concat (p q r : Bytes) (hp : validPtr p = true) (hq : validPtr q = true)
    (h : ptrStripPrefix p q = some r) : concat q r = p := by
  obtain ⟨rfl, _⟩ := (ptrStripPrefix_eq_some p q r).mp h
  cases q <;> cases r <;> simp [concat, append, isRoot]

/-- `ends_with`: trailing sub-list, with the documented exception that root is a suffix of root only -/
theorem endsWith_iff (p q : Bytes) (hp : validPtr p = true) (hq : validPtr q = true) :
    ptrEndsWith p q = true ↔ ((q = [] ∧ p = []) ∨ (q ≠ [] ∧ tokens q <:+ tokens p)) := by
  have sp := validPtr_shape hp
  have sq := validPtr_shape hq
  cases q with
  | nil => cases p <;> simp [ptrEndsWith, isRoot]
  | cons c q =>
    have hne : (c :: q) ≠ [] := by simp
    simp only [ptrEndsWith, isRoot, List.isEmpty_cons, Bool.and_false, Bool.false_or, Bool.not_false,
      Bool.true_and, endsWith_iff_ex]
    constructor
    · rintro ⟨x, rfl⟩
      right
      refine ⟨hne, ?_⟩
      have sx := shape_of_append_left x (c :: q) _ rfl sp
      rw [tokens_append_right x _ sx sq]
      exact List.suffix_append _ _
    · rintro (⟨h, _⟩ | ⟨_, xs, hxs⟩)
      · exact absurd h hne
      · have hv : ∀ t ∈ xs, validTok t = true := fun t ht =>
          tokens_valid hp t (by rw [← hxs]; simp [ht])
        have hns : ∀ t ∈ xs, noSlash t := fun t ht => validTok_noSlash (hv t ht)
        refine ⟨ofToks xs, ?_⟩
        apply eq_of_tokens p _ _ hp (validPtr_ofToks xs hv) hq
        rw [tokens_ofToks xs hns, hxs]

theorem stripSuffix_iff (p q r : Bytes) (hp : validPtr p = true) (hq : validPtr q = true) :
    ptrStripSuffix p q = some r ↔ (validPtr r = true ∧ tokens p = tokens r ++ tokens q) := by
  unfold ptrStripSuffix
  rw [stripSuffix_eq_some]
  constructor
  · rintro rfl
    have sr := shape_of_append_left r q _ rfl (validPtr_shape hp)
    have ht := tokens_append_right r q sr (validPtr_shape hq)
    refine ⟨validPtr_of_tokens r sr (fun t h => tokens_valid hp t ?_), ht⟩
    rw [ht]; simp [h]
  · rintro ⟨hr, ht⟩
    exact eq_of_tokens p r q hp hr hq ht

theorem stripSuffix_root (p : Bytes) : ptrStripSuffix p [] = some p := by
  unfold ptrStripSuffix
  rw [stripSuffix_eq_some]; simp

/-- `intersection` is the longest common leading token list -/
theorem intersection_lcp (p q : Bytes) (hp : validPtr p = true) (hq : validPtr q = true) :
    intersection p q = ofToks (lcp (tokens p) (tokens q)) := by
  have _ := hq
  unfold intersection
  split
  · rename_i h
    simp only [isRoot, Bool.or_eq_true, List.isEmpty_iff] at h
    rcases h with rfl | rfl
    · simp [tokens_nil, lcp_nil_left, ofToks]
    · simp [tokens_nil, lcp_nil_right, ofToks]
  · obtain ⟨ps, hpe, htp, _, _⟩ := valid_decomp hp
    simp only [intersectionLoop_eq, Nat.zero_add]
    rw [htp]
    subst hpe
    rcases splitAt_off ps _ (lcp_length_le ps (tokens q)) with ⟨tl, h⟩ | ⟨h, h2⟩
    · rw [h]; simp only []; rw [← lcp_eq_take]
    · rw [h]; simp only []; rw [h2, ← lcp_eq_take]

theorem intersection_prefix_both (p q : Bytes) (hp : validPtr p = true) (hq : validPtr q = true) :
    tokens (intersection p q) <+: tokens p ∧ tokens (intersection p q) <+: tokens q ∧
    validPtr (intersection p q) = true := by
  rw [intersection_lcp p q hp hq]
  have hpre := lcp_prefix_left (tokens p) (tokens q)
  have hpre2 : lcp (tokens p) (tokens q) <+: tokens q := by
    rw [lcp_comm]; exact lcp_prefix_left _ _
  have hv : ∀ t ∈ lcp (tokens p) (tokens q), validTok t = true := fun t ht =>
    tokens_valid hp t (hpre.subset ht)
  have hns : ∀ t ∈ lcp (tokens p) (tokens q), noSlash t := fun t ht => validTok_noSlash (hv t ht)
  rw [tokens_ofToks _ hns]
  exact ⟨hpre, hpre2, validPtr_ofToks _ hv⟩

theorem intersection_comm (p q : Bytes) (hp : validPtr p = true) (hq : validPtr q = true) :
    intersection p q = intersection q p := by
  rw [intersection_lcp p q hp hq, intersection_lcp q p hq hp, lcp_comm]

theorem intersection_idem (p : Bytes) (hp : validPtr p = true) : intersection p p = p := by
  rw [intersection_lcp p p hp hp, lcp_self, ofToks_tokens p (validPtr_shape hp)]

theorem intersection_root (p : Bytes) : intersection p [] = [] ∧ intersection [] p = [] := by
  simp [intersection, isRoot]

/-- `concat` is list concatenation -/
theorem concat_tokens (p q : Bytes) (hp : validPtr p = true) (hq : validPtr q = true) :
    tokens (concat p q) = tokens p ++ tokens q := by
  have e : concat p q = p ++ q := by
    cases p <;> cases q <;> simp [concat, append, isRoot]
  rw [e, tokens_append_right p q (validPtr_shape hp) (validPtr_shape hq)]

theorem concat_assoc (p q r : Bytes) (hp : validPtr p = true) (hq : validPtr q = true)
    (hr : validPtr r = true) : concat (concat p q) r = concat p (concat q r) := by
  have _ := hp; have _ := hq; have _ := hr
  have e : ∀ a b : Bytes, concat a b = a ++ b := by
    intro a b; cases a <;> cases b <;> simp [concat, append, isRoot]
  simp [e]

theorem concat_root (p : Bytes) : concat p [] = p ∧ concat [] p = p := by
  cases p <;> simp [concat, append, isRoot]

/-- none of these ever splits a token: "/foo" is not a prefix of "/foobar" -/
theorem foo_not_prefix_of_foobar :
    ptrStartsWith [47,102,111,111,98,97,114] [47,102,111,111] = .ok false ∧
    ptrStripPrefix [47,102,111,111,98,97,114] [47,102,111,111] = none ∧
    intersection [47,102,111,111,98,97,114] [47,102,111,111] = [] := by
  decide

example : ptrStripPrefix [47,97,47,98] [47,97] = some [47,98] := by decide
example : ptrEndsWith [47,97] [] = false ∧ ptrEndsWith [] [] = true := by decide

end Jp.C13
