import Jp.Props.C02
import Jp.Props.C04
import Jp.Props.C11
import Jp.Props.C12
import Jp.Props.C13
import Jp.Lemmas.C01Helpers
/-
  C01 — Every pointer or token the safe API yields is valid RFC 6901 text.
  The invariant is `validPtr` / `validTok`; one lemma per public operation (given valid receivers
  and arguments, every result is valid), the lift to every finite mutation history, and the
  re-parse laws. "Reachable value" = satisfies the invariant (conversely every valid text is
  reachable through `parse`).
-/
namespace Jp.C01
open Jp Jp.Spec

-- def slice … : see Jp/Lemmas/C01Helpers.lean
-- the bytes of a span of `p`
--   def slice (p : Bytes) (sp : Span) : Bytes := (p.drop sp.1).take (sp.2 - sp.1)

-- def retTokens … : see Jp/Lemmas/C01Helpers.lean
-- the tokens a mutator call hands back
--   def retTokens : BufRet → List Bytes
--     | .unit => []
--     | .popped (some t) => [t]
--     | .popped none => []
--     | .replaced (.ok (some t)) => [t]
--     | .replaced _ => []

-- OBLIGATIONS
-- parse_ok_valid doors_ok_valid reparse_pointer reparse_token new_valid fromEncoded_ok_valid ofInt_valid
-- fromTokens_valid fromRaw_valid tokens_all_valid front_valid back_valid getToken_valid components_valid
-- splitFront_valid splitBack_valid parent_valid splitAt_valid getBounds_valid getRanges_valid
-- stripPrefix_valid stripSuffix_valid intersection_valid concat_valid withLeading_valid withTrailing_valid
-- ofToken_valid ofUsize_valid bufStep_valid history_valid

theorem parse_ok_valid (s t : Bytes) (h : Pointer.parse s = .ok t) : validPtr t = true := by
  rw [C02.parse_ok_text s t h]
  apply (C02.validate_ok_iff s).mp
  unfold Pointer.parse at h
  cases hv : validate s with
  | ok u => rfl
  | err e => simp [hv] at h
  | panic m => simp [hv] at h

/-- every other door: `PointerBuf::parse`, `FromStr`, both `TryFrom`s, both `Deserialize`s, `from_static` -/
theorem doors_ok_valid (s t : Bytes) :
    (PointerBuf.parse s = .ok t → validPtr t = true) ∧
    (PointerBuf.fromStr s = .ok t → validPtr t = true) ∧
    (PointerBuf.tryFromStr s = .ok t → validPtr t = true) ∧
    (PointerBuf.tryFromString s = .ok t → validPtr t = true) ∧
    (Pointer.deserializeBorrowed s = .ok t → validPtr t = true) ∧
    (PointerBuf.deserialize s = .ok t → validPtr t = true) ∧
    (Pointer.fromStatic s = .ok t → validPtr t = true) := by
  obtain ⟨h1, h2, h3, h4, h5, h6, h7⟩ := C02.doors_agree s
  have key : ∀ u, Pointer.parse s = .ok u → validPtr u = true := fun u hu => parse_ok_valid s u hu
  refine ⟨?_, ?_, ?_, ?_, ?_, ?_, ?_⟩
  · intro h; rw [h4] at h
    cases hp : Pointer.parse s <;> simp [hp] at h
    subst h; exact key _ hp
  · intro h; rw [h2] at h; exact key _ h
  · intro h; rw [h1] at h; exact key _ h
  · intro h; rw [h3] at h; exact key _ h
  · intro h; rw [h5] at h
    cases hp : Pointer.parse s <;> simp [hp] at h
    subst h; exact key _ hp
  · intro h; rw [h6] at h
    cases hp : Pointer.parse s <;> simp [hp] at h
    subst h; exact key _ hp
  · intro h; rw [h7] at h
    cases hp : Pointer.parse s <;> simp [hp] at h
    subst h; exact key _ hp

/-- re-parsing the text of a valid pointer succeeds and gives back an equal value -/
theorem reparse_pointer (p : Bytes) (h : validPtr p = true) : Pointer.parse p = .ok p := by
  unfold Pointer.parse
  rw [(C02.validate_ok_iff p).mpr h]

theorem reparse_token (t : Bytes) (h : validTok t = true) : Token.fromEncoded t = .ok t := by
  obtain ⟨u, hu⟩ := (C03.fromEncoded_ok_iff t).mpr h
  rw [hu, C03.fromEncoded_verbatim t u hu]

theorem new_valid (s : Bytes) : validTok (Token.new s).bytes = true := by
  rw [C03.new_encoded]; exact C03.enc_valid s

theorem fromEncoded_ok_valid (e t : Bytes) (h : Token.fromEncoded e = .ok t) : validTok t = true := by
  rw [C03.fromEncoded_verbatim e t h]
  exact (C03.fromEncoded_ok_iff e).mp ⟨t, h⟩

/-- `Token::from(integer)`: digits with an optional leading `-` -/
theorem ofInt_valid (v : Int) : validTok (Token.ofInt v) = true := by
  have hd := C04.decimal_digits v.natAbs
  have h47 : 47 ∉ decimal v.natAbs := fun hm => by have := hd 47 hm; omega
  have h126 : 126 ∉ decimal v.natAbs := fun hm => by have := hd 126 hm; omega
  unfold Token.ofInt decimalInt
  split
  · refine validTok_iff.mpr ⟨?_, ?_⟩
    · exact noSlash_cons.mpr ⟨by decide, h47⟩
    · rw [tildesOk_cons_ne (by decide)]
      exact C04.tildesOk_of_no_tilde _ h126
  · exact validTok_iff.mpr ⟨h47, C04.tildesOk_of_no_tilde _ h126⟩

theorem fromTokens_valid (ts : List Bytes) (h : ∀ t ∈ ts, validTok t = true) :
    validPtr (fromTokens ts) = true := by
  rw [fromTokens_eq_ofToks]; exact validPtr_ofToks ts h

/-- `from_tokens` of arbitrary raw strings -/
theorem fromRaw_valid (L : List Bytes) : validPtr (fromTokens (L.map fun s => (Token.new s).bytes)) = true := by
  apply fromTokens_valid
  intro t ht
  obtain ⟨s, _, rfl⟩ := List.mem_map.mp ht
  exact new_valid s

theorem tokens_all_valid (p : Bytes) (h : validPtr p = true) : ∀ t ∈ tokens p, validTok t = true := by
  exact tokens_valid h

theorem front_valid (p t : Bytes) (h : validPtr p = true) (hf : front p = some t) : validTok t = true := by
  rw [C04.front_eq p h] at hf
  exact tokens_valid h t (List.mem_of_mem_head? (by simp [hf]))

theorem back_valid (p t : Bytes) (h : validPtr p = true) (hf : back p = some t) : validTok t = true := by
  rw [C04.back_eq p h] at hf
  exact tokens_valid h t (List.mem_of_getLast? hf)

theorem getToken_valid (p t : Bytes) (i : Nat) (h : validPtr p = true) (hf : getToken p i = some t) :
    validTok t = true := by
  unfold getToken at hf
  exact tokens_valid h t (List.mem_of_getElem? hf)

theorem components_valid (p : Bytes) (h : validPtr p = true) :
    ∀ c ∈ components p, ∀ t, c = .token t → validTok t = true := by
  intro c hc t hct
  subst hct
  simp only [components, List.mem_cons, List.mem_map] at hc
  rcases hc with hc | ⟨u, hu, he⟩
  · cases hc
  · cases he; exact tokens_valid h _ hu

theorem splitFront_valid (p t r : Bytes) (h : validPtr p = true) (hs : splitFront p = some (t, r)) :
    validTok t = true ∧ validPtr r = true := by
  rw [C12.splitFront_spec p h] at hs
  have hv := tokens_valid h
  cases htk : tokens p with
  | nil => simp [htk] at hs
  | cons u us =>
    rw [htk] at hs hv
    simp only [Option.some.injEq, Prod.mk.injEq] at hs
    obtain ⟨rfl, rfl⟩ := hs
    exact ⟨hv _ (by simp), validPtr_ofToks _ (fun w hw => hv w (by simp [hw]))⟩

theorem splitBack_valid (p f t : Bytes) (h : validPtr p = true) (hs : splitBack p = some (f, t)) :
    validPtr f = true ∧ validTok t = true := by
  rw [C12.splitBack_spec p h] at hs
  have hv := tokens_valid h
  cases hl : (tokens p).getLast? with
  | none => simp [hl] at hs
  | some u =>
    simp only [hl, Option.some.injEq, Prod.mk.injEq] at hs
    obtain ⟨rfl, rfl⟩ := hs
    exact ⟨validPtr_ofToks _ (fun w hw => hv w (List.dropLast_subset _ hw)),
      hv _ (List.mem_of_getLast? hl)⟩

theorem parent_valid (p f : Bytes) (h : validPtr p = true) (hs : parent p = some f) : validPtr f = true := by
  rw [C12.parent_spec p h] at hs
  split at hs
  · simp at hs
  · simp only [Option.some.injEq] at hs
    subst hs
    exact validPtr_ofToks _ (fun w hw => tokens_valid h w (List.dropLast_subset _ hw))

theorem splitAt_valid (p a b : Bytes) (k : Nat) (h : validPtr p = true) (hs : splitAt p k = some (a, b)) :
    validPtr a = true ∧ validPtr b = true := by
  obtain ⟨_, ha, hb, _⟩ := C12.splitAt_concat p a b k h hs
  exact ⟨ha, hb⟩

/-- every range form: the bytes of the returned span are a valid pointer -/
theorem getBounds_valid (p : Bytes) (lo hi : Bound) (sp : Span) (h : validPtr p = true)
    (hg : getBounds p lo hi = .ok (some sp)) : validPtr (slice p sp) = true := by
  rw [C12.getBounds_spec p lo hi h] at hg
  exact span_valid p _ sp h (fun a b hr => boundsSpec_bd _ lo hi a b hr) hg

theorem getRanges_valid (p : Bytes) (a b : Nat) (sp : Span) (h : validPtr p = true) :
    (getRange p a b = .ok (some sp) → validPtr (slice p sp) = true) ∧
    (getRangeFrom p a = .ok (some sp) → validPtr (slice p sp) = true) ∧
    (getRangeTo p b = .ok (some sp) → validPtr (slice p sp) = true) ∧
    (getRangeIncl p a b = .ok (some sp) → validPtr (slice p sp) = true) ∧
    (getRangeToIncl p b = .ok (some sp) → validPtr (slice p sp) = true) ∧
    (getRangeFull p = .ok (some sp) → validPtr (slice p sp) = true) := by
  refine ⟨?_, ?_, ?_, ?_, ?_, ?_⟩
  · intro hg; rw [C12.getRange_spec p a b h] at hg
    exact span_valid p _ sp h (fun x y hr => rangeSpec_bd _ _ _ x y hr) hg
  · intro hg; rw [C12.getRangeFrom_spec p a h] at hg
    exact span_valid p _ sp h (fun x y hr => rangeFromSpec_bd _ _ x y hr) hg
  · intro hg; rw [C12.getRangeTo_spec p b h] at hg
    exact span_valid p _ sp h (fun x y hr => rangeToSpec_bd _ _ x y hr) hg
  · intro hg; rw [C12.getRangeIncl_spec p a b h] at hg
    exact span_valid p _ sp h (fun x y hr => rangeInclSpec_bd _ _ _ x y hr) hg
  · intro hg; rw [C12.getRangeToIncl_spec p b h] at hg
    exact span_valid p _ sp h (fun x y hr => rangeToInclSpec_bd _ _ x y hr) hg
  · intro hg; rw [C12.getRangeFull_spec p h] at hg
    exact span_valid p _ sp h (fun x y hr => rangeFullSpec_bd _ x y hr) hg

theorem stripPrefix_valid (p q r : Bytes) (hp : validPtr p = true) (hq : validPtr q = true)
    (h : ptrStripPrefix p q = some r) : validPtr r = true := by
  exact ((C13.stripPrefix_iff p q r hp hq).mp h).1

theorem stripSuffix_valid (p q r : Bytes) (hp : validPtr p = true) (hq : validPtr q = true)
    (h : ptrStripSuffix p q = some r) : validPtr r = true := by
  exact ((C13.stripSuffix_iff p q r hp hq).mp h).1

theorem intersection_valid (p q : Bytes) (hp : validPtr p = true) (hq : validPtr q = true) :
    validPtr (intersection p q) = true := by
  exact (C13.intersection_prefix_both p q hp hq).2.2

theorem concat_valid (p q : Bytes) (hp : validPtr p = true) (hq : validPtr q = true) :
    validPtr (concat p q) = true := by
  exact (C04.concat_tokens p q hp hq).2

theorem withLeading_valid (p tok : Bytes) (hp : validPtr p = true) (ht : validTok tok = true) :
    validPtr (withLeadingToken p tok) = true := by
  exact (C04.withLeading_tokens p tok hp ht).2

theorem withTrailing_valid (p tok : Bytes) (hp : validPtr p = true) (ht : validTok tok = true) :
    validPtr (withTrailingToken p tok) = true := by
  exact (C04.withTrailing_tokens p tok hp ht).2

theorem ofToken_valid (t : Bytes) (ht : validTok t = true) : validPtr (ofToken t) = true := by
  exact (C04.ofToken_tokens t ht).2

theorem ofUsize_valid (n : Nat) : validPtr (ofUsize n) = true := by
  exact (C04.ofUsize_tokens n).2

/-- one mutation: what is left behind is valid, and so is every token handed back -/
theorem bufStep_valid (s : Bytes) (op : BufOp) (hs : validPtr s = true) (hop : C11.OpOK op) :
    validPtr (bufStep s op).1 = true ∧ ∀ t ∈ retTokens (bufStep s op).2, validTok t = true := by
  obtain ⟨_, h2, h3⟩ := C11.step_refines s op hs hop
  refine ⟨h3, ?_⟩
  rw [h2]
  exact retTokens_deque_valid (tokens s) op (tokens_valid hs)

/-- every finite history of the seven mutators from any reachable (= valid) value -/
theorem history_valid (s : Bytes) (ops : List BufOp) (hs : validPtr s = true)
    (hops : ∀ op ∈ ops, C11.OpOK op) :
    validPtr (C11.runBuf s ops).1 = true ∧
    ∀ r ∈ (C11.runBuf s ops).2, ∀ t ∈ retTokens r, validTok t = true := by
  induction ops generalizing s with
  | nil => simp [C11.runBuf, hs]
  | cons op ops ih =>
    have hop : C11.OpOK op := hops op (by simp)
    have hops' : ∀ o ∈ ops, C11.OpOK o := fun o ho => hops o (by simp [ho])
    obtain ⟨hb1, hb2⟩ := bufStep_valid s op hs hop
    obtain ⟨ih1, ih2⟩ := ih (bufStep s op).1 hb1 hops'
    simp only [C11.runBuf]
    refine ⟨ih1, ?_⟩
    intro r hr
    rcases List.mem_cons.mp hr with rfl | hr
    · exact hb2
    · exact ih2 r hr

example : validPtr [47, 126, 48, 47, 47, 195, 169] = true ∧ validTok [126, 49, 195, 169] = true := by
  constructor <;> decide
example : ptrStripPrefix [47,102,111,111,98,97,114] [47,102,111,111] = none := by decide  -- was Some("bar") before ee319eb

end Jp.C01
