import Jp.Props.C05
import Jp.Props.C06
import Jp.Lemmas.C07Helpers
/-
  Jp.Props.Depth — depth independence, the statement behind the harness law `law_deep` (C05, C06, C10): along a pointer of
  n tokens `0`, for EVERY n, assigning into a scalar materialises n nested one-element arrays and returns the scalar, and
  resolving the same pointer in the result reaches the assigned value at the location `0, 0, …, 0`. The model's walks are
  structural recursions over the token list, so there is no bound on n; that the crate's loops use constant stack is what
  `law_deep` observes on the real code (60 000 tokens on a 2 MiB thread).

  OBLIGATIONS
  expandSpec_zeros assignSpec_zeros walk_zeros assign_zeros resolve_zeros
-/
namespace Jp.Depth
open Jp Jp.Spec

/-- n nested one-element arrays around `v` -/
def nestArr : Nat → Val → Val
  | 0, v => v
  | n + 1, v => .arr [nestArr n v]

def zeros (n : Nat) : List Bytes := List.replicate n [48]

theorem expandSpec_zeros (n : Nat) (v : Val) : expandSpec (zeros n) v = nestArr n v := by
  induction n with
  | zero => rfl
  | succ n ih => simp [zeros, List.replicate_succ, expandSpec, nestArr] at *; exact ih

theorem assignSpec_zeros (a : Bytes) (n : Nat) (v : Val) :
    assignSpec (.scalar a) (zeros n) v = .ok (nestArr n v, some (.scalar a)) := by
  cases n with
  | zero => rfl
  | succ n =>
    have := expandSpec_zeros (n + 1) v
    simp only [zeros, List.replicate_succ] at this ⊢
    simp [assignSpec, this]

theorem walk_zeros (n : Nat) (v : Val) : walk (nestArr n v) (zeros n) = .ok (List.replicate n (.idx 0), v) := by
  induction n with
  | zero => rfl
  | succ n ih =>
    simp only [zeros, List.replicate_succ, nestArr, walk, C07.pidx_zero] at ih ⊢
    simp [ih]

theorem zeros_valid (n : Nat) : ∀ t ∈ zeros n, validTok t = true := by
  intro t ht
  have : t = [48] := by simpa [zeros] using (List.eq_of_mem_replicate ht)
  subst this; decide

/-- text level, every depth: `assign` of `/0/0/…/0` (n tokens) into a scalar -/
theorem assign_zeros (a : Bytes) (n : Nat) (v : Val) :
    assign (.scalar a) (ofToks (zeros n)) v = (nestArr n v, .ok (some (.scalar a))) := by
  have hv := validPtr_ofToks (zeros n) (zeros_valid n)
  have ht : tokens (ofToks (zeros n)) = zeros n := tokens_ofToks _ (fun t ht => validTok_noSlash (zeros_valid n t ht))
  have h := C06.assign_eq_spec (.scalar a) v (ofToks (zeros n)) hv
  rw [ht, assignSpec_zeros] at h
  exact h

/-- … and `resolve` of the same pointer in the result finds the value, at location `0, …, 0` -/
theorem resolve_zeros (n : Nat) (v : Val) :
    C05.absR (resolve (nestArr n v) (ofToks (zeros n))) = .ok (List.replicate n (.idx 0), v) := by
  have hv := validPtr_ofToks (zeros n) (zeros_valid n)
  have ht : tokens (ofToks (zeros n)) = zeros n := tokens_ofToks _ (fun t ht => validTok_noSlash (zeros_valid n t ht))
  rw [C05.resolve_eq_walk _ _ hv, ht, walk_zeros]

example : nestArr 3 (.scalar [55]) = .arr [.arr [.arr [.scalar [55]]]] := rfl

end Jp.Depth
