import Jp.Lemmas.Text
/-
  C02 — Parsing accepts exactly the RFC 6901 grammar, identically through every door.
  C14 (offsets) is proved here too, as `parse_eq_spec`: the scanner's verdict *and error* equal the
  declarative `parseSpec` (first `~` not followed by `0`/`1`, nearest `/` at or before it).

  Model: `validate`, `validateBytes`, `validateLoop` with state `(i, ptr_offset, tok_offset)`;
  the eight doors of `src/pointer.rs`.
-/
namespace Jp.C02
open Jp Jp.Spec

-- OBLIGATIONS
-- validate_ok_iff validate_no_panic parse_eq_spec parse_ok_text doors_agree from_static_panics_iff
-- deserialize_refuses

/-! ### helper lemmas -/

theorem fbt_ne (b : Nat) (r : Bytes) (h : b ≠ 126) :
    firstBadTilde (b :: r) = (firstBadTilde r).map (· + 1) := by
  rw [firstBadTilde.eq_def]; simp [h]

theorem fbt_good (c : Nat) (r : Bytes) (h : c = 48 ∨ c = 49) :
    firstBadTilde (126 :: c :: r) = (firstBadTilde r).map (· + 2) := by
  rw [firstBadTilde.eq_def]; simp [h]

theorem fbt_bad (c : Nat) (r : Bytes) (h : ¬ (c = 48 ∨ c = 49)) :
    firstBadTilde (126 :: c :: r) = some 0 := by
  rw [firstBadTilde.eq_def]; simp [h]

theorem fbt_end : firstBadTilde [126] = some 0 := by decide

theorem tildesOk_ne (b : Nat) (r : Bytes) (h : b ≠ 126) : tildesOk (b :: r) = tildesOk r := by
  rw [tildesOk.eq_def]; simp [h]

/-- no offending `~` iff every `~` is followed by `0`/`1` -/
theorem fbt_none_iff (r : Bytes) : firstBadTilde r = none ↔ tildesOk r = true := by
  fun_induction firstBadTilde r <;> simp_all [tildesOk, tildesOk_ne]

/-- the loop result in suffix-local quantities: the error offsets are those of the first bad `~`
    in the remaining input and of the last `/` of the remaining input at or before it (falling back
    to the incoming `ptr_offset`/`tok_offset` when there is none). -/
theorem loop_aux (r : Bytes) (i po to : Nat) :
    validateLoop r i po to =
      match firstBadTilde r with
      | none => .ok ()
      | some c =>
        match rfind 47 (r.take (c + 1)) with
        | some j => .err (.invalidEncoding (i + j) (c - j) .tilde)
        | none => .err (.invalidEncoding po (to + c) .tilde) := by
  fun_induction validateLoop r i po to
  case case1 => simp [firstBadTilde]
  case case2 r i po to ih =>
    rw [ih, fbt_ne 47 r (by decide)]
    cases h : firstBadTilde r with
    | none => simp
    | some c =>
      simp only [Option.map_some, List.take_succ_cons, rfind]
      cases h2 : rfind 47 (List.take (c + 1) r) with
      | none => simp; omega
      | some j => simp; omega
  case case3 i po to _ => simp [fbt_end, rfind]
  case case4 i po to c r' hc _ =>
    have : ¬ (c = 48 ∨ c = 49) := by omega
    simp [fbt_bad c r' this, rfind]
  case case5 i po to c r' hc _ ih =>
    have hc' : c = 48 ∨ c = 49 := by omega
    have hc47 : c ≠ 47 := by omega
    rw [ih, fbt_good c r' hc']
    cases h : firstBadTilde r' with
    | none => simp
    | some d =>
      simp only [Option.map_some, List.take_succ_cons, rfind]
      cases h2 : rfind 47 (List.take (d + 1) r') with
      | none => simp [hc47]; omega
      | some j => simp; omega
  case case6 b r i po to hb hb2 ih =>
    rw [ih, fbt_ne b r hb2]
    cases h : firstBadTilde r with
    | none => simp
    | some d =>
      simp only [Option.map_some, List.take_succ_cons, rfind]
      cases h2 : rfind 47 (List.take (d + 1) r) with
      | none => simp [hb]; omega
      | some j => simp; omega

theorem loop_no_panic (r : Bytes) (i po to : Nat) (m : String) :
    validateLoop r i po to ≠ .panic m := by
  rw [loop_aux]
  cases firstBadTilde r with
  | none => simp
  | some c => simp only []; split <;> simp

/-- `validate` against the declarative verdict (without the text) -/
theorem validate_eq_spec (s : Bytes) :
    validate s = match parseSpec s with
      | .ok _ => .ok () | .err e => .err e | .panic m => .panic m := by
  cases s with
  | nil => simp [validate, parseSpec]
  | cons b r =>
    by_cases hb : b = 47
    · subst hb
      simp only [validate, validateBytes, parseSpec, lastSlashAtOrBefore, loop_aux]
      cases firstBadTilde (47 :: r) with
      | none => simp
      | some c => simp; cases h2 : rfind 47 (47 :: List.take c r) <;> simp
    · simp [validate, validateBytes, parseSpec, hb]

theorem parseSpec_ok_text (s t : Bytes) (h : parseSpec s = .ok t) : t = s := by
  unfold parseSpec at h
  split at h
  · simp_all
  · split at h
    · simp at h
    · split at h
      · simp_all
      · split at h <;> simp at h

theorem parseSpec_no_panic (s : Bytes) (m : String) : parseSpec s ≠ .panic m := by
  unfold parseSpec
  split
  · simp
  · split
    · simp
    · split
      · simp
      · split <;> simp

theorem parseSpec_ok_iff (s : Bytes) : (∃ t, parseSpec s = .ok t) ↔ validPtr s = true := by
  cases s with
  | nil => simp [parseSpec, validPtr]
  | cons b r =>
    by_cases hb : b = 47
    · subst hb
      simp only [parseSpec, validPtr, lastSlashAtOrBefore]
      cases h : firstBadTilde (47 :: r) with
      | none => simp [(fbt_none_iff _).mp h]
      | some c =>
        have : tildesOk (47 :: r) ≠ true := fun h' => by
          rw [(fbt_none_iff _).mpr h'] at h; simp at h
        simp [this]; cases h2 : rfind 47 (47 :: List.take c r) <;> simp
    · simp [parseSpec, validPtr, hb]

/-- accepted iff empty, or starts with `/` and every `~` is followed by `0` or `1` -/
theorem validate_ok_iff (s : Bytes) : validate s = .ok () ↔ validPtr s = true := by
  rw [← parseSpec_ok_iff, validate_eq_spec]
  cases h : parseSpec s <;> simp

theorem validate_no_panic (s : Bytes) (m : String) : validate s ≠ .panic m := by
  rw [validate_eq_spec]
  cases h : parseSpec s with
  | ok t => simp
  | err e => simp
  | panic m' => exact absurd h (parseSpec_no_panic s m')

/-- decision, text and error payload of `Pointer::parse` coincide with the declarative verdict -/
theorem parse_eq_spec (s : Bytes) : Pointer.parse s = parseSpec s := by
  unfold Pointer.parse
  rw [validate_eq_spec]
  cases h : parseSpec s with
  | ok t => simp [parseSpec_ok_text s t h]
  | err e => simp
  | panic m => simp

/-- on success the pointer's text is the input unchanged -/
theorem parse_ok_text (s t : Bytes) (h : Pointer.parse s = .ok t) : t = s := by
  rw [parse_eq_spec] at h
  exact parseSpec_ok_text s t h

/-- all doors take the decision of `Pointer::parse` and, where they return one, the same error -/
theorem doors_agree (s : Bytes) :
    PointerBuf.tryFromStr s = Pointer.parse s ∧
    PointerBuf.fromStr s = Pointer.parse s ∧
    PointerBuf.tryFromString s = Pointer.parse s ∧
    (PointerBuf.parse s = match Pointer.parse s with
      | .ok t => .ok t | .err e => .err (e, s) | .panic m => .panic m) ∧
    (Pointer.deserializeBorrowed s = match Pointer.parse s with
      | .ok t => .ok t | .err _ => .err .de | .panic m => .panic m) ∧
    (PointerBuf.deserialize s = match Pointer.parse s with
      | .ok t => .ok t | .err _ => .err .de | .panic m => .panic m) ∧
    (Pointer.fromStatic s = match Pointer.parse s with
      | .ok t => .ok t | _ => .panic "invalid json pointer") := by
  simp only [PointerBuf.tryFromStr, PointerBuf.fromStr, PointerBuf.tryFromString, PointerBuf.parse,
    Pointer.deserializeBorrowed, PointerBuf.deserialize, Pointer.fromStatic, Pointer.parse]
  cases validate s <;> simp

/-- `from_static` panics exactly where the others return an error -/
theorem from_static_panics_iff (s : Bytes) :
    (∃ m, Pointer.fromStatic s = .panic m) ↔ validPtr s = false := by
  have hv := validate_ok_iff s
  unfold Pointer.fromStatic
  cases h : validate s with
  | ok u =>
    have : validPtr s = true := hv.mp (by rw [h])
    simp [this]
  | err e =>
    have : validPtr s ≠ true := fun h' => by rw [hv.mpr h'] at h; simp at h
    simp [this]
  | panic m =>
    have : validPtr s ≠ true := fun h' => by rw [hv.mpr h'] at h; simp at h
    simp [this]

/-- C18 facet: strings that are not valid pointers are refused by both `Deserialize` impls -/
theorem deserialize_refuses (s : Bytes) (h : validPtr s = false) :
    PointerBuf.deserialize s = .err .de ∧ Pointer.deserializeBorrowed s = .err .de := by
  have hv := validate_ok_iff s
  have hp := validate_no_panic s
  simp only [PointerBuf.deserialize, PointerBuf.tryFromString, Pointer.deserializeBorrowed,
    Pointer.parse]
  cases hval : validate s with
  | ok u =>
    have : validPtr s = true := hv.mp (by rw [hval])
    rw [this] at h; simp at h
  | err e => simp
  | panic m => exact absurd hval (hp m)

example : validPtr [47, 126, 48, 47, 195, 169] = true := by decide
example : Pointer.parse [47, 126] = .err (.invalidEncoding 0 1 .tilde) := by decide
example : Pointer.parse [47, 97, 47, 98, 126, 50] = .err (.invalidEncoding 2 2 .tilde) := by decide
example : Pointer.parse [97] = .err .noLeadingSlash := by decide

end Jp.C02
