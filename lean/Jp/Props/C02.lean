import Jp.Lemmas.Text
import Jp.Lemmas.C02Helpers
/-
  C02 — Parsing accepts exactly the RFC 6901 grammar, identically through every door.
  C14 (offsets) is proved here too, as `parse_eq_spec`: the scanner's verdict *and error* equal the
  declarative `parseSpec` (first `~` not followed by `0`/`1`, nearest `/` at or before it).

  Model: `validate`, `validateBytes`, `validateLoop` with state `(i, ptr_offset, tok_offset)`;
  the eight doors of `src/pointer.rs`.
-/
namespace Jp.C02
open Jp Jp.Spec

-- OBLIGATIONS
-- validate_ok_iff validate_no_panic parse_eq_spec parse_ok_text doors_agree from_static_panics_iff
-- deserialize_refuses

/-- accepted iff empty, or starts with `/` and every `~` is followed by `0` or `1` -/
theorem validate_ok_iff (s : Bytes) : validate s = .ok () ↔ validPtr s = true := by
  rw [← parseSpec_ok_iff, validate_eq_spec]
  cases h : parseSpec s <;> simp

theorem validate_no_panic (s : Bytes) (m : String) : validate s ≠ .panic m := by
  rw [validate_eq_spec]
  cases h : parseSpec s with
  | ok t => simp
  | err e => simp
  | panic m' => exact absurd h (parseSpec_no_panic s m')

/-- decision, text and error payload of `Pointer::parse` coincide with the declarative verdict -/
theorem parse_eq_spec (s : Bytes) : Pointer.parse s = parseSpec s := by
  unfold Pointer.parse
  rw [validate_eq_spec]
  cases h : parseSpec s with
  | ok t => simp [parseSpec_ok_text s t h]
  | err e => simp
  | panic m => simp

/-- on success the pointer's text is the input unchanged -/
theorem parse_ok_text (s t : Bytes) (h : Pointer.parse s = .ok t) : t = s := by
  rw [parse_eq_spec] at h
  exact parseSpec_ok_text s t h

/-- all doors take the decision of `Pointer::parse` and, where they return one, the same error -/
theorem doors_agree (s : Bytes) :
    PointerBuf.tryFromStr s = Pointer.parse s ∧
    PointerBuf.fromStr s = Pointer.parse s ∧
    PointerBuf.tryFromString s = Pointer.parse s ∧
    (PointerBuf.parse s = match Pointer.parse s with
      | .ok t => .ok t | .err e => .err (e, s) | .panic m => .panic m) ∧
    (Pointer.deserializeBorrowed s = match Pointer.parse s with
      | .ok t => .ok t | .err _ => .err .de | .panic m => .panic m) ∧
    (PointerBuf.deserialize s = match Pointer.parse s with
      | .ok t => .ok t | .err _ => .err .de | .panic m => .panic m) ∧
    (Pointer.fromStatic s = match Pointer.parse s with
      | .ok t => .ok t | _ => .panic "invalid json pointer") := by
  simp only [PointerBuf.tryFromStr, PointerBuf.fromStr, PointerBuf.tryFromString, PointerBuf.parse,
    Pointer.deserializeBorrowed, PointerBuf.deserialize, Pointer.fromStatic, Pointer.parse]
  cases validate s <;> simp

/-- `from_static` panics exactly where the others return an error -/
theorem from_static_panics_iff (s : Bytes) :
    (∃ m, Pointer.fromStatic s = .panic m) ↔ validPtr s = false := by
  have hv := validate_ok_iff s
  unfold Pointer.fromStatic
  cases h : validate s with
  | ok u =>
    have : validPtr s = true := hv.mp (by rw [h])
    simp [this]
  | err e =>
    have : validPtr s ≠ true := fun h' => by rw [hv.mpr h'] at h; simp at h
    simp [this]
  | panic m =>
    have : validPtr s ≠ true := fun h' => by rw [hv.mpr h'] at h; simp at h
    simp [this]

/-- C18 facet: strings that are not valid pointers are refused by both `Deserialize` impls -/
theorem deserialize_refuses (s : Bytes) (h : validPtr s = false) :
    PointerBuf.deserialize s = .err .de ∧ Pointer.deserializeBorrowed s = .err .de := by
  have hv := validate_ok_iff s
  have hp := validate_no_panic s
  simp only [PointerBuf.deserialize, PointerBuf.tryFromString, Pointer.deserializeBorrowed,
    Pointer.parse]
  cases hval : validate s with
  | ok u =>
    have : validPtr s = true := hv.mp (by rw [hval])
    rw [this] at h; simp at h
  | err e => simp
  | panic m => exact absurd hval (hp m)

example : validPtr [47, 126, 48, 47, 195, 169] = true := by decide
example : Pointer.parse [47, 126] = .err (.invalidEncoding 0 1 .tilde) := by decide
example : Pointer.parse [47, 97, 47, 98, 126, 50] = .err (.invalidEncoding 2 2 .tilde) := by decide
example : Pointer.parse [97] = .err .noLeadingSlash := by decide

end Jp.C02
