import Jp.Props.C05
import Jp.Props.C06
import Jp.Props.C08
import Jp.Props.C09
import Jp.Lemmas.C10Helpers
/-
  C10 — A document under any sequence of assigns and deletes behaves like a tree store.
  The reference store is `Val` under `assignSpec`, `deleteSpec` (`walk` + `removeAt`), `writeSpec`
  (`walk` + `setAt`) and `walk`. The history theorem lifts the single-step refinements of C05, C06,
  C08, C09 to every finite history by induction over the operation list.
-/
namespace Jp.C10
open Jp Jp.Spec

-- inductive Op … : see Jp/Lemmas/C10Helpers.lean
--   inductive Op where
--     | assign (p : Bytes) (v : Val)
--     | delete (p : Bytes)
--     | resolve (p : Bytes)
--     | write (p : Bytes) (v : Val)

-- inductive Ret … : see Jp/Lemmas/C10Helpers.lean
-- what a call returns, as far as a caller can observe it at the level of the reference store
--   inductive Ret where
--     | assigned (r : Res WalkKind (Option Val))
--     | deleted (r : Option Val)
--     | resolved (r : Res (Nat × WalkKind) (Loc × Val))
--     | written (ok : Bool)
--     | panicked

-- def Op.ptr … : see Jp/Lemmas/C10Helpers.lean
--   def Op.ptr : Op → Bytes
--     | .assign p _ | .delete p | .resolve p | .write p _ => p

/-- one call on the model (the code) -/
def modelStep (b : Backend) (D : Val) : Op → Val × Ret
  | .assign p v =>
    match assign D p v with
    | (D', .ok r) => (D', .assigned (.ok r))
    | (D', .err e) => (D', .assigned (.err (C06.kindOfA e)))
    | (D', .panic _) => (D', .panicked)
  | .delete p =>
    match delete b D p with
    | (D', .ok r) => (D', .deleted r)
    | (D', _) => (D', .panicked)
  | .resolve p => (D, .resolved (C05.absR (resolve D p)))
  | .write p v =>
    match writeThrough D p v with
    | (D', .ok _) => (D', .written true)
    | (D', .err _) => (D', .written false)
    | (D', .panic _) => (D', .panicked)

-- def specStep … : see Jp/Lemmas/C10Helpers.lean
-- the same call on the reference tree store
--   def specStep (b : Backend) (D : Val) : Op → Val × Ret
--     | .assign p v =>
--       match assignSpec D (tokens p) v with
--       | .ok (D', r) => (D', .assigned (.ok r))
--       | .err k => (D, .assigned (.err k))
--       | .panic _ => (D, .panicked)
--     | .delete p => let (D', r) := deleteSpec b D (tokens p); (D', .deleted r)
--     | .resolve p => (D, .resolved (walk D (tokens p)))
--     | .write p v => let (D', ok) := writeSpec D (tokens p) v; (D', .written ok)

-- def run … : see Jp/Lemmas/C10Helpers.lean
--   def run (step : Val → Op → Val × Ret) (D : Val) : List Op → List (Val × Ret)
--     | [] => []
--     | op :: ops => let (D', r) := step D op; (D', r) :: run step D' ops

-- OBLIGATIONS
-- step_refines history_refines no_step_panics nodes_addressable_after wf_preserved

/-- single-step refinement for the four operations -/
theorem step_refines (b : Backend) (D : Val) (op : Op) (hp : validPtr op.ptr = true) :
    modelStep b D op = specStep b D op := by
  cases op with
  | assign p v =>
    have h := C06.assign_eq_spec D v p hp
    simp only [modelStep, specStep]
    cases hs : assignSpec D (tokens p) v with
    | ok x => obtain ⟨D', r⟩ := x; simp only [hs] at h; simp [h]
    | err k => simp only [hs] at h; obtain ⟨e, he, hk⟩ := h; simp [he, hk]
    | panic m => simp [hs] at h
  | delete p =>
    simp only [modelStep, specStep, C08.delete_eq_spec b D p hp]
  | resolve p =>
    simp only [modelStep, specStep, C05.resolve_eq_walk D p hp]
  | write p v =>
    have h := C05.resolve_eq_walk D p hp
    have hn := C05.resolve_no_panic D p hp
    simp only [modelStep, specStep, writeThrough, writeSpec, C09.resolveMut_eq_resolve]
    cases hr : resolve D p with
    | ok x => obtain ⟨l, n⟩ := x; simp only [hr, C05.absR] at h; simp [← h]
    | err e => simp only [hr, C05.absR] at h; simp [← h]
    | panic m => exact absurd hr (hn m)

/-- every finite history: every intermediate document and every returned value agree -/
theorem history_refines (b : Backend) (D : Val) (ops : List Op)
    (hops : ∀ op ∈ ops, validPtr op.ptr = true) :
    run (modelStep b) D ops = run (specStep b) D ops :=
  run_congr _ _ (fun op => validPtr op.ptr = true) (fun D op h => step_refines b D op h) D ops hops

/-- no sequence of calls panics -/
theorem no_step_panics (b : Backend) (D : Val) (ops : List Op)
    (hops : ∀ op ∈ ops, validPtr op.ptr = true) :
    ∀ x ∈ run (modelStep b) D ops, x.2 ≠ Ret.panicked := by
  induction ops generalizing D with
  | nil => simp [run]
  | cons op ops ih =>
    intro x hx
    simp only [run, List.mem_cons] at hx
    rcases hx with hx | hx
    · subst hx
      rw [step_refines b D op (hops op (by simp))]
      exact specStep_ne_panicked b D op (hops op (by simp))
    · exact ih _ (fun o ho => hops o (by simp [ho])) x hx

/-- in every reached document each node is resolvable by the pointer spelled from its path -/
theorem nodes_addressable_after (b : Backend) (D : Val) (ops : List Op)
    (hops : ∀ op ∈ ops, validPtr op.ptr = true) :
    ∀ x ∈ run (modelStep b) D ops, ∀ path n, C05.PathFits path → x.1.at path = some n →
      resolve x.1 (fromTokens (path.map C05.spell)) = .ok (path, n) := by
  have _ := hops
  intro x _ path n hfit h
  exact (C05.every_node_addressable x.1 path n hfit h).2

/-- well-formedness (unique keys in every object) is preserved by every operation, provided the
    assigned / written values are well formed -/
theorem wf_preserved (b : Backend) (D : Val) (op : Op) (hD : WF D = true)
    (hv : ∀ p v, (op = .assign p v ∨ op = .write p v) → WF v = true)
    (hp : validPtr op.ptr = true) : WF (modelStep b D op).1 = true := by
  rw [step_refines b D op hp]
  exact wf_specStep b D op hD hv

example : (run (specStep .json) (.obj []) [.assign [47, 97] (.arr []), .assign [47, 97, 47, 45] (.scalar [116]),
    .delete [47, 97, 47, 48]]).map (·.1) =
    [.obj [([97], .arr [])], .obj [([97], .arr [.scalar [116]])], .obj [([97], .arr [])]] := by rfl

end Jp.C10
