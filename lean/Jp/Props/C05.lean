import Jp.Lemmas.Bridge
import Jp.Props.C03
import Jp.Props.C04
import Jp.Lemmas.C05Helpers
/-
  C05 — Resolve is RFC 6901 evaluation: every node is addressable, by reference.
  Model: `resolve` (the `split_front` loop with position/offset). Spec: `walk` over the token list.
  A returned reference is the *location* of the node inside the document.
-/
namespace Jp.C05
open Jp Jp.Spec

-- def kindOf … : see Jp/Lemmas/C05Helpers.lean
--   def kindOf : ResolveErr → WalkKind
--     | .failedToParseIndex .. => .parse
--     | .outOfBounds .. => .oob
--     | .notFound .. => .notFound
--     | .unreachable .. => .unreachable

/-- forget offsets and payloads (those belong to C15): outcome, location, first failing step, kind -/
def absR : Res ResolveErr (Loc × Val) → Res (Nat × WalkKind) (Loc × Val)
  | .ok x => .ok x
  | .err e => .err (e.position, kindOf e)
  | .panic m => .panic m

-- def spell … : see Jp/Lemmas/C05Helpers.lean
-- the token spelling of a location step: a key through `Token::new`, an index in decimal
--   def spell : Step → Bytes
--     | .key k => (Token.new k).bytes
--     | .idx i => decimal i

-- def PathFits … : see Jp/Lemmas/C05Helpers.lean
--   def PathFits (l : Loc) : Prop := ∀ i, Step.idx i ∈ l → i ≤ usizeMax

-- OBLIGATIONS
-- resolve_eq_walk resolve_returns_node walk_returns_node every_node_addressable pointer_of_node_unique
-- resolve_no_panic walk_error_kinds

/-- success, location and the first failing step with its kind are those of RFC 6901 evaluation -/
theorem resolve_eq_walk (D : Val) (p : Bytes) (hp : validPtr p = true) :
    absR (resolve D p) = walk D (tokens p) := by
  obtain ⟨ts, htok, hv, hr⟩ := resolve_eq_resolveT hp D
  rw [htok, hr]
  have := resolveT_walk ts hv D 0 0 []
  cases hw : walk D ts with
  | ok r =>
    obtain ⟨l, n⟩ := r
    simp only [hw] at this
    simp [this, absR]
  | err r =>
    obtain ⟨k, kind⟩ := r
    simp only [hw] at this
    obtain ⟨e, h1, h2, h3⟩ := this
    simp [h1, absR, h2, h3]
  | panic m => simp [hw] at this

/-- the result is the very node at the returned location inside `D`, not a copy -/
theorem resolve_returns_node (D : Val) (p : Bytes) (l : Loc) (n : Val) (hp : validPtr p = true)
    (h : resolve D p = .ok (l, n)) : D.at l = some n := by
  obtain ⟨ts, _, hv, hr⟩ := resolve_eq_resolveT hp D
  rw [hr] at h
  exact walk_at D ts l n (resolveT_ok_walk hv h)

theorem walk_returns_node (D : Val) (ts : List Bytes) (l : Loc) (n : Val)
    (h : walk D ts = .ok (l, n)) : D.at l = some n := by
  exact walk_at D ts l n h

/-- for every node of every document the pointer built from its path resolves to that node -/
theorem every_node_addressable (D : Val) (path : Loc) (n : Val) (hfit : PathFits path)
    (h : D.at path = some n) :
    validPtr (fromTokens (path.map spell)) = true ∧
    resolve D (fromTokens (path.map spell)) = .ok (path, n) := by
  have hv : ∀ t ∈ path.map spell, validTok t = true := by
    intro t ht
    obtain ⟨s, _, rfl⟩ := List.mem_map.mp ht
    exact spell_valid s
  have hns : ∀ t ∈ path.map spell, noSlash t := fun t ht => validTok_noSlash (hv t ht)
  rw [fromTokens_eq_ofToks]
  refine ⟨validPtr_ofToks _ hv, ?_⟩
  unfold resolve
  rw [resolveLoop_ofToks _ hns]
  have := resolveT_walk (path.map spell) hv D 0 0 []
  rw [walk_spell D path n hfit h] at this
  simpa using this

/-- and nothing else resolves there: the pointer of a node is unique -/
theorem pointer_of_node_unique (D : Val) (p : Bytes) (l : Loc) (n : Val) (hp : validPtr p = true)
    (h : resolve D p = .ok (l, n)) : tokens p = l.map spell := by
  obtain ⟨ts, htok, hv, hr⟩ := resolve_eq_resolveT hp D
  rw [hr] at h
  rw [htok]
  exact walk_unique D ts hv l n (resolveT_ok_walk hv h)

theorem resolve_no_panic (D : Val) (p : Bytes) (hp : validPtr p = true) (m : String) :
    resolve D p ≠ .panic m := by
  obtain ⟨ts, _, hv, hr⟩ := resolve_eq_resolveT hp D
  rw [hr]
  intro hpanic
  have := resolveT_walk ts hv D 0 0 []
  cases hw : walk D ts with
  | ok r =>
    obtain ⟨l, n⟩ := r
    simp only [hw] at this
    rw [hpanic] at this; cases this
  | err r =>
    obtain ⟨k, kind⟩ := r
    simp only [hw] at this
    obtain ⟨e, h1, _⟩ := this
    rw [hpanic] at h1; cases h1
  | panic m' => simp [hw] at this

/-- the error kinds, spelled out for one failing step on top of a resolvable prefix -/
theorem walk_error_kinds (D : Val) (ts : List Bytes) (t : Bytes) (l : Loc) (n : Val)
    (h : walk D ts = .ok (l, n)) :
    (∀ a, n = .scalar a → walk D (ts ++ [t]) = .err (ts.length, .unreachable)) ∧
    (∀ kvs, n = .obj kvs → lookup (dec t) kvs = none → walk D (ts ++ [t]) = .err (ts.length, .notFound)) ∧
    (∀ xs, n = .arr xs → pidx t = .bad → walk D (ts ++ [t]) = .err (ts.length, .parse)) ∧
    (∀ xs, n = .arr xs → pidx t = .next → walk D (ts ++ [t]) = .err (ts.length, .oob)) ∧
    (∀ xs i, n = .arr xs → pidx t = .num i → xs.length ≤ i → walk D (ts ++ [t]) = .err (ts.length, .oob)) := by
  have hA := walk_append D ts [t] l n h
  refine ⟨?_, ?_, ?_, ?_, ?_⟩
  · rintro a rfl
    simpa [walk] using hA
  · rintro kvs rfl hl
    simpa [walk, hl] using hA
  · rintro xs rfl hp
    simpa [walk, hp] using hA
  · rintro xs rfl hp
    simpa [walk, hp] using hA
  · rintro xs i rfl hp hlen
    have : xs[i]? = none := by simp; omega
    simpa [walk, hp, this] using hA

example : walk (.obj [([126], .arr [.scalar [116]])]) [[126, 48], [48]] = .ok ([.key [126], .idx 0], .scalar [116]) := by
  rfl
example : walk (.arr [.scalar [116]]) [[48, 48]] = .err (0, .parse) := by rfl
example : walk (.arr [.scalar [116]]) [[45]] = .err (0, .oob) := by rfl

end Jp.C05
